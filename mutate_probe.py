#!/usr/bin/env python3
"""mutate_probe.py <Cnn> <n> [seed]: apply n single-token mutations inside the code ranges the property is anchored in (properties.jsonl), one at a
time, run the property's quick check on each, undo; report which were caught. Mutants are NOT confirmed against the library's test suite (many of
them would be caught there, some are equivalent): this is a probe for blind spots of the check, its output is a worklist, not evidence.
/repo must be clean; nothing is committed."""
import json, os, re, random, subprocess, sys
pid, n = sys.argv[1], int(sys.argv[2])
rng = random.Random(int(sys.argv[3]) if len(sys.argv) > 3 else 7)
props = {json.loads(l)["id"]: json.loads(l) for l in open("/verif/properties.jsonl")}
anch = props[pid]["anchors"]
ranges = []
for m in anch.get("mechanism", []) + anch.get("state", []):
    for mm in re.finditer(r"(src/[\w./-]+):(\d+)(?:-(\d+))?", m.get("where", "")):
        ranges.append((mm.group(1), int(mm.group(2)), int(mm.group(3) or mm.group(2))))
if os.environ.get("PROBE_RANGES"):        # e.g. PROBE_RANGES="src/canonicalize.rs:754-1200": probe one mechanism instead of all the anchors
    ranges = [(mm.group(1), int(mm.group(2)), int(mm.group(3) or mm.group(2))) for mm in re.finditer(r"(src/[\w./-]+):(\d+)(?:-(\d+))?", os.environ["PROBE_RANGES"])]
MUT = [(r"==", "!="), (r"!=", "=="), (r"&&", "||"), (r"\|\|", "&&"), (r"<=", "<"), (r">=", ">"), (r"(?<![<>=!-])<(?![<=])", "<="), (r"(?<![<>=!-])>(?![>=])", ">="),
       (r"\+ 1\b", "+ 0"), (r"- 1\b", "- 0"), (r"\btrue\b", "false"), (r"\bfalse\b", "true"), (r"\.is_empty\(\)", ".len() > 1"), (r"\bif !", "if "), (r"\.is_some\(\)", ".is_none()"),
       (r"\.is_none\(\)", ".is_some()"), (r"\b0\b", "1"), (r"\b1\b", "2"), (r"\b3\b", "2")]
cands = []
for f, a, b in ranges:
    path = os.path.join("/repo", f)
    if not os.path.exists(path):
        continue
    lines = open(path, encoding="utf-8").read().split("\n")
    for ln in range(max(1, a - 3), min(len(lines), b + 12) + 1):     # the pinned line numbers have drifted a little
        code = lines[ln - 1]
        if code.strip().startswith("//") or "debug!" in code or "#[" in code or "assert" in code:
            continue
        code_part = code.split("//")[0]
        for pat, rep in MUT:
            for m in re.finditer(pat, code_part):
                if '"' in code_part[:m.start()] and code_part[:m.start()].count('"') % 2 == 1:
                    continue        # inside a string literal
                cands.append((f, ln, m.start(), m.end(), rep, code.strip()[:110]))
rng.shuffle(cands)
assert subprocess.run(["git", "-C", "/repo", "status", "--short", "--untracked-files=no"], capture_output=True, text=True).stdout.strip() == "", "/repo not clean"
done = 0
results = []
for f, ln, s, e, rep, txt in cands:
    if done >= n:
        break
    path = os.path.join("/repo", f)
    lines = open(path, encoding="utf-8").read().split("\n")
    orig = lines[ln - 1]
    lines[ln - 1] = orig[:s] + rep + orig[e:]
    open(path, "w", encoding="utf-8").write("\n".join(lines))
    try:
        b = subprocess.run(["python3", "-c", "import sys;sys.path.insert(0,'/verif/lib');import core;ok,t,o=core.build_harness();sys.exit(0 if ok else 1)"], capture_output=True, text=True)
        if b.returncode != 0:
            continue        # does not compile: not a mutant
        p = subprocess.run(["./check", pid, "--tier", "quick"], cwd="/verif", capture_output=True, text=True)
        out = p.stdout + p.stderr
        vio = [l for l in out.splitlines() if l.startswith("VIOLATION")]
        first = next((l[:200] for l in out.splitlines() if l.startswith("[check]    ")), "")
        results.append({"file": f, "line": ln, "from": orig[s:e], "to": rep, "text": txt, "exit": p.returncode, "violations": len(vio), "first": first})
        print(("CAUGHT " if p.returncode == 1 and vio else "MISSED ") + f"{f}:{ln} '{orig[s:e]}' -> '{rep}' | {txt}", flush=True)
        done += 1
    finally:
        subprocess.run(["git", "-C", "/repo", "checkout", "--", "."], check=True)
json.dump(results, open(f"/verif/build/mutants_{pid}.json", "w"), indent=1, ensure_ascii=False)
subprocess.run(["python3", "-c", "import sys;sys.path.insert(0,'/verif/lib');import core;core.build_harness()"])
print(pid, "caught", sum(1 for r in results if r["exit"] == 1 and r["violations"]), "of", len(results))
