"""Shared run for C01 / C02 / C09: generate trees, canonicalize with the real library, apply the Lean Spec checkers."""
import json, re
import xml.etree.ElementTree as ET
import core, mml
from mml import N

TOK_TEXT = {
    "mi": list("abcxyzABXY") + ["α", "β", "Γ", "sin", "cos", "lim", "arc", "ab", "Na", "Cl", "H", "O", "ℝ", "𝑥", "e", "i", "d", "f", "", " ", "x ", "_", "…", "′"],
    "mn": ["0", "1", "2", "10", "3.5", "1,234", "12", "007", ".5", "5.", "1 000", "", "-2", "−3", "XIV", "IV", "½", "٣", "-", "−", "3", "4", "5"],
    "mo": list("+-=<>()[]{}|,.;:!*/'^_~") + ["−", "×", "÷", "±", "→", "∑", "∫", "′", "″", "‴", "…", "⋯", "--", "---", "—", "||", "‖", "::", "≤", "&", "<", ">", "\"", "⁡", "⁢", "⁣", "⁤", "", " ", "¯", "ˉ", "˜", "ˆ", "°", "º", "∘", "lim", "sin"],
    "mtext": ["", " ", " ", "if", "and", " a b ", "x<y", "a&b", "‑", "text with  spaces", "."],
}
SCRIPTED = ["msub", "msup", "msubsup", "munder", "mover", "munderover"]
VARIANTS = ["bold", "italic", "double-struck", "script", "normal", "fraktur"]


# pieces that the merging / normalising passes look for, to be mixed with ordinary characters inside ONE token
PIECES = ["'", "′", "″", "‴", "-", "−", "--", "_", ".", "..", "…", "¯", "|", ",", ":", "*", "^", "°", "!", "x", "y", "f", "A", "2", "10", "α", "s", "ab", " "]


def gen_token(rng):
    tag = rng.choice(["mi", "mi", "mn", "mn", "mo", "mo", "mtext"])
    attrs = {}
    if rng.random() < 0.08:
        attrs["mathvariant"] = rng.choice(VARIANTS)
    if rng.random() < 0.15:
        return N(tag, text="".join(rng.choice(PIECES) for _ in range(rng.randrange(2, 4))), attrs=attrs)
    return N(tag, text=rng.choice(TOK_TEXT[tag]), attrs=attrs)


def gen_degenerate(rng):
    r = rng.random()
    if r < 0.35:
        return N("mrow")
    if r < 0.5:
        return N(rng.choice(["mi", "mn", "mo", "mtext"]), text="")
    if r < 0.65:
        return N("mrow", [N("mrow")])
    if r < 0.75:
        return N("mspace", attrs={"width": "1em"})
    if r < 0.85:
        return N("mphantom", [gen_token(rng)])
    return N("mrow", [N("mrow")])


def gen_tree(rng, depth):
    if depth <= 0:
        return gen_token(rng) if rng.random() < 0.9 else gen_degenerate(rng)
    r = rng.random()
    d = depth - 1
    sub = lambda: gen_tree(rng, d) if rng.random() < 0.85 else gen_degenerate(rng)
    if r < 0.05:
        # prescript patterns: one or more scripts with an empty base in front of (or behind) other material
        empty = lambda: rng.choice([N("mrow"), N("mtext", text=""), N("mi", text=" ")])
        def script(e):
            tag = rng.choice(["msub", "msup", "msubsup"])
            return N(tag, [empty() if e else sub()] + [sub() for _ in range(2 if tag == "msubsup" else 1)])
        kids = [script(rng.random() < 0.75) for _ in range(rng.randrange(1, 4))] + [sub() for _ in range(rng.randrange(0, 3))]
        if rng.random() < 0.3:
            rng.shuffle(kids)
        return N("mrow", kids)
    if r < 0.30:
        return N("mrow", [sub() for _ in range(rng.randrange(0, 6))])
    if r < 0.38:
        return N("mfrac", [sub(), sub()])
    if r < 0.43:
        return N("msqrt", [sub() for _ in range(rng.choice([1, 1, 2, 0]))])
    if r < 0.47:
        return N("mroot", [sub(), sub()])
    if r < 0.62:
        tag = rng.choice(SCRIPTED)
        n = 3 if tag in ("msubsup", "munderover") else 2
        return N(tag, [sub() for _ in range(n)])
    if r < 0.67:
        k = rng.randrange(0, 3)
        ms = lambda: sub() if rng.random() < 0.75 else N("none")
        kids = [sub()] + [ms() for _ in range(2 * k)]
        if rng.random() < 0.5:
            kids += [N("mprescripts")] + [ms() for _ in range(2 * rng.randrange(0, 2))]
        if rng.random() < 0.3:      # unpaired scripts on either side of <mprescripts/>
            pos = rng.randrange(1, len(kids) + 1)
            if rng.random() < 0.5 and len(kids) > 1 and kids[pos - 1].tag != "mprescripts":
                del kids[pos - 1]
            else:
                kids.insert(pos, ms())
        return N("mmultiscripts", kids)
    if r < 0.72:
        a = {}
        if rng.random() < 0.5:
            a["open"] = rng.choice(["[", "{", "", "|", "⟨"])
            a["close"] = rng.choice(["]", "}", "", "|", "⟩"])
        if rng.random() < 0.4:
            a["separators"] = rng.choice([";", "", ";,", " , ", "|"])
        return N("mfenced", [sub() for _ in range(rng.randrange(0, 4))], attrs=a)
    if r < 0.78:
        return N(rng.choice(["mstyle", "mpadded"]), [sub() for _ in range(rng.choice([1, 1, 2, 0]))], attrs=rng.choice([{}, {"displaystyle": "true"}, {"mathvariant": "bold"}]))
    if r < 0.82:
        return N("menclose", [sub()], attrs={"notation": rng.choice(["box", "updiagonalstrike", "radical", "top"])})
    if r < 0.86:
        enc = lambda: rng.choice(["application/x-tex", "MathML-Content", "application/mathml-content+xml", "text/x-tex; charset=utf-8", "a b", "é", "x=1", "", "application/x-llamapun"])
        return N("semantics", [sub(), N("annotation", text=rng.choice(["\\TeX{} x+y", "f'(x)", "a\tb", "x \"y\" <z>"]), attrs={"encoding": enc()})] +
                 ([N("annotation-xml", [N("apply", [N("plus"), N("ci", text="x"), N("cn", text="1")])], attrs={"encoding": enc()})] if rng.random() < 0.4 else []))
    if r < 0.90:
        rows, cols = rng.randrange(1, 3), rng.randrange(1, 3)
        return N("mtable", [N("mtr", [N("mtd", [sub() for _ in range(rng.choice([1, 1, 0, 2]))]) for _ in range(cols)]) for _ in range(rows)])
    if r < 0.93:
        return N("mphantom", [sub()])
    if r < 0.96:
        return N("mtext", [N("b", text="bold "), N("i", text="it")])          # embedded HTML in a token
    return N("merror", [sub()])


def to_xml(n):
    s = "<" + n.tag + "".join(f" {k}='{mml.esc_attr(v)}'" for k, v in n.attrs.items()) + ">"
    if n.text is not None:
        s += mml.esc_text(n.text)
    for k in n.kids:
        s += to_xml(k)
    return s + "</" + n.tag + ">"


def xml_to_json(xml):
    try:
        root = ET.fromstring(xml)
    except Exception:
        return None

    def rec(e):
        kids = []
        if e.text:
            kids.append(e.text)
        for c in e:
            kids.append(rec(c))
            if c.tail:
                kids.append(c.tail)
        tag = e.tag.split("}")[-1]
        return {"n": tag, "a": [[k.split("}")[-1], v] for k, v in e.attrib.items()], "c": kids}
    return rec(root)


def author_ids(rng, tree, mode):
    """decorate with author ids: none / some / all / duplicate"""
    if mode == "none":
        return
    k = 0
    odd = rng.random() < 0.25        # one-character and odd-looking ids (an id is a name, never text)
    for n in tree.walk():
        if mode == "all" or (mode in ("some", "dup") and rng.random() < 0.4):
            if odd and mode != "dup":
                n.attrs["id"] = (list("xyabABn12") + ["é1", "α", "x-1", "a.b", "_", "i", "-"])[k] if k < 16 else "o%d" % k
            else:
                n.attrs["id"] = "a%d" % (k if mode != "dup" else k % 2)
            k += 1


def run_stream(ctx, im, mo, n_trees, locales, id_modes=("none",)):
    """returns list of dict(xml, locale, reply, check) for every generated tree on which set_mathml answered"""
    rng = ctx.rng
    results = []
    for block, dec in locales:
        pre = [{"op": "session"}, {"op": "rules_dir", "dir": core.rules_dir()}, {"op": "set_pref", "name": "BlockSeparators", "value": block},
               {"op": "set_pref", "name": "DecimalSeparators", "value": dec}, {"op": "set_pref", "name": "Chemistry", "value": rng.choice(["Off", "SpellOut"])}]
        trees = []
        for _ in range(n_trees // len(locales)):
            t = N("math", [gen_tree(rng, rng.randrange(0, 4))] if rng.random() < 0.85 else [gen_tree(rng, 1) for _ in range(rng.randrange(0, 3))])
            author_ids(rng, t, rng.choice(id_modes))
            trees.append(t)
        xmls = [to_xml(t) for t in trees]
        rep = im.run(pre + [{"op": "set_mathml", "xml": x} for x in xmls], prelude=pre)[len(pre):]
        creqs, keep = [], []
        for x, r in zip(xmls, rep):
            item = {"xml": x, "locale": [block, dec], "reply": r, "lines": pre[1:] + [{"op": "set_mathml", "xml": x}]}
            if r.get("r") == "ok":
                inp, out = xml_to_json(x), xml_to_json(r["v"])
                item["xml_wellformed"] = out is not None
                if inp is not None and out is not None:
                    creqs.append({"op": "canon_check", "inp": inp, "out": out})
                    keep.append(item)
            results.append(item)
        for item, c in zip(keep, mo.run(creqs)):
            item["check"] = c.get("v") if c.get("r") == "ok" else None
    return results


LEAF_RE = re.compile(r"<(mi|mn|mo|mtext|ms)((?: [^<>]*)?)>([^<]*)</\1>")
ATTR_RE = re.compile(r" ([A-Za-z_:][-A-Za-z0-9_:.]*)='([^']*)'")


def raw_pieces(xml):
    """raw (still escaped) leaf contents and attribute values of a serialized tree"""
    texts = [m.group(3) for m in LEAF_RE.finditer(xml)]
    attrs = [m.group(2) for m in ATTR_RE.finditer(xml)]
    return texts, attrs


def xml_unescape(s):
    try:
        return ET.fromstring("<a>" + s + "</a>").text or ""
    except Exception:
        return None


def standard(ctx, prop, theorems_note, trusted, extra_modules=()):
    """prove + build + processes; returns (pr, im, mo)"""
    pr = core.prove(prop, extra_modules=extra_modules)
    core.proof_coverage(ctx, pr, f"lake build MC.Props.{prop} && lake env lean build/audit_{prop}.lean (#print axioms)", trusted)
    core.need_harness(ctx)
    core.need_driver(ctx)
    return pr, core.impl(), core.model()


LOCALES = [(", ", "."), (". ", ","), (" ", ".,"), (",", ".")]


def summarize(ctx, results):
    n_ok = sum(1 for r in results if r["reply"].get("r") == "ok")
    kinds = {}
    for r in results:
        for t in set(re.findall(r"<([a-z-]+)", r["xml"])):
            kinds[t] = kinds.get(t, 0) + 1
    sizes = sorted(len(re.findall(r"<[a-z]", r["xml"])) for r in results)
    panics = [r for r in results if r["reply"].get("r") in ("panic", "abort", "timeout")]
    errs = [r for r in results if r["reply"].get("r") == "err"]
    ctx.coverage.update({
        "trees": len(results), "set_mathml_ok": n_ok, "set_mathml_err": len(errs),
        "element_kinds_in_inputs": dict(sorted(kinds.items(), key=lambda kv: -kv[1])),
        "input_size_elements": {"min": sizes[0] if sizes else 0, "median": sizes[len(sizes) // 2] if sizes else 0, "max": sizes[-1] if sizes else 0},
        "locales": sorted({json.dumps(r["locale"]) for r in results}),
        "error_kinds": sorted({re.sub(r"[^A-Za-z ]", "", (r["reply"].get("msg") or "").split("\n")[0])[:60] for r in errs})[:12],
        "panics_seen_reported_under_C08": [{"xml": p["xml"][:300], "reply": p["reply"]} for p in panics[:6]], "n_panics": len(panics),
    })
    return n_ok


def replay_lines(ctx, path):
    with open(path) as f:
        rp = json.load(f)
    core.need_harness(ctx)
    core.need_driver(ctx)
    im, mo = core.impl(), core.model()
    lines = rp.get("lines", [])
    out = im.run([{"op": "session"}] + lines)[1:]
    for q, r in zip(lines, out):
        print(json.dumps(q, ensure_ascii=False)[:400], "->", json.dumps(r, ensure_ascii=False)[:1500])
    last = out[-1] if out else {}
    sm = [q for q in lines if q.get("op") == "set_mathml"]
    rs = [r for q, r in zip(lines, out) if q.get("op") == "set_mathml"]
    if sm and rs and rs[-1].get("r") == "ok":
        inp, o = xml_to_json(sm[-1]["xml"]), xml_to_json(rs[-1]["v"])
        if inp is not None and o is not None:
            print("Spec checker:", json.dumps(mo.run([{"op": "canon_check", "inp": inp, "out": o}])[0], ensure_ascii=False)[:1500])
    im.close()
    mo.close()
    return 0


def parse_N(xml):
    root = ET.fromstring(xml)

    def rec(e):
        kids = [rec(c) for c in e]
        n = N(e.tag.split("}")[-1], kids, attrs={k.split("}")[-1]: v for k, v in e.attrib.items()})
        if not kids:
            n.text = e.text or ""
            if n.tag in ("mrow", "none", "mprescripts", "mspace") and not n.text:
                n.text = None
        elif e.text and e.text.strip() and False:
            pass
        return n
    return rec(root)


def shrink(xml, still_fails, budget=400):
    """greedy tree shrinker: delete a child, replace a node by one of its children, drop an attribute, shorten text.
    still_fails(xml) -> bool is evaluated on the implementation (+ checker). Returns the smallest failing xml found."""
    try:
        best = parse_N(xml)
    except Exception:
        return xml
    if not still_fails(to_xml(best)):
        return xml
    progress = True
    while progress and budget > 0:
        progress = False
        nodes = list(best.walk())
        for idx in range(len(nodes)):
            cands = []
            for mode in ("del_child", "lift", "attr", "text"):
                cand = best.copy()
                cn = list(cand.walk())[idx]
                if mode == "del_child":
                    for k in range(len(cn.kids)):
                        c2 = best.copy()
                        n2 = list(c2.walk())[idx]
                        del n2.kids[k]
                        cands.append(c2)
                elif mode == "lift":
                    for k in range(len(cn.kids)):
                        c2 = best.copy()
                        l2 = list(c2.walk())
                        n2 = l2[idx]
                        child = n2.kids[k]
                        n2.tag, n2.kids, n2.text, n2.attrs = child.tag, child.kids, child.text, child.attrs
                        if idx == 0 and n2.tag != "math":
                            continue
                        cands.append(c2)
                elif mode == "attr":
                    for a in list(cn.attrs):
                        c2 = best.copy()
                        n2 = list(c2.walk())[idx]
                        del n2.attrs[a]
                        cands.append(c2)
                elif mode == "text" and cn.text and len(cn.text) > 1:
                    for t in (cn.text[:1], cn.text[1:], cn.text[:-1]):
                        c2 = best.copy()
                        list(c2.walk())[idx].text = t
                        cands.append(c2)
            for c2 in cands:
                budget -= 1
                if budget <= 0:
                    break
                try:
                    if still_fails(to_xml(c2)):
                        best = c2
                        progress = True
                        break
                except Exception:
                    pass
            if progress or budget <= 0:
                break
    return to_xml(best)


def shrink_with(im, mo, pre, pred):
    """still_fails for shrink(): pred(reply, check) where check is the Spec checker's answer (or None)"""
    def f(xml):
        r = im.run([{"op": "session"}] + pre + [{"op": "set_mathml", "xml": xml}])[-1]
        c = None
        if r.get("r") == "ok":
            inp, out = xml_to_json(xml), xml_to_json(r["v"])
            if inp is not None and out is not None:
                c = mo.run([{"op": "canon_check", "inp": inp, "out": out}])[0].get("v")
        return pred(r, c)
    return f


def merge_family(rng, n_fam):
    """rows over SMALL alphabets, one per merging pass (merge_dots, merge_primes, merge_chars, merge_vertical_bars, dashes, digit blocks): the passes count and
    index neighbouring tokens, so what matters is which tokens stand between (and in front of, and behind) the ones they merge"""
    ALPHABETS = [[".", ".", "…", ","], ["'", "′", "″", "‵"], ["_", "_", "\u00a0"], ["|", "||", "‖", "∣"], ["-", "--", "−", "—"], [",", ".", " ", "\u00a0"], [":", "::", "/"], ["°", "'", "^", "¯"]]
    fam = []
    for q in range(n_fam):
        alpha = ALPHABETS[q % len(ALPHABETS)]
        def other():
            r = rng.random()
            if r < 0.35:
                return N("mi", text=rng.choice("abxyzn"))
            if r < 0.6:
                return N("mn", text=rng.choice(["1", "2", "234", "5", "10", "000"]))
            if r < 0.75:
                return N("mo", text=rng.choice(["+", "=", "(", ")", "-"]))
            if r < 0.85:
                return N(rng.choice(["msup", "msub"]), [N("mi", text=rng.choice("xyz")), N("mn", text=rng.choice(["2", "3"]))])
            if r < 0.92:
                return N("mtext", text=rng.choice(["if", " ", "and"]))
            return N("mrow", [N("mi", text="c"), N("mo", text=rng.choice(alpha))])
        kids = []
        for _ in range(rng.randrange(3, 10)):
            if rng.random() < 0.5:
                kids.append(N(rng.choice(["mo", "mo", "mo", "mi", "mtext"]), text=rng.choice(alpha)))
            else:
                kids.append(other())
        row = N("mrow", kids)
        wrap = rng.random()
        tree = N("math", [row]) if wrap < 0.6 else N("math", [N("msqrt", kids)]) if wrap < 0.75 else N("math", [N("mfrac", [row, N("mn", text="7")])]) if wrap < 0.9 else N("math", kids)
        fam.append(tree)
    return fam
