"""Python side of the Loader correspondence (C10 / C14): keeps the model's cache cells, asks the Lean model
(`loader_refresh`) what each API call reloads, and compares with the files logged by hook H2."""
import os, re
import core

RULESETS = {"set_mathml": ["speech"], "speech": ["intent", "speech"], "overview": ["overview"], "braille": ["braille"]}
SLOT_FILE = {"intent": "intent", "speech": "speech", "overview": "overview", "navigation": "navigation", "braille": "braille"}


def side(r):
    return "braille" if r == "braille" else "speech"


def includes(path, seen=None):
    """head file followed by what it includes, in the order read_patterns reads them"""
    out = [path]
    try:
        text = open(path, encoding="utf-8").read()
    except Exception:
        return out
    for m in re.finditer(r'^\s*(?:-\s*)?include:\s*"?([^"\n#]+?)"?\s*(?:#.*)?$', text, re.M):
        p = os.path.normpath(os.path.join(os.path.dirname(path), m.group(1).strip()))
        out += includes(p)
    return out


class Sim:
    def __init__(self, mo):
        self.mo = mo
        self.ids = {}
        self.cells = {}

    def fid(self, path):
        path = os.path.realpath(path)
        if path not in self.ids:
            self.ids[path] = len(self.ids) + 1
        return self.ids[path]

    def fs_json(self, heads, bad=()):
        files = []
        incl = []
        for h in heads:
            inc = includes(os.path.realpath(h))
            incl.append([self.fid(h), [self.fid(p) for p in inc]])
            files += inc
        mt, ct = [], []
        for p in set(os.path.realpath(f) for f in files):
            try:
                st = os.stat(p)
                t = st.st_mtime_ns // 1000 + 1
                v = st.st_mtime_ns // 1000 + st.st_size
            except OSError:
                t, v = 0, 0
            mt.append([self.fid(p), t])
            ct.append([self.fid(p), v])
        return {"mtime": mt, "content": ct, "bad": [self.fid(b) for b in bad], "incl": incl}

    def refresh(self, slot, kind, pref_path, ignore, bad=()):
        """returns (ok, needs, files the model says are read)"""
        cell = self.cells.get(slot, {"files": [], "data": []})
        fs = self.fs_json([pref_path], bad)
        r = self.mo.run([{"op": "loader_refresh", "kind": kind, "cell": cell, "pref": self.fid(pref_path), "ignore": ignore, "fs": fs}])[0]
        v = r.get("v") or {}
        self.cells[slot] = v.get("cell", cell)
        reads = [os.path.realpath(p) for p in includes(os.path.realpath(pref_path))] if v.get("needs") else []
        return v.get("ok", False), v.get("needs", False), reads

    def api_call(self, op, files, ignore, bad=()):
        """files: dict name -> path from hook H6. Returns (ok, predicted reads in order)."""
        reads = []
        for r in RULESETS[op]:
            s = side(r)
            for slot, kind, name in ((("rules", r), "rules", SLOT_FILE[r]), (("uniShort", s), "uniShort", s + "_unicode"), (("defs", s), "defs", s + "_defs")):
                ok, needs, rd = self.refresh(slot, kind, files[name], ignore, bad)
                if needs:
                    # a broken file stops the read at that file
                    for p in rd:
                        reads.append(p)
                        if p in [os.path.realpath(b) for b in bad]:
                            break
                if not ok:
                    return False, reads
        return True, reads

    def full_read(self, s, files, ignore, bad=()):
        return self.refresh(("uniFull", s), "uniFull", files[s + "_unicode_full"], ignore, bad)
