"""MathML expression trees: a small type-directed generator (textbook grammar + degenerate shapes) and serializers
with controllable XML surface form. Every random choice comes from the rng passed in."""
import random

LETTERS = list("abcdfghklmnpqrstuvwxyz")     # no e, i, o (constants / chemistry-ish), still plenty
GREEK = list("αβγδθλμπσφω")
INFIX = ["+", "-", "=", "<", ">", "≤", "≥", "×", "·", "/", "∈", "→", ",", "±", "≠", "∪", "∩", "⋅"]
PREFIX = ["-", "¬", "+", "∑", "∫"]
POSTFIX = ["!", "%"]
FENCES = [("(", ")"), ("[", "]"), ("{", "}"), ("|", "|")]


class N:
    __slots__ = ("tag", "attrs", "kids", "text")

    def __init__(self, tag, kids=None, text=None, attrs=None):
        self.tag, self.kids, self.text, self.attrs = tag, kids if kids is not None else [], text, dict(attrs or {})

    def is_leaf(self):
        return self.text is not None

    def walk(self):
        yield self
        for k in self.kids:
            yield from k.walk()

    def copy(self):
        return N(self.tag, [k.copy() for k in self.kids], self.text, self.attrs)


def mi(t, **a): return N("mi", text=t, attrs=a)
def mn(t, **a): return N("mn", text=t, attrs=a)
def mo(t, **a): return N("mo", text=t, attrs=a)
def mtext(t, **a): return N("mtext", text=t, attrs=a)
def mrow(*k, **a): return N("mrow", list(k), attrs=a)
def el(tag, *k, **a): return N(tag, list(k), attrs=a)


def esc_text(s):
    return s.replace("&", "&amp;").replace("<", "&lt;").replace(">", "&gt;")


def esc_attr(s):
    return esc_text(s).replace("'", "&apos;").replace('"', "&quot;")


def to_xml(n, prefix="", quote="'", indent=None, ns_decl=True, root=True, junk=None, char_map=None, empty_junk=None):
    """prefix: namespace prefix for elements ('' = default namespace); junk: callable() -> string inserted between elements
    (comments / PIs / whitespace); char_map: callable(ch) -> replacement markup for a text character (entity spelling)."""
    p = prefix + ":" if prefix else ""
    attrs = dict(n.attrs)
    s = "<" + p + n.tag
    if root and ns_decl:
        if prefix:
            s += f" xmlns:{prefix}={quote}http://www.w3.org/1998/Math/MathML{quote}"
        else:
            s += f" xmlns={quote}http://www.w3.org/1998/Math/MathML{quote}"
    for k, v in attrs.items():
        s += f" {k}={quote}{esc_attr(v)}{quote}"
    s += ">"
    if n.is_leaf():
        t = n.text
        if char_map:
            s += "".join(char_map(c) or esc_text(c) for c in t)
        else:
            s += esc_text(t)
    else:
        for k in n.kids:
            if junk:
                s += junk()
            s += to_xml(k, prefix, quote, indent, ns_decl, False, junk, char_map, empty_junk)
        if junk and n.kids:       # only *between elements*: never as the sole content of an empty element such as <none/>
            s += junk()
        if empty_junk and not n.kids and n.tag not in ("none", "mprescripts", "mspace", "maligngroup", "malignmark"):
            s += empty_junk()     # white space as the sole content of an empty container (<mrow>\n</mrow>): what pretty printers write
    s += "</" + p + n.tag + ">"
    return s


def number(rng, decimal=".", kind=None):
    kind = kind or rng.choice(["int", "int", "dec", "dec", "big"])
    if kind == "int":
        return str(rng.randrange(0, 1000))
    if kind == "big":
        return str(rng.randrange(1000, 10 ** rng.randrange(4, 9)))
    return str(rng.randrange(0, 100)) + decimal + str(rng.randrange(1, 1000))


def leaf(rng):
    r = rng.random()
    if r < 0.45:
        return mi(rng.choice(LETTERS))
    if r < 0.55:
        return mi(rng.choice(GREEK))
    return mn(number(rng))


def gen_expr(rng, depth=3, table_ok=True):
    """A textbook-grammar expression (well formed presentation MathML)."""
    if depth <= 0:
        return leaf(rng)
    r = rng.random()
    d = depth - 1
    if r < 0.22:
        n = rng.randrange(2, 5)
        kids = [gen_expr(rng, d)]
        for _ in range(n - 1):
            kids += [mo(rng.choice(INFIX[:8])), gen_expr(rng, d)]
        return mrow(*kids)
    if r < 0.32:
        return el("mfrac", gen_expr(rng, d), gen_expr(rng, d))
    if r < 0.40:
        return el("msqrt", gen_expr(rng, d))
    if r < 0.45:
        return el("mroot", gen_expr(rng, d), gen_expr(rng, 0))
    if r < 0.55:
        return el("msup", gen_expr(rng, min(d, 1)), gen_expr(rng, min(d, 1)))
    if r < 0.62:
        return el("msub", leaf(rng), gen_expr(rng, 0))
    if r < 0.66:
        return el("msubsup", leaf(rng), gen_expr(rng, 0), gen_expr(rng, 0))
    if r < 0.72:
        o, c = rng.choice(FENCES[:3])
        return mrow(mo(o), gen_expr(rng, d), mo(c))
    if r < 0.76:
        return mrow(mi(rng.choice(["sin", "cos", "log", "f", "g"])), mo("⁡"), mrow(mo("("), gen_expr(rng, d), mo(")")))
    if r < 0.80:
        return el("munderover", mo("∑"), mrow(mi("k"), mo("="), mn("1")), gen_expr(rng, 0))
    if r < 0.83:
        return el("mover", gen_expr(rng, 0), mo(rng.choice(["¯", "^", "→", "~"])))
    if r < 0.86:
        return el("munder", mo("lim"), mrow(mi("x"), mo("→"), mn("0")))
    if r < 0.89 and table_ok:
        rows, cols = rng.randrange(1, 3), rng.randrange(1, 3)
        return mrow(mo("("), el("mtable", *[el("mtr", *[el("mtd", gen_expr(rng, 0)) for _ in range(cols)]) for _ in range(rows)]), mo(")"))
    if r < 0.92:
        return mrow(mo(rng.choice(PREFIX[:2])), gen_expr(rng, d))
    if r < 0.94:
        return mrow(gen_expr(rng, 0), mo("!"))
    if r < 0.96:
        return el("mfenced", gen_expr(rng, d), gen_expr(rng, 0))
    if r < 0.98:
        return el("mstyle", gen_expr(rng, d), displaystyle="true")
    return el("menclose", gen_expr(rng, d), notation="box")


def math(n, **a):
    return N("math", [n], attrs=a)


def corpus_basic():
    """A fixed hand-written corpus covering every element kind (used first by several checks)."""
    x, y = mi("x"), mi("y")
    c = [
        mrow(mi("a"), mo("+"), mi("b")),
        mrow(mn("2"), mi("x"), mo("+"), mn("3.5"), mi("y"), mo("="), mn("10")),
        el("mfrac", mrow(mi("a"), mo("+"), mn("1")), mrow(mi("b"), mo("-"), mn("2"))),
        el("msqrt", mrow(el("msup", mi("x"), mn("2")), mo("+"), el("msup", mi("y"), mn("2")))),
        el("mroot", mi("x"), mn("3")),
        el("msubsup", mi("x"), mn("1"), mn("2")),
        mrow(el("munderover", mo("∑"), mrow(mi("k"), mo("="), mn("1")), mi("n")), el("msup", mi("k"), mn("2"))),
        mrow(mi("sin"), mo("⁡"), mrow(mo("("), mi("x"), mo(")"))),
        mrow(mo("("), el("mtable", el("mtr", el("mtd", mn("1")), el("mtd", mn("0"))), el("mtr", el("mtd", mn("0")), el("mtd", mn("1")))), mo(")")),
        el("mfenced", mi("x"), mi("y")),
        mrow(mo("|"), mi("x"), mo("|")),
        el("mover", mi("x"), mo("¯")),
        el("munder", mo("lim"), mrow(mi("x"), mo("→"), mn("0"))),
        mrow(mi("n"), mo("!")),
        mrow(mo("-"), mi("x")),
        el("mmultiscripts", mi("C"), mn("2"), N("none"), N("mprescripts"), mn("4"), N("none")),
        el("menclose", mi("x"), notation="box"),
        mrow(mtext("if"), mi("x"), mo(">"), mn("0")),
        el("mstyle", mrow(mi("a"), mo("×"), mi("b")), displaystyle="true"),
        mrow(mi("α"), mo("+"), mi("β"), mo("="), mi("γ")),
        mrow(el("msup", mi("e"), mrow(mi("i"), mi("π"))), mo("+"), mn("1"), mo("="), mn("0")),
        mrow(mi("f"), mo("⁡"), mrow(mo("("), mi("x"), mo(","), mi("y"), mo(")"))),
        # three rows, and two tables in one expression (several row separators in the linear braille codes)
        mrow(mo("("), el("mtable", el("mtr", el("mtd", mi("a"))), el("mtr", el("mtd", mi("b"))), el("mtr", el("mtd", mi("c")))), mo(")")),
        mrow(mrow(mo("["), el("mtable", el("mtr", el("mtd", mn("1")), el("mtd", mn("2"))), el("mtr", el("mtd", mn("3")), el("mtd", mn("4")))), mo("]")), mo("+"),
             mrow(mo("("), el("mtable", el("mtr", el("mtd", mi("x"))), el("mtr", el("mtd", mi("y")))), mo(")"))),
    ]
    return [math(e) for e in c]
