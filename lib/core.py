"""Shared machinery of ./check: builds, translator, Lean proof step and audit, process drivers, evidence, verdicts."""
import fcntl, hashlib, json, os, re, subprocess, sys, time, random, shutil

VERIF = os.path.dirname(os.path.dirname(os.path.abspath(__file__)))
REPO = os.environ.get("VERIF_REPO", "/repo")
BUILD = os.path.join(VERIF, "build")
LEAN = os.path.join(VERIF, "lean")
HARNESS = os.path.join(VERIF, "harness")
TARGET = os.path.join(BUILD, "target")
MCDRIVE = os.path.join(TARGET, "debug", "mcdrive")
MCMODEL = os.path.join(LEAN, ".lake", "build", "bin", "mcmodel")
HOME = os.path.join(BUILD, "home")
REPLAYS = os.path.join(BUILD, "replays")
ALLOWED_AXIOMS = {"propext", "Classical.choice", "Quot.sound"}
FORBIDDEN_TOKENS = ["sorry", "admit", "native_decide", "bv_decide", "implemented_by", "unsafe ", "maxHeartbeats 0"]

sys.path.insert(0, os.path.join(VERIF, "translator"))


def log(*a):
    print("[check]", *a, file=sys.stderr, flush=True)


class Lock:
    def __init__(self, name):
        os.makedirs(BUILD, exist_ok=True)
        self.path = os.path.join(BUILD, name + ".lock")

    def __enter__(self):
        self.f = open(self.path, "w")
        fcntl.flock(self.f, fcntl.LOCK_EX)
        return self

    def __exit__(self, *a):
        fcntl.flock(self.f, fcntl.LOCK_UN)
        self.f.close()


def base_env():
    env = dict(os.environ)
    env["HOME"] = HOME
    env["XDG_CONFIG_HOME"] = os.path.join(HOME, ".config")
    env["CARGO_NET_OFFLINE"] = "true"
    env.pop("MathCATRulesDir", None)
    env.pop("RUST_LOG", None)
    os.makedirs(env["XDG_CONFIG_HOME"], exist_ok=True)
    return env


def build_harness():
    """cargo build of mcdrive against /repo's working tree with the hooks enabled. Returns (ok, seconds, output)."""
    t0 = time.time()
    with Lock("cargo"):
        shutil.copyfile(os.path.join(REPO, "Cargo.lock"), os.path.join(HARNESS, "Cargo.lock"))
        env = dict(os.environ)
        env["RUSTFLAGS"] = "--cfg mathcat_verif"
        env["CARGO_TARGET_DIR"] = TARGET
        env["CARGO_NET_OFFLINE"] = "true"
        real_home = os.environ.get("HOME", "/root")
        env["CARGO_HOME"] = os.environ.get("CARGO_HOME", os.path.join(real_home, ".cargo"))
        p = subprocess.run(["cargo", "build", "--offline"], cwd=HARNESS, env=env, capture_output=True, text=True)
    return p.returncode == 0, time.time() - t0, p.stdout + p.stderr


def lake_build(targets):
    """Returns (ok, seconds, output)."""
    t0 = time.time()
    with Lock("lake"):
        p = subprocess.run(["lake", "build"] + targets, cwd=LEAN, capture_output=True, text=True)
    return p.returncode == 0, time.time() - t0, p.stdout + p.stderr


def theorems_in(path):
    """[(name, line)] of the theorems declared in a Lean file (with namespace prefix)."""
    out = []
    ns = []
    with open(path, encoding="utf-8") as f:
        for i, line in enumerate(f, 1):
            m = re.match(r"\s*namespace\s+(\S+)", line)
            if m:
                ns.append(m.group(1))
            m = re.match(r"\s*end\s+(\S+)", line)
            if m and ns and ns[-1] == m.group(1):
                ns.pop()
            m = re.match(r"\s*(?:@\[[^\]]*\]\s*)?(?:private\s+|protected\s+)?theorem\s+([^\s:({\[]+)", line)
            if m:
                out.append((".".join(ns + [m.group(1)]), i))
    return out


def textual_audit(paths):
    """Forbidden tokens outside comments. Returns list of 'file:line: token'."""
    hits = []
    for path in paths:
        with open(path, encoding="utf-8") as f:
            text = f.read()
        # drop block comments and line comments
        text2 = re.sub(r"/-.*?-/", lambda m: "\n" * m.group(0).count("\n"), text, flags=re.S)
        for i, line in enumerate(text2.split("\n"), 1):
            line = re.sub(r"--.*", "", line)
            for tok in FORBIDDEN_TOKENS:
                if tok in line:
                    hits.append(f"{os.path.relpath(path, VERIF)}:{i}: {tok.strip()}")
            if re.match(r"\s*axiom\s", line):
                hits.append(f"{os.path.relpath(path, VERIF)}:{i}: axiom")
    return hits


def lean_sources_of(module_file):
    """Transitive closure of `import MC.*` from a file under lean/ (hand-written and generated)."""
    seen, todo = [], [module_file]
    while todo:
        p = todo.pop()
        if p in seen or not os.path.exists(p):
            continue
        seen.append(p)
        with open(p, encoding="utf-8") as f:
            for line in f:
                m = re.match(r"\s*import\s+(MC\.\S+)", line)
                if m:
                    todo.append(os.path.join(LEAN, m.group(1).replace(".", "/") + ".lean"))
    return seen


def prove(prop_id, extra_modules=()):
    """Build MC.Props.<id> (and extra modules), list its theorems, run `#print axioms` on each.
    Returns dict(ok, obligations:[{name, discharged, axioms|error}], failed:[names], output, seconds)."""
    t0 = time.time()
    mods = ["MC.Props." + prop_id] + list(extra_modules)
    files = [os.path.join(LEAN, m.replace(".", "/") + ".lean") for m in mods]
    thms = []
    for f in files:
        thms += [(n, ln, f) for n, ln in theorems_in(f)]
    ok, secs, out = lake_build(mods)
    res = {"ok": ok, "output": out[-6000:], "seconds": 0.0, "obligations": [], "failed": [], "modules": mods}
    failed_names = set()
    if not ok:
        # map error positions to theorem names
        for m in re.finditer(r"error: (\S+?\.lean):(\d+):(\d+): (.*)", out):
            path = os.path.join(LEAN, m.group(1)) if not os.path.isabs(m.group(1)) else m.group(1)
            line = int(m.group(2))
            cands = [(n, ln) for n, ln, f in thms if os.path.abspath(f) == os.path.abspath(path) and ln <= line]
            if cands:
                failed_names.add(max(cands, key=lambda x: x[1])[0])
            else:
                failed_names.add(f"{m.group(1)}:{line}")
        if not failed_names:
            failed_names.add("lake-build")
    axioms = {}
    if ok:
        os.makedirs(BUILD, exist_ok=True)
        audit = os.path.join(BUILD, f"audit_{prop_id}.lean")
        with open(audit, "w") as f:
            for m in mods:
                f.write(f"import {m}\n")
            for n, _, _ in thms:
                f.write(f"#print axioms {n}\n")
        with Lock("lake"):
            p = subprocess.run(["lake", "env", "lean", audit], cwd=LEAN, capture_output=True, text=True)
        txt = p.stdout + p.stderr
        for m in re.finditer(r"'([^']+)' depends on axioms: \[([^\]]*)\]", txt, re.S):
            axioms[m.group(1)] = [a.strip() for a in m.group(2).replace("\n", " ").split(",") if a.strip()]
        for m in re.finditer(r"'([^']+)' does not depend on any axioms", txt):
            axioms[m.group(1)] = []
        if p.returncode != 0:
            res["audit_error"] = txt[-2000:]
    tok_hits = textual_audit(sum((lean_sources_of(f) for f in files), []))
    for n, ln, f in thms:
        ob = {"name": n, "file": os.path.relpath(f, VERIF), "line": ln}
        if n in failed_names or not ok:
            ob["discharged"] = False if (n in failed_names or not ok) else True
            if n in failed_names:
                ob["error"] = "does not check"
            else:
                ob["error"] = "module did not build"
        elif n not in axioms:
            ob["discharged"] = False
            ob["error"] = "axioms not reported"
            failed_names.add(n)
        else:
            ob["axioms"] = axioms[n]
            bad = [a for a in axioms[n] if a not in ALLOWED_AXIOMS]
            ob["discharged"] = not bad
            if bad:
                ob["error"] = "forbidden axioms: " + ",".join(bad)
                failed_names.add(n)
        res["obligations"].append(ob)
    if tok_hits:
        res["textual_audit_hits"] = tok_hits
        failed_names.add("textual-audit")
    res["failed"] = sorted(failed_names)
    res["ok"] = ok and not failed_names
    res["seconds"] = time.time() - t0
    return res


def leanchecker(modules):
    with Lock("lake"):
        p = subprocess.run(["lake", "env", "leanchecker"] + modules, cwd=LEAN, capture_output=True, text=True)
    return p.returncode == 0, (p.stdout + p.stderr)[-2000:]


class Proc:
    """A line-protocol subprocess (mcdrive or mcmodel). `run(reqs)` sends a batch and returns the replies; if the
    process dies (stack overflow, abort) the request it died on gets {"r":"abort"} and the rest are re-sent to a
    fresh process (new process = new session)."""

    def __init__(self, argv, name):
        self.argv, self.name = argv, name
        self.p = None
        self.restarts = 0

    def start(self):
        self.p = subprocess.Popen(self.argv, stdin=subprocess.PIPE, stdout=subprocess.PIPE, stderr=subprocess.DEVNULL,
                                  env=base_env(), text=True, bufsize=1 << 20)

    def close(self):
        if self.p:
            try:
                self.p.stdin.close()
                self.p.wait(timeout=5)
            except Exception:
                self.p.kill()
            self.p = None

    def run(self, reqs, prelude=None):
        """prelude: requests re-sent (replies discarded) after a crash restart so later requests have a session."""
        replies = []
        i = 0
        while i < len(reqs):
            if self.p is None or self.p.poll() is not None:
                self.start()
                if replies and prelude:
                    self._batch(prelude)
            got = self._batch(reqs[i:])
            replies += got
            i += len(got)
            if i < len(reqs):
                # process died on request i
                rc = self.p.poll()
                replies.append({"r": "abort", "signal": rc})
                i += 1
                self.restarts += 1
                self.close()
        return replies

    def _batch(self, reqs):
        import threading
        data = "".join(json.dumps(r, ensure_ascii=False) + "\n" for r in reqs)

        def feed():
            try:
                self.p.stdin.write(data)
                self.p.stdin.flush()
            except Exception:
                pass
        th = threading.Thread(target=feed, daemon=True)
        th.start()
        out = []
        for _ in reqs:
            line = self.p.stdout.readline()
            if not line:
                break
            try:
                out.append(json.loads(line))
            except Exception:
                out.append({"r": "garbled", "raw": line[:200]})
        th.join(timeout=1)
        if len(out) < len(reqs):
            try:
                self.p.wait(timeout=5)
            except Exception:
                self.p.kill()
                self.p.wait()
        return out


def impl():
    # manual probes after a mutant / seed_try: a binary older than the library sources is stale (checks rebuild through need_harness first)
    try:
        newest = max(os.path.getmtime(os.path.join(dp, f)) for dp, _, fs in os.walk(os.path.join(REPO, "src")) for f in fs if f.endswith(".rs"))
        if os.path.getmtime(MCDRIVE) < newest:
            sys.stderr.write("[core] WARNING: mcdrive is older than /repo/src: rebuild it (core.build_harness()) before trusting a probe\n")
    except (OSError, ValueError):
        pass
    return Proc([MCDRIVE], "mcdrive")


def model():
    return Proc([MCMODEL], "mcmodel")


def load_known_findings():
    p = os.path.join(VERIF, "known_findings.json")
    if not os.path.exists(p):
        return []
    with open(p) as f:
        return json.load(f)["findings"]


class Ctx:
    def __init__(self, prop, tier, seed, level="proof"):
        self.prop, self.tier, self.seed, self.level = prop, tier, seed, level
        self.t0 = time.time()
        self.rng = random.Random(seed)
        self.coverage = {}
        self.assumptions = []
        self.violations = []          # (what, replay_path, no_input)
        self.known_hits = []
        self.findings = [f for f in load_known_findings() if f.get("property") == prop and f.get("status") == "finding"]
        os.makedirs(REPLAYS, exist_ok=True)

    def write_replay(self, tag, obj):
        h = hashlib.sha256(json.dumps(obj, sort_keys=True, ensure_ascii=False).encode()).hexdigest()[:10]
        path = os.path.join(REPLAYS, f"{self.prop}-{tag}-{h}.json")
        obj = dict(obj)
        obj["property"] = self.prop
        obj["seed"] = self.seed
        with open(path, "w", encoding="utf-8") as f:
            json.dump(obj, f, ensure_ascii=False, indent=1)
        return path

    def violation(self, what, replay_obj, tag="viol", no_input=False, signature=None):
        """signature: dict compared with known_findings entries; a match downgrades to KNOWN-FINDING."""
        if signature is not None:
            for kf in self.findings:
                if signature_matches(kf.get("signature", {}), signature):
                    key = kf.get("id", kf.get("what"))
                    if key not in [k for k, _ in self.known_hits]:
                        self.known_hits.append((key, kf.get("what", what)))
                    return False
        path = self.write_replay(tag, dict(replay_obj, what=what))
        self.violations.append((what, path, no_input))
        return True

    def finish(self):
        ev = {
            "property_id": self.prop, "tier": self.tier, "seed": self.seed, "level": self.level,
            "coverage": self.coverage, "assumptions": self.assumptions,
            "wall_s": round(time.time() - self.t0, 2), "violations": len(self.violations),
        }
        ev["coverage"]["known_findings_hit"] = [k for k, _ in self.known_hits]
        os.makedirs(os.path.join(VERIF, "evidence"), exist_ok=True)
        with open(os.path.join(VERIF, "evidence", f"{self.prop}.json"), "w", encoding="utf-8") as f:
            json.dump(ev, f, ensure_ascii=False, indent=1)
        for key, what in self.known_hits:
            print(f"KNOWN-FINDING: property={self.prop} {what}")
        seen = set()
        for what, path, no_input in self.violations:
            if path in seen:
                continue
            if len(seen) >= 5:
                log(f"   ... and {len(self.violations) - 5} more violation(s), see evidence")
                break
            seen.add(path)
            print(f"VIOLATION property={self.prop} replay={path}" + (" no-failing-input-found" if no_input else ""))
            log("  ", what)
        return 1 if self.violations else 0


def signature_matches(known, sig):
    """Every key of the known signature must be present in sig; strings: known value is a prefix/equal, lists: membership."""
    for k, v in known.items():
        if k not in sig:
            return False
        s = sig[k]
        if isinstance(v, list):
            if s not in v:
                return False
        elif isinstance(v, str) and isinstance(s, str):
            if k.endswith("_prefix"):
                if not s.startswith(v):
                    return False
            elif s != v:
                return False
        elif v != s:
            return False
    return True


def proof_coverage(ctx, pr, checker_cmd, trusted_extra=()):
    obs = pr["obligations"]
    ctx.coverage["obligations"] = len(obs)
    ctx.coverage["discharged"] = sum(1 for o in obs if o.get("discharged"))
    ctx.coverage["theorems"] = [{"name": o["name"], "axioms": o.get("axioms"), "discharged": o.get("discharged", False)} for o in obs]
    ctx.coverage["checker_cmd"] = checker_cmd
    ctx.coverage["proof_seconds"] = round(pr["seconds"], 1)
    ctx.coverage["trusted_base"] = [
        "Lean 4.33 kernel; axioms allowed: propext, Classical.choice, Quot.sound (audited by #print axioms on every theorem)",
        "the reading of the property as Lean statements in lean/MC/Spec and lean/MC/Props",
        "translator (python3) and harness/driver glue, cross-checked by the echo/correspondence runs of this check",
    ] + list(trusted_extra)
    if pr.get("textual_audit_hits"):
        ctx.coverage["textual_audit_hits"] = pr["textual_audit_hits"]


def strip_ids(xml):
    """Canonical MathML string with bookkeeping attributes removed (ids -> dropped, data-* dropped)."""
    xml = re.sub(r" id='[^']*'", "", xml)
    xml = re.sub(r" data-[a-zA-Z0-9_-]+='[^']*'", "", xml)
    return xml


class CheckBroken(Exception):
    pass


def need_harness(ctx):
    ok, secs, out = build_harness()
    ctx.coverage["harness_build_s"] = round(secs, 1)
    if not ok:
        raise CheckBroken("harness/repo does not compile with hooks on:\n" + out[-3000:])


def need_driver(ctx):
    ok, secs, out = lake_build(["mcmodel"])
    ctx.coverage["driver_build_s"] = round(secs, 1)
    if not ok:
        raise CheckBroken("Lean driver does not build:\n" + out[-3000:])


def rules_dir():
    return os.path.join(REPO, "Rules")


def first_leaf_text(xml):
    """Text of the first token element of a canonical MathML string."""
    import xml.etree.ElementTree as ET
    try:
        root = ET.fromstring(xml)
    except Exception:
        return None
    for e in root.iter():
        if len(e) == 0 and e.text is not None:
            return e.text
    return ""


def triple_reqs(xml):
    return [{"op": "set_mathml", "xml": xml}, {"op": "speech"}, {"op": "braille", "id": ""}]


def canon_of(reply):
    return strip_ids(reply.get("v", "")) if reply.get("r") == "ok" else {"r": reply.get("r"), "msg": (reply.get("msg") or reply.get("at") or "")[:200]}


def triple_of(replies):
    a, b, c = replies
    return (canon_of(a), b.get("v") if b.get("r") == "ok" else {"r": b.get("r"), "msg": (b.get("msg") or b.get("at") or "")[:200]},
            c.get("v") if c.get("r") == "ok" else {"r": c.get("r"), "msg": (c.get("msg") or c.get("at") or "")[:200]})


PRELUDE = None


def prelude(extra=()):
    return [{"op": "rules_dir", "dir": rules_dir()}] + list(extra)
