#!/usr/bin/env python3
"""Compare a nextest junit.xml with /root/.vp/BASELINE.json: every stable_pass test must still pass."""
import json, sys, xml.etree.ElementTree as ET
junit = sys.argv[1] if len(sys.argv) > 1 else "/repo/target/nextest/pb/junit.xml"
base = json.load(open("/root/.vp/BASELINE.json"))
stable = set(base["stable_pass"])
root = ET.parse(junit).getroot()
status = {}
for ts in root.iter("testsuite"):
    for tc in ts.iter("testcase"):
        name = tc.get("classname", "") + "::" + tc.get("name", "")
        failed = any(c.tag in ("failure", "error") for c in tc)
        status[name] = not failed
def norm(n):
    return n.replace("$", "::")
stat2 = {}
for k, v in status.items():
    stat2[k] = v
missing = [t for t in stable if t not in stat2]
bad = [t for t in stable if t in stat2 and not stat2[t]]
print(f"stable_pass={len(stable)} seen={len(stat2)} missing={len(missing)} now_failing={len(bad)}")
for t in bad[:20]:
    print("FAIL", t)
for t in missing[:5]:
    print("MISSING", t)
sys.exit(1 if bad or missing else 0)
