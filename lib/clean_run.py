"""Correspondence between the Lean skeleton of clean_mathml (MC.Clean) and the library's clean-up phase (hook H7,
`verif_clean_only`): trees over the modelled vocabulary, compared on element names, token text and `intent` presence.

Guard (what the model claims to reproduce): element names in MC.Clean.modelledEls; token text from pools that keep away
from every sibling-dependent arm of clean_mathml (see the header of MC/Model/Clean.lean); no two `mstyle` siblings next to
each other; no number folding opportunity (two `mn` in one row with nothing but white space / separators between them).
Everything else the generator writes is still sent to both sides and counted as out-of-fragment."""
import json
import xml.etree.ElementTree as ET
import core, canon_run
from mml import N

# single letters that are neither vowels, roman-numeral letters, operators, nor (in twos and threes) function names
MI = ["b", "p", "q", "r", "w", "z", "k", "β", "θ", "--", "---", "----", "...", "", " ", "\u00a0", " q ", "+", "=", "∑", "bq", "pq"]
MN = ["1", "2", "42", "-5", "−7", "-", "−", "0", "", "7"]
MO = ["+", "=", "<", "(", ")", "[", "]", "/", "×", "≤", "-", "−", "...", "::", "…", "⋯", "∞", "$", "€", " ", "  ", "", "→", "!", "∈"]
MTEXT = ["", " ", " ", "   ", "if", "--", "----", "+", "pq", "→", "w z"]
POOLS = {"mi": MI, "mn": MN, "mo": MO, "mtext": MTEXT}
FIXED2 = ["mfrac", "mroot", "msub", "msup", "munder", "mover"]
FIXED3 = ["msubsup", "munderover"]


def gen_leaf(rng):
    tag = rng.choice(["mi", "mi", "mn", "mo", "mo", "mtext"])
    return N(tag, text=rng.choice(POOLS[tag]))


def gen_degenerate(rng):
    r = rng.random()
    if r < 0.3:
        return N("mrow", attrs=({"intent": "foo"} if rng.random() < 0.2 else {}))
    if r < 0.45:
        return N(rng.choice(["mi", "mn", "mo", "mtext"]), text="")
    if r < 0.6:
        return N("mrow", [N("mrow")])
    if r < 0.7:
        return N("mspace", attrs={"width": "1em"})
    if r < 0.8:
        return N("mphantom", [gen_leaf(rng)])
    if r < 0.9:
        return N(rng.choice(["mstyle", "mpadded"]), [])
    return N("mrow", [N("mphantom", [N("mi", text="b")]), N("mtext", text=" ")])


def gen_tree(rng, depth):
    if depth <= 0:
        return gen_leaf(rng) if rng.random() < 0.85 else gen_degenerate(rng)
    d = depth - 1
    sub = lambda: gen_tree(rng, d) if rng.random() < 0.8 else gen_degenerate(rng)
    r = rng.random()
    if r < 0.30:
        a = {"intent": "foo($x)"} if rng.random() < 0.12 else {}
        return N("mrow", [sub() for _ in range(rng.choice([0, 1, 1, 2, 3, 4, 5]))], attrs=a)
    if r < 0.42:
        tag = rng.choice(FIXED2)
        return N(tag, [sub(), sub()])
    if r < 0.50:
        tag = rng.choice(FIXED3)
        return N(tag, [sub(), sub(), sub()])
    if r < 0.60:
        return N(rng.choice(["msqrt", "menclose", "merror"]), [sub() for _ in range(rng.choice([0, 1, 1, 2, 3]))])
    if r < 0.74:
        a = rng.choice([{}, {"displaystyle": "true"}, {"mathvariant": "bold"}, {"intent": "bar"}])
        return N(rng.choice(["mstyle", "mpadded"]), [sub() for _ in range(rng.choice([0, 1, 1, 1, 2, 3]))], attrs=a)
    if r < 0.82:
        return N("mphantom", [sub() for _ in range(rng.choice([0, 1, 2]))])
    if r < 0.92:
        rows, cols = rng.randrange(1, 3), rng.randrange(1, 3)
        return N("mtable", [N("mtr", [N("mtd", [sub() for _ in range(rng.choice([1, 1, 0, 2]))]) for _ in range(cols)]) for _ in range(rows)])
    # scripts whose parts all vanish
    tag = rng.choice(["msub", "msup", "msubsup"])
    blank = lambda: rng.choice([N("mrow"), N("mtext", text=" "), N("mphantom", [N("mi", text="q")]), N("mi", text=""), sub()])
    return N(tag, [blank() for _ in range(3 if tag == "msubsup" else 2)])


def gen_math(rng):
    t = N("math", [gen_tree(rng, rng.randrange(1, 5)) for _ in range(rng.choice([1, 1, 1, 2, 3, 0]))])
    # author ids (distinct) on a share of the elements: the lifts merge attributes (add_attrs), everything else carries or drops them with the element
    mode = rng.random()
    if mode < 0.6:
        k = 0
        for x in t.walk():
            if rng.random() < (0.5 if mode < 0.4 else 1.0):
                x.attrs["id"] = "a%d" % k
                k += 1
            if x.tag in ("mrow", "mstyle", "mpadded") and rng.random() < 0.15:
                x.attrs[rng.choice(["mathcolor", "data-x", "width", "onclick", "class"])] = "v"
    return t


WS = set("\t\n\x0b\x0c\r \x85\xa0                　")


def in_guard(n):
    """python side of the guard: sibling patterns the model leaves out"""
    why = []

    def rec(x):
        prev = None
        mn_seen_since_break = False
        for k in x.kids:
            if k.tag in ("mstyle",) and prev is not None and prev.tag in ("mstyle", "mpadded") and x.tag not in FIXED2 + FIXED3:
                why.append("adjacent mstyle")
            prev = k
        # number folding: two mn in one row separated only by white space, or an mn next to a white-space token
        seq = [(k.tag, k.text) for k in x.kids]
        for i, (tag, text) in enumerate(seq):
            if tag == "mn":
                for j in range(i + 1, len(seq)):
                    t2, x2 = seq[j]
                    if t2 == "mn":
                        why.append("mn .. mn")
                        break
                    if (t2 in ("mtext", "mo", "mi") and x2 is not None and x2 != "" and all(c in WS for c in x2)) or t2 == "mspace":
                        continue
                    break
        # merge_chars(IS_UNDERSCORE): neighbouring leaves made of no-break spaces / underscores are merged before the loop
        us = [k.text is not None and k.text.strip(" \t\n\r") != "" and all(c in "_\u00a0" for c in k.text.strip(" \t\n\r")) for k in x.kids]
        if any(a and b for a, b in zip(us, us[1:])):
            why.append("neighbouring no-break-space / underscore leaves")
        for k in x.kids:
            rec(k)
    rec(n)
    return why


LEAFS = {"mi", "mo", "mn", "mtext", "ms", "mspace", "mglyph", "none"}
ROWLIKE = {"mrow", "math", "msqrt", "merror", "mpadded", "mphantom", "menclose", "mtd", "mscarry"}


def out_guard(shape):
    """on the model's output: a script with an empty base in a row is what handle_convert_to_mmultiscripts rewrites (not modelled)"""
    why = []

    def empty(j):
        if isinstance(j, str):
            return False
        if j["n"] in LEAFS:
            return all(isinstance(k, str) and all(c in WS for c in k) for k in j["c"])
        return j["n"] == "mrow" and not j["c"] and not j["i"]

    def rec(j):
        if isinstance(j, str):
            return
        if j["n"] in ROWLIKE:
            for k in j["c"]:
                if not isinstance(k, str) and k["n"] in ("msub", "msup", "msubsup") and k["c"] and empty(k["c"][0]):
                    why.append("script with an empty base in a row")
        for k in j["c"]:
            rec(k)
    if shape is not None:
        rec(shape)
    return why


def shape_of_xml(xml):
    """names + token text + intent presence of the library's output"""
    try:
        root = ET.fromstring(xml)
    except Exception:
        return None

    def rec(e):
        tag = e.tag.split("}")[-1]
        kids = []
        if e.text and (len(e) == 0):
            kids.append(e.text)
        for c in e:
            kids.append(rec(c))
        return {"n": tag, "i": "intent" in e.attrib, "id": e.attrib.get("id"), "c": kids}
    return rec(root)


def norm_shape(j):
    if isinstance(j, str):
        return j
    kids = [norm_shape(k) for k in j["c"]]
    # a leaf's text children joined; white-space-only text directly inside containers does not occur after trim_element
    if kids and all(isinstance(k, str) for k in kids):
        kids = ["".join(kids)]
    return {"n": j["n"], "i": bool(j["i"]), "id": j.get("id"), "c": kids}


def run(ctx, im, mo, n_trees, extra=()):
    """returns (results, stats). Each result: {"xml", "in_guard", "model", "impl", "agree"}"""
    rng = ctx.rng
    pre = [{"op": "session"}, {"op": "rules_dir", "dir": core.rules_dir()}, {"op": "set_pref", "name": "Chemistry", "value": "Off"}]
    trees = list(extra) + [gen_math(rng) for _ in range(n_trees)]
    xmls = [canon_run.to_xml(t) for t in trees]
    reps = im.run(pre + [{"op": "hook", "which": "clean_only", "xml": x} for x in xmls], prelude=pre)[len(pre):]
    mreqs = [{"op": "clean", "inp": canon_run.xml_to_json(x)} for x in xmls]
    mreps = mo.run(mreqs)
    out = []
    for t, x, r, m in zip(trees, xmls, reps, mreps):
        why = in_guard(t)
        mv = m.get("v") if m.get("r") == "ok" else None
        item = {"xml": x, "guard_py": list(why), "impl": r, "model": mv, "lines": pre[1:] + [{"op": "hook", "which": "clean_only", "xml": x}]}
        if mv is None:
            item["agree"] = None
        else:
            why += out_guard(mv["out"])
            if mv.get("restarts"):
                why.append("a parent's loop restarts (second cleaning pass)")
            item["in_guard"] = (not why) and mv["vocab"]
            item["why_out"] = sorted(set(why)) + ([] if mv["vocab"] else ["element outside the modelled vocabulary"])
            item["shape_in"] = norm_shape(mv["shape_in"])
            if r.get("r") == "ok":
                item["impl_shape"] = norm_shape(shape_of_xml(r["v"]))
                item["model_shape"] = norm_shape(mv["out"]) if mv["out"] is not None else None
                item["agree"] = item["impl_shape"] == item["model_shape"]
            else:
                item["agree"] = False
                item["impl_shape"] = None
                item["model_shape"] = norm_shape(mv["out"]) if mv["out"] is not None else None
        out.append(item)
    return out


def reason_counts(results):
    c = {}
    for r in results:
        for w in r.get("why_out", []):
            c[w] = c.get(w, 0) + 1
    return c
