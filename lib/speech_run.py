"""Shared run for C04 / C05: expressions x language x style x verbosity through the real library (TTS=None), with the
H5 join log of every speech call replayed through the Lean model MC.Speech (joinArray / finalize)."""
import json, os, re
import core, mml
from mml import N, mi, mn, mo, mrow, el

LANGS = ["en", "en-gb", "es", "fi", "id", "sv", "vi", "zh-tw"]
STYLES = ["ClearSpeak", "SimpleSpeak"]
VERBOSITY = ["Terse", "Medium", "Verbose"]


def languages():
    """language codes present in /repo/Rules/Languages (regional sub-directories become xx-yy); zz is the test language"""
    base = os.path.join(core.rules_dir(), "Languages")
    out = []
    for d in sorted(os.listdir(base)):
        p = os.path.join(base, d)
        if not os.path.isdir(p) or d == "zz":
            continue
        if os.path.exists(os.path.join(p, "ClearSpeak_Rules.yaml")):
            out.append(d)
        for sub in sorted(os.listdir(p)):
            if os.path.isdir(os.path.join(p, sub)) and sub != "SharedRules":
                out.append(d + "-" + sub)
    return out + ["es-mx", "en-za", "sv-fi", "fi-se", "id-sg", "vi-cy"]      # regional tags without a directory: same rules, some with the other decimal mark


def operand_positions(rng, depth):
    """textbook-grammar expression; every operand position holds a placeholder <mn>@</mn> to be filled with a literal"""
    P = lambda: mn("@")
    if depth <= 0:
        return P() if rng.random() < 0.75 else mi(rng.choice(mml.LETTERS))
    d = depth - 1
    sub = lambda: operand_positions(rng, d if rng.random() < 0.7 else 0)
    r = rng.random()
    if r < 0.18:
        kids = [sub()]
        for _ in range(rng.randrange(1, 4)):
            kids += [mo(rng.choice(["+", "-", "=", "<", "×", "·", "≤", ",", "±"])), sub()]
        return mrow(*kids)
    if r < 0.28:
        return el("mfrac", sub(), sub())
    if r < 0.34:
        return el("msqrt", sub())
    if r < 0.39:
        return el("mroot", sub(), P())
    if r < 0.49:
        return el("msup", sub() if rng.random() < 0.5 else mi("x"), sub())
    if r < 0.56:
        return el("msub", mi(rng.choice("xyzab")), sub())
    if r < 0.61:
        return el("msubsup", mi(rng.choice("xyzab")), P(), sub())
    if r < 0.67:
        return mrow(mo("("), sub(), mo(")"))
    if r < 0.72:
        return mrow(mi(rng.choice(["sin", "cos", "log", "f", "ln"])), mo("⁡"), mrow(mo("("), sub(), mo(")")))
    if r < 0.78:
        # a large operator with both limits; the lower limit is not always `k = value` (rules that look at its shape must still speak it)
        low = rng.choice([lambda: mrow(mi("k"), mo("="), P()), lambda: mrow(mi("k"), mo("="), P()), lambda: P(), lambda: mrow(mi("k"), mo(rng.choice(["≥", ">", "∈", "<", "≠"])), P()),
                          lambda: mrow(mi("a"), mo(rng.choice(["+", "-"])), P()), lambda: mrow(P(), mi("k")), lambda: mrow(P(), mo("="), mi("k")), lambda: mrow(mo("-"), P()), sub])()
        return mrow(el(rng.choice(["munderover", "munderover", "msubsup"]), mo(rng.choice(["∑", "∏", "∫", "⋃"])), low, sub()), sub())
    if r < 0.80:
        return mrow(el("munder", mo("lim"), mrow(mi("x"), mo("→"), P())), sub())
    if r < 0.82:
        # under/over scripts of an ordinary base
        return rng.choice([lambda: el("munderover", mi(rng.choice("xyz")), P(), sub()), lambda: el("munder", sub(), P()), lambda: el("mover", mi(rng.choice("xyz")), P()),
                           lambda: el("munderover", sub(), sub(), P())])()
    if r < 0.87:
        rows, cols = rng.randrange(1, 3), rng.randrange(1, 4)
        return mrow(mo(rng.choice("([|")), el("mtable", *[el("mtr", *[el("mtd", sub() if rng.random() < 0.3 else P()) for _ in range(cols)]) for _ in range(rows)]), mo(rng.choice(")]|")))
    if r < 0.90:
        return mrow(mo("|"), sub(), mo("|"))
    if r < 0.93:
        return mrow(mo("-"), sub())
    if r < 0.95:
        return mrow(sub(), mo("!"))
    if r < 0.97:
        return el("mover", sub(), mo(rng.choice(["¯", "^", "→"])))
    if r < 0.975:
        return mrow(P(), sub())            # implied times with a number
    if r < 0.982:
        return mrow(el(rng.choice(["msub", "msup"]), mi(rng.choice("xyzab")), P()), P(), sub())      # a numeric script directly followed by a number
    if r < 0.99:
        # a power / index on a function name (the rules speak small integer powers as ordinals)
        tag = rng.choice(["msup", "msup", "msub", "msubsup"])
        return mrow(el(tag, mi(rng.choice(["sin", "cos", "tan", "log", "ln", "f"])), *([P(), P()] if tag == "msubsup" else [P()])), mo("⁡"), sub())
    return el("mmultiscripts", mi("C"), P(), N("none"), N("mprescripts"), P(), N("none"))


def plant(rng, tree, dec, integers=0.0):
    """fill the placeholders with distinct literals: decimals written with the decimal mark `dec`, and (with probability
    `integers`) distinct 2-4 digit integers none of which is a part of another; returns the literals"""
    lits, used, ints = [], set(), []
    for x in tree.walk():
        if x.tag == "mn" and x.text in ("@", "#"):
            if x.text == "#" or rng.random() < integers:        # '#': always an integer (rules that only fire for integers)
                while True:
                    v = str(rng.choice([rng.randrange(12, 99), rng.randrange(102, 999), rng.randrange(1023, 9999)]))
                    if "0" not in v[-1:] and not any(v in o or o in v for o in ints) and not any(v in l for l in lits):
                        ints.append(v)
                        break
                x.text = v
                lits.append(v)
                continue
            while True:
                a, b = rng.randrange(11, 99), rng.randrange(11, 99)
                if (a, b) not in used and b % 10 != 0 and not any(i in f"{a}{dec}{b}" for i in ints):
                    used.add((a, b))
                    break
            x.text = f"{a}{dec}{b}"
            lits.append(x.text)
    return lits


FIXED = [
    lambda: mrow(el("munderover", mi("x"), mn("@"), mn("@")), mo("+"), el("munder", mi("y"), mn("@")), mo("+"), el("mover", mi("z"), mn("@"))),
    lambda: mrow(el("msub", mi("x"), mn("@")), mn("@")), lambda: mrow(el("msup", mi("x"), mn("@")), mn("@"), mi("y")), lambda: mrow(mn("@"), el("msub", mi("a"), mn("@")), mn("@")),
    lambda: mrow(el("msubsup", mi("x"), mn("@"), mn("@")), mn("@")), lambda: mrow(mn("@"), mo("("), mn("@"), mo(")"), mn("@")),
    lambda: el("msup", mi("x"), mrow(mn("@"), mo("⁢"), el("mfrac", mrow(mi("a"), mo("+"), mn("@")), mrow(mi("c"), mo("+"), mn("@"))))),
    lambda: mrow(el("munder", mo("lim"), mrow(mi("x"), mo("→"), mn("@"))), el("mfrac", mrow(mi("f"), mo("⁡"), mrow(mo("("), mi("x"), mo(")")), mo("-"), mn("@")), mrow(mi("x"), mo("-"), mn("@")))),
    lambda: mrow(mn("@"), mo("+"), el("msup", mi("x"), mn("@")), mo("+"), el("mfrac", mn("@"), mn("@")), mo("+"), el("msqrt", mn("@"))),
    lambda: mrow(mo("("), el("mtable", el("mtr", el("mtd", mn("@")), el("mtd", mn("@"))), el("mtr", el("mtd", mn("@")), el("mtd", mn("@")))), mo(")")),
    lambda: el("msubsup", mi("x"), mn("@"), mn("@")),
    lambda: mrow(el("munderover", mo("∑"), mrow(mi("k"), mo("="), mn("@")), mn("@")), el("msup", mi("k"), mn("@"))),
    lambda: mrow(el("msubsup", mo("∫"), mrow(mi("a"), mo("+"), mn("@")), mn("@")), mi("f"), mo("⁡"), mrow(mo("("), mn("@"), mo(")")), mi("d"), mi("x")),
    lambda: mrow(el("munderover", mo("∏"), mrow(mn("@"), mi("k")), mrow(mi("n"), mo("+"), mn("@"))), mi("k")),
    lambda: mrow(el("munderover", mo("∑"), mrow(mi("k"), mo("≥"), mn("@")), mn("@")), el("msub", mi("a"), mi("k"))),
    lambda: mrow(el("munder", mo("∑"), mrow(mi("k"), mo("<"), mn("@"))), mi("k"), mo("+"), el("msub", mo("∫"), mrow(mn("@"), mi("b"))), mi("x")),
    # chains of one operator over plain integers: a rule written for `a op b` must not swallow the rest of the row
    lambda: mrow(mn("#"), mo(":"), mn("#"), mo(":"), mn("#")), lambda: mrow(mn("#"), mo("÷"), mn("#"), mo("÷"), mn("#")), lambda: mrow(mn("#"), mo("/"), mn("#"), mo("/"), mn("#")),
    lambda: mrow(mo("-"), mn("#"), mo("/"), mn("#"), mo("+"), mn("#"), mo("/"), mn("#")), lambda: mrow(mn("#"), mo("/"), mn("#"), mi("x")),
    lambda: el("mroot", mrow(mi("x"), mo("+"), mn("@")), mn("@")),
    lambda: mrow(mi("sin"), mo("⁡"), mrow(mo("("), mn("@"), mi("x"), mo(")"))),
    lambda: el("mfrac", el("mfrac", mn("@"), mn("@")), el("msup", mn("@"), mn("@"))),
    lambda: mrow(el("msup", mi("sin"), mn("@")), mo("⁡"), mi("x"), mo("+"), el("msup", mi("log"), mn("@")), mo("⁡"), mrow(mo("("), mn("@"), mo(")")), mo("+"), el("msub", mi("log"), mn("@")), mo("⁡"), mi("y")),
]


def configs(ctx, langs, extra_prefs=((),)):
    out = []
    for l in langs:
        for st in STYLES:
            for v in VERBOSITY:
                for ex in extra_prefs:
                    out.append({"Language": l, "SpeechStyle": st, "Verbosity": v, **dict(ex)})
    return out


def run_config(im, cfg, xmls, want_log=True, overview=False):
    """returns (decimal mark, [dict(xml, set, speech, log)])"""
    pre = core.prelude([{"op": "set_pref", "name": "TTS", "value": "None"}] + [{"op": "set_pref", "name": k, "value": v} for k, v in cfg.items()])
    reqs = [{"op": "session"}] + pre + [{"op": "get_pref", "name": "DecimalSeparators"}]
    for x in xmls:
        reqs += [{"op": "set_mathml", "xml": x}, {"op": "hook", "which": "join_log"}, {"op": "overview" if overview else "speech"}, {"op": "hook", "which": "join_log"}]
    rep = im.run(reqs, prelude=pre)
    base = 1 + len(pre)
    dec = rep[base].get("v", ".") if rep[base].get("r") == "ok" else "."
    out = []
    for i, x in enumerate(xmls):
        a = rep[base + 1 + 4 * i: base + 1 + 4 * i + 4]
        if len(a) < 4:
            break
        out.append({"xml": x, "set": a[0], "speech": a[2], "log": a[3].get("v", []) if a[3].get("r") == "ok" else [],
                    "lines": pre + [{"op": "set_mathml", "xml": x}, {"op": "overview" if overview else "speech"}]})
    return dec, pre, out


HYP = {"joins": 0, "auto_ok_false": 0, "front_clean_false": 0, "panic_branch": 0}


def replay_logs(mo, pf, items):
    """run every logged join through the model; returns (n_entries, disagreements, per-item list of dropped pairs, final disagreements)"""
    reqs, idx = [], []
    for k, it in enumerate(items):
        for e in it["log"]:
            if e[0]:
                reqs.append({"op": "speech_join", "pf": pf, "inputs": e[0]})
                idx.append((k, e, "join"))
            else:
                reqs.append({"op": "speech_final", "s": e[1]})
                idx.append((k, e, "final"))
    rep = mo.run(reqs)
    dis = []
    for it in items:
        it["dropped"] = []
        it["model_panic"] = False
        it["n_join"] = 0
    for (k, e, kind), r in zip(idx, rep):
        it = items[k]
        if kind == "join":
            it["n_join"] += 1
            v = r.get("v") or {}
            if r.get("r") != "ok" or v.get("out") != e[1]:
                dis.append({"kind": "join", "inputs": e[0], "impl": e[1], "model": v.get("out"), "lines": it["lines"]})
            it["dropped"] += v.get("dropped", [])
            it["model_panic"] = it["model_panic"] or bool(v.get("panic"))
            HYP["joins"] += 1
            HYP["auto_ok_false"] += 0 if v.get("auto_ok", True) else 1
            HYP["front_clean_false"] += 0 if v.get("front_clean", True) else 1
            HYP["panic_branch"] += 1 if v.get("panic") else 0
        else:
            sp = it["speech"]
            if sp.get("r") == "ok" and r.get("v") != sp["v"]:
                dis.append({"kind": "final", "input": e[1], "impl": sp["v"], "model": r.get("v"), "lines": it["lines"]})
    return len(reqs), dis
