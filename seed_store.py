#!/usr/bin/env python3
"""seed_store.py <Cnn> <n> <diff> <agent_json> <checks...> : apply the seeded change to /repo, run the checks, store
patch / meta / demonstration under /verif/seeded/<Cnn>/, undo the change."""
import json, os, shutil, subprocess, sys, re
pid, n, diff, meta = sys.argv[1:5]
checks = sys.argv[5:] or [pid]
d = f"/verif/seeded/{pid}"
os.makedirs(d, exist_ok=True)
suffix = "" if n == "1" else f"_{n}"
assert subprocess.run(["git", "-C", "/repo", "status", "--short", "--untracked-files=no"], capture_output=True, text=True).stdout.strip() == "", "/repo not clean"
subprocess.run(["git", "-C", "/repo", "apply", diff], check=True)
results = {}
demo = []
try:
    for c in checks:
        p = subprocess.run(["./check", c, "--tier", os.environ.get("TIER", "quick")], cwd="/verif", capture_output=True, text=True)
        out = p.stdout + p.stderr
        vio = [l for l in out.splitlines() if l.startswith("VIOLATION")]
        results[c] = {"exit": p.returncode, "violations": len(vio), "no_failing_input_found": sum("no-failing-input-found" in l for l in vio),
                      "first": next((l[:600] for l in out.splitlines() if l.startswith("[check]    ")), "")}
        demo.append(f"$ ./check {c} --tier quick   (with the seeded change applied to /repo)\nexit {p.returncode}\n" + "\n".join(l[:700] for l in out.splitlines() if l.startswith(("VIOLATION", "[check]    ", "KNOWN-FINDING")))[:6000])
        m = re.search(r"replay=(\S+)", vio[0]) if vio else None
        if m and os.path.exists(m.group(1)):
            shutil.copy(m.group(1), os.path.join(d, f"replay{suffix}_{c}.json"))
finally:
    subprocess.run(["git", "-C", "/repo", "checkout", "--", "."], check=True)
shutil.copy(diff, os.path.join(d, f"patch{suffix}.diff"))
a = json.load(open(meta))
a = {"property": pid, "seed": int(n), "origin": "fresh sub-agent given only the property text and a scratch worktree; confirmed by applying the patch to /repo and running the checks", **a,
     "check_results": results, "caught": any(r["exit"] == 1 and r["violations"] > 0 for r in results.values())}
json.dump(a, open(os.path.join(d, f"meta{suffix}.json"), "w"), indent=1, ensure_ascii=False)
open(os.path.join(d, f"demonstration{suffix}.txt"), "w").write("\n\n".join(demo) + "\n")
print(pid, n, json.dumps(results)[:600])
