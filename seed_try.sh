#!/bin/bash
# usage: seed_try.sh <diff> <Cnn> [more Cnn...]   -- apply a seeded change to /repo, run the checks, undo it
d=$1; shift
cd /verif
git -C /repo status --short | grep -v '^??' | head -3
git -C /repo apply "$d" || { echo "APPLY FAILED"; exit 2; }
for p in "$@"; do
  ./check $p --tier ${TIER:-quick} > build/seed_out_$p.txt 2>&1
  echo "$p rc=$? violations=$(grep -c '^VIOLATION' build/seed_out_$p.txt) nfi=$(grep -c 'no-failing-input-found' build/seed_out_$p.txt)"
  grep -m2 '^\[check\]    ' build/seed_out_$p.txt | cut -c1-400
done
git -C /repo checkout -- . ; git -C /repo status --short | grep -v '^??' | head -3
