#!/bin/bash
# Build the framework from files on disk only (offline): the Rust harness against /repo with hooks on,
# the translator output, and the whole Lean project (all property theorems + the model driver).
set -e
cd "$(dirname "$0")"
mkdir -p build/home/.config build/replays evidence
export CARGO_NET_OFFLINE=true
python3 - <<'PY'
import sys, os
sys.path.insert(0, "lib"); sys.path.insert(0, "translator")
import core
ok, secs, out = core.build_harness()
print(f"harness build ok={ok} {secs:.1f}s")
if not ok:
    print(out[-4000:]); sys.exit(1)
import gen_all
gen_all.main()
ok, secs, out = core.lake_build([])
print(f"lake build ok={ok} {secs:.1f}s")
if not ok:
    print(out[-6000:]); sys.exit(1)
PY
