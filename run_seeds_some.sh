#!/bin/bash
# usage: run_seeds_some.sh "C01 C02 ..." seed...   -- selected quick checks under several seeds
cd "$(dirname "$0")"
props=$1; shift
for seed in "$@"; do
  for p in $props; do
    VERIF_SEED=$seed ./check $p --tier quick > build/seedrun_${seed}_$p.txt 2>&1
    rc=$?
    v=$(grep -c '^VIOLATION' build/seedrun_${seed}_$p.txt)
    if [ $rc -ne 0 ] || [ $v -ne 0 ]; then echo "seed=$seed $p rc=$rc violations=$v"; grep -m2 '^\[check\]    ' build/seedrun_${seed}_$p.txt | cut -c1-400; fi
  done
  echo "seed $seed done"
done
