#!/bin/bash
# run every check of MANIFEST.json (quick tier unless $1 says otherwise) and summarise
cd "$(dirname "$0")"
tier=${1:-quick}
for p in C01 C02 C03 C04 C05 C06 C07 C08 C09 C10 C11 C12 C13 C14 C15 C16 C17 C18 C19 C20; do
  s=$(date +%s)
  ./check $p --tier $tier > build/out_$p.txt 2>&1
  rc=$?
  echo "$p rc=$rc $(( $(date +%s) - s ))s violations=$(grep -c '^VIOLATION' build/out_$p.txt) known=$(grep -c '^KNOWN-FINDING' build/out_$p.txt)"
done
