"""C05 — speech is clean, non-empty text in every language."""
import json, re
import core, mml, speech_run
from mml import N, mi, mn, mo, mrow, el, mtext

# characters: in unicode.yaml, only in unicode-full.yaml, in no table at all, invisible operators, NBSP
ODD_CHARS = ["∀", "∃", "ℵ", "⊕", "⊗", "∮", "⋉", "⨁", "⟹", "↦", "ℏ", "∂", "∇", "√", "∞", "≅", "≢", "⊢", "⊨", "⌈", "⌋", "⟦", "𝔸", "𝒜", "𝕜", "𝛼", "Ω", "ж", "ש", "あ", "字", "☃", "🙂", "ʘ",
             "͸", "⁥", "", "\U000F0000", " ", "⁡", "⁢", "⁣", "⁤", "​", "­", "ﬁ", "ǆ", "͵", "‰", "№", "℃", "㎏"]
CAP_PREFS = [(), (("SpeechOverrides_CapitalLetters", "cap"),), (("ClearSpeak_CapitalLetters", "SayCaps"),), (("SpeechOverrides_CapitalLetters", ""), ("Impairment", "LearningDisability")),
             (("Impairment", "LowVision"),), (("Bookmark", "true"),), (("Bookmark", "true"), ("CapitalLetters_Pitch", "20"), ("CapitalLetters_Beep", "true")), (("MathRate", "150"), ("PauseFactor", "300")),
             (("CapitalLetters_UseWord", "false"), ("CapitalLetters_Pitch", "30"))]
WALK = ["ZoomIn", "ReadCurrent", "MoveNext", "DescribeCurrent", "MoveNext", "ZoomIn", "WhereAmI", "MovePrevious", "ZoomOut", "MoveNext", "ReadNext", "ZoomInAll", "MovePrevious", "ZoomOutAll", "MoveEnd", "MoveStart"]
WALK_EXPRS = ["<math><msubsup><mi>x</mi><mn>1</mn><mn>2</mn></msubsup><mo>+</mo><mn>1</mn></math>", "<math><mfrac><mrow><mi>a</mi><mo>+</mo><mn>1</mn></mrow><msqrt><mi>b</mi></msqrt></mfrac><mo>=</mo><msup><mi>c</mi><mn>2</mn></msup></math>",
              "<math><mrow><mo>(</mo><mtable><mtr><mtd><mn>1</mn></mtd><mtd><mn>2</mn></mtd></mtr><mtr><mtd><mn>3</mn></mtd><mtd><mn>4</mn></mtd></mtr></mtable><mo>)</mo></mrow><mi>x</mi></math>",
              "<math><mrow><munderover><mo>∑</mo><mrow><mi>k</mi><mo>=</mo><mn>1</mn></mrow><mi>n</mi></munderover><msub><mi>a</mi><mi>k</mi></msub></mrow><mo>⊕</mo><mi>ℵ</mi></math>",
              "<math><mrow><mi>sin</mi><mo>⁡</mo><mrow><mo>(</mo><mi>x</mi><mo>)</mo></mrow></mrow><mo>+</mo><mmultiscripts><mi>C</mi><mn>2</mn><none/><mprescripts/><mn>4</mn><none/></mmultiscripts></math>"]
NAV = ["ZoomIn", "MoveNext", "ReadNext", "DescribeCurrent", "ReadCurrent", "WhereAmI", "WhereAmIAll", "ZoomOutAll", "MoveLineEnd", "ToggleSpeakMode", "MovePrevious"]

BAD = re.compile("[-\U000F0000-\U000FFFFD\U00100000-\U0010FFFD]")


def dirty(s, src):
    """marker / markup classes found in a speech string (characters that are already in the input are not the library's)"""
    out = []
    for m in BAD.findall(s):
        if m not in src:
            out.append("private-use U+%04X" % ord(m))
    if ("[[" in s and "[[" not in src) or ("]]" in s and "]]" not in src):
        out.append("navigation brackets")
    for c in "⁡⁢⁣⁤":
        if c in s:
            out.append("raw invisible operator U+%04X" % ord(c))
    if re.search(r"<[a-zA-Z/!?]", s) and "<" not in src.replace("<m", "").replace("</m", ""):
        out.append("markup")
    return sorted(set(out))


def corpus(rng, n):
    out = [t for t in mml.corpus_basic()]
    for _ in range(n):
        t = mml.gen_expr(rng, rng.randrange(1, 4))
        leaves = [x for x in t.walk() if x.text is not None]
        for x in rng.sample(leaves, min(len(leaves), rng.randrange(1, 3))):
            c = rng.choice(ODD_CHARS)
            if x.tag == "mn":
                x.tag = "mi"
            x.text = c if rng.random() < 0.7 else (rng.choice(["a", "X", "sin"]) + c)
        if rng.random() < 0.3:
            for x in rng.sample(leaves, 1):
                x.text = rng.choice(["A", "B", "X", "Γ", "Δ", "ABC", "Na"])
        if rng.random() < 0.15:
            t = mrow(t, mo(rng.choice(ODD_CHARS)), mtext(rng.choice(["if x", "and", "a b", "für", "x⁢y"])))
        out.append(mml.math(t))
    return out


INVISIBLE = re.compile(r"[\s\u00a0\u2061-\u2064\u200b-\u200f\u00ad\u2060\ufeff\ue000-\uf8ff\U000F0000-\U0010FFFD]")
KEY = re.compile(r'^\s*-\s*"((?:[^"\\]|\\.)+)"\s*:', re.M)


def table_chars(path):
    """the characters a Unicode table has an entry for (both ends of a range entry)"""
    try:
        with open(path, encoding="utf-8") as f:
            text = f.read()
    except OSError:
        return []
    out = []
    for k in KEY.findall(text):
        try:
            k = json.loads('"' + k + '"')
        except ValueError:
            continue
        cs = list(k)
        if len(cs) == 3 and cs[1] == "-":
            out += [cs[0], cs[2]]
        elif len(cs) == 1:
            out.append(cs[0])
    return [c for c in dict.fromkeys(out) if not INVISIBLE.match(c) and c not in "<&"]


def table_sweep(ctx, im, oracle_fail):
    """every character that a language's Unicode tables pronounce, alone in a token, at every verbosity: it must be spoken as
    words (a character that is silent at one verbosity drops an operator or a relation from every expression that uses it)"""
    rng = ctx.rng
    n = 0
    per_lang = {}
    base = core.rules_dir() + "/Languages/"
    for lang in [l for l in speech_run.languages() if "-" not in l or l in ("en-gb", "zh-tw")]:
        d = base + lang.replace("-", "/") + "/"
        short = table_chars(d + "unicode.yaml") or table_chars(base + lang.split("-")[0] + "/unicode.yaml")
        full = [c for c in (table_chars(d + "unicode-full.yaml") or table_chars(base + lang.split("-")[0] + "/unicode-full.yaml")) if c not in short]
        if ctx.tier == "quick":
            full = rng.sample(full, min(len(full), 150))
        chars = short + full
        per_lang[lang] = len(chars)
        for verb in speech_run.VERBOSITY:
            cfg = {"Language": lang, "SpeechStyle": "ClearSpeak", "Verbosity": verb}
            pre = core.prelude([{"op": "set_pref", "name": "TTS", "value": "None"}] + [{"op": "set_pref", "name": k, "value": v} for k, v in cfg.items()])
            reqs = [{"op": "session"}] + pre
            xmls = ["<math><mi>x</mi><mo>%s</mo><mi>y</mi></math>" % c if k % 2 else "<math><mo>%s</mo></math>" % c for k, c in enumerate(chars)]
            for x in xmls:
                reqs += [{"op": "set_mathml", "xml": x}, {"op": "speech"}]
            rep = im.run(reqs, prelude=pre)[1 + len(pre):]
            for k, (c, x) in enumerate(zip(chars, xmls)):
                st, sp = rep[2 * k: 2 * k + 2] if len(rep) >= 2 * k + 2 else ({}, {})
                lines = pre + [{"op": "set_mathml", "xml": x}, {"op": "speech"}]
                if st.get("r") != "ok":
                    continue
                n += 1
                if sp.get("r") != "ok":
                    oracle_fail.append({"why": "speech fails: " + (sp.get("msg") or sp.get("r") or "")[-80:], "config": cfg, "xml": x, "reply": sp, "lines": lines})
                    continue
                words = re.sub(r"[\s,;.]", "", sp["v"])
                if k % 2:
                    words = words.replace("x", "", 1).replace("y", "", 1)
                d = dirty(sp["v"], x)
                if d:
                    oracle_fail.append({"why": "speech contains " + ", ".join(d), "config": cfg, "xml": x, "speech": sp["v"], "lines": lines})
                elif not words:
                    oracle_fail.append({"why": "a character of the language's Unicode table is not spoken at this verbosity", "char": "U+%04X" % ord(c), "config": cfg, "xml": x, "speech": sp["v"], "lines": lines})
    return n, per_lang


def run(ctx):
    pr = core.prove("C05")
    core.proof_coverage(ctx, pr, "lake build MC.Props.C05 && lake env lean build/audit_C05.lean (#print axioms)", [
        "modelled, not verified: the string half of speech generation for TTS=None (MC.Speech.joinArray / finalize, as for C04), tied to the code by replaying every join logged by hook H5",
        "not modelled: replace_chars / the Unicode tables (which words a character is spoken as), the rule files: that a rule's literal text is marker-free and that every character finds a "
        "pronunciation is checked on the implementation over every language x style x verbosity x capital-letter preference, with characters from unicode.yaml, only from unicode-full.yaml and from no table",
        "input that itself contains private-use characters, '[[' or '<' is not held against the library (those characters are excluded from the claim when they occur in the input)"])
    core.need_harness(ctx)
    core.need_driver(ctx)
    im, mo = core.impl(), core.model()
    rng = ctx.rng
    langs = speech_run.languages()
    cfgs = []
    for l in langs:
        for st in speech_run.STYLES:
            for v in speech_run.VERBOSITY:
                cfgs.append({"Language": l, "SpeechStyle": st, "Verbosity": v, **dict(rng.choice(CAP_PREFS))})
    n_random = 20 if ctx.tier == "quick" else 200
    oracle_fail, disagreements = [], []
    n_speech = n_entries = n_nav = n_overview = 0
    kinds = {}
    odd_seen = set()
    for cfg in cfgs:
        trees = corpus(rng, n_random)
        xmls = [mml.to_xml(t, ns_decl=False) for t in trees]
        dec, pre, items = speech_run.run_config(im, cfg, xmls)
        ne, dis = speech_run.replay_logs(mo, int(cfg.get("PauseFactor", 100)), items)
        n_entries += ne
        disagreements += [dict(d, config=cfg) for d in dis]
        for it in items:
            if it["set"].get("r") != "ok":
                continue
            sp = it["speech"]
            src = it["xml"]
            # visible content: something other than white space, invisible operators, zero-width and soft-hyphen characters
            visible = re.sub(r"[\s\u00a0\u2061-\u2064\u200b-\u200f\u00ad\u2060\ufeff]", "", re.sub(r"<[^>]*>", "", src)) != ""
            for c in ODD_CHARS:
                if c in src:
                    odd_seen.add(c)
            if sp.get("r") != "ok":
                oracle_fail.append({"why": "speech fails: " + (sp.get("msg") or sp.get("r") or "")[-80:], "config": cfg, "xml": src, "reply": sp, "lines": it["lines"]})
                continue
            n_speech += 1
            d = dirty(sp["v"], src)
            if d:
                oracle_fail.append({"why": "speech contains " + ", ".join(d), "config": cfg, "xml": src, "speech": sp["v"], "lines": it["lines"]})
            elif visible and not re.sub(r"[\s,;.]", "", sp["v"]):      # (a character of no table is passed through as itself: that is content)
                oracle_fail.append({"why": "speech has no words for an expression with visible content", "config": cfg, "xml": src, "speech": sp["v"], "lines": it["lines"]})
        # overview and navigation speech for a few expressions of this configuration
        sub = xmls[:4]
        _, _, ov = speech_run.run_config(im, cfg, sub, overview=True)
        for it in ov:
            sp = it["speech"]
            if it["set"].get("r") == "ok" and sp.get("r") == "ok":
                n_overview += 1
                d = dirty(sp["v"], it["xml"])
                if d:
                    oracle_fail.append({"why": "overview contains " + ", ".join(d), "config": cfg, "xml": it["xml"], "speech": sp["v"], "lines": it["lines"]})
        for x in sub[:2] + WALK_EXPRS:
            cmds = [rng.choice(NAV) for _ in range(5)] if x not in WALK_EXPRS else WALK
            lines = pre + [{"op": "set_mathml", "xml": x}] + [{"op": "nav", "cmd": c} for c in cmds]
            rep = im.run([{"op": "session"}] + lines)[1:]
            for q, r in zip(lines, rep):
                if q["op"] == "nav" and r.get("r") == "ok":
                    n_nav += 1
                    d = dirty(r["v"], x)
                    if d:
                        oracle_fail.append({"why": "navigation speech contains " + ", ".join(d), "config": cfg, "xml": x, "speech": r["v"], "cmd": q["cmd"], "lines": lines})
    n_sweep, sweep_langs = table_sweep(ctx, im, oracle_fail)
    im.close()
    mo.close()
    for f in oracle_fail:
        k = re.sub(r"U\+[0-9A-F]+", "U+…", f["why"])[:70]
        kinds[k] = kinds.get(k, 0) + 1
    ctx.coverage.update({
        "evaluations": n_speech + n_overview + n_nav + n_sweep, "distinct_nontrivial": n_speech,
        "rule": "fixed corpus + generated textbook expressions whose leaves are replaced by characters from unicode.yaml, only from unicode-full.yaml, from no table (unassigned, private use, emoji, "
                "CJK, ligatures), invisible operators and NBSP, capital letters; every language directory x {ClearSpeak, SimpleSpeak} x {Terse, Medium, Verbose} x a capital-letter/override/impairment "
                "preference; get_spoken_text, get_overview_text and the speech returned by navigation commands are searched for private-use characters, [[ ]], raw invisible operators and markup, "
                "and must contain a word when the expression has visible content. non-trivial = get_spoken_text evaluations",
        "unicode_table_sweep": {"evaluations": n_sweep, "characters_per_language": sweep_langs,
                                 "rule": "every character with an entry in the language's unicode.yaml (quick: plus 150 sampled from unicode-full.yaml; thorough: all of it), alone and between two identifiers, at the three verbosities"},
        "languages": langs, "configs": len(cfgs), "speech": n_speech, "overview": n_overview, "navigation_replies": n_nav, "odd_characters_exercised": len(odd_seen),
        "join_log_entries_replayed_through_model": n_entries, "theorem_hypotheses_on_logged_joins": dict(speech_run.HYP),
        "oracle_failure_kinds": kinds,
        "model_vs_impl_disagreements": [{k: v for k, v in d.items() if k != "lines"} for d in disagreements[:8]], "n_disagreements": len(disagreements),
        "impl_vs_oracle_failures": [{k: v for k, v in f.items() if k != "lines"} for f in oracle_fail[:8]], "n_oracle_failures": len(oracle_fail),
    })
    for f in oracle_fail:
        ctx.violation("implementation violates C05: " + json.dumps({k: v for k, v in f.items() if k not in ("lines",)}, ensure_ascii=False)[:500],
                      {"kind": "impl-vs-oracle", "case": {k: v for k, v in f.items() if k != "lines"}, "lines": f["lines"]}, tag="oracle",
                      signature={"kind": "c05-oracle", "why": re.sub(r"U\+[0-9A-F]+", "U+…", f["why"])[:70], "language": f["config"]["Language"]})
    found = bool(ctx.violations)          # (failures attributed to a known finding do not count)
    if speech_run.HYP["auto_ok_false"] and not found:
        ctx.violation("a join received a string that holds the automatic-pause placeholder inside other text (hypothesis AutoOK of join_resolves_auto is not met by the code)",
                      {"kind": "theorem-hypothesis", "theorem": "MC.Props.C05.join_resolves_auto", "count": speech_run.HYP["auto_ok_false"]}, tag="hyp", no_input=True)
    if not pr["ok"] and not found:
        ctx.violation("theorem(s) no longer check: " + ", ".join(pr["failed"]), {"kind": "theorem", "theorems": pr["failed"], "lean_output": pr["output"][-1500:]}, tag="theorem", no_input=True)
    if disagreements and not found:
        d = disagreements[0]
        ctx.violation("model and implementation join replacement strings differently: " + json.dumps({k: v for k, v in d.items() if k != "lines"}, ensure_ascii=False)[:400],
                      {"kind": "correspondence", "correspondence": "MC.Speech.joinArray/finalize vs replace_array_string/speak_rules (hook H5)", "cases": [{k: v for k, v in x.items() if k != "lines"} for x in disagreements[:5]], "lines": d["lines"]},
                      tag="corr", no_input=True)


def replay(ctx, path):
    with open(path) as f:
        rp = json.load(f)
    core.need_harness(ctx)
    im = core.impl()
    lines = rp.get("lines", [])
    for q, r in zip(lines, im.run([{"op": "session"}] + lines)[1:]):
        print(json.dumps(q, ensure_ascii=False)[:300], "->", json.dumps(r, ensure_ascii=False)[:800])
    im.close()
    return 0
