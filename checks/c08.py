"""C08 — no API call crashes the host; errors are reported and recoverable."""
import json, os, re
import core, mml, canon_run
import tr_panics
from core import strip_ids

NAV_CMDS = ["MovePrevious", "MoveNext", "MoveStart", "MoveEnd", "MoveLineStart", "MoveLineEnd", "MoveCellPrevious", "MoveCellNext", "MoveCellUp", "MoveCellDown", "MoveColumnStart",
            "MoveColumnEnd", "ZoomIn", "ZoomOut", "ZoomOutAll", "ZoomInAll", "MoveLastLocation", "ReadPrevious", "ReadNext", "ReadCurrent", "ReadCellCurrent", "ReadStart", "ReadEnd",
            "ReadLineStart", "ReadLineEnd", "DescribePrevious", "DescribeNext", "DescribeCurrent", "WhereAmI", "WhereAmIAll", "ToggleZoomLockUp", "ToggleZoomLockDown", "ToggleSpeakMode",
            "Exit", "MoveTo0", "MoveTo5", "MoveTo9", "Read3", "Describe7", "SetPlacemarker0", "SetPlacemarker4", "SetPlacemarker9", "Foo", "", "zoomin", "MoveTo10", "SetPlacemarker-1"]
PREF_NAMES = ["Language", "SpeechStyle", "Verbosity", "BrailleCode", "TTS", "Pitch", "Rate", "Volume", "PauseFactor", "MathRate", "Bookmark", "Overview", "NavMode", "NavVerbosity", "AutoZoomOut",
              "CapitalLetters_UseWord", "CapitalLetters_Pitch", "CapitalLetters_Beep", "IntentErrorRecovery", "CheckRuleFiles", "DecimalSeparator", "DecimalSeparators", "BlockSeparators",
              "BrailleNavHighlight", "UEB_START_MODE", "Impairment", "SpeechOverrides_CapitalLetters", "ClearSpeak_Fractions", "Chemistry", "ResetNavMode", "ResetOverview", "CopyAs",
              "Vietnam_UseDropNumbers", "LaTeX_UseShortName", "NoSuchPreference", "", "language", "Language "]
PREF_VALUES = ["", "true", "false", "True", "yes", "0", "-1", "100", "1e9", "99999999999999999999", "3.5", "NaN", "inf", "Auto", "en", "xx-yy-zz", "../..", "/etc/passwd", "ClearSpeak", "Terse",
               "Nemeth", "UEB", "SSML", "SAPI5", "None", "All", ".", ",", ";", "[", "\\", "(", "*", "a-", "]-[", ". ", ",  ", "￿", "퟿", "x" * 3000, "é", "𝐖", "\n", "\u0000", "Enhanced", "Character", "Off", "Grade1"]
NOT_XML = ["", " ", "hello", "<", ">", "<math", "<math>", "</math>", "<math></mi>", "<math><mi>x</math>", "<math><mi>x</mi></math><math/>", "\u0000", "<?xml version='1.0'?>", "<!DOCTYPE math>",
           "<math>&nosuchentity;</math>", "<math>&#xD800;</math>", "<math>&#0;</math>", "<math>&amp</math>", "<math attr></math>", "<math a='1' a='2'/>", "<m:math xmlns:m='http://www.w3.org/1998/Math/MathML'><m:mi>x</m:mi></m:math>",
           "<math><![CDATA[<mi>x</mi>]]></math>", "<math><!-- c --></math>", "<math><?pi x?></math>", "﻿<math><mi>x</mi></math>", "<math xmlns='urn:x'><mi>x</mi></math>", "{\"json\": 1}", "<math>" + "<mrow>" * 30]
NOT_MATHML = ["<math><mrow><mo>|</mo><mo>)</mo></mrow></math>", "<math><mrow><mo>(</mo><mo>|</mo><mo>)</mo></mrow></math>", "<math><mfenced separators='|'><mrow></mrow><mphantom><mo>&lt;</mo></mphantom></mfenced></math>", "<html><body><p>x</p></body></html>", "<svg><circle r='1'/></svg>", "<mi>x</mi>", "<mrow><mi>x</mi></mrow>", "<math><p>x</p></math>", "<math><mi><mi>x</mi></mi></math>", "<math>text</math>",
              "<math><mrow>text<mi>x</mi></mrow></math>", "<math><mfrac><mi>x</mi></mfrac></math>", "<math><mfrac/></math>", "<math><msqrt/></math>", "<math><msub><mi>x</mi></msub></math>",
              "<math><msubsup><mi>x</mi><mi>y</mi></msubsup></math>", "<math><mroot><mi>x</mi></mroot></math>", "<math><munderover><mi>x</mi></munderover></math>", "<math><mtable><mi>x</mi></mtable></math>",
              "<math><mtr><mtd><mi>x</mi></mtd></mtr></math>", "<math><mtd><mi>x</mi></mtd></math>", "<math><mtable><mtr><mi>x</mi></mtr></mtable></math>", "<math><mtable/></math>", "<math><mtable><mtr/></mtable></math>",
              "<math><mmultiscripts/></math>", "<math><mmultiscripts><mprescripts/></mmultiscripts></math>", "<math><mmultiscripts><mi>x</mi><mprescripts/><mprescripts/></mmultiscripts></math>",
              "<math><none/></math>", "<math><mprescripts/></math>", "<math><semantics/></math>", "<math><semantics><annotation>x</annotation></semantics></math>", "<math><annotation-xml><mi>x</mi></annotation-xml></math>",
              "<math><maction><mi>x</mi><mi>y</mi></maction></math>", "<math><mglyph/></math>", "<math><mstack><mn>1</mn><mn>2</mn></mstack></math>", "<math><mlongdiv><mn>1</mn></mlongdiv></math>",
              "<math><mi intent=''>x</mi></math>", "<math><mi intent='('>x</mi></math>", "<math><mrow intent='f($a,$a)'><mi arg='a'>x</mi></mrow></math>", "<math><mi id=''>x</mi></math>", "<math id='a'><mi id='a'>x</mi></math>",
              "<math><mfenced open='|' close='}'></mfenced></math>", "<math><mfenced open='' close='' separators=''/></math>", "<math><mfenced open='((' close='>>' separators='abc'><mi>x</mi><mi>y</mi></mfenced></math>",
              "<math><mmultiscripts><mrow><mrow/></mrow><mprescripts/></mmultiscripts></math>", "<math><mo>|</mo><mo>|</mo><mo>|</mo></math>", "<math><mo>(</mo></math>", "<math><mo>)</mo><mo>(</mo></math>",
              "<math><mn>1</mn><mn>2</mn><mo>/</mo></math>", "<math><mn>.</mn></math>", "<math><mn>,</mn><mn>,</mn></math>", "<math><mi>\U0001D7D8</mi><mo>\U0001F600</mo></math>", "<math><mtext>\U0001F600 x</mtext><mo>+</mo><mi>y</mi></math>",
              "<math><mi mathvariant='nonsense'>x</mi></math>", "<math display='block' mode='x' xmlns:foo='bar'><mi>x</mi></math>", "<math><mspace/></math>", "<math><mphantom/></math>", "<math><mstyle/></math>",
              "<math><menclose notation=''><mi>x</mi></menclose></math>", "<math><menclose><mi>x</mi><mi>y</mi></menclose></math>", "<math><merror/></math>", "<math><mpadded/></math>"]
VALID = ["<math><mrow><mi>x</mi><mo>+</mo><mfrac><mn>1</mn><mn>2</mn></mfrac></mrow></math>", "<math><msup><mi>a</mi><mn>2</mn></msup><mo>=</mo><msqrt><mi>b</mi></msqrt></math>"]


def nest(tag, depth, wide=False):
    inner = "<mi>x</mi>"
    kids = {"mrow": 1, "msqrt": 1, "mfrac": 2, "msup": 2, "mstyle": 1, "mfenced": 1, "menclose": 1}[tag]
    s, e = "", ""
    for _ in range(depth):
        s += f"<{tag}>" + ("<mi>y</mi>" if kids == 2 else "")
        e = f"</{tag}>" + e
    return "<math>" + s + inner + e + "</math>"


def mutate(rng, s):
    r = rng.random()
    if not s:
        return s
    i = rng.randrange(len(s))
    if r < 0.25:
        return s[:i]
    if r < 0.45:
        j = min(len(s), i + rng.randrange(1, 8))
        return s[:i] + s[j:]
    if r < 0.65:
        return s[:i] + rng.choice(["<", ">", "&", "'", "\"", "/", "</mi>", "<mrow>", "\u0000", "퟿", "&#x2061;", "𝐖"]) + s[i:]
    if r < 0.8:
        j = rng.randrange(len(s))
        a, b = min(i, j), max(i, j)
        return s[:a] + s[b:] + s[a:b]
    return s[:i] + s[i:] * 2


def after_calls(rng):
    """the public calls that follow a set_mathml (successful or not)"""
    out = [{"op": "speech"}, {"op": "overview"}, {"op": "braille", "id": ""}, {"op": "braille", "id": rng.choice(["nosuchid", "", "a0", "M1-0"])}, {"op": "nav_id"}, {"op": "nav_mathml"}, {"op": "nav_braille"},
           {"op": "bpos"}, {"op": "from_bpos", "pos": rng.choice([0, 1, 5, 50, 10 ** 6, 2 ** 40])}]
    for _ in range(rng.randrange(2, 6)):
        r = rng.random()
        if r < 0.5:
            out.append({"op": "nav", "cmd": rng.choice(NAV_CMDS)})
        elif r < 0.7:
            out.append({"op": "key", "k": rng.choice([37, 38, 39, 40, 13, 32, 36, 35, 8, 27, 48, 57, 65, 90, 0, 255, 10 ** 6]), "shift": rng.random() < 0.3, "ctrl": rng.random() < 0.3, "alt": rng.random() < 0.2, "meta": rng.random() < 0.1})
        elif r < 0.85:
            out.append({"op": "set_nav", "id": rng.choice(["nosuchid", "", "a0", "M1-0", "x" * 500]), "off": rng.choice([0, 1, 7, 10 ** 9])})
        else:
            out.append({"op": "set_pref", "name": rng.choice(PREF_NAMES), "value": rng.choice(PREF_VALUES)})
    rng.shuffle(out)
    return out


def outputs(rep):
    out = []
    for r in rep:
        v = r.get("v") if r.get("r") == "ok" else {"r": r.get("r")}
        if isinstance(v, str):
            v = strip_ids(v)
        elif isinstance(v, list) and v and isinstance(v[0], str):
            v = [re.sub(r"^M[0-9a-z]{7}-", "M-", v[0])] + v[1:]       # generated ids carry a random prefix
        out.append(v)
    return out


def crash_sig(r, stream):
    at = re.sub(r"^.*/src/", "src/", r.get("at") or "")
    return {"kind": "c08-crash", "r": r.get("r"), "at_file": at.split(":")[0], "msg_prefix": re.sub(r"\d+", "N", (r.get("msg") or ""))[:60], "stream_prefix": stream}


def run(ctx):
    acct, sites = tr_panics.account()
    ctx.coverage["translator"] = {"panic_capable_sites": {k: v for k, v in acct.items() if k != "by_file"}, "by_file": acct["by_file"]}
    pr = core.prove("C08", extra_modules=["MC.Props.C03NoPanic"])
    core.proof_coverage(ctx, pr, "lake build MC.Props.C08 && lake env lean build/audit_C08.lean (#print axioms)", [
        "there is no model of all of the Rust: the kernel-checked part is (1) the API-level state machine MC.Session (errors leave the stored expression and the preferences alone; a successful "
        "set_mathml after ANY history reaches the fresh state: recover_eq_fresh, errors_leave_no_trace) and (2) the no-panic theorems of the engine models (prefs, intent parser, highlight "
        "arithmetic, navigation stack, mathvariant tables), each model carrying the unwrap/index/assert sites of the code it transcribes as explicit panic outcomes",
        "accounting, regenerated on every run: of %d panic-capable sites in src/ (unwrap/expect/panic!/assert!/unreachable!, test modules excluded) %d are regex/static initialisers, %d lie in functions "
        "whose model has a no-panic theorem, %d in modelled functions without one, %d in code that is NOT modelled" % (acct["total"], acct["static_init"], acct["covered_by_theorem"], acct["modelled_not_proved"], acct["not_modelled"]),
        "for the unmodelled remainder -- and for index/slice/arithmetic panics, stack exhaustion and non-termination, which the accounting cannot even count -- the claim rests on the streams of this "
        "check (and of every other check) running under catch_unwind, a panic hook, an 8 MB session stack and a wall-clock bound: support, not proof",
        "MC.Session is tied to the code by the recovery oracle (outputs after any history with errors equal a fresh session's) and by hook H1 (navigation state is reset by a failing set_mathml)"])
    core.need_harness(ctx)
    core.need_driver(ctx)
    im = core.impl()
    rng = ctx.rng
    crashes, oracle_fail = [], []
    n_calls = n_sessions = 0
    classes = {"ok": 0, "err": 0, "panic": 0, "abort": 0, "timeout": 0}

    def run_session(lines, what):
        nonlocal n_calls, n_sessions
        n_sessions += 1
        rep = im.run([{"op": "session"}] + lines)[1:]
        n_calls += len(lines)
        for k, (q, r) in enumerate(zip(lines, rep)):
            classes[r.get("r", "?")] = classes.get(r.get("r", "?"), 0) + 1
            if r.get("r") in ("panic", "abort", "timeout"):
                crashes.append({"why": f"{r.get('r')} in {q['op']}", "stream": what, "call": {k2: (v2[:300] if isinstance(v2, str) else v2) for k2, v2 in q.items()}, "reply": {k2: (v2[:300] if isinstance(v2, str) else v2) for k2, v2 in r.items()},
                                "lines": lines[:k + 1], "sig": crash_sig(r, what)})
                break
        return rep

    pre = core.prelude([])
    fresh_out = {}
    for v in VALID:
        rep = im.run([{"op": "session"}] + pre + [{"op": "set_mathml", "xml": v}, {"op": "speech"}, {"op": "braille", "id": ""}, {"op": "overview"}, {"op": "nav_id"}])
        fresh_out[v] = outputs(rep[-5:])

    def recovery(lines, what):
        """after the history: a valid expression must give the fresh answers (preferences restored explicitly to their defaults)"""
        v = rng.choice(VALID)
        restore = [{"op": "set_pref", "name": n, "value": d} for n, d in (("Language", "en"), ("SpeechStyle", "ClearSpeak"), ("Verbosity", "Medium"), ("BrailleCode", "Nemeth"), ("TTS", "none"),
                   ("Bookmark", "false"), ("Overview", "false"), ("NavMode", "Enhanced"), ("BrailleNavHighlight", "EndPoints"), ("DecimalSeparator", "Auto"), ("DecimalSeparators", "."), ("BlockSeparators", ",   "),
                   ("Impairment", "Blindness"), ("UEB_START_MODE", "Grade2"), ("CheckRuleFiles", "Prefs"), ("IntentErrorRecovery", "IgnoreIntent"), ("Chemistry", "SpellOut"), ("ClearSpeak_Fractions", "Auto"),
                   ("SpeechOverrides_CapitalLetters", ""), ("CapitalLetters_UseWord", "true"), ("PauseFactor", "100"), ("Vietnam_UseDropNumbers", "false"), ("LaTeX_UseShortName", "false"), ("AutoZoomOut", "true"),
                   ("NavVerbosity", "Medium"), ("CopyAs", "MathML"), ("ResetNavMode", "false"), ("ResetOverview", "true"))]
        tail = restore + [{"op": "set_mathml", "xml": v}, {"op": "speech"}, {"op": "braille", "id": ""}, {"op": "overview"}, {"op": "nav_id"}]
        rep = run_session(lines + tail, what)
        if len(rep) == len(lines) + len(tail) and not any(r.get("r") in ("panic", "abort", "timeout") for r in rep):
            got = outputs(rep[-5:])
            if got != fresh_out[v]:
                k = next(i for i in range(5) if got[i] != fresh_out[v][i])
                oracle_fail.append({"why": "after errors, a valid expression does not give the results of a fresh session", "stream": what, "call": tail[len(restore) + k], "got": got[k], "fresh": fresh_out[v][k],
                                    "lines": lines + tail})
        return rep

    # stream 1: before any expression is set -- every call
    for _ in range(3 if ctx.tier == "quick" else 40):
        calls = after_calls(rng)
        recovery(pre + calls, "no expression set")
        recovery(calls + pre, "no rules directory, no expression")      # ... then the rules directory is set, as a fresh session must
    # stream 2: not XML / not MathML / odd but valid, each followed by every kind of call
    pool = NOT_XML + NOT_MATHML
    for x in pool:          # the whole pool in both tiers: it is cheap, and sampling it once hid a known panic
        recovery(pre + [{"op": "set_mathml", "xml": rng.choice(VALID)}] * (rng.random() < 0.5) + [{"op": "set_mathml", "xml": x}] + after_calls(rng), "malformed input")
    # stream 3a: rows over small alphabets, one per merging pass of the clean-up (dots, primes, underscores, bars, dashes, separators): these passes index
    # their neighbours (`preceding_siblings[len-1]`, `children[i-2]`), and a token at the edge of a row is where such an index leaves the row
    fam = [canon_run.to_xml(x) for x in canon_run.merge_family(rng, 400 if ctx.tier == "quick" else 12000)]
    for k in range(0, len(fam), 20):
        batch = fam[k:k + 20]
        rep = run_session(pre + [{"op": "set_mathml", "xml": x} for x in batch], "merge-pass rows")
        if len(rep) < len(pre) + len(batch) or any(r.get("r") in ("panic", "abort", "timeout") for r in rep):
            for x in batch:          # a crash ends the session: the rest of the batch one by one
                run_session(pre + [{"op": "set_mathml", "xml": x}], "merge-pass rows")
    # stream 3: generated trees (degenerate children everywhere) and their mutations
    for _ in range(120 if ctx.tier == "quick" else 6000):
        t = canon_run.N("math", [canon_run.gen_tree(rng, rng.randrange(0, 4))] if rng.random() < 0.8 else [canon_run.gen_degenerate(rng) for _ in range(rng.randrange(0, 3))])
        x = canon_run.to_xml(t)
        if rng.random() < 0.5:
            for _ in range(rng.randrange(1, 4)):
                x = mutate(rng, x)
        lines = pre + [{"op": "set_pref", "name": "BrailleCode", "value": rng.choice(["Nemeth", "UEB", "CMU", "Vietnam", "LaTeX", "ASCIIMath", "Swedish"])},
                       {"op": "set_pref", "name": "Language", "value": rng.choice(["en", "es", "fi", "sv", "vi", "id", "zh-tw"])}, {"op": "set_mathml", "xml": x}] + after_calls(rng)
        if rng.random() < 0.25:
            recovery(lines, "generated / mutated trees")
        else:
            run_session(lines, "generated / mutated trees")
    # stream 4: preference name x value pairs, then use
    for _ in range(25 if ctx.tier == "quick" else 800):
        lines = list(pre)
        for _ in range(rng.randrange(1, 8)):
            lines.append({"op": "set_pref", "name": rng.choice(PREF_NAMES), "value": rng.choice(PREF_VALUES)})
            if rng.random() < 0.3:
                lines.append({"op": "get_pref", "name": rng.choice(PREF_NAMES)})
        lines += [{"op": "set_mathml", "xml": rng.choice(VALID + ["<math><mn>1,234.5</mn><mo>+</mo><mn>1.000,5</mn></math>"])}, {"op": "speech"}, {"op": "braille", "id": ""}, {"op": "nav", "cmd": "ZoomIn"}, {"op": "nav", "cmd": "MoveNext"}]
        recovery(lines, "preference name/value pairs")
    # stream 2b: EVERY key code 0..300 (and a few huge ones) x modifier combinations, on a valid expression
    mods = [(False, False, False, False), (True, False, False, False), (False, True, False, False), (True, True, False, False)] if ctx.tier == "quick" else \
           [(a, b, c, d) for a in (False, True) for b in (False, True) for c in (False, True) for d in (False, True)]
    for sh, ct, al, me in mods:
        lines = pre + [{"op": "set_mathml", "xml": VALID[0]}] + [{"op": "key", "k": k, "shift": sh, "ctrl": ct, "alt": al, "meta": me} for k in list(range(0, 301)) + [65535, 2 ** 31, 2 ** 40]]
        run_session(lines, "every key code")
    # every navigation command name the library knows, in a row, on three shapes
    for x in VALID + ["<math><mrow><mo>(</mo><mtable><mtr><mtd><mn>1</mn></mtd><mtd><mn>2</mn></mtd></mtr><mtr><mtd><mn>3</mn></mtd><mtd><mn>4</mn></mtd></mtr></mtable><mo>)</mo></mrow></math>"]:
        cmds = list(NAV_CMDS)
        rng.shuffle(cmds)
        run_session(pre + [{"op": "set_mathml", "xml": x}] + [{"op": "nav", "cmd": c} for c in cmds + cmds], "every navigation command")
    # stream 4b: the preferences that are compiled into regular expressions or used as paths, with every odd value, then numbers
    NUMS = ["<math><mn>1,234.5</mn><mo>+</mo><mn>1</mn><mo>,</mo><mn>234</mn><mo>.</mo><mn>5</mn></math>", "<math><mn>1 000</mn><mo>-</mo><mn>3,5</mn><mo>+</mo><mn>.5</mn></math>"]
    for name in ["BlockSeparators", "DecimalSeparators", "DecimalSeparator", "Language", "BrailleCode", "SpeechStyle", "PauseFactor", "Rate", "CapitalLetters_Pitch"]:
        for value in PREF_VALUES:
            run_session(pre + [{"op": "set_pref", "name": name, "value": value}, {"op": "set_mathml", "xml": NUMS[0]}, {"op": "speech"}, {"op": "braille", "id": ""},
                               {"op": "set_mathml", "xml": NUMS[1]}, {"op": "speech"}, {"op": "nav", "cmd": "ZoomIn"}], "compiled / path-like preference x odd value")
    # stream 5: deep and wide nesting (stack exhaustion), long tokens
    # (a call that is merely slow is not a violation: braille of 1000 nested msup takes a minute; the bound is 15 minutes)
    depths = [50, 200, 400] if ctx.tier == "quick" else [50, 200, 400, 1000, 3000, 10000]
    T = 900000
    for tag in ["mrow", "msqrt", "mfrac", "msup", "mfenced", "mstyle"]:
        for d in depths:
            run_session(pre + [{"op": "set_mathml", "xml": nest(tag, d), "timeout_ms": T}, {"op": "speech", "timeout_ms": T}, {"op": "braille", "id": "", "timeout_ms": T},
                               {"op": "nav", "cmd": "ZoomInAll", "timeout_ms": T}, {"op": "overview", "timeout_ms": T}], f"nesting {tag} x {d}")
    run_session(pre + [{"op": "set_mathml", "xml": "<math><mrow>" + "<mi>x</mi><mo>+</mo>" * 3000 + "<mi>y</mi></mrow></math>", "timeout_ms": 120000}, {"op": "speech", "timeout_ms": 120000},
                       {"op": "braille", "id": "", "timeout_ms": 120000}], "row of 6000 tokens")
    run_session(pre + [{"op": "set_mathml", "xml": "<math><mn>" + "1234567890" * 2000 + "</mn><mi>" + "ab" * 5000 + "</mi></math>", "timeout_ms": 120000}, {"op": "speech", "timeout_ms": 120000},
                       {"op": "braille", "id": "", "timeout_ms": 120000}], "very long tokens")
    # Session model tie: a failing set_mathml keeps the old expression and resets navigation
    n_tie = 0
    tie_fail = []
    for x in rng.sample(NOT_XML, 6):
        lines = pre + [{"op": "set_mathml", "xml": VALID[0]}, {"op": "nav", "cmd": "ZoomIn"}, {"op": "nav", "cmd": "MoveNext"}, {"op": "speech"}, {"op": "set_mathml", "xml": x}, {"op": "speech"}, {"op": "hook", "which": "nav_state"}]
        rep = im.run([{"op": "session"}] + lines)[1:]
        if rep[-3].get("r") == "err":
            n_tie += 1
            if outputs([rep[-2]]) != outputs([rep[-4]]):
                tie_fail.append({"why": "a failing set_mathml changed what the getters answer", "lines": lines, "before": rep[-4], "after": rep[-2]})
            ns = rep[-1].get("v") or {}
            if rep[-1].get("r") == "ok" and len(ns.get("positions", [])) > 0:
                tie_fail.append({"why": "MC.Session says a failing set_mathml resets the navigation state; the library kept a position", "lines": lines, "nav_state": ns})
    im.close()
    # verdicts
    by_site = {}
    for c in crashes:
        key = (c["sig"]["r"], c["reply"].get("at", ""), c["sig"]["msg_prefix"])
        by_site.setdefault(key, []).append(c)
    ctx.coverage.update({
        "evaluations": n_calls, "distinct_nontrivial": n_sessions,
        "rule": "sessions of public calls under catch_unwind + panic hook + 8 MB stack + wall-clock bound: (1) every call before any expression / rules directory is set; (2) 28 non-XML and 64 "
                "non-MathML or odd inputs, each followed by getters, navigation commands (47 names incl. invalid), key codes, node ids/offsets, braille positions, preference pairs in random order; "
                "(3) generated trees with degenerate children and their string mutations x braille code x language; (4) 38 preference names x 48 values (wrong kinds, paths, regex metacharacters, "
                "huge, control characters) then use; (5) nesting depth 50-400 (thorough: 10000) of 6 element kinds, a 6000-token row, 20 kB tokens. After a history: restore preferences, set a valid "
                "expression, compare with a fresh session. non-trivial = sessions",
        "reply_classes": classes, "distinct_crash_sites": len(by_site), "session_model_tie_cases": n_tie,
        "crash_sites": [{"r": k[0], "at": k[1], "msg": k[2], "count": len(v), "example_stream": v[0]["stream"], "example_call": v[0]["call"]} for k, v in sorted(by_site.items(), key=lambda kv: -len(kv[1]))][:20],
        "model_vs_impl_disagreements": [{k: v for k, v in d.items() if k != "lines"} for d in tie_fail[:5]], "n_disagreements": len(tie_fail),
        "impl_vs_oracle_failures": [{k: v for k, v in f.items() if k != "lines"} for f in oracle_fail[:8]], "n_oracle_failures": len(oracle_fail) + len(crashes),
    })
    for key, cs in by_site.items():
        c = min(cs, key=lambda c: len(json.dumps(c["lines"])))
        ctx.violation("implementation violates C08: " + json.dumps({k: v for k, v in c.items() if k not in ("lines", "sig")}, ensure_ascii=False)[:600],
                      {"kind": "impl-vs-oracle", "case": {k: v for k, v in c.items() if k != "lines"}, "lines": c["lines"]}, tag="crash", signature=c["sig"])
    for f in oracle_fail:
        ctx.violation("implementation violates C08: " + json.dumps({k: v for k, v in f.items() if k not in ("lines",)}, ensure_ascii=False)[:600],
                      {"kind": "impl-vs-oracle", "case": {k: v for k, v in f.items() if k != "lines"}, "lines": f["lines"]}, tag="oracle", signature={"kind": "c08-recovery", "why": f["why"]})
    found = bool(ctx.violations)          # (crashes attributed to a known finding do not count)
    if not pr["ok"] and not found:
        ctx.violation("theorem(s) no longer check: " + ", ".join(pr["failed"]), {"kind": "theorem", "theorems": pr["failed"], "lean_output": pr["output"][-1500:]}, tag="theorem", no_input=True)
    if tie_fail and not found:
        d = tie_fail[0]
        ctx.violation("the API-level state model disagrees with the library: " + d["why"], {"kind": "correspondence", "correspondence": "MC.Session.step vs set_mathml", "cases": [{k: v for k, v in x.items() if k != "lines"} for x in tie_fail[:3]], "lines": d["lines"]},
                      tag="corr", no_input=True)


def replay(ctx, path):
    with open(path) as f:
        rp = json.load(f)
    core.need_harness(ctx)
    im = core.impl()
    lines = rp.get("lines", [])
    for q, r in zip(lines, im.run([{"op": "session"}] + lines)[1:]):
        print(json.dumps(q, ensure_ascii=False)[:300], "->", json.dumps(r, ensure_ascii=False)[:600])
    im.close()
    return 0
