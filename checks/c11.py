"""C11 — navigation always rests on a node of the current expression."""
import html, json, re
import xml.etree.ElementTree as ET
import core, mml
from core import log

ILLEGAL = "!not set"
KEYS = [0x25, 0x27, 0x26, 0x28, 0x0D, 0x20, 0x24, 0x23, 0x08, 0x1B] + list(range(0x30, 0x3A))


RETRY_EXPRS = [
    "<math><mrow><mrow><mn>2</mn><mo>&#x2062;</mo><mi>x</mi></mrow><mo>+</mo><mi>y</mi></mrow></math>",
    "<math><mn>2</mn><mi>x</mi><mi>y</mi><mo>+</mo><mn>3</mn><mi>a</mi><mi>b</mi></math>",
    "<math><msub><mi>a</mi><mrow><mi>i</mi><mo>&#x2063;</mo><mi>j</mi></mrow></msub><mi>x</mi><mo>-</mo><mn>4</mn><msup><mi>y</mi><mn>2</mn></msup><mi>z</mi></math>",
    "<math><mfrac><mrow><mn>2</mn><mi>a</mi></mrow><mrow><mn>3</mn><mi>b</mi><mi>c</mi></mrow></mfrac><msqrt><mn>5</mn><mi>x</mi></msqrt></math>",
    "<math><mi>sin</mi><mo>&#x2061;</mo><mi>x</mi><mo>+</mo><mi>f</mi><mo>&#x2061;</mo><mrow><mo>(</mo><mi>x</mi><mo>)</mo></mrow></math>",
    "<math><mn>3</mn><mo>&#x2064;</mo><mfrac><mn>1</mn><mn>2</mn></mfrac><mo>=</mo><mi>a</mi><mi>b</mi></math>",
]


def nav_commands():
    src = open(core.REPO + "/src/navigate.rs", encoding="utf-8").read()
    m = re.search(r"NAV_COMMANDS\s*:[^=]*=\s*phf_set!\s*\{(.*?)\};", src, re.S)
    return re.findall(r'"([A-Za-z0-9]+)"', m.group(1)) if m else []


def ids_of(canon):
    try:
        root = ET.fromstring(canon)
    except Exception:
        return None, [], {}
    ids, leaf = [], {}
    for e in root.iter():
        i = e.get("id")
        if i is not None:
            ids.append(i)
            # MATHML_LEAF_NODES of xpath_functions.rs (what set_navigation_node_from_id asks)
            leaf[i] = e.tag.split("}")[-1] in ("mi", "mo", "mn", "mtext", "ms", "mspace", "mglyph", "none", "annotation", "ci", "cn", "csymbol")
    return root.get("id"), ids, leaf


def is_move(cmd):
    return (cmd.startswith("Move") or cmd.startswith("Zoom")) and cmd != "MoveLastLocation"


def tries_from_log(entries, impl_err):
    tries = []
    cur = None
    for e in entries:
        if "try" in e:
            if cur is not None:
                cur["speak_err"] = cur["in_tree"] and cur["speak"]
                tries.append(cur)
            cur = dict(e, rule_err=False, speak_err=False, speech_empty=False)
        elif "speech_empty" in e and cur is not None:
            cur["speech_empty"] = e["speech_empty"]
            tries.append(cur)
            cur = None
    if cur is not None:
        # a try entry without a speech line: either speaking was not requested, or speak() failed
        if cur["in_tree"] and cur["speak"]:
            cur["speak_err"] = True
        tries.append(cur)
    if impl_err and not any(t.get("speak_err") for t in tries):
        tries.append({"try": len(tries), "node": ILLEGAL, "off": 0, "mode": "", "overview": False, "in_tree": False, "speak": False,
                      "rule_err": True, "speak_err": False, "speech_empty": False})
    return tries


def norm_state(s):
    return {"positions": s.get("positions"), "commands": s.get("commands"), "markers": s.get("markers"), "mode": s.get("mode"), "overview": s.get("overview")}


def first_id(xml):
    """id of the outermost element of a serialized MathML fragment"""
    m = re.match(r"\s*<[A-Za-z][^>]*?\sid=(['\"])(.*?)\1", xml or "")
    return html.unescape(m.group(2)) if m else None


def run(ctx):
    pr = core.prove("C11", extra_modules=["MC.Props.C11Undo", "MC.Props.C11Markers"])
    core.proof_coverage(ctx, pr, "lake build MC.Props.C11 && lake env lean build/audit_C11.lean (#print axioms)",
                        ["modelled, not verified: NavigationState, reset/reset_for_new_mathml, set_navigation_node_from_id, do_navigate_command_string, apply_navigation_rules, "
                         "pop_stack transcribed by hand (MC.Model.Nav)",
                         "environment parameter: the navigation rules (YAML + sxd_xpath); assumption TryOk (NavNode is an id of the current expression or '!not set') monitored through hook H1 on every try of every command of the run",
                         "errors in the middle of a command: the model returns no state for them; the run re-synchronises from the real state (H1)",
                         "fourth clause (undo): move_no_retry / move_one_retry / move_two_retries (MC/Props/C11Undo.lean) -- a Move*/Zoom* command that needed 0, 1 or 2 retries leaves exactly "
                         "ONE new entry (the node it rests on) on the position and command stacks; undo_starts_before_move -- MoveLastLocation pops it before the rules are asked, so they start from "
                         "the node that was current before the move. What the rules then answer is an environment parameter; the undo oracle decides that on the implementation",
                         "third clause (markers): command_keeps_markers / setNode_keeps_markers / markers_survive (MC/Props/C11Markers.lean) -- no command other than SetPlacemarker..., whatever "
                         "the rules answer on any try, and no set_navigation_node changes a place marker, over any history on the same expression; set_marker_stores -- SetPlacemarkerK stores "
                         "the rules' NavNode in marker K only. That MoveToK then goes there is the rules' business; the marker oracle decides it on the implementation"])
    core.need_harness(ctx)
    core.need_driver(ctx)
    im, mo = core.impl(), core.model()
    rng = ctx.rng
    cmds = nav_commands()
    n_walks = 40 if ctx.tier == "quick" else 1500
    n_cmds = 30
    corpus = mml.corpus_basic()
    evals = 0
    disagreements, oracle_fail, monitor_fail, panics = [], [], [], []
    cmd_hits, multi_try, walks_nontrivial = {}, 0, 0
    samples = []
    init_state = mo.run([{"op": "nav_init"}])[0]["v"]
    for w in range(n_walks):
        targeted = w % 4 == 3
        mode = "Enhanced" if targeted else rng.choice(["Enhanced", "Simple", "Character"])      # (only Enhanced mode lands on invisible operators and retries)
        pre = [{"op": "session"}, {"op": "rules_dir", "dir": core.rules_dir()},
               {"op": "set_pref", "name": "NavMode", "value": mode},
               {"op": "set_pref", "name": "Overview", "value": rng.choice(["true", "false"])},
               {"op": "set_pref", "name": "AutoZoomOut", "value": rng.choice(["true", "false"])},
               {"op": "set_pref", "name": "NavVerbosity", "value": rng.choice(["Terse", "Medium", "Verbose"])}]
        im.run(pre)
        # plan: [(kind, arg)]
        plan = []
        n_expr = rng.choice([1, 2, 2, 3])
        if targeted:
            # leaf-level walk over an expression with invisible operators: landing on one gives no speech and the command is retried
            # (the retry loop and pop_stack are reached this way only)
            n_expr = 0
            plan.append(("mathml", rng.choice(RETRY_EXPRS[:4])))
            plan += [("cmd", c) for c in rng.choice([["ZoomInAll"], ["ZoomIn", "ZoomIn"], ["ZoomIn", "ZoomIn", "ZoomIn"], ["MoveStart", "ZoomInAll"]])]
            for _ in range(n_cmds):
                plan.append(("cmd", rng.choice(["MoveNext", "MoveNext", "MoveNext", "MoveNext", "MovePrevious", "MoveLastLocation", "ZoomIn", "MoveStart", "ReadCurrent", "SetPlacemarker1", "MoveTo1"])))
        if w % 4 == 1:
            # character-offset walk: the position carries a non-zero offset (set_navigation_node on a leaf), then commands whose rules copy the offset
            # into their answer -- moves to place markers that were never set, undo, moves that fail at the border
            n_expr = 0
            for _ in range(2):
                t = rng.choice(corpus) if rng.random() < 0.5 else mml.math(mml.gen_expr(rng, rng.randrange(1, 4)))
                plan.append(("mathml", mml.to_xml(t)))
                for _ in range(n_cmds // 6):
                    plan.append(("setnode", 2.0))
                    for _ in range(rng.randrange(1, 4)):
                        plan.append(("cmd", rng.choice(["MoveTo3", "MoveTo7", "MoveTo0", "MoveTo9", "MoveLastLocation", "MoveNext", "MovePrevious", "ZoomOut", "ZoomIn", "MoveStart", "MoveEnd", "MoveLineStart",
                                                        "ReadCurrent", "WhereAmI", "SetPlacemarker4", "MoveTo4", "MoveColumnStart", "MoveCellNext", "ZoomOutAll", "ReadNext", "DescribeCurrent"])))
        for k in range(n_expr):
            t = rng.choice(corpus) if rng.random() < 0.5 else mml.math(mml.gen_expr(rng, rng.randrange(1, 4)))
            plan.append(("mathml", mml.to_xml(t)))
            for _ in range(n_cmds // n_expr):
                r = rng.random()
                if r < 0.70:
                    c = rng.choice(cmds) if rng.random() < 0.5 else rng.choice(["MoveNext", "MovePrevious", "ZoomIn", "ZoomOut", "MoveLastLocation", "ZoomInAll", "MoveStart", "MoveEnd",
                                                                               "SetPlacemarker1", "MoveTo1", "SetPlacemarker2", "MoveTo2", "ReadCurrent", "WhereAmI", "DescribeCurrent", "ToggleZoomLockUp", "ToggleZoomLockDown"])
                    plan.append(("cmd", c))
                elif r < 0.80:
                    plan.append(("key", (rng.choice(KEYS), rng.random() < 0.3, rng.random() < 0.3)))
                elif r < 0.92:
                    plan.append(("setnode", rng.random()))
                else:
                    plan.append(("badcmd", rng.choice(["", "Move", "movenext", "MoveTo10", "ZoomInn"])))
        mstate = init_state
        root, ids, leaf = None, [], {}
        marks = {}           # marker index -> id set on the current expression
        moved = 0
        used_marker_or_undo = False
        trace = []
        synced = True
        for kind, arg in plan:
            before = im.run([{"op": "nav_id"}])[0] if root else None
            if kind == "mathml":
                rep = im.run([{"op": "set_mathml", "xml": arg}, {"op": "hook", "which": "nav_log"}, {"op": "hook", "which": "nav_state"}, {"op": "nav_id"}, {"op": "nav_mathml"}])
                if rep[0].get("r") != "ok":
                    continue
                root, ids, leaf = ids_of(rep[0]["v"])
                marks = {}
                mstate = mo.run([{"op": "nav_new_mathml", "state": mstate}])[0]["v"]
                real = rep[2].get("v", {})
                evals += 1
                if rep[3].get("v") != [root, 0] or real.get("positions") != [] or any(m[0] != ILLEGAL for m in real.get("markers", [])):
                    oracle_fail.append({"why": "set_mathml did not put navigation back on the whole expression / forget the old expression", "nav_id": rep[3].get("v"), "state": real, "trace": trace[-12:] + [[kind, arg]]})
                got = rep[4].get("v") if rep[4].get("r") == "ok" else None
                if got is None or first_id(got[0]) != root or got[1] != 0:
                    oracle_fail.append({"why": "after set_mathml get_navigation_mathml does not return the whole expression at offset 0", "reply": {k: str(v)[:200] for k, v in rep[4].items()}, "trace": trace[-12:] + [[kind, arg]]})
                trace.append([kind, arg])
                if synced and norm_state(real) != norm_state(mstate):
                    disagreements.append({"after": [kind, arg[:80]], "impl": norm_state(real), "model": norm_state(mstate), "trace": trace[-12:]})
                mstate = dict(real)
                continue
            if root is None:
                continue
            if kind == "cmd" or kind == "badcmd":
                req = {"op": "nav", "cmd": arg}
            elif kind == "key":
                req = {"op": "key", "k": arg[0], "shift": arg[1], "ctrl": arg[2]}
            else:
                if arg == 2.0 and ids:
                    i = rng.choice([x for x in ids if leaf.get(x)] or ids)
                    off = rng.choice([1, 1, 2])
                elif arg < 0.75 and ids:
                    i = rng.choice(ids)
                    off = 0 if rng.random() < 0.7 else rng.randrange(0, 3)
                else:
                    i, off = rng.choice(["nope", "", ILLEGAL, "M-0"]), 0
                req = {"op": "set_nav", "id": i, "off": off}
            rep = im.run([req, {"op": "hook", "which": "nav_log"}, {"op": "hook", "which": "nav_state"}, {"op": "nav_id"}, {"op": "nav_mathml"}])
            r0, logv, real, nid, nmml = rep[0], rep[1].get("v", []), rep[2].get("v", {}), rep[3], rep[4]
            evals += 1
            trace.append([kind, arg if kind != "setnode" else [req["id"], req["off"]]])
            if r0.get("r") in ("panic", "abort", "timeout"):
                # crashes are C08's subject: recorded here, decided there (the C08 check replays navigation walks itself)
                panics.append({"why": "navigation call " + r0.get("r"), "at": r0.get("at", ""), "msg": r0.get("msg", "")[:200], "trace": trace[-12:]})
                # ... but what the crashed command leaves behind is C11's: the position must still be a node of the expression, with retrievable MathML
                if r0.get("r") == "panic" and (nid.get("r") != "ok" or nid["v"][0] not in ids or nmml.get("r") != "ok"):
                    oracle_fail.append({"why": "after a navigation command that crashed the position is no longer a retrievable node of the expression", "nav_id": {k: str(v)[:200] for k, v in nid.items()},
                                        "nav_mathml": {k: str(v)[:120] for k, v in nmml.items()}, "trace": trace[-12:]})
                break
            # ---- monitor of the rules assumption (TryOk)
            for e in logv:
                if "try" in e and not (e["node"] in ids or e["node"] == ILLEGAL):
                    monitor_fail.append({"why": "navigation rules answered a NavNode that is not an id of the current expression", "node": e["node"], "trace": trace[-12:]})
            # ---- model step
            if kind == "cmd":
                cmd_hits[arg] = cmd_hits.get(arg, 0) + 1
                tries = tries_from_log(logv, r0.get("r") == "err")
                if len([e for e in logv if "try" in e]) > 1:
                    multi_try += 1
                mrep = mo.run([{"op": "nav_cmd", "state": mstate, "root": root, "ids": ids, "cmd": arg, "tries": tries}])[0]
                if mrep.get("r") == "ok" and r0.get("r") == "ok":
                    if norm_state(mrep["v"]) != norm_state(real):
                        disagreements.append({"after": [kind, arg], "impl": norm_state(real), "model": norm_state(mrep["v"]), "tries": tries, "trace": trace[-12:]})
                elif (mrep.get("r") == "ok") != (r0.get("r") == "ok"):
                    disagreements.append({"after": [kind, arg], "impl_reply": {k: str(v)[:200] for k, v in r0.items()}, "model_reply": mrep, "tries": tries, "trace": trace[-12:]})
            elif kind == "setnode":
                found = req["id"] in ids
                mrep = mo.run([{"op": "nav_set_node", "state": mstate, "id": req["id"], "off": req["off"], "found": found, "leaf": leaf.get(req["id"], False)}])[0]
                if (mrep.get("r") == "ok") != (r0.get("r") == "ok") or (mrep.get("r") == "ok" and norm_state(mrep["v"]) != norm_state(real)):
                    disagreements.append({"after": [kind, req["id"], req["off"]], "impl_reply": {k: str(v)[:200] for k, v in r0.items()}, "impl": norm_state(real), "model_reply": mrep, "trace": trace[-12:]})
            mstate = dict(real)      # always continue from the real state (errors may leave partial effects the model does not describe)
            # ---- oracle on the implementation: the invariant and the behavioural clauses of C11
            pos, cs, mk = real.get("positions", []), real.get("commands", []), real.get("markers", [])
            if len(pos) != len(cs):
                oracle_fail.append({"why": "position and command stacks out of step", "state": real, "trace": trace[-12:]})
            bad = [p for p in pos if p[0] not in ids] + [m for m in mk if m[0] not in ids and m[0] != ILLEGAL]
            if bad:
                oracle_fail.append({"why": "navigation state holds an id that is not in the current expression", "ids": bad, "trace": trace[-12:]})
            if nid.get("r") != "ok" or nid["v"][0] not in ids:
                oracle_fail.append({"why": "current navigation id is not a node of the current expression", "nav_id": nid, "trace": trace[-12:]})
            elif nmml.get("r") != "ok":
                oracle_fail.append({"why": "get_navigation_mathml failed", "reply": {k: str(v)[:200] for k, v in nmml.items()}, "trace": trace[-12:]})
            elif [first_id(nmml["v"][0]), nmml["v"][1]] != nid["v"]:
                oracle_fail.append({"why": "get_navigation_mathml returns another node / offset than get_navigation_mathml_id", "nav_mathml": [first_id(nmml["v"][0]), nmml["v"][1]], "nav_id": nid["v"], "trace": trace[-12:]})
            if kind == "key" and 0x30 <= arg[0] <= 0x39 and arg[2] and not arg[1] and r0.get("r") == "ok" and before and before.get("r") == "ok":
                marks[arg[0] - 0x30] = before["v"]        # control + digit sets that place marker
            if kind == "cmd" and r0.get("r") == "ok" and before and before.get("r") == "ok" and nid.get("r") == "ok":
                if not is_move(arg) and arg != "MoveLastLocation" and nid["v"] != before["v"]:
                    oracle_fail.append({"why": "a read/describe/where/marker command moved the position", "cmd": arg, "before": before["v"], "after": nid["v"], "trace": trace[-12:]})
                m = re.match(r"SetPlacemarker(\d)$", arg)
                if m:
                    marks[int(m.group(1))] = before["v"]
                    used_marker_or_undo = True
                m = re.match(r"MoveTo(\d)$", arg)
                if m and int(m.group(1)) in marks:
                    used_marker_or_undo = True
                    if nid["v"][0] != marks[int(m.group(1))][0]:
                        oracle_fail.append({"why": "MoveToN did not return to the marked node", "cmd": arg, "marked": marks[int(m.group(1))], "after": nid["v"], "trace": trace[-12:]})
                if is_move(arg) and nid["v"] != before["v"]:
                    moved += 1
                    if rng.random() < (0.6 if targeted and len([e for e in logv if "try" in e]) > 1 else 0.3):
                        # undo the last move: must return to the node that was current before it
                        rep2 = im.run([{"op": "nav", "cmd": "MoveLastLocation"}, {"op": "hook", "which": "nav_log"}, {"op": "hook", "which": "nav_state"}, {"op": "nav_id"}])
                        evals += 1
                        used_marker_or_undo = True
                        trace.append(["cmd", "MoveLastLocation"])
                        if rep2[3].get("v") != before["v"]:      # (also when the undo itself reports an error: a move was just made, so there is one to undo)
                            oracle_fail.append({"why": "undoing the last move did not return to the previous node", "before": before["v"], "after_undo": rep2[3].get("v"),
                                                "undo_reply": {k: str(v)[:120] for k, v in rep2[0].items()}, "trace": trace[-12:]})
                        mstate = dict(rep2[2].get("v", mstate))
        if moved >= 5 and used_marker_or_undo:
            walks_nontrivial += 1
        if len(samples) < 2:
            samples.append(trace[:8])
    im.close()
    mo.close()
    ctx.coverage.update({
        "evaluations": evals, "distinct_nontrivial": walks_nontrivial,
        "rule": "random walks (all navigation commands, key chords, set_navigation_node with valid/invalid ids, unknown commands) over corpus+generated expressions, "
                "3 modes x overview x auto-zoom, each walk spanning 1-3 set_mathml; after every call H1 state, nav id and nav MathML are read. "
                "non-trivial walk = moves >= 5 times and uses a place marker or undo",
        "walks": n_walks, "commands_exercised": len(cmd_hits), "commands_total": len(cmds), "multi_try_commands": multi_try,
        "model_vs_impl_disagreements": disagreements[:5], "n_disagreements": len(disagreements),
        "rules_assumption_failures": monitor_fail[:5], "n_rules_assumption_failures": len(monitor_fail),
        "impl_vs_oracle_failures": oracle_fail[:10], "n_oracle_failures": len(oracle_fail),
        "samples": samples, "panics_seen_reported_under_C08": panics[:5],
    })
    ctx.assumptions += ["key presses are checked by the oracle only (the command string they map to is internal)"]
    for f in oracle_fail:
        sig = {"kind": "c11-oracle", "why": f.get("why", ""), "at": f.get("at", "")}
        ctx.violation("implementation violates C11: " + json.dumps(f, ensure_ascii=False)[:400], {"kind": "impl-vs-oracle", "case": f, "lines": lines_of(f.get("trace", []))}, tag="oracle", signature=sig)
    found = bool(ctx.violations)
    for f in monitor_fail[:3]:
        ctx.violation("assumption of theorem inv_doCommand violated by the shipped rules: " + json.dumps(f, ensure_ascii=False)[:300],
                      {"kind": "assumption", "theorem": "MC.Props.C11.inv_doCommand (TryOk)", "case": f, "lines": lines_of(f.get("trace", []))}, tag="assume", no_input=not found)
    found = bool(ctx.violations)
    if not pr["ok"] and not found:
        ctx.violation("theorem(s) no longer check: " + ", ".join(pr["failed"]), {"kind": "theorem", "theorems": pr["failed"], "lean_output": pr["output"][-1500:]}, tag="theorem", no_input=True)
    if disagreements and not found:
        d = disagreements[0]
        ctx.violation("model and implementation disagree on a navigation step: " + json.dumps(d, ensure_ascii=False)[:400],
                      {"kind": "correspondence", "correspondence": "MC.Nav.doCommand/setNode vs do_navigate_command/set_navigation_node (H1 state)", "cases": disagreements[:3],
                       "lines": lines_of(d.get("trace", []))}, tag="corr", no_input=True)


def lines_of(trace):
    out = []
    for t in trace:
        if t[0] == "mathml":
            out.append({"op": "set_mathml", "xml": t[1]})
        elif t[0] in ("cmd", "badcmd"):
            out.append({"op": "nav", "cmd": t[1]})
        elif t[0] == "key":
            out.append({"op": "key", "k": t[1][0], "shift": t[1][1], "ctrl": t[1][2]})
        elif t[0] == "setnode":
            out.append({"op": "set_nav", "id": t[1][0], "off": t[1][1]})
        out.append({"op": "nav_id"})
    return out


def replay(ctx, path):
    with open(path) as f:
        rp = json.load(f)
    core.need_harness(ctx)
    im = core.impl()
    lines = core.prelude() + rp.get("lines", [])
    for q, r in zip(lines, im.run(lines)):
        print(json.dumps(q, ensure_ascii=False)[:200], "->", json.dumps(r, ensure_ascii=False)[:300])
    im.close()
    return 0
