"""C18 — mathvariant maps characters to the right Unicode math letters."""
import json, os, sys
import core
from core import log
import tr_variant, tr_common


def xml_escape(s):
    return s.replace("&", "&amp;").replace("<", "&lt;").replace(">", "&gt;").replace("'", "&apos;")


def run(ctx):
    report = {}
    extraction_failed = None
    try:
        tr_variant.extract_variant(report)
        tr_variant.extract_ucd(report)
    except tr_common.ExtractionError as e:
        extraction_failed = str(e)
    ctx.coverage["translator"] = report
    pr = core.prove("C18")
    core.proof_coverage(ctx, pr, "lake build MC.Props.C18 && lake env lean build/audit_C18.lean (#print axioms)",
                        ["python3 unicodedata (UCD %s) as the oracle for 'the character Unicode assigns'" % report.get("Ucd", {}).get("unidata_version", "?"),
                         "modelled, not verified: shift_text/shift_char/canonicalize_plane1 are transcribed by hand into MC.Model.Variant; "
                         "the three tables, the exceptions and the digamma arm are regenerated from src/canonicalize.rs on every run"])
    core.need_harness(ctx)
    core.need_driver(ctx)
    im, mo = core.impl(), core.model()
    keys = mo.run([{"op": "c18_keys"}])[0]["v"]      # [[variant, [cps]]]
    variants = [v for v, _ in keys]
    rng = ctx.rng
    # ---- the echo: every (variant, key) through the real library, plus unmapped variants and outside characters
    cases = []   # (variant or None, text, kind)
    for v, ks in keys:
        for c in ks:
            cases.append((v, chr(c), "key"))
        cases.append((v, "".join(chr(c) for c in ks), "all-keys-one-token"))
    outside_pool = [0x21, 0x2B, 0x3A9 + 0x30, 0x3F4 + 1, 0x410, 0x5D0, 0x2102, 0x210E, 0x1D400, 0x1D7CA, 0x1F600, 0xE9, 0x131, 0x237, 0x3DC, 0x3DD, 0x2202 + 1, 0x2207 + 1]
    n_out = 40 if ctx.tier == "quick" else 4000
    for _ in range(n_out):
        cp = rng.choice([rng.randrange(0x20, 0x7F), rng.randrange(0xA0, 0x3000), rng.randrange(0x1D400, 0x1D800), rng.randrange(0x10000, 0x30000), rng.choice(outside_pool)])
        if 0xD800 <= cp < 0xE000 or cp in (0x26, 0x3C, 0xFFFE, 0xFFFF) or chr(cp).isspace() or cp in (0xA0, 0x2061, 0x2062, 0x2063, 0x2064):
            continue
        import unicodedata
        if unicodedata.category(chr(cp)) in ("Cn", "Cc", "Cf", "Zs", "Zl", "Zp", "Co", "Cs", "Mn", "Me", "Mc"):
            continue
        cases.append((rng.choice(variants), chr(cp), "outside"))
    for v in variants:
        for c in "Ϝϝ":
            cases.append((v, c, "digamma"))       # Unicode has a mathematical digamma in bold only
    for v in [None, "normal", "Bold", "bold ", "tailed", "initial", "looped", "stretched", "", "BOLD"]:
        cases.append((v, "aB3αϝ", "unmapped-variant"))
    if ctx.tier == "thorough":
        for v in variants:
            for _ in range(200):
                s = "".join(chr(rng.choice(keys[0][1] + [0x3DC, 0x3DD, 0x21, 0x40])) for _ in range(rng.randrange(1, 12)))
                cases.append((v, s, "random-text"))
    reqs_i = [{"op": "rules_dir", "dir": core.rules_dir()}, {"op": "set_pref", "name": "Chemistry", "value": "Off"}]
    reqs_m = []
    for v, text, kind in cases:
        attr = "" if v is None else f" mathvariant='{xml_escape(v)}'"
        reqs_i.append({"op": "set_mathml", "xml": f"<math><mtext{attr}>{xml_escape(text)}</mtext></math>"})
        r = {"op": "plane1", "text": text}
        if v is not None:
            r["variant"] = v
        reqs_m.append(r)
    rep_i = im.run(reqs_i, prelude=reqs_i[:2])[2:]
    rep_m = mo.run(reqs_m)
    # characters that canonicalization rewrites whatever the mathvariant ('~' -> U+223C, ...) say nothing about the mapping: found by asking for
    # the same token without the attribute
    outside_texts = sorted({text for v, text, kind in cases if kind == "outside"})
    base_rep = im.run(reqs_i[:2] + [{"op": "set_mathml", "xml": f"<math><mtext>{xml_escape(t)}</mtext></math>"} for t in outside_texts], prelude=reqs_i[:2])[2:]
    rewritten_anyway = {t for t, r in zip(outside_texts, base_rep) if r.get("r") != "ok" or core.first_leaf_text(r.get("v", "")) != t}
    disagreements, oracle_fail, nontrivial = [], [], set()
    oracle_reqs, oracle_idx = [], []
    for idx, ((v, text, kind), ri, rm) in enumerate(zip(cases, rep_i, rep_m)):
        if kind == "outside" and text in rewritten_anyway:
            continue
        got = core.first_leaf_text(ri.get("v", "")) if ri.get("r") == "ok" else None
        exp = rm.get("v") if rm.get("r") == "ok" else None
        if got is None or exp is None or got != exp:
            disagreements.append({"variant": v, "text": text, "kind": kind, "impl": ri if got is None else got, "model": rm if exp is None else exp})
        if got is not None and got != text:
            nontrivial.add((v, text))
        # oracle stream on the implementation output (independent of the model's shiftChar): per-character relation
        if got is not None and kind in ("key", "all-keys-one-token", "random-text") and len(got) == len(text):
            for c, r in zip(text, got):
                oracle_reqs.append({"op": "c18_result_ok", "variant": v, "c": ord(c), "r": ord(r)})
                oracle_idx.append((v, c, r))
        elif got is not None and kind == "digamma":
            import unicodedata
            want = {"Ϝ": "MATHEMATICAL BOLD CAPITAL DIGAMMA", "ϝ": "MATHEMATICAL BOLD SMALL DIGAMMA"}[text]
            # (bold-script and bold-fraktur Greek use the bold letters: the statement's "nearest documented style")
            if not (got == text or (v in ("bold", "bold-script", "bold-fraktur") and len(got) == 1 and unicodedata.name(got, "") == want)):
                oracle_fail.append({"variant": v, "c": text, "got": got, "why": "digamma: Unicode has no such letter in this style (only MATHEMATICAL BOLD ... DIGAMMA exist), it must stay unchanged"})
        elif got is not None and kind in ("outside", "unmapped-variant"):
            # outside the key set / unmapped variants: the text must come back unchanged (digamma under bold-Greek variants excepted, judged by the model agreement above)
            if kind == "unmapped-variant" and got != text:
                oracle_fail.append({"variant": v, "text": text, "got": got, "why": "unmapped variant changed the text"})
        elif got is not None:
            oracle_fail.append({"variant": v, "text": text, "got": got, "why": "length changed"})
    # random-text contains non-keys too; resultOk is only meaningful on keys -> filter by key set per variant
    keyset = {v: set(ks) for v, ks in keys}
    o_reqs2, o_idx2 = [], []
    for q, t in zip(oracle_reqs, oracle_idx):
        if ord(t[1]) in keyset.get(t[0], ()):
            o_reqs2.append(q)
            o_idx2.append(t)
    for (v, c, r), ans in zip(o_idx2, mo.run(o_reqs2)):
        if ans.get("v") is not True:
            oracle_fail.append({"variant": v, "c": c, "got": r, "why": "Spec.resultOk false"})
    im.close()
    ctx.coverage.update({
        "evaluations": len(cases), "distinct_nontrivial": len(nontrivial),
        "rule": "exhaustive echo of every (variant, key) pair of the generated table through set_mathml, plus all keys in one token, "
                "characters outside the key set, unmapped variant values and (thorough) random texts; non-trivial = the library changed the text",
        "exhaustive": True, "oracle_checks": len(o_reqs2), "outside_characters_rewritten_without_mathvariant_skipped": len(rewritten_anyway),
        "kinds": {k: sum(1 for c in cases if c[2] == k) for k in sorted(set(c[2] for c in cases))},
        "model_vs_impl_disagreements": disagreements[:20], "impl_vs_oracle_failures": oracle_fail[:20],
        "samples": [{"variant": v, "text": t, "impl": core.first_leaf_text(ri.get("v", "")) if ri.get("r") == "ok" else ri}
                    for (v, t, k), ri in list(zip(cases, rep_i))[:3] + list(zip(cases, rep_i))[-12:-9]],
    })
    ctx.assumptions += ["`<mtext mathvariant=v>` is representative of every token element: canonicalize_mrows calls canonicalize_plane1 on mi/mn/mo/ms/mtext/mspace alike",
                        "UCD version of python's unicodedata"]
    # ---- verdict
    for f in oracle_fail:
        ctx.violation(f"implementation output violates C18: {f}", {"kind": "impl-vs-oracle", "case": f,
                      "lines": [{"op": "set_mathml", "xml": f"<math><mtext mathvariant='{f.get('variant')}'>{f.get('c', f.get('text'))}</mtext></math>"}]}, tag="oracle")
    if extraction_failed:
        ctx.violation(f"translator could not parse the mathvariant tables ({extraction_failed}); theorems not re-checked against the current source",
                      {"kind": "translator", "theorem": "MC.Props.C18.*", "error": extraction_failed}, tag="translator", no_input=not oracle_fail)
    if not pr["ok"]:
        # search: model-level witnesses from the executable checker, replayed on the implementation
        fails = mo.run([{"op": "c18_failing"}])[0].get("v", [])
        found = bool(oracle_fail)
        ctx.coverage["failing_theorems"] = pr["failed"]
        ctx.coverage["model_level_witnesses"] = fails[:20]
        if not found:
            ctx.violation("theorem(s) no longer check: " + ", ".join(pr["failed"]),
                          {"kind": "theorem", "theorems": pr["failed"], "model_witnesses": fails[:20], "lean_output": pr["output"][-1500:]},
                          tag="theorem", no_input=True)
    if disagreements and not oracle_fail:
        ctx.violation("model and implementation disagree on mathvariant mapping",
                      {"kind": "correspondence", "correspondence": "plane1 vs set_mathml", "cases": disagreements[:10]}, tag="corr", no_input=True)
    mo.close()


def replay(ctx, path):
    with open(path) as f:
        rp = json.load(f)
    core.need_harness(ctx)
    im = core.impl()
    lines = [{"op": "rules_dir", "dir": core.rules_dir()}] + rp.get("lines", [])
    for q, r in zip(lines, im.run(lines)):
        print(json.dumps(q, ensure_ascii=False), "->", json.dumps(r, ensure_ascii=False)[:300])
    im.close()
    return 0
