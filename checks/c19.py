"""C19 — illegal intent values are ignored or reported as configured."""
import json, re
import core, mml
from core import log

NAMES = ["f", "g", "plus", "x", "_", "--", "a-b", "über", "f1", "π", "sum_of", "Δx", "a.b", "x'"]
REFS = ["$a", "$op", "$f", "$zz", "$a1", "$"]
PROPS = [":prefix", ":infix", ":postfix", ":silent", ":x", ":function", ":"]
NUMS = ["3", "-2", "3.5", "007", "1.", ".5", "-", "1.2.3"]
JUNK = list("(),:$ -.1a\t€ #'\"[]{}/;<=>?@\\^`|~") + ["((", "))", ",,", " ", ""]


def gen_term(rng, depth):
    r = rng.random()
    if r < 0.3:
        t = rng.choice(NAMES)
    elif r < 0.5:
        t = rng.choice(REFS[:3]) if rng.random() < 0.8 else rng.choice(REFS)
    elif r < 0.6:
        t = rng.choice(NUMS[:4]) if rng.random() < 0.8 else rng.choice(NUMS)
    else:
        t = rng.choice(NAMES[:6] + REFS[:2])
    if rng.random() < 0.25:
        t += "".join(rng.choice(PROPS[:5]) for _ in range(rng.randrange(1, 3)))
    if depth > 0 and r >= 0.6 or (depth > 0 and rng.random() < 0.3):
        for _ in range(rng.choice([1, 1, 1, 2])):
            args = [gen_term(rng, depth - 1) for _ in range(rng.randrange(1, 4))]
            sp = lambda: rng.choice(["", "", " ", "\t", "  "])
            t += sp() + "(" + sp() + (sp() + "," + sp()).join(args) + sp() + ")"
    return t


def mutate(rng, s):
    s = list(s)
    for _ in range(rng.randrange(1, 3)):
        k = rng.random()
        pos = rng.randrange(0, len(s) + 1)
        if k < 0.4 and s:
            del s[min(pos, len(s) - 1)]
        elif k < 0.8:
            s.insert(pos, rng.choice(JUNK))
        elif s:
            s[min(pos, len(s) - 1)] = rng.choice(JUNK)
    return "".join(s)


def gen_intent(rng):
    r = rng.random()
    if r < 0.45:
        return gen_term(rng, rng.randrange(0, 4)), "grammar"
    if r < 0.8:
        return mutate(rng, gen_term(rng, rng.randrange(0, 3))), "mutated"
    if r < 0.9:
        return "".join(rng.choice(PROPS) for _ in range(rng.randrange(1, 3))) + rng.choice(["", " ", "(", "($a)"]), "properties"
    n = rng.randrange(1, 12)
    return "".join(chr(rng.choice([rng.randrange(0x20, 0x7F), rng.randrange(0xA0, 0x2100), rng.randrange(0x1F600, 0x1F640)])) for _ in range(n)), "arbitrary"


ARGS = [["a", "leaf", "x"], ["op", "leaf", "+"], ["f", "other", ""]]


def expr_xml(intent, with_attr=True):
    a = f" intent='{mml.esc_attr(intent)}'" if with_attr else ""
    return f"<math><mrow{a}><mi arg='a'>x</mi><mo arg='op'>+</mo><mfrac arg='f'><mn>1</mn><mn>2</mn></mfrac></mrow></math>"


def prop_of(node):
    for k, v in node.get("a", []):
        if k == "data-intent-property":
            return v
    return ""


def arg_of(node):
    for k, v in node.get("a", []):
        if k == "arg":
            return v
    return None


def text_of(node):
    c = node.get("c", [])
    return c[0] if len(c) == 1 and isinstance(c[0], str) else None


def same(m, r):
    """model tree vs real intent subtree; returns None or a description of the difference"""
    if not isinstance(r, dict):
        return f"real node is text {r!r}"
    k = m["k"]
    kids_r = [c for c in r.get("c", []) if isinstance(c, dict)]
    if k == "leaf":
        if r["n"] != ("mn" if m["num"] else "mi") or text_of(r) != m["t"] or prop_of(r) != m["p"]:
            return f"leaf {m} vs {r['n']}/{text_of(r)}/{prop_of(r)}"
        return None
    if k == "ref":
        if arg_of(r) != m["name"] or prop_of(r) != m["p"]:
            return f"ref {m['name']} vs arg={arg_of(r)} props={prop_of(r)}"
        return None
    if k == "self":
        return None
    if k in ("elem", "refhead"):
        if k == "elem" and m["n"] != "" and r["n"] != m["n"]:
            return f"element name {m['n']!r} vs {r['n']!r}"
        if k == "refhead" and arg_of(r) != m["name"]:
            return f"refhead {m['name']} vs arg={arg_of(r)}"
        if prop_of(r) != m["p"]:
            return f"properties {m['p']!r} vs {prop_of(r)!r} on {r['n']}"
        if len(kids_r) != len(m["c"]):
            return f"{len(m['c'])} children vs {len(kids_r)} under {r['n']}"
        for a, b in zip(m["c"], kids_r):
            d = same(a, b)
            if d:
                return d
        return None
    if k == "apply":
        if r["n"] != "apply-function" or len(kids_r) != 1 + len(m["c"]):
            return f"apply-function expected, got {r['n']} with {len(kids_r)} children"
        for a, b in zip([m["h"]] + m["c"], kids_r):
            d = same(a, b)
            if d:
                return d
        return None
    return "unknown model node"


def run(ctx):
    pr = core.prove("C19")
    core.proof_coverage(ctx, pr, "lake build MC.Props.C19 && lake env lean build/audit_C19.lean (#print axioms)",
                        ["modelled, not verified: LexState/get_next/set_token with the four regexes transcribed as scanners, build_intent/build_function/build_arguments/lift_function_name, "
                         "and the recovery wrapper of infer_intent (MC.Model.Intent); the regex literals are compared with the source text on every run",
                         "environment parameters: the rule engine (match_pattern) and find_arg's walk over the element"])
    core.need_harness(ctx)
    core.need_driver(ctx)
    im, mo = core.impl(), core.model()
    rng = ctx.rng
    # regex literals still the ones the model transcribes?
    src = open(core.REPO + "/src/infer_intent.rs", encoding="utf-8").read()
    expected = {
        "CONCEPT_OR_LITERAL": r'^[^\s\u{0}-\u{40}\[\\\]^`\u{7B}-\u{BF}][^\s\u{0}-\u{2C}/:;<=>?@\[\\\]^`\u{7B}-\u{BF}]*',
        "PROPERTY": r'^:[^\s\u{0}-\u{40}\[\\\]^`\u{7B}-\u{BF}][^\s\u{0}-\u{2C}/:;<=>?@\[\\\]^`\u{7B}-\u{BF}]*',
        "ARG_REF": r'^\$[^\s\u{0}-\u{40}\[\\\]^`\u{7B}-\u{BF}][^\s\u{0}-\u{2C}/:;<=>?@\[\\\]^`\u{7B}-\u{BF}]*',
        "NUMBER": r'^-?[0-9]+(\.[0-9]+)?',
    }
    stale = []
    for name, lit in expected.items():
        m = re.search(r"static ref " + name + r": Regex = Regex::new\(\s*r#\"(.*?)\"#", src, re.S)
        if not m or m.group(1) != lit:
            stale.append(name)
    n = 1200 if ctx.tier == "quick" else 60000
    cases = [gen_intent(rng) for _ in range(n)]
    # concept names that are also MathML token element names (the applied name must not be taken for a token again: 038-style panic fixed in the curried case)
    cases += [("mi($a)($f)", "grammar"), ("mtext($a,$f)($f)", "grammar"), ("mn($a)($f)($a)", "grammar"), ("mo($f)", "grammar"), ("mi($a)", "grammar")]
    cases += [("f($a)", "grammar"), ("f($a,$op)", "grammar"), (" plus ( $a , $f ) ", "grammar"), ("$op($f,$a)", "grammar"), ("f(g($a)(3))", "grammar"), (":prefix", "properties"),
              ("plus($a,$f)", "grammar"), ("sum_of($f, $a, 3)", "grammar"), ("a-b( $a )", "grammar"), ("g(x,$f)", "grammar"),
              ("f(", "mutated"), ("f()", "mutated"), ("f($a,)", "mutated"), ("$zz", "mutated"), ("f($a))", "mutated"), ("", "mutated"), ("   ", "mutated"), ("f(" * 40 + "x" + ")" * 40, "grammar")]
    pre_err = core.prelude([{"op": "set_pref", "name": "IntentErrorRecovery", "value": "Error"}])
    pre_ign = core.prelude([{"op": "set_pref", "name": "IntentErrorRecovery", "value": "IgnoreIntent"}])
    reqs = []
    for s, _ in cases:
        reqs += [{"op": "set_mathml", "xml": expr_xml(s)}, {"op": "intent_tree"}, {"op": "speech"}]
    rep_e = im.run([{"op": "session"}] + pre_err + reqs, prelude=pre_err)[1 + len(pre_err):]
    rep_i = im.run([{"op": "session"}] + pre_ign + reqs + [{"op": "set_mathml", "xml": expr_xml("", False)}, {"op": "speech"}], prelude=pre_ign)[1 + len(pre_ign):]
    plain_speech = rep_i[-1]
    rep_m = mo.run([{"op": "intent_parse", "intent": s, "args": ARGS} for s, _ in cases])
    disagreements, oracle_fail, panics = [], [], []
    kinds, productions = {}, set()
    n_accept = 0
    for k, ((s, kind), rm) in enumerate(zip(cases, rep_m)):
        sm, tr_e, sp_e = rep_e[3 * k:3 * k + 3]
        _, tr_i, sp_i = rep_i[3 * k:3 * k + 3]
        kinds[kind] = kinds.get(kind, 0) + 1
        lines = [{"op": "set_mathml", "xml": expr_xml(s)}, {"op": "intent_tree"}, {"op": "speech"}]
        if sm.get("r") != "ok":
            continue      # the XML layer rejected the attribute value (control characters etc.)
        for r_ in (tr_e, sp_e, tr_i, sp_i):
            if r_.get("r") in ("panic", "abort", "timeout"):
                panics.append({"intent": s, "reply": r_, "lines": lines})
        m_ok = rm.get("r") == "ok"
        r_ok = tr_e.get("r") == "ok"
        if m_ok:
            n_accept += 1
            productions.add(json.dumps(rm["v"], sort_keys=True)[:60])
        # ---- correspondence: accept/reject and tree shape
        if tr_e.get("r") in ("ok", "err"):
            if m_ok != r_ok:
                disagreements.append({"intent": s, "model": rm if not m_ok else "accepts", "impl": "accepts" if r_ok else tr_e.get("msg", "")[-200:]})
            elif m_ok:
                kids = [c for c in tr_e["v"].get("c", []) if isinstance(c, dict)]
                d = same(rm["v"], kids[0]) if len(kids) == 1 else f"math has {len(kids)} children"
                if d:
                    disagreements.append({"intent": s, "difference": d, "model": rm["v"], "impl": kids[:1]})
        # ---- oracle on the implementation
        if not r_ok and tr_e.get("r") == "err":
            # Error mode: speech is an error as well; Ignore mode: spoken as without the attribute
            if sp_e.get("r") == "ok":
                oracle_fail.append({"why": "IntentErrorRecovery=Error but speech succeeded on an intent the library itself rejects", "intent": s, "lines": pre_err + lines})
            if sp_i.get("r") != "ok" or (plain_speech.get("r") == "ok" and sp_i.get("v") != plain_speech.get("v")):
                oracle_fail.append({"why": "IgnoreIntent: speech is not the speech of the expression without the attribute", "intent": s, "got": sp_i.get("v", sp_i.get("msg", ""))[:200],
                                    "expected": plain_speech.get("v"), "lines": pre_ign + lines})
        simple = re.match(r"\s*([A-Za-z][A-Za-z_-]*[A-Za-z])\s*\(\s*((?:\$a|\$f|[0-9]+|[a-z]+)(?:\s*,\s*(?:\$a|\$f|[0-9]+|[a-z]+))*)\s*\)\s*$", s)
        if r_ok and simple and sp_i.get("r") == "ok":
            # a well-formed name(args) without properties: the concept and every referenced argument must be spoken
            if simple.group(1).replace("-", " ").replace("_", " ").lower() not in sp_i["v"].lower():
                oracle_fail.append({"why": "well-formed intent name(args) not honoured: speech does not mention the concept", "intent": s, "speech": sp_i["v"], "lines": pre_ign + lines})
            for ref, word in (("$a", "x"), ("$f", "half")):
                if ref in re.split(r"\s*,\s*", simple.group(2)) and word not in sp_i["v"]:
                    oracle_fail.append({"why": f"well-formed intent: referenced argument {ref} is not spoken", "intent": s, "speech": sp_i["v"], "lines": pre_ign + lines})
    # ---- curried applications f(..)(..)(..): every referenced argument of every application has to be spoken (heads lifted one after the other)
    cur_x = "<math><mrow intent='%s'><mi arg='a'>x</mi><mo>+</mo><mi arg='b'>y</mi><mo>+</mo><mi arg='c'>z</mi><mo>+</mo><mfrac arg='op'><mi>p</mi><mi>q</mi></mfrac></mrow></math>"
    CURRIED = [("f($a)($b)", "xy"), ("f($a)($b)($c)", "xyz"), ("f($c)($b)($a)", "xyz"), ("f($a)($b)($c)($a)", "xyz"), ("$op($b)($c)", "pqyz"), ("$op($a)($b)($c)", "pqxyz"),
               ("g(f($a)($b)($c))", "xyz"), ("f(g($a))($b)($c)", "xyz")]
    n_curried = 0
    for s, letters in CURRIED:
        lines = [{"op": "set_mathml", "xml": cur_x % s}, {"op": "speech"}]
        sp = im.run([{"op": "session"}] + pre_ign + lines)[-1]
        n_curried += 1
        if sp.get("r") in ("panic", "abort", "timeout"):
            panics.append({"intent": s, "reply": sp, "lines": lines})
        elif sp.get("r") == "ok":
            missing = [ch for ch in letters if not re.search(r"(?<![A-Za-z])" + ch + r"(?![A-Za-z])", sp["v"])]
            if missing:
                oracle_fail.append({"why": "well-formed curried intent: referenced argument(s) " + ",".join(missing) + " not spoken", "intent": s, "speech": sp["v"], "lines": pre_ign + lines})
    # ---- an illegal intent value on a REFERENCED argument is an illegal intent value too: reported under Error, ignored under IgnoreIntent
    ref_x = "<math><mrow intent='f($a)'><mi arg='a' intent='%s'>x</mi><mo>+</mo><mi>y</mi></mrow></math>"
    # (ignored = spoken as with THAT attribute removed: the legal intent around it still applies)
    plain_xy = im.run([{"op": "session"}] + pre_ign + [{"op": "set_mathml", "xml": "<math><mrow intent='f($a)'><mi arg='a'>x</mi><mo>+</mo><mi>y</mi></mrow></math>"}, {"op": "speech"}])[-1]
    n_refarg = 0
    for inner in ["bar junk(", "g(", "1 2", "a b", "g($a))", "h(,)", "k :"]:
        lines = [{"op": "set_mathml", "xml": ref_x % inner}, {"op": "speech"}]
        sp_e = im.run([{"op": "session"}] + pre_err + lines)[-1]
        sp_i = im.run([{"op": "session"}] + pre_ign + lines)[-1]
        n_refarg += 1
        for r_ in (sp_e, sp_i):
            if r_.get("r") in ("panic", "abort", "timeout"):
                panics.append({"intent": "f($a) over arg intent " + inner, "reply": r_, "lines": lines})
        if sp_e.get("r") == "ok":
            oracle_fail.append({"why": "IntentErrorRecovery=Error but speech succeeded although a referenced argument carries an illegal intent value", "intent": inner, "speech": sp_e.get("v"), "lines": pre_err + lines})
        if sp_i.get("r") != "ok" or (plain_xy.get("r") == "ok" and sp_i.get("v") != plain_xy.get("v")):
            oracle_fail.append({"why": "IgnoreIntent: an illegal intent value on a referenced argument is not ignored (speech is not the speech without that attribute)", "intent": inner,
                                "got": sp_i.get("v", sp_i.get("msg", ""))[:200], "expected": plain_xy.get("v"), "lines": pre_ign + lines})
    # ---- argument scope: a reference is looked up among the descendants, but not inside a child that carries an intent of its own or
    # another arg; a reference that can only be found there is an error (ignored or reported as configured)
    inner = "<mi arg='x'>x</mi><mo>+</mo><mi arg='y'>y</mi>"
    SCOPE = [("direct children", inner, True), ("inside a plain mrow", f"<mrow>{inner}</mrow>", True), ("inside a child with its own intent", f"<mrow intent='g($y)'>{inner}</mrow>", False),
             ("inside a child with another arg", "<msup arg='z'><mi arg='x'>x</mi><mn>2</mn></msup><mo>+</mo><mi arg='y'>y</mi>", False),
             ("inside a child with its own intent, two levels down", f"<mrow intent='g($y)'><mrow>{inner}</mrow></mrow>", False),
             ("inside msqrt with its own intent", "<msqrt intent='h($y)'><mi arg='x'>x</mi><mi arg='y'>y</mi></msqrt>", False),
             ("the child itself carries the arg and an intent", "<mrow arg='x' intent='g($y)'><mi>x</mi><mo>+</mo><mi arg='y'>y</mi></mrow>", True)]
    n_scope = 0
    for what, body_, visible in SCOPE:
        for outer in ("f($x)", "f($x,$x)", "$x", "f(g($x))"):
            w = f"<math><mrow intent='{outer}'>{body_}<mo>=</mo><mn>1</mn></mrow></math>"
            wo = f"<math><mrow>{body_}<mo>=</mo><mn>1</mn></mrow></math>"
            re_ = im.run([{"op": "session"}] + pre_err + [{"op": "set_mathml", "xml": w}, {"op": "intent_tree"}, {"op": "speech"}])[1 + len(pre_err):]
            ri_ = im.run([{"op": "session"}] + pre_ign + [{"op": "set_mathml", "xml": w}, {"op": "speech"}, {"op": "set_mathml", "xml": wo}, {"op": "speech"}])[1 + len(pre_ign):]
            n_scope += 1
            lines = pre_err + [{"op": "set_mathml", "xml": w}, {"op": "intent_tree"}, {"op": "speech"}]
            if any(r_.get("r") in ("panic", "abort", "timeout") for r_ in re_ + ri_):
                panics.append({"intent": outer, "reply": next(r_ for r_ in re_ + ri_ if r_.get("r") in ("panic", "abort", "timeout")), "lines": lines})
                continue
            if visible:
                if re_[1].get("r") != "ok":
                    oracle_fail.append({"why": "argument scope: a reference to an argument that is in scope is rejected", "intent": outer, "where": what, "reply": (re_[1].get("msg") or "")[-200:], "lines": lines})
            else:
                if re_[1].get("r") == "ok" or re_[2].get("r") == "ok":
                    oracle_fail.append({"why": "argument scope: IntentErrorRecovery=Error, but a reference that is only found inside a child with its own intent/arg is accepted", "intent": outer, "where": what,
                                        "speech": re_[2].get("v"), "lines": lines})
                if ri_[1].get("r") != "ok" or ri_[1].get("v") != ri_[3].get("v"):
                    oracle_fail.append({"why": "argument scope: IgnoreIntent, but the speech is not the speech without the attribute", "intent": outer, "where": what, "got": str(ri_[1].get("v", ri_[1].get("msg", "")))[:200],
                                        "expected": ri_[3].get("v"), "lines": pre_ign + [{"op": "set_mathml", "xml": w}, {"op": "speech"}]})
    im.close()
    mo.close()
    ctx.coverage.update({
        "argument_scope_cases": n_scope, "curried_applications": n_curried, "illegal_intent_on_referenced_argument": n_refarg,
        "evaluations": len(cases) + n_scope, "distinct_nontrivial": len(productions),
        "rule": "grammar-generated, mutated, property-only and arbitrary-Unicode intent strings on an mrow with three arg children (two leaves, one fraction), both recovery settings; "
                "accept/reject and intent-tree shape compared with the model; distinct = distinct accepted parse trees (model)",
        "kinds": kinds, "accepted": n_accept, "model_vs_impl_disagreements": disagreements[:8], "n_disagreements": len(disagreements),
        "impl_vs_oracle_failures": [{k: v for k, v in f.items() if k != "lines"} for f in oracle_fail[:8]], "n_oracle_failures": len(oracle_fail),
        "panics_seen_reported_under_C08": [{"intent": p["intent"], "reply": p["reply"]} for p in panics[:5]],
        "stale_regex_literals": stale, "samples": [c[0] for c in cases[:6]],
    })
    for f in oracle_fail:
        ctx.violation("implementation violates C19: " + json.dumps({k: v for k, v in f.items() if k != "lines"}, ensure_ascii=False)[:400],
                      {"kind": "impl-vs-oracle", "case": {k: v for k, v in f.items() if k != "lines"}, "lines": f["lines"]}, tag="oracle",
                      signature={"kind": "c19-oracle", "why": f["why"], "intent": f["intent"]})
    for p in panics[:3]:
        ctx.violation("intent processing crashed: " + json.dumps(p["reply"])[:200], {"kind": "impl-vs-oracle", "case": p, "lines": p["lines"]}, tag="panic",
                      signature={"kind": "c19-panic", "at": p["reply"].get("at", "")})
    found = bool(ctx.violations)
    if stale:
        ctx.violation("the intent regexes changed in the source; the hand-written scanners may be stale: " + ", ".join(stale),
                      {"kind": "translator", "theorem": "MC.Props.C19.*", "stale": stale}, tag="translator", no_input=not found)
    if not pr["ok"] and not found:
        ctx.violation("theorem(s) no longer check: " + ", ".join(pr["failed"]), {"kind": "theorem", "theorems": pr["failed"], "lean_output": pr["output"][-1500:]}, tag="theorem", no_input=True)
    if disagreements and not found:
        d = disagreements[0]
        ctx.violation("model and implementation disagree on an intent value: " + json.dumps(d, ensure_ascii=False)[:400],
                      {"kind": "correspondence", "correspondence": "MC.Intent.parseIntent vs intent_from_mathml", "cases": disagreements[:5],
                       "lines": pre_err + [{"op": "set_mathml", "xml": expr_xml(d["intent"])}, {"op": "intent_tree"}]}, tag="corr", no_input=True)


def replay(ctx, path):
    with open(path) as f:
        rp = json.load(f)
    core.need_harness(ctx)
    im = core.impl()
    lines = rp.get("lines", [])
    for q, r in zip(lines, im.run(lines)):
        print(json.dumps(q, ensure_ascii=False)[:200], "->", json.dumps(r, ensure_ascii=False)[:400])
    im.close()
    return 0
