"""C20 — braille highlighting and cursor routing are safe and side-effect free."""
import json, re
import core, mml
from core import log
import tr_highlight, tr_common
from c11 import ids_of

CODES = {"Nemeth": 0, "UEB": 1, "CMU": 2, "Vietnam": 2}
STYLES = ["Off", "FirstChar", "EndPoints", "All"]


def exprs(rng, n):
    lead = []
    for v in ["script", "bold", "fraktur", "double-struck", "italic", "bold-italic", "sans-serif", "bold-script"]:
        for ch in ["A", "b", "Γ", "α", "7", "Б"]:
            lead.append(mml.math(mml.mrow(mml.N("mi" if not ch.isdigit() else "mn", text=ch, attrs={"mathvariant": v}), mml.mo("+"), mml.mn("12"))))
    rng.shuffle(lead)
    lead = [mml.math(mml.mrow(mml.mi(ch), mml.mo("+"), mml.mn("1"))) for ch in ["б", "Б", "α", "Ω", "ℵ", "A"]] + \
           [mml.math(mml.mrow(mml.mi("x"), mml.mo("+"), mml.mi("∞"))), mml.math(mml.mrow(mml.mo("∃"), mml.mi("x"), mml.mo("="), mml.mi("∞")))] + lead
    # characters no braille table knows pass through as they are -- and are 4 bytes long, not 3 like a braille cell: positions are counted in cells
    passthrough = [mml.math(mml.mrow(mml.mtext("😀😀😀😀😀😀"), mml.mo("+"), mml.mi("x"))), mml.math(mml.mrow(mml.mi("x"), mml.mo("+"), mml.mtext("😀😀"), mml.mo("="), mml.mn("12"))),
                   mml.math(mml.mrow(mml.el("msup", mml.mi("😀"), mml.mn("2")), mml.mo("+"), mml.mi("B")))]
    return passthrough + lead[:18] + mml.corpus_basic()[:12] + mml.corpus_basic()[-2:] + [mml.math(mml.gen_expr(rng, rng.randrange(1, 3))) for _ in range(n)]


def erase78(s):
    return "".join(chr(0x2800 + ((ord(c) - 0x2800) & 0x3F)) if 0x2800 <= ord(c) <= 0x28FF else c for c in s)


def run(ctx):
    report = {}
    extraction_failed = None
    try:
        tr_highlight.extract_highlight(report)
    except tr_common.ExtractionError as e:
        extraction_failed = str(e)
    ctx.coverage["translator"] = {k: v for k, v in report.items() if k != "modules"}
    pr = core.prove("C20")
    core.proof_coverage(ctx, pr, "lake build MC.Props.C20 && lake env lean build/audit_C20.lean (#print axioms)",
                        ["modelled, not verified: highlight_braille_chars, highlight_first_indicator, i_start_nemeth, i_start_ueb/check_for_typeform, is_highlighted/highlight/unhighlight "
                         "transcribed in character indexes (MC.Model.Highlight); character sets and the highlight range regenerated from src/braille.rs",
                         "the search of get_navigation_node_from_braille_position (find_navigation_node over re-brailled subtrees) is outside the model: explored by the oracle",
                         "which cells the braille rules mark for a node id (nav_node_adjust in the rule engine) is an input of the model (hook H3)"])
    core.need_harness(ctx)
    core.need_driver(ctx)
    im, mo = core.impl(), core.model()
    rng = ctx.rng
    E = exprs(rng, 8 if ctx.tier == "quick" else 300)
    disagreements, oracle_fail, panics, observations = [], [], [], []
    evals, nontriv = 0, set()
    samples = []
    for code in CODES:
        for t in E:
            xml = mml.to_xml(t)
            pre = [{"op": "session"}, {"op": "rules_dir", "dir": core.rules_dir()}, {"op": "set_pref", "name": "BrailleCode", "value": code}]
            r = im.run(pre + [{"op": "set_mathml", "xml": xml}, {"op": "braille", "id": ""}, {"op": "speech"}])
            if r[3].get("r") != "ok" or r[4].get("r") != "ok":
                continue
            root, ids, leaf = ids_of(r[3]["v"])
            plain = r[4]["v"]
            speech0 = r[5]
            # (tables: every style also in the quick tier -- the row separator of the linear matrix layouts has dots 7-8 by itself)
            styles = STYLES if ctx.tier == "thorough" or "<mtable" in xml else [rng.choice(STYLES[1:]), "Off"]
            for style in styles:
                reqs = [{"op": "set_pref", "name": "BrailleNavHighlight", "value": style}]
                pick = ids if len(ids) <= 8 or ctx.tier == "thorough" else rng.sample(ids, 8)
                for i in pick + ["no-such-id"]:
                    reqs += [{"op": "braille", "id": i}, {"op": "hook", "which": "last_braille"}]
                    if i in ids:
                        reqs += [{"op": "set_nav", "id": i, "off": 0}, {"op": "bpos"}, {"op": "nav_id"}]
                reqs += [{"op": "get_pref", "name": "BrailleNavHighlight"}, {"op": "braille", "id": ""}, {"op": "speech"}]
                rep = im.run(reqs)
                k = 1
                mreqs, mcases = [], []
                for i in pick + ["no-such-id"]:
                    b, hk = rep[k], rep[k + 1]
                    k += 2
                    bp = nid = None
                    if i in ids:
                        bp, nid = rep[k + 1], rep[k + 2]
                        k += 3
                    evals += 1
                    lines = pre[1:] + [{"op": "set_mathml", "xml": xml}, {"op": "set_pref", "name": "BrailleNavHighlight", "value": style}, {"op": "braille", "id": i}, {"op": "set_nav", "id": i, "off": 0}, {"op": "bpos"}]
                    for x in (b, bp):
                        if x is not None and x.get("r") in ("panic", "abort", "timeout"):
                            panics.append({"code": code, "style": style, "id": i, "xml": xml, "reply": x, "lines": lines})
                    if b.get("r") != "ok":
                        if b.get("r") == "err":
                            oracle_fail.append({"why": "get_braille(id) failed for an id of the expression" if i in ids else "get_braille(unknown id) failed", "code": code, "style": style, "xml": xml, "id": i, "msg": b.get("msg", "")[-200:], "lines": lines})
                        continue
                    out = b["v"]
                    if style == "Off" or i not in ids:
                        if out != plain:
                            oracle_fail.append({"why": "highlight off / unknown id, but the braille differs from the unhighlighted braille", "code": code, "style": style, "id": i, "xml": xml, "got": out, "plain": plain, "lines": lines})
                    else:
                        if erase78(out) != erase78(plain):
                            # not part of C20 as stated (the clean-up regexes see the marked cells); recorded, not raised
                            observations.append({"why": "highlighting changed more than dots 7-8", "code": code, "style": style, "id": i, "xml": xml, "got": out, "plain": plain, "lines": lines})
                        if out != plain:
                            nontriv.add((code, style, xml, i))
                    if bp is not None and bp.get("r") == "ok":
                        a, e = bp["v"]
                        if not (a <= e <= len(out)):
                            oracle_fail.append({"why": "braille position outside the braille string", "code": code, "style": style, "id": i, "xml": xml, "pos": [a, e], "len": len(out), "lines": lines})
                        elif style in ("EndPoints", "All") and i in ids and out != plain and erase78(out) == erase78(plain):
                            # the reported range is the range of the cells that carry dots 7-8 in get_braille(id)
                            # (a cell that has dots 7-8 already in the unhighlighted braille -- Nemeth's row separator -- shows no difference: the range may start / end on such cells)
                            marked = [k for k, (x, y) in enumerate(zip(out, plain)) if x != y]
                            has78 = lambda k: k < len(plain) and (ord(plain[k]) - 0x2800) & 0xC0 == 0xC0
                            ok_start = marked and a <= marked[0] and (style != "All" or all(has78(k) for k in range(a, marked[0])))   # EndPoints: Nemeth's clean-up can drop the marked first cell
                            # the end only has to cover the marked cells: a trailing blank belongs to the node's range but is not marked by EndPoints, and Nemeth's
                            # clean-up moves the mark of a one-digit number onto its numeric indicator (C20 does not say which cells are marked)
                            ok_end = marked and marked[-1] <= e
                            if marked and not (ok_start and ok_end):
                                oracle_fail.append({"why": "get_braille_position does not start at / does not cover the highlighted cells", "code": code, "style": style, "id": i, "xml": xml, "pos": [a, e],
                                                    "highlighted_cells": [marked[0], marked[-1]], "braille": out, "lines": lines})
                    elif bp is not None and bp.get("r") == "err":
                        oracle_fail.append({"why": "get_braille_position failed for a node of the expression", "code": code, "style": style, "id": i, "xml": xml, "msg": bp.get("msg", "")[-200:], "lines": lines})
                    if nid is not None and nid.get("v") != [i, 0]:
                        oracle_fail.append({"why": "a braille query moved the navigation position", "id": i, "nav_id": nid.get("v"), "xml": xml, "lines": lines})
                    if hk.get("r") == "ok":
                        mreqs.append({"op": "highlight", "code": CODES[code], "style": style, "found": i in ids, "s": hk["v"][1]})
                        mcases.append((i, out, bp["v"] if bp is not None and bp.get("r") == "ok" else None, hk["v"][1], lines))
                prefv, plain2, speech2 = rep[k], rep[k + 1], rep[k + 2]
                if prefv.get("v") != style or plain2.get("v") != plain or speech2.get("v") != speech0.get("v"):
                    oracle_fail.append({"why": "braille queries changed the highlight preference or later output", "code": code, "style": style, "xml": xml,
                                        "pref": prefv.get("v"), "lines": pre[1:] + [{"op": "set_mathml", "xml": xml}] + reqs})
                for (i, out, bp, cleaned, lines), rm in zip(mcases, mo.run(mreqs)):
                    if rm.get("r") == "ok":
                        ms, ma, mb, cells = rm["v"]
                        if not cells:
                            continue        # outside the model's guard (a pass-through character is not a 3-byte cell)
                        if ms != out or (bp is not None and [ma, mb] != bp):
                            disagreements.append({"code": code, "style": style, "id": i, "input": cleaned, "model": [ms, ma, mb], "impl": [out, bp], "lines": lines})
                    else:
                        disagreements.append({"code": code, "style": style, "id": i, "input": cleaned, "model": rm, "impl": [out, bp], "lines": lines})
            # ---- cursor routing: every cell index (+ one beyond)
            style = rng.choice(STYLES)
            n = len(plain)
            cells = list(range(n + 1)) if (n <= 14 or ctx.tier == "thorough") else sorted(rng.sample(range(n + 1), 14))
            reqs = [{"op": "set_pref", "name": "BrailleNavHighlight", "value": style}, {"op": "set_nav", "id": root, "off": 0}]
            for c in cells:
                reqs += [{"op": "from_bpos", "pos": c}, {"op": "get_pref", "name": "BrailleNavHighlight"}, {"op": "nav_id"}]
            reqs += [{"op": "braille", "id": ""}, {"op": "speech"}]
            rep = im.run(reqs)
            for j, c in enumerate(cells):
                fb, pv, nid = rep[2 + 3 * j:5 + 3 * j]
                evals += 1
                lines = pre[1:] + [{"op": "set_mathml", "xml": xml}, {"op": "set_pref", "name": "BrailleNavHighlight", "value": style}, {"op": "from_bpos", "pos": c}, {"op": "get_pref", "name": "BrailleNavHighlight"}]
                if fb.get("r") in ("panic", "abort", "timeout"):
                    panics.append({"code": code, "style": style, "pos": c, "xml": xml, "reply": fb, "lines": lines})
                    break
                if fb.get("r") == "ok" and fb["v"][0] not in ids:
                    oracle_fail.append({"why": "node found from a braille position is not an id of the expression", "pos": c, "got": fb["v"], "xml": xml, "code": code, "lines": lines})
                if fb.get("r") == "err" and c < n:
                    oracle_fail.append({"why": "no node found for a cell of the braille", "pos": c, "msg": fb.get("msg", "")[-200:], "xml": xml, "code": code, "lines": lines})
                if pv.get("v") != style:
                    oracle_fail.append({"why": "cursor routing left BrailleNavHighlight changed", "pos": c, "pref": pv.get("v"), "expected": style, "xml": xml, "code": code, "lines": lines})
                if nid.get("v") != [root, 0]:
                    oracle_fail.append({"why": "cursor routing moved the navigation position", "pos": c, "nav_id": nid.get("v"), "xml": xml, "code": code, "lines": lines})
            # ---- route, then go there: the (id, offset) a cell routes to is made the navigation position (what a host does on a routing key),
            # and the position of the current node is asked for under every style -- it has to stay inside the braille (start <= end <= length)
            routed = []
            for j, c in enumerate(cells):
                fb = rep[2 + 3 * j]
                if fb.get("r") == "ok" and fb["v"][0] in ids and fb["v"] not in routed:
                    routed.append(fb["v"])
            routed = [x for x in routed if x[1] != 0] + [x for x in routed if x[1] == 0][:3]
            for rstyle in STYLES[1:]:
                reqs2 = [{"op": "set_pref", "name": "BrailleNavHighlight", "value": rstyle}]
                for (rid, roff) in routed:
                    reqs2 += [{"op": "set_nav", "id": rid, "off": roff}, {"op": "bpos"}]
                rep2 = im.run(reqs2 + [{"op": "set_nav", "id": root, "off": 0}])
                for j, (rid, roff) in enumerate(routed):
                    bp2 = rep2[2 + 2 * j]
                    evals += 1
                    lines = pre[1:] + [{"op": "set_mathml", "xml": xml}, {"op": "set_pref", "name": "BrailleNavHighlight", "value": rstyle}, {"op": "set_nav", "id": rid, "off": roff}, {"op": "bpos"}]
                    if bp2.get("r") in ("panic", "abort", "timeout"):
                        panics.append({"code": code, "style": rstyle, "id": rid, "xml": xml, "reply": bp2, "lines": lines})
                    elif bp2.get("r") == "ok":
                        a, e = bp2["v"]
                        if not (a <= e <= n):
                            oracle_fail.append({"why": "position of the node a cell routed to is not inside the braille (start <= end <= length)", "routed_to": [rid, roff], "position": [a, e], "length": n,
                                                "style": rstyle, "xml": xml, "code": code, "lines": lines})
            if rep[-2].get("v") != plain or rep[-1].get("v") != speech0.get("v"):
                oracle_fail.append({"why": "cursor routing changed later braille/speech output", "xml": xml, "code": code, "lines": pre[1:] + [{"op": "set_mathml", "xml": xml}] + reqs})
            if len(samples) < 3 and mcases:
                samples.append({"code": code, "xml": xml, "id": mcases[0][0], "braille": mcases[0][1], "pos": mcases[0][2]})
    im.close()
    mo.close()
    ctx.coverage.update({
        "evaluations": evals, "distinct_nontrivial": len(nontriv),
        "rule": "leading-typeface tokens + corpus + generated expressions x {Nemeth, UEB, CMU, Vietnam} x highlight styles: every (sampled) node id and an unknown id through get_braille / "
                "set_navigation_node + get_braille_position, every (sampled) cell index through get_navigation_node_from_braille_position; non-trivial = highlighted braille differs from plain",
        "expressions": len(E), "model_vs_impl_disagreements": [{k: v for k, v in d.items() if k != "lines"} for d in disagreements[:6]], "n_disagreements": len(disagreements),
        "impl_vs_oracle_failures": [{k: v for k, v in f.items() if k != "lines"} for f in oracle_fail[:8]], "n_oracle_failures": len(oracle_fail),
        "panics_seen": [{k: v for k, v in p.items() if k != "lines"} for p in panics[:5]], "samples": samples,
        "observations_beyond_property": [{k: v for k, v in p.items() if k != "lines"} for p in observations[:3]], "n_observations": len(observations),
    })
    for f in oracle_fail:
        ctx.violation("implementation violates C20: " + json.dumps({k: v for k, v in f.items() if k != "lines"}, ensure_ascii=False)[:400],
                      {"kind": "impl-vs-oracle", "case": {k: v for k, v in f.items() if k != "lines"}, "lines": f["lines"]}, tag="oracle",
                      signature={"kind": "c20-oracle", "why": f["why"], "code": f.get("code", "")})
    for p in panics:
        ctx.violation("braille query crashed: " + json.dumps(p["reply"], ensure_ascii=False)[:200], {"kind": "impl-vs-oracle", "case": {k: v for k, v in p.items() if k != "lines"}, "lines": p["lines"]}, tag="panic",
                      signature={"kind": "c20-panic", "at": re.sub(r":\d+$", "", p["reply"].get("at", "")), "msg_prefix": p["reply"].get("msg", "")})
    found = bool(ctx.violations)
    if extraction_failed:
        ctx.violation(f"translator could not parse the highlight tables ({extraction_failed})", {"kind": "translator", "theorem": "MC.Props.C20.*", "error": extraction_failed}, tag="translator", no_input=not found)
    if not pr["ok"] and not found:
        ctx.violation("theorem(s) no longer check: " + ", ".join(pr["failed"]), {"kind": "theorem", "theorems": pr["failed"], "lean_output": pr["output"][-1500:]}, tag="theorem", no_input=True)
    if disagreements and not found:
        d = disagreements[0]
        ctx.violation("model and implementation disagree on highlighting: " + json.dumps({k: v for k, v in d.items() if k != "lines"}, ensure_ascii=False)[:400],
                      {"kind": "correspondence", "correspondence": "MC.Highlight.brailleResult vs get_braille/get_braille_position (input through H3)", "cases": [{k: v for k, v in x.items() if k != "lines"} for x in disagreements[:5]],
                       "lines": d["lines"]}, tag="corr", no_input=True)


def replay(ctx, path):
    with open(path) as f:
        rp = json.load(f)
    core.need_harness(ctx)
    im = core.impl()
    lines = rp.get("lines", [])
    for q, r in zip(lines, im.run(lines)):
        print(json.dumps(q, ensure_ascii=False)[:200], "->", json.dumps(r, ensure_ascii=False)[:400])
    im.close()
    return 0
