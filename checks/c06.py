"""C06 — braille renders every operand of the expression."""
import json, re
import core, mml, speech_run
import tr_braille, tr_common

CODES = {
    "Nemeth": [(), (("UseSpacesAroundAllOperators", "true"),)],
    "UEB": [(("UEB_START_MODE", "Grade2"),), (("UEB_START_MODE", "Grade1"),), (("UEB_UseSpacesAroundAllOperators", "true"),)],
    "CMU": [()],
    "Vietnam": [(), (("Vietnam_UseDropNumbers", "true"),)],
    "LaTeX": [(("LaTeX_UseShortName", "false"),), (("LaTeX_UseShortName", "true"),)],
    "ASCIIMath": [(), (("UseSpacesAroundAllOperators", "true"),)],
    "Swedish": [()],
    "Finnish": [()],
}
TEXT = ("LaTeX", "ASCIIMath")


def count_own(out, run_, cells):
    """occurrences of the literal's cells as a number of its own: not directly continued by a further digit cell (or by a
    decimal point and a digit) on either side -- 4683 directly followed by 36 reads 468336 and renders neither"""
    digits = set("0123456789") if cells is None else {cells[d] for d in "0123456789"}
    point = "." if cells is None else cells["."]
    n, i = 0, out.find(run_)
    while i >= 0:
        j = i + len(run_)
        before = (i > 0 and out[i - 1] in digits) or (i > 1 and out[i - 1] == point and out[i - 2] in digits)
        after = (j < len(out) and out[j] in digits) or (j + 1 < len(out) and out[j] == point and out[j + 1] in digits)
        if not before and not after:
            n += 1
        i = out.find(run_, i + 1)
    return n


def learn_digits(im, pre):
    """digit cells and decimal-point cells of the code, read off the implementation: braille of 11, 22, ..., 00 and of 1.1"""
    xs = [f"<math><mn>{d}{d}</mn></math>" for d in "0123456789"] + ["<math><mn>1.1</mn></math>"]
    reqs = []
    for x in xs:
        reqs += [{"op": "set_mathml", "xml": x}, {"op": "braille", "id": ""}]
    rep = im.run([{"op": "session"}] + pre + reqs)[1 + len(pre):]
    cells = {}
    for i, d in enumerate("0123456789"):
        b = rep[2 * i + 1]
        if b.get("r") != "ok" or len(b["v"]) < 2 or b["v"][-1] != b["v"][-2]:
            return None
        cells[d] = b["v"][-1]
    b = rep[21]
    if b.get("r") != "ok":
        return None
    m = re.search(re.escape(cells["1"]) + "(.+)" + re.escape(cells["1"]) + "$", b["v"])
    if not m:
        return None
    cells["."] = m.group(1)
    return cells


def run(ctx):
    report = {}
    extraction_failed = None
    core.need_harness(ctx)
    try:
        tr_braille.extract_braille(report, core.MCDRIVE)
    except tr_common.ExtractionError as e:
        extraction_failed = str(e)
    ctx.coverage["translator"] = {k: v for k, v in report.items() if k != "modules"}
    pr = core.prove("C06")
    core.proof_coverage(ctx, pr, "lake build MC.Props.C06 && lake env lean build/audit_C06.lean (#print axioms)", [
        "modelled, not verified: LaTeX_cleanup and ASCIIMath_cleanup completely (MC.TextCodes; the model must reproduce the cleaned string of every braille call of the run, read through hook H3) and the last "
        "phase of every cell-code clean-up (MC.BrailleFinal, tables and indicator classes regenerated from src/braille.rs on every run)",
        "NOT modelled: the braille rule files (which children a rule transcribes), the BrailleChars transcription of a leaf, and the regex chains in front of the last phase of the cell codes "
        "(nemeth_cleanup, ueb_cleanup / remove_unneeded_mode_changes / handle_contractions, vietnam_cleanup, cmu_cleanup): for them the property is decided on the implementation only (planted literals)",
        "regex-crate semantics as transcribed; \\w for non-ASCII characters is taken from python's re (passed to the model as data)",
        "the digit and decimal-point cells of each code are read off the implementation (braille of 11, 22, ..., 00 and 1.1)"])
    core.need_driver(ctx)
    im, mo = core.impl(), core.model()
    rng = ctx.rng
    n_random = 60 if ctx.tier == "quick" else 800
    oracle_fail, disagreements, merged = [], [], []
    n_eval = n_lits = n_text_compared = 0
    nontrivial = set()
    per_code = {}
    for code, prefsets in CODES.items():
        for ps in prefsets:
            pre = core.prelude([{"op": "set_pref", "name": "BrailleCode", "value": code}] + [{"op": "set_pref", "name": k, "value": v} for k, v in ps])
            cells = None if code in TEXT else learn_digits(im, pre)
            if code not in TEXT and cells is None:
                per_code[code + str(dict(ps))] = "digit cells could not be read off: code skipped"
                continue
            trees = [f() for f in speech_run.FIXED] + [speech_run.operand_positions(rng, rng.randrange(1, 4)) for _ in range(n_random)]
            lits = [speech_run.plant(rng, t, ".", integers=0.4) for t in trees]
            xmls = [mml.to_xml(mml.math(t), ns_decl=False) for t in trees]
            reqs = []
            for x in xmls:
                reqs += [{"op": "set_mathml", "xml": x}, {"op": "braille", "id": ""}, {"op": "hook", "which": "last_braille"}]
            rep = im.run([{"op": "session"}] + pre + reqs, prelude=pre)[1 + len(pre):]
            mreqs, mitems = [], []
            n_ok = 0
            for k, (x, ls) in enumerate(zip(xmls, lits)):
                sm, br, hk = rep[3 * k:3 * k + 3]
                lines = pre + [{"op": "set_mathml", "xml": x}, {"op": "braille", "id": ""}]
                if sm.get("r") != "ok":
                    continue
                if br.get("r") != "ok":
                    if br.get("r") == "err" and ls:
                        oracle_fail.append({"why": "braille fails for an expression with operands", "code": code, "prefs": dict(ps), "xml": x, "reply": br, "lines": lines})
                    continue
                n_ok += 1
                n_eval += 1
                n_lits += len(ls)
                if len(ls) >= 2:
                    nontrivial.add((code, x))
                out = br["v"]
                for l in set(ls):
                    run_ = l if code in TEXT else "".join(cells[ch] for ch in l)
                    # counted as numbers of their own (so that 4683 followed by 36 does not count as an occurrence of 33); where numbers run
                    # together (two mn side by side, a numeric script before a number) the plain count of the statement decides, and the case is recorded
                    want, got = ls.count(l), count_own(out, run_, cells)
                    if got != want and out.count(run_) == want:
                        merged.append({"literal": l, "code": code, "xml": x, "braille": out})
                        got = want
                    if got < want and code in ("CMU", "Vietnam") and l.isdigit():
                        # drop numbers: an integer denominator of a numeric fraction is written with the digits lowered one row (by design)
                        low = dict(zip("⠁⠃⠉⠙⠑⠋⠛⠓⠊⠚", "⠂⠆⠒⠲⠢⠖⠶⠦⠔⠴"))
                        got += out.count("".join(low[cells[ch]] for ch in l))
                    if got != want:
                        oracle_fail.append({"why": "literal brailled %d times instead of %d" % (got, want), "literal": l, "cells": run_, "code": code, "prefs": dict(ps), "xml": x, "braille": out, "lines": lines})
                if code in TEXT and hk.get("r") == "ok":
                    raw, cleaned = hk["v"]
                    extra = "".join(sorted({c for c in raw if ord(c) > 127 and re.match(r"\w", c)}))
                    mreqs.append({"op": "latex_cleanup", "s": raw} if code == "LaTeX" else {"op": "asciimath_cleanup", "s": raw, "extra": extra})
                    mitems.append((x, raw, cleaned, lines))
            for (x, raw, cleaned, lines), r in zip(mitems, mo.run(mreqs)):
                n_text_compared += 1
                if r.get("v") != cleaned:
                    disagreements.append({"code": code, "raw": raw, "impl": cleaned, "model": r.get("v"), "xml": x, "lines": lines})
            per_code[code + (" " + json.dumps(dict(ps)) if ps else "")] = {"expressions": len(xmls), "brailled": n_ok, "digit_cells": "".join(cells[d] for d in "0123456789") + " point " + cells["."] if cells else "verbatim"}
    im.close()
    mo.close()
    kinds = {}
    for f in oracle_fail:
        kinds[(f["code"], f["why"])] = kinds.get((f["code"], f["why"]), 0) + 1
    ctx.coverage.update({
        "evaluations": n_eval, "distinct_nontrivial": len(nontrivial),
        "rule": "9 fixed shapes + generated textbook-grammar expressions with a distinct two-digit.two-digit literal at every operand position x {Nemeth, UEB, CMU, Vietnam, LaTeX, ASCIIMath, Swedish, Finnish} x "
                "code-specific preferences (UEB start mode and spacing, LaTeX short names, Vietnam drop numbers, spaces around operators); the literal's cells (text codes: the literal itself) are "
                "counted as contiguous runs in get_braille(''). non-trivial = at least 2 planted literals",
        "per_code": per_code, "literals_planted": n_lits, "text_code_cleanups_compared_with_model": n_text_compared,
        "oracle_failure_kinds": {f"{k[0]}: {k[1]}": v for k, v in kinds.items()},
        "model_vs_impl_disagreements": [{k: v for k, v in d.items() if k != "lines"} for d in disagreements[:8]], "n_disagreements": len(disagreements),
        "impl_vs_oracle_failures": [{k: v for k, v in f.items() if k != "lines"} for f in oracle_fail[:8]], "n_oracle_failures": len(oracle_fail),
        "observation_numbers_run_together": {"count": len(merged), "note": "a literal whose cells are directly continued by another number's cells (not a violation of C06 as stated)", "samples": merged[:4]},
    })
    for f in oracle_fail:
        ctx.violation("implementation violates C06: " + json.dumps({k: v for k, v in f.items() if k not in ("lines",)}, ensure_ascii=False)[:500],
                      {"kind": "impl-vs-oracle", "case": {k: v for k, v in f.items() if k != "lines"}, "lines": f["lines"]}, tag="oracle",
                      signature={"kind": "c06-oracle", "code": f["code"], "why": f["why"]})
    found = bool(ctx.violations)          # (failures attributed to a known finding do not count)
    if extraction_failed:
        ctx.violation(f"translator could not parse the braille tables ({extraction_failed})", {"kind": "translator", "theorem": "MC.Props.C06.classes_free_of_cells", "error": extraction_failed}, tag="translator", no_input=not found)
    if not pr["ok"] and not found:
        ctx.violation("theorem(s) no longer check: " + ", ".join(pr["failed"]), {"kind": "theorem", "theorems": pr["failed"], "lean_output": pr["output"][-1500:]}, tag="theorem", no_input=True)
    if disagreements and not found:
        d = disagreements[0]
        ctx.violation("model and implementation clean up a text code differently: " + json.dumps({k: v for k, v in d.items() if k != "lines"}, ensure_ascii=False)[:400],
                      {"kind": "correspondence", "correspondence": "MC.TextCodes.latexCleanup/asciimathCleanup vs LaTeX_cleanup/ASCIIMath_cleanup (hook H3)", "cases": [{k: v for k, v in x.items() if k != "lines"} for x in disagreements[:5]], "lines": d["lines"]},
                      tag="corr", no_input=True)


def replay(ctx, path):
    with open(path) as f:
        rp = json.load(f)
    core.need_harness(ctx)
    im = core.impl()
    lines = rp.get("lines", [])
    for q, r in zip(lines, im.run([{"op": "session"}] + lines)[1:]):
        print(json.dumps(q, ensure_ascii=False)[:300], "->", json.dumps(r, ensure_ascii=False)[:800])
    im.close()
    return 0
