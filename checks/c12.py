"""C12 — preferences read back as set, persist, and bad settings are rejected."""
import json, re
import core, mml
from core import log
import tr_prefs, tr_common

ERR_KINDS = [
    ("No preference named", "no-preference"),
    ("is an unknown MathCAT preference", "unknown-preference"),
    ("is a boolean preference", "wrong-kind-boolean"),
    ("must be a float", "not-a-float"),
    ("Improper format for 'Language'", "language-format"),
    ("'LanguageAuto' can not have the value 'Auto'", "languageauto-auto"),
    ("'LanguageAuto' can only be used", "languageauto-needs-auto"),
]


def classify(reply):
    r = reply.get("r")
    if r == "ok":
        return ("ok", reply.get("v"))
    if r == "err":
        msg = reply.get("msg", "")
        if "kind" in reply and reply.get("msg", "") == "" and reply["kind"] != "":
            return ("err", reply["kind"])
        for pat, k in ERR_KINDS:
            if pat in msg:
                return ("err", k)
        return ("err", "other:" + msg[:80])
    if r == "panic":
        return ("panic", reply.get("at", ""))
    return (r, "")


DEC_RE = re.compile(r"[+-]?(\d+\.?\d*|\.\d+)\Z")


def rust_float_norm(value):
    """Rust `value.parse::<f64>().to_string()` for the decimal sub-language the generator uses; 'UNMODELLED' outside it."""
    if not DEC_RE.match(value):
        low = value.lower().lstrip("+-")
        if low in ("inf", "infinity", "nan") or re.match(r"[+-]?(\d+\.?\d*|\.\d+)[eE][+-]?\d+\Z", value):
            return "UNMODELLED"
        return None
    digits = re.sub(r"[^0-9]", "", value).lstrip("0")
    if len(digits) > 15:
        return "UNMODELLED"
    x = float(value)
    if x == 0:
        return "-0" if value.strip().startswith("-") else "0"
    if abs(x) >= 1e16 or abs(x) < 1e-5:
        return "UNMODELLED"
    if x.is_integer():
        return str(int(x))
    return repr(x)


def values_for(rng, name, kind, cur):
    pool = [cur, cur, "true", "false", "True", "FALSE", "tRuE", "yes", "maybe", "", " ", "0", "1", "12", "3.5", "007.50", "-0", "abc", "Auto", "Terse", "Verbose", "Off",
            "en", "de", "de-ch", "fr-FR-x", "zz", "e", "eng", "é", "Auto", "en-", "-", "x" * 300, "ÅΩ😀", "\uffff", "12abc", "1e3", ".5", "5.", "+7", "--1", "inf", "NaN",
            "ClearSpeak", "SimpleSpeak", "Nemeth", "UEB", "SSML", "None", "Enhanced", "Simple", "Character", ",", ".", "Custom"]
    return rng.choice(pool)


def gen_ops(rng, names, n_ops):
    """[('set', name, value) | ('get', name) | ('mathml', xml) | ('speech',) | ('braille',)]"""
    ops = []
    known = [n for n, _, _ in names]
    typed = {n: (k, v) for n, k, v in names}
    unknown = ["Foo", "language", "Verbosity ", "", "TTS2", "Speech_Style", "NoSuchPref", "ＴＴＳ", "Navmode"]
    for _ in range(n_ops):
        r = rng.random()
        if r < 0.55:
            name = rng.choice(known) if rng.random() < 0.85 else rng.choice(unknown)
            k, cur = typed.get(name, ("str", "x"))
            ops.append(("set", name, values_for(rng, name, k, cur)))
            if rng.random() < 0.6:
                ops.append(("get", name))
        elif r < 0.85:
            ops.append(("get", rng.choice(known + unknown + ["DecimalSeparators", "BlockSeparators", "LanguageAuto", "Language"])))
        elif r < 0.92:
            ops.append(("mathml", mml.to_xml(rng.choice(mml.corpus_basic()))))
        elif r < 0.96:
            ops.append(("speech",))
        else:
            ops.append(("braille",))
    return ops


def to_impl(op):
    if op[0] == "set":
        return {"op": "set_pref", "name": op[1], "value": op[2]}
    if op[0] == "get":
        return {"op": "get_pref", "name": op[1]}
    if op[0] == "mathml":
        return {"op": "set_mathml", "xml": op[1]}
    if op[0] == "speech":
        return {"op": "speech"}
    return {"op": "braille", "id": ""}


def run(ctx):
    report = {}
    extraction_failed = None
    try:
        tr_prefs.extract_prefs(report, core.MCDRIVE)
    except (tr_common.ExtractionError, Exception) as e:
        core.need_harness(ctx)
        try:
            tr_prefs.extract_prefs(report, core.MCDRIVE)
        except tr_common.ExtractionError as e2:
            extraction_failed = str(e2)
    ctx.coverage["translator"] = {k: v for k, v in report.items() if k != "modules"}
    pr = core.prove("C12", extra_modules=["MC.Props.C12Sep"])
    core.proof_coverage(ctx, pr, "lake build MC.Props.C12 && lake env lean build/audit_C12.lean (#print axioms)",
                        ["modelled, not verified: set_preference/get_preference/set_string_pref/is_boolean_pref/set_separators/pref_to_string transcribed by hand (MC.Model.Prefs); "
                         "default maps, float names, flattened Rules/prefs.yaml and USE_DECIMAL_SEPARATOR regenerated from the source",
                         "environment parameters of the model: filesOk (rule-file lookup succeeds; C15) and normFloat (Rust f64 parse/print)",
                         "assumption: no non-ASCII character lower-cases (Rust to_lowercase) into a letter of 'true'/'false'",
                         "separators_follow_preferences / separators_route_independent (MC/Props/C12Sep.lean): after EVERY history of set_preference requests (accepted or rejected, any order, through "
                         "Language or through Language=Auto + LanguageAuto) that does not write DecimalSeparators / BlockSeparators directly, these two are exactly deriveSeparators(language in force, "
                         "DecimalSeparator) whenever DecimalSeparator is Auto, ',' or '.'; two histories ending in the same three preferences end in the same separators. The invariant was false of "
                         "the library before e46c52d (the route battery of this check shows it on the implementation)"])
    core.need_harness(ctx)
    core.need_driver(ctx)
    im, mo = core.impl(), core.model()
    rng = ctx.rng
    names = mo.run([{"op": "prefs_names"}])[0]["v"]       # [name, kind, rendered]
    seen = set()
    names = [x for x in names if not (x[0] in seen or seen.add(x[0]))]
    n_hist = 60 if ctx.tier == "quick" else 3000
    n_ops = 40
    disagreements, oracle_fail = [], []
    evals, nontriv = 0, set()
    kinds_hit = {}
    samples = []
    # every known name x a fixed battery first (so every name is exercised every run), then random histories
    histories = []
    battery = []
    for n, k, cur in names:
        for v in [cur, "true", "FALSE", "yes", "12.50", "abc", ""]:
            battery += [("set", n, v), ("get", n)]
    for i in range(0, len(battery), 40):
        histories.append(battery[i:i + 40])
    # the derived separator preferences follow Language and DecimalSeparator at once (set_separators), in every order
    sep_expr = "<math><mn>1,234</mn><mo>+</mo><mn>5.678</mn></math>"
    for lang in ["en", "de", "de-ch", "es", "es-mx", "sv", "fi", "en-gb", "vi", "fr", "zz", "Auto"]:
        h = []
        for ds in [",", ".", "Auto", "Custom", ",", "Auto", "."]:
            h += [("set", "DecimalSeparator", ds), ("get", "DecimalSeparators"), ("get", "BlockSeparators"), ("set", "Language", lang), ("get", "DecimalSeparators"), ("get", "BlockSeparators"),
                  ("mathml", sep_expr), ("speech",)]
        histories.append(h)
        histories.append([("set", "Language", lang), ("get", "DecimalSeparators")] + h[:16] + [("set", "Language", "en"), ("get", "DecimalSeparators"), ("get", "BlockSeparators")])
    # ... and depend only on the two preferences, not on the order in which they were set
    sep_by_order = {}
    for lang in ["en", "de", "de-ch", "de-li", "es", "es-mx", "sv", "fr-ch", "zz"]:
        for ds in [",", ".", "Auto"]:
            for order in ("dec-then-lang", "lang-then-dec"):
                sets = [{"op": "set_pref", "name": "DecimalSeparator", "value": ds}, {"op": "set_pref", "name": "Language", "value": lang}]
                reqs = [{"op": "session"}, {"op": "rules_dir", "dir": core.rules_dir()}] + (sets if order == "dec-then-lang" else sets[::-1]) + \
                    [{"op": "get_pref", "name": "DecimalSeparators"}, {"op": "get_pref", "name": "BlockSeparators"}]
                rep = im.run(reqs)
                sep_by_order[(lang, ds, order)] = ([r.get("v") for r in rep[-2:]], reqs[1:])
                evals += 1
            a, b = sep_by_order[(lang, ds, "dec-then-lang")], sep_by_order[(lang, ds, "lang-then-dec")]
            if a[0] != b[0]:
                oracle_fail.append({"why": "the derived separators depend on the order in which Language and DecimalSeparator were set", "Language": lang, "DecimalSeparator": ds,
                                    "decimal_then_language": a[0], "language_then_decimal": b[0], "lines": a[1]})
    # ... also when the language comes from the host (Language=Auto + LanguageAuto), whatever was set before
    for lang in ["en", "de-ch", "es", "es-mx", "sv", "zz"]:
        for ds in [",", ".", "Auto"]:
            want = sep_by_order[(lang, ds, "lang-then-dec")][0] if (lang, ds, "lang-then-dec") in sep_by_order else None
            if want is None:
                rep = im.run([{"op": "session"}, {"op": "rules_dir", "dir": core.rules_dir()}, {"op": "set_pref", "name": "Language", "value": lang}, {"op": "set_pref", "name": "DecimalSeparator", "value": ds},
                              {"op": "get_pref", "name": "DecimalSeparators"}, {"op": "get_pref", "name": "BlockSeparators"}])
                want = [r.get("v") for r in rep[-2:]]
            A, L, D = ("Language", "Auto"), ("LanguageAuto", lang), ("DecimalSeparator", ds)
            for route in ([A, L, D], [D, A, L], [("DecimalSeparator", ","), A, L, D], [("Language", "fi"), D, A, L], [A, ("LanguageAuto", "fi"), D, L], [A, L, ("DecimalSeparator", "."), D]):
                reqs = [{"op": "session"}, {"op": "rules_dir", "dir": core.rules_dir()}] + [{"op": "set_pref", "name": n, "value": v} for n, v in route] + \
                    [{"op": "get_pref", "name": "DecimalSeparators"}, {"op": "get_pref", "name": "BlockSeparators"}]
                rep = im.run(reqs)
                evals += 1
                if any(r.get("r") != "ok" for r in rep[2:-2]):
                    continue
                got = [r.get("v") for r in rep[-2:]]
                if got != want:
                    oracle_fail.append({"why": "the derived separators depend on the route by which the language and DecimalSeparator were set (Language=Auto + LanguageAuto)", "Language": lang, "DecimalSeparator": ds,
                                        "route": [list(x) for x in route], "separators": got, "with_Language": want, "lines": reqs[1:]})
    for _ in range(n_hist):
        histories.append(gen_ops(rng, names, n_ops))
    all_names_probe = [("get", n) for n, _, _ in names]
    for hist in histories:
        hist = hist + all_names_probe
        reqs_i = [{"op": "session"}, {"op": "rules_dir", "dir": core.rules_dir()}] + [to_impl(o) for o in hist]
        rep_i = im.run(reqs_i)[2:]
        mops = [["init"]]
        idx = []
        for j, o in enumerate(hist):
            if o[0] == "set":
                v = o[2]
                if o[1] in ("Language", "LanguageAuto"):
                    pass
                fn = rust_float_norm(v)
                mops.append(["set", o[1], v, None if fn in (None, "UNMODELLED") else fn, True])
                idx.append(j)
            elif o[0] == "get":
                mops.append(["get", o[1]])
                idx.append(j)
        rep_m = mo.run([{"op": "prefs_run", "ops": mops}])[0]["v"][1:]
        skip_rest = False
        last_set = {}
        for j, rm in zip(idx, rep_m):
            o = hist[j]
            ci, cm = classify(rep_i[j]), classify(rm)
            evals += 1
            kinds_hit[cm[0] + ":" + (cm[1] if cm[0] != "ok" else "")] = kinds_hit.get(cm[0] + ":" + (cm[1] if cm[0] != "ok" else ""), 0) + 1
            unmodelled = o[0] == "set" and rust_float_norm(o[2]) == "UNMODELLED"
            if unmodelled:
                skip_rest = True       # model state may now differ for this float pref: stop comparing this history
            if not skip_rest and ci != cm:
                disagreements.append({"history": [list(x) for x in hist[:j + 1]][-8:], "op": list(o), "impl": list(ci), "model": list(cm)})
                skip_rest = True
            # ---- oracle on the implementation alone
            if ci[0] == "panic":
                oracle_fail.append({"why": "panic", "op": list(o), "at": ci[1], "lines": reqs_i[1:j + 3]})
            if o[0] == "set":
                nontriv.add((o[1], o[2]))
                last_set[o[1]] = (o[2], ci[0])
            if o[0] == "get" and o[1] == "DecimalSeparators" and j > 0 and hist[j - 1] in (("set", "DecimalSeparator", ","), ("set", "DecimalSeparator", ".")) and classify(rep_i[j - 1])[0] == "ok":
                if ci != ("ok", hist[j - 1][2]):
                    oracle_fail.append({"why": "DecimalSeparators does not follow the DecimalSeparator just set", "set": hist[j - 1][2], "got": list(ci), "lines": reqs_i[1:j + 3]})
            if o[0] == "get" and o[1] in last_set and j > 0 and hist[j - 1][0] == "set" and hist[j - 1][1] == o[1]:
                v, res = last_set[o[1]]
                if res == "ok" and ci[0] == "ok":
                    if not readback_ok(o[1], v, ci[1]):
                        oracle_fail.append({"why": "read-back differs", "name": o[1], "set": v, "got": ci[1], "lines": reqs_i[1:j + 3]})
                elif res == "ok" and ci[0] != "ok":
                    oracle_fail.append({"why": "accepted value cannot be read back", "name": o[1], "set": v, "got": list(ci), "lines": reqs_i[1:j + 3]})
        if len(samples) < 3:
            samples.append([list(x) for x in hist[:6]])
    # ---- oracle: a rejected request leaves every preference and output as before; persistence across set_mathml
    probes = [("Foo", "bar"), ("Foo", "true"), ("Bookmark", "yes"), ("Rate", "fast"), ("Overview", "maybe"), ("Language", "english"), ("Verbosity ", "Terse"), ("Rate", "true")]
    expr = mml.to_xml(mml.corpus_basic()[1])
    for n, v in probes:
        reqs = [{"op": "session"}, {"op": "rules_dir", "dir": core.rules_dir()}, {"op": "set_pref", "name": "Verbosity", "value": "Verbose"}, {"op": "set_mathml", "xml": expr}]
        snap = [{"op": "get_pref", "name": x[0]} for x in names] + [{"op": "speech"}, {"op": "braille", "id": ""}, {"op": "overview"}]
        reqs2 = reqs + snap + [{"op": "set_pref", "name": n, "value": v}] + snap + [{"op": "set_mathml", "xml": expr}] + snap
        rep = im.run(reqs2)
        a = rep[len(reqs):len(reqs) + len(snap)]
        rej = rep[len(reqs) + len(snap)]
        b = rep[len(reqs) + len(snap) + 1:len(reqs) + 2 * len(snap) + 1]
        c = rep[len(reqs) + 2 * len(snap) + 2:]
        evals += 1
        if rej.get("r") != "err":
            oracle_fail.append({"why": "bad request not rejected", "name": n, "value": v, "reply": rej, "lines": reqs + [{"op": "set_pref", "name": n, "value": v}]})
        if [x.get("v") for x in a] != [x.get("v") for x in b]:
            oracle_fail.append({"why": "rejected request changed preferences/outputs", "name": n, "value": v, "lines": reqs2[1:]})
        if [x.get("v") for x in a] != [x.get("v") for x in c]:
            oracle_fail.append({"why": "preferences/outputs changed across set_mathml", "name": n, "value": v, "lines": reqs2[1:]})
    im.close()
    mo.close()
    ctx.coverage.update({
        "evaluations": evals, "distinct_nontrivial": len(nontriv),
        "rule": "op sequences over every preference name of the regenerated tables x value kinds (current, booleans in several cases, numbers, wrong kind, empty, "
                "very long, non-ASCII, U+FFFF) interleaved with get/set_mathml/speech/braille; each history ends by reading every preference; "
                "outcome class (ok/value, error kind, panic) compared line by line with the model. distinct = (name, value) pairs set",
        "histories": len(histories), "model_outcomes": kinds_hit, "names": len(names),
        "model_vs_impl_disagreements": disagreements[:5], "n_disagreements": len(disagreements),
        "impl_vs_oracle_failures": [{k: v for k, v in f.items() if k != "lines"} for f in oracle_fail[:10]], "n_oracle_failures": len(oracle_fail),
        "samples": samples,
    })
    ctx.assumptions += ["the shipped Rules directory is complete (filesOk = true); no user prefs.yaml (HOME is redirected into build/)",
                        "float values outside the decimal sub-language (exponents, inf, nan, >15 digits) are compared by the oracle only"]
    for f in oracle_fail:
        sig = {"kind": "c12-oracle", "why": f.get("why", ""), "value": f.get("set", f.get("value", ""))}
        ctx.violation("implementation violates C12: " + json.dumps({k: v for k, v in f.items() if k != "lines"}, ensure_ascii=False)[:300],
                      {"kind": "impl-vs-oracle", "case": {k: v for k, v in f.items() if k != "lines"}, "lines": f.get("lines", [])}, tag="oracle", signature=sig)
    found = bool(ctx.violations)
    if extraction_failed:
        ctx.violation(f"translator could not parse the preference tables ({extraction_failed})",
                      {"kind": "translator", "theorem": "MC.Props.C12.*", "error": extraction_failed}, tag="translator", no_input=not found)
    if not pr["ok"] and not found:
        ctx.violation("theorem(s) no longer check: " + ", ".join(pr["failed"]),
                      {"kind": "theorem", "theorems": pr["failed"], "lean_output": pr["output"][-1500:]}, tag="theorem", no_input=True)
    if disagreements and not found:
        d = disagreements[0]
        ctx.violation("model and implementation disagree on a preference operation: " + json.dumps(d, ensure_ascii=False)[:300],
                      {"kind": "correspondence", "correspondence": "MC.Prefs.setPreference/getPreference vs set_preference/get_preference", "cases": disagreements[:5],
                       "lines": [to_impl(tuple(x)) for x in d["history"]]}, tag="corr", no_input=True)


def readback_ok(name, v, got):
    if name in ("Language", "LanguageAuto") and v != "Auto":
        parts = v.split("-")
        exp = parts[0] + ("-" + parts[1] if len(parts) > 1 and parts[1] else "")
        return got == exp
    if got == v:
        return True
    if v.lower() in ("true", "false") and got == v.lower():
        return True
    try:
        return float(got) == float(v) or (got.lower() == "nan" and v.lower().lstrip("+-") == "nan")
    except ValueError:
        return False


def replay(ctx, path):
    with open(path) as f:
        rp = json.load(f)
    core.need_harness(ctx)
    im = core.impl()
    lines = rp.get("lines", [])
    if not lines or lines[0].get("op") != "rules_dir":
        lines = core.prelude() + lines
    for q, r in zip(lines, im.run(lines)):
        print(json.dumps(q, ensure_ascii=False)[:200], "->", json.dumps(r, ensure_ascii=False)[:300])
    im.close()
    return 0
