"""C01 — canonicalization never loses or invents visible content."""
import json, re
import core, mml, canon_run
from canon_run import N


def run(ctx):
    pr, im, mo = canon_run.standard(ctx, "C01", "", [
        "modelled, not verified: the re-bracketing pass (MC.Rows.parseRow, tied to the implementation by the C03 correspondence run) -- row_conserves is proved about it; "
        "clean_mathml, the chemistry pass and trim_element are NOT modelled: for them the property is decided on the implementation, tree by tree, by the Lean checker MC.Spec.Canon.conserves",
        "the documented normalizations are the character homomorphism MC.Spec.Canon.expand followed by collapse (hyphen runs); expandChar_nil_iff and collapse_filter bound what they can hide: "
        "only white space, the four invisible operators and the length of a hyphen run",
        "python's xml.etree parser reads both the input and the returned string"])
    rng = ctx.rng
    n = 6000 if ctx.tier == "quick" else 150000
    results = canon_run.run_stream(ctx, im, mo, n, canon_run.LOCALES)
    # textbook expressions too (numbers with separators under every locale, chemistry on)
    tb = []
    for block, dec in canon_run.LOCALES:
        pre = [{"op": "session"}, {"op": "rules_dir", "dir": core.rules_dir()}, {"op": "set_pref", "name": "BlockSeparators", "value": block},
               {"op": "set_pref", "name": "DecimalSeparators", "value": dec}]
        trees = [mml.math(mml.gen_expr(rng, rng.randrange(1, 4))) for _ in range(60 if ctx.tier == "quick" else 3000)]
        for t in trees:
            for x in t.walk():
                if x.tag == "mn" and rng.random() < 0.5:
                    x.text = rng.choice(["1,234", "1.234,5", "12 345", "1,234.56", "3,5", "1.000.000", "0,5", ".5", "1 000,25"])
                if x.tag == "mi" and rng.random() < 0.1:
                    x.text = rng.choice(["H", "O", "Na", "Cl", "C"])
        xmls = [mml.to_xml(t, ns_decl=False) for t in trees]
        rep = im.run(pre + [{"op": "set_mathml", "xml": x} for x in xmls], prelude=pre)[len(pre):]
        creqs, keep = [], []
        for x, r in zip(xmls, rep):
            item = {"xml": x, "locale": [block, dec], "reply": r, "lines": pre[1:] + [{"op": "set_mathml", "xml": x}], "textbook": True}
            if r.get("r") == "ok":
                inp, out = canon_run.xml_to_json(x), canon_run.xml_to_json(r["v"])
                if inp is not None and out is not None:
                    creqs.append({"op": "canon_check", "inp": inp, "out": out})
                    keep.append(item)
            tb.append(item)
        for item, c in zip(keep, mo.run(creqs)):
            item["check"] = c.get("v") if c.get("r") == "ok" else None
    n_ok = canon_run.summarize(ctx, results + tb)
    oracle_fail = []
    n_checked = n_changed = 0
    for it in results + tb:
        c = it.get("check")
        if c is None:
            continue
        n_checked += 1
        if re.sub(r"\s+", "", re.sub(r"<[^>]*>", "", it["xml"])) != re.sub(r"\s+", "", re.sub(r"<[^>]*>", "", it["reply"]["v"])):
            n_changed += 1
        if not c["conserves"]:
            oracle_fail.append({"why": "visible content differs", "xml": it["xml"], "out": it["reply"]["v"], "visible_in": c["vis_in"], "visible_out": c["vis_out"], "locale": it["locale"], "lines": it["lines"]})
    # shrink the first failures to small replays
    for f in oracle_fail[:4]:
        pre2 = [l for l in f["lines"] if l["op"] != "set_mathml"]
        small = canon_run.shrink(f["xml"], canon_run.shrink_with(im, mo, pre2, lambda r, c: c is not None and not c["conserves"]), budget=250)
        if small != f["xml"]:
            f["shrunk_from"] = f["xml"][:300]
            f["xml"] = small
            f["lines"] = pre2 + [{"op": "set_mathml", "xml": small}]
            r = im.run([{"op": "session"}] + f["lines"])[-1]
            f["out"] = r.get("v")
            inp, out = canon_run.xml_to_json(small), canon_run.xml_to_json(r.get("v") or "")
            if inp and out:
                c = mo.run([{"op": "canon_check", "inp": inp, "out": out}])[0].get("v") or {}
                f["visible_in"], f["visible_out"] = c.get("vis_in"), c.get("vis_out")
    im.close()
    mo.close()
    ctx.coverage.update({
        "evaluations": n_checked, "distinct_nontrivial": n_changed,
        "rule": "generated presentation trees (every element kind of the property, empty and degenerate children in every position, mmultiscripts / mfenced attribute variants, token text from a pool "
                "with dashes, primes, dots, bars, invisible operators, digit groups, white space) and textbook expressions with locale-formatted numbers and chemical symbols, each under 4 settings of the "
                "number separators; the Lean checker compares normalised visible text of input and output. non-trivial = the raw text of the output differs from the input's (something was merged, "
                "normalised, inserted or removed)",
        "textbook_trees": len(tb),
        "impl_vs_oracle_failures": [{k: v for k, v in f.items() if k != "lines"} for f in oracle_fail[:8]], "n_oracle_failures": len(oracle_fail),
        "model_vs_impl_disagreements": [], "n_disagreements": 0,
        "correspondence_note": "the modelled pass (parseRow) is compared with the implementation by the C03 check; this check applies the Spec checker to the implementation only",
    })
    for f in oracle_fail:
        ctx.violation("implementation violates C01: " + json.dumps({k: v for k, v in f.items() if k not in ("lines", "out")}, ensure_ascii=False)[:500],
                      {"kind": "impl-vs-oracle", "case": {k: v for k, v in f.items() if k != "lines"}, "lines": f["lines"]}, tag="oracle", signature={"kind": "c01-oracle", "xml": f["xml"]})
    if not pr["ok"] and not ctx.violations:
        ctx.violation("theorem(s) no longer check: " + ", ".join(pr["failed"]), {"kind": "theorem", "theorems": pr["failed"], "lean_output": pr["output"][-1500:]}, tag="theorem", no_input=True)


def replay(ctx, path):
    return canon_run.replay_lines(ctx, path)
