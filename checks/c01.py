"""C01 — canonicalization never loses or invents visible content."""
import json, re
import core, mml, canon_run, clean_run
from canon_run import N

# fixed trees of the clean-up correspondence: past disagreements first (038bf38: a script over an mrow that lost all its children)
CLEAN_CORPUS = [
    N("math", [N("msub", [N("mrow", [N("mrow", [N("mrow")])], attrs={"intent": "f"}), N("mi", text="b")])]),
    N("math", [N("msubsup", [N("mrow", [N("mrow", [N("mphantom", [N("mn", text="2")])], attrs={"intent": "foo($x)"})]), N("mrow"), N("mi", text="q")])]),
    N("math", [N("mrow", [N("mi", text="x"), N("mphantom", [N("mi", text="y")]), N("mn", text="-5")])]),
    N("math", [N("mstyle", [N("mtext", text="----"), N("mo", text="..."), N("mo", text="::")])]),
    N("math", [N("msqrt", []), N("mpadded", []), N("mtable", [N("mtr", [N("mtd", [])])])]),
]


def run(ctx):
    pr, im, mo = canon_run.standard(ctx, "C01", "", [
        "modelled, not verified: the structural skeleton of clean_mathml and trim_element (MC.Clean, MC/Model/Clean.lean: empty-element rules, token arms that look at the token alone, "
        "mstyle / mpadded / mphantom, the children loop, single-child mrow lifts, merge_whitespace, empty-script elimination, clean_msubsup, assure_nary_tag_has_one_child) -- clean_conserves "
        "(MC/Props/C01Clean.lean) is proved about it for EVERY tree and parent context, and it is tied to the library on every run by hook H7 (verif_clean_only: the clean-up phase alone) on "
        "generated trees inside the fragment guard (names + token text + intent presence compared); the sibling-dependent arms, mfenced, semantics, mmultiscripts, the second cleaning pass "
        "after a script collapses to its child, number folding and the chemistry heuristics are NOT in the skeleton",
        "modelled, not verified: the re-bracketing pass (MC.Rows.parseRow, tied to the implementation by the C03 correspondence run) -- row_conserves is proved about it; "
        "clean_mathml, the chemistry pass and trim_element are NOT modelled: for them the property is decided on the implementation, tree by tree, by the Lean checker MC.Spec.Canon.conserves",
        "the documented normalizations are the character homomorphism MC.Spec.Canon.expand followed by collapse (hyphen runs); expandChar_nil_iff and collapse_filter bound what they can hide: "
        "only white space, the four invisible operators and the length of a hyphen run",
        "python's xml.etree parser reads both the input and the returned string"], extra_modules=["MC.Props.C01Clean", "MC.Props.C01Trim", "MC.Props.C01Out"])
    rng = ctx.rng
    n = 6000 if ctx.tier == "quick" else 150000
    results = canon_run.run_stream(ctx, im, mo, n, canon_run.LOCALES)
    # textbook expressions too (numbers with separators under every locale, chemistry on)
    tb = []
    for block, dec in canon_run.LOCALES:
        pre = [{"op": "session"}, {"op": "rules_dir", "dir": core.rules_dir()}, {"op": "set_pref", "name": "BlockSeparators", "value": block},
               {"op": "set_pref", "name": "DecimalSeparators", "value": dec}]
        trees = [mml.math(mml.gen_expr(rng, rng.randrange(1, 4))) for _ in range(60 if ctx.tier == "quick" else 3000)]
        for t in trees:
            for x in t.walk():
                if x.tag == "mn" and rng.random() < 0.5:
                    x.text = rng.choice(["1,234", "1.234,5", "12 345", "1,234.56", "3,5", "1.000.000", "0,5", ".5", "1 000,25"])
                if x.tag == "mi" and rng.random() < 0.1:
                    x.text = rng.choice(["H", "O", "Na", "Cl", "C"])
        xmls = [mml.to_xml(t, ns_decl=False) for t in trees]
        rep = im.run(pre + [{"op": "set_mathml", "xml": x} for x in xmls], prelude=pre)[len(pre):]
        creqs, keep = [], []
        for x, r in zip(xmls, rep):
            item = {"xml": x, "locale": [block, dec], "reply": r, "lines": pre[1:] + [{"op": "set_mathml", "xml": x}], "textbook": True}
            if r.get("r") == "ok":
                inp, out = canon_run.xml_to_json(x), canon_run.xml_to_json(r["v"])
                if inp is not None and out is not None:
                    creqs.append({"op": "canon_check", "inp": inp, "out": out})
                    keep.append(item)
            tb.append(item)
        for item, c in zip(keep, mo.run(creqs)):
            item["check"] = c.get("v") if c.get("r") == "ok" else None
    # rows over SMALL alphabets, one per merging pass (merge_dots, merge_primes, merge_chars, merge_vertical_bars, dashes, digit blocks): the passes count
    # and index neighbouring tokens, so what matters is which tokens stand between the ones they merge -- random token text almost never lines three of them up
    fam = canon_run.merge_family(rng, 1200 if ctx.tier == "quick" else 40000)
    for block, dec in canon_run.LOCALES[:2]:
        pre = [{"op": "session"}, {"op": "rules_dir", "dir": core.rules_dir()}, {"op": "set_pref", "name": "BlockSeparators", "value": block},
               {"op": "set_pref", "name": "DecimalSeparators", "value": dec}]
        xmls = [canon_run.to_xml(x) for x in (fam if (block, dec) == canon_run.LOCALES[0] else fam[::4])]
        rep = im.run(pre + [{"op": "set_mathml", "xml": x} for x in xmls], prelude=pre)[len(pre):]
        creqs, keep = [], []
        for x, r in zip(xmls, rep):
            item = {"xml": x, "locale": [block, dec], "reply": r, "lines": pre[1:] + [{"op": "set_mathml", "xml": x}], "family": True}
            if r.get("r") == "ok":
                inp, out = canon_run.xml_to_json(x), canon_run.xml_to_json(r["v"])
                if inp is not None and out is not None:
                    creqs.append({"op": "canon_check", "inp": inp, "out": out})
                    keep.append(item)
            tb.append(item)
        for item, c in zip(keep, mo.run(creqs)):
            item["check"] = c.get("v") if c.get("r") == "ok" else None
    # clean-up skeleton vs the library's clean-up phase (hook H7)
    cl = clean_run.run(ctx, im, mo, 3000 if ctx.tier == "quick" else 60000, extra=CLEAN_CORPUS)
    cl_in = [r for r in cl if r.get("in_guard")]
    cl_dis = [r for r in cl_in if not r["agree"]]
    cl_dis.sort(key=lambda r: len(r["xml"]))
    n_ok = canon_run.summarize(ctx, results + tb)
    oracle_fail = []
    n_checked = n_changed = 0
    for it in results + tb:
        c = it.get("check")
        if c is None:
            continue
        n_checked += 1
        if re.sub(r"\s+", "", re.sub(r"<[^>]*>", "", it["xml"])) != re.sub(r"\s+", "", re.sub(r"<[^>]*>", "", it["reply"]["v"])):
            n_changed += 1
        if not c["conserves"]:
            oracle_fail.append({"why": "visible content differs", "xml": it["xml"], "out": it["reply"]["v"], "visible_in": c["vis_in"], "visible_out": c["vis_out"], "locale": it["locale"], "lines": it["lines"]})
    # shrink the first failures to small replays
    for f in oracle_fail[:4]:
        pre2 = [l for l in f["lines"] if l["op"] != "set_mathml"]
        small = canon_run.shrink(f["xml"], canon_run.shrink_with(im, mo, pre2, lambda r, c: c is not None and not c["conserves"]), budget=250)
        if small != f["xml"]:
            f["shrunk_from"] = f["xml"][:300]
            f["xml"] = small
            f["lines"] = pre2 + [{"op": "set_mathml", "xml": small}]
            r = im.run([{"op": "session"}] + f["lines"])[-1]
            f["out"] = r.get("v")
            inp, out = canon_run.xml_to_json(small), canon_run.xml_to_json(r.get("v") or "")
            if inp and out:
                c = mo.run([{"op": "canon_check", "inp": inp, "out": out}])[0].get("v") or {}
                f["visible_in"], f["visible_out"] = c.get("vis_in"), c.get("vis_out")
    def im2_run(pre2, xml):
        return im.run([{"op": "session"}] + pre2 + [{"op": "set_mathml", "xml": xml}])[-1]

    def mo2_run(req):
        r = mo.run([req])[0]
        return r.get("v") if r.get("r") == "ok" else None
    ctx.coverage.update({
        "evaluations": n_checked, "distinct_nontrivial": n_changed,
        "rule": "generated presentation trees (every element kind of the property, empty and degenerate children in every position, mmultiscripts / mfenced attribute variants, token text from a pool "
                "with dashes, primes, dots, bars, invisible operators, digit groups, white space) and textbook expressions with locale-formatted numbers and chemical symbols, each under 4 settings of the "
                "number separators; the Lean checker compares normalised visible text of input and output. non-trivial = the raw text of the output differs from the input's (something was merged, "
                "normalised, inserted or removed)",
        "textbook_trees": len([x for x in tb if x.get("textbook")]), "merge_pass_family_rows": len([x for x in tb if x.get("family")]),
        "impl_vs_oracle_failures": [{k: v for k, v in f.items() if k != "lines"} for f in oracle_fail[:8]], "n_oracle_failures": len(oracle_fail),
        "model_vs_impl_disagreements": [{"xml": r["xml"], "impl": r["impl_shape"] if r["impl_shape"] is not None else r["impl"], "model": r["model_shape"]} for r in cl_dis[:8]],
        "n_disagreements": len(cl_dis),
        "clean_correspondence": {"trees": len(cl), "in_fragment": len(cl_in), "out_of_fragment": len(cl) - len(cl_in),
                                 "out_of_fragment_reasons": clean_run.reason_counts(cl),
                                 "changed_by_clean_up": sum(1 for r in cl_in if r.get("model_shape") != r.get("shape_in")),
                                 "removed_something": sum(1 for r in cl_in if "mphantom" in r["xml"] or "<mrow></mrow>" in r["xml"]),
                                 "agree_out_of_fragment": sum(1 for r in cl if not r.get("in_guard") and r.get("agree"))},
        "correspondence_note": "the clean-up skeleton (MC.Clean) is compared with hook H7 here; the re-bracketing pass (parseRow) is compared with the implementation by the C03 check; "
                               "the Spec checker is applied to the implementation's final output on every tree",
    })
    for f in oracle_fail:
        ctx.violation("implementation violates C01: " + json.dumps({k: v for k, v in f.items() if k not in ("lines", "out")}, ensure_ascii=False)[:500],
                      {"kind": "impl-vs-oracle", "case": {k: v for k, v in f.items() if k != "lines"}, "lines": f["lines"]}, tag="oracle", signature={"kind": "c01-oracle", "xml": f["xml"]})
    if cl_dis and not ctx.violations:
        # the skeleton and the library part ways inside the fragment: look for an input on which the property itself fails
        found = False
        for r in cl_dis[:40]:
            pre2 = [{"op": "rules_dir", "dir": core.rules_dir()}]
            rep = im2_run(pre2, r["xml"])
            if rep.get("r") == "panic" or rep.get("r") == "abort":
                ctx.violation("implementation violates C01 (no tree is returned: panic): " + json.dumps({"xml": r["xml"], "reply": rep}, ensure_ascii=False)[:400],
                              {"kind": "impl-panic", "case": {"xml": r["xml"], "reply": rep}, "lines": pre2 + [{"op": "set_mathml", "xml": r["xml"]}]}, tag="oracle",
                              signature={"kind": "c01-oracle", "xml": r["xml"]})
                found = True
                break
            if rep.get("r") == "ok":
                inp, out = canon_run.xml_to_json(r["xml"]), canon_run.xml_to_json(rep["v"])
                c = (mo2_run({"op": "canon_check", "inp": inp, "out": out}) or {})
                if c and not c.get("conserves", True):
                    ctx.violation("implementation violates C01: " + json.dumps({"why": "visible content differs", "xml": r["xml"], "visible_in": c.get("vis_in"), "visible_out": c.get("vis_out")}, ensure_ascii=False)[:500],
                                  {"kind": "impl-vs-oracle", "case": {"xml": r["xml"], "out": rep["v"]}, "lines": pre2 + [{"op": "set_mathml", "xml": r["xml"]}]}, tag="oracle",
                                  signature={"kind": "c01-oracle", "xml": r["xml"]})
                    found = True
                    break
        if not found:
            r = cl_dis[0]
            ctx.violation("correspondence MC.Clean (clean-up skeleton) vs verif_clean_only no longer holds on %d of %d in-fragment trees, e.g. %s" % (len(cl_dis), len(cl_in), r["xml"][:300]),
                          {"kind": "correspondence", "name": "MC.Clean.cleanMath vs hook H7 verif_clean_only", "input": r["xml"], "impl": r["impl_shape"] if r["impl_shape"] is not None else r["impl"],
                           "model": r["model_shape"], "lines": r["lines"]}, tag="correspondence", no_input=True)
    if not pr["ok"] and not ctx.violations:
        ctx.violation("theorem(s) no longer check: " + ", ".join(pr["failed"]), {"kind": "theorem", "theorems": pr["failed"], "lean_output": pr["output"][-1500:]}, tag="theorem", no_input=True)
    im.close()
    mo.close()


def replay(ctx, path):
    return canon_run.replay_lines(ctx, path)
