"""C17 — equivalent XML spellings of an expression give identical results."""
import json, re
from html.entities import html5
import core, mml
from core import log
import tr_preproc, tr_common

FRAGS = ["&alpha;", "&amp;", "&lt;", "&frac12;", "&sup2;", "&there4;", "&nosuch;", "&Alpha;", "&;", "&", ";", "&#x3b1;", "&#945;", "& amp;", "&amp", "&a1b;",
         "&nvlt;", "&&gt;;", "&alpha&beta;", "&1a;", "&a-b;", "&é;",
         " class=\"MJX-TeXAtom-ORD\"", " class='MJX-x'", " class = 'MJX-a b'", " class=\"data-mjx-texclass\"", " class=\"other\"", "class=\"MJX-", "class='MJX-a\"",
         " class=\"MJX-a\nb\"", "class  =  \"MJX-\"", "classMJX-", " class=\"mjx-x\"", " CLASS=\"MJX-x\"", "class=\"data-mjx-\"x'", "class=\"MJX-é😀\"",
         " xmlns:m=\"http://www.w3.org/1998/Math/MathML\"", " xmlns:mml='u'", " xmlns:", " xmlns:1", " xmlns:xlink=\"x\"", " xmlns=\"d\"", "xmlns:ab:cd",
         "<m:mi>", "</m:mi>", "<mml:math>", "</mml:mrow>", "<m:", "</m:", "<:", "< m:", "<m1:", "<mé:", "<a:b:c>", "</:x>", "<//m:x>", "<m :x>", "<m:mo>:</m:mo>", "<mo>a:b</mo>",
         "<mi>", "</mi>", "<mrow>", "</mrow>", "x", "1", " ", "\n", "\t", "'", "\"", ">", "=", "é", "😀", "<!-- c -->", "<?pi d?>", "<![CDATA[a <b: c]]>"]


def gen_string(rng):
    n = rng.randrange(1, 9)
    return "".join(rng.choice(FRAGS) for _ in range(n))


def echo_of(reply):
    """What the implementation says the preprocessed string was."""
    if reply.get("r") != "err":
        return ("other", reply)
    msg = reply.get("msg", "")
    m = re.match(r"No entity named '&(.*);'\n\Z", msg, re.S)
    if m:
        return ("unknown-entity", m.group(1))
    if msg.startswith("Invalid MathML input:\n"):
        body = msg[len("Invalid MathML input:\n"):]
        i = body.rfind("\nError is: ")
        if i >= 0:
            return ("ok", body[:i])
    return ("other", reply)


def rewritings(rng, tree):
    """[(tag, xml)] : surface variants of one expression; the first is the baseline."""
    out = [("baseline", mml.to_xml(tree))]
    out.append(("prefix-m", mml.to_xml(tree, prefix="m")))
    out.append(("prefix-mml-dq", mml.to_xml(tree, prefix="mml", quote='"')))
    out.append(("prefix-ns0", mml.to_xml(tree, prefix="ns0")))                     # what Python's ElementTree and many serializers write
    out.append(("prefix-odd-name", mml.to_xml(tree, prefix=rng.choice(["m_1", "_m", "m.x", "M-L", "a1b2", "x9"]), quote='"')))
    out.append(("double-quotes", mml.to_xml(tree, quote='"')))
    out.append(("no-ns-decl", mml.to_xml(tree, ns_decl=False)))
    junks = ["<!-- a comment -->", "<?proc inst?>", "\n  ", " ", "\t\n", "<!--<mi>z</mi>-->", "<!-- x -- y -->"[:0] + "<!-- &alpha; -->", ""]
    out.append(("junk", mml.to_xml(tree, junk=lambda: rng.choice(junks))))
    ws = [" ", "\n", "\n    ", "\t", "  \r\n  "]
    out.append(("whitespace", mml.to_xml(tree, junk=lambda: rng.choice(ws), empty_junk=lambda: rng.choice(ws))))       # also inside empty containers
    # MathJax classes
    t2 = tree.copy()
    for n in t2.walk():
        if rng.random() < 0.5:
            n.attrs["class"] = rng.choice(["MJX-TeXAtom-ORD", "data-mjx-texclass", "MJX-a b c", "data-mjx-x=y"])
    out.append(("mathjax-class", mml.to_xml(t2, quote=rng.choice(["'", '"']))))
    # entity spellings of text characters
    inv = {}
    for k, v in html5.items():
        if k.endswith(";") and len(v) == 1 and k[:-1] in NAMES:
            inv.setdefault(v, []).append(k[:-1])
    out.append(("named-entities", mml.to_xml(tree, char_map=lambda c: "&" + sorted(inv[c])[0] + ";" if c in inv else None)))
    out.append(("named-entities-2", mml.to_xml(tree, char_map=lambda c: "&" + rng.choice(sorted(inv[c])) + ";" if c in inv and rng.random() < 0.7 else None)))
    out.append(("numeric-hex", mml.to_xml(tree, char_map=lambda c: f"&#x{ord(c):X};" if not c.isalnum() or ord(c) > 127 else None)))
    out.append(("numeric-dec", mml.to_xml(tree, char_map=lambda c: f"&#{ord(c)};" if ord(c) > 127 else None)))
    out.append(("all-mixed", mml.to_xml(t2, prefix="m", quote='"', junk=lambda: rng.choice(junks),
                                        char_map=lambda c: "&" + sorted(inv[c])[0] + ";" if c in inv and rng.random() < 0.5 else None)))
    return out


NAMES = set()


def run(ctx):
    global NAMES
    report = {}
    extraction_failed = None
    ents = []
    try:
        x = tr_preproc.extract_preproc(report)
        ents = x["entities"]
    except tr_common.ExtractionError as e:
        extraction_failed = str(e)
    NAMES = set(n for n, _ in ents)
    ctx.coverage["translator"] = {k: v for k, v in report.items() if k != "modules"}
    pr = core.prove("C17")
    core.proof_coverage(ctx, pr, "lake build MC.Props.C17 && lake env lean build/audit_C17.lean (#print axioms)",
                        ["python html.entities.html5 as the oracle for what a named entity denotes",
                         "modelled, not verified: the regex semantics of the five rewrites is transcribed by hand (MC.Model.Preproc); character class, MathJax literals, "
                         "pass order and the entity table are regenerated from src/interface.rs and src/entities.in; sxd_document (XML parser) and trim_element are outside the model "
                         "(covered by the metamorphic oracle run only)"])
    core.need_harness(ctx)
    core.need_driver(ctx)
    im, mo = core.impl(), core.model()
    rng = ctx.rng
    pre = core.prelude([{"op": "set_pref", "name": "Chemistry", "value": "Off"}])
    # ---- 1. correspondence of the rewriting model: generated strings, echoed through the parse-error message
    n_str = 1500 if ctx.tier == "quick" else 60000
    strings = [gen_string(rng) for _ in range(n_str)]
    strings += [mml.to_xml(t, prefix=rng.choice(["", "m", "mml", "ns0", "m_1", "a.b-c"])) for t in mml.corpus_basic()]
    rep_i = im.run(pre + [{"op": "set_mathml", "xml": s + "<"} for s in strings], prelude=pre)[len(pre):]
    rep_m = mo.run([{"op": "preproc", "text": s + "<"} for s in strings])
    disagreements, branch = [], {"ok": 0, "unknown-entity": 0, "changed": 0}
    for s, ri, rm in zip(strings, rep_i, rep_m):
        kind, val = echo_of(ri)
        if rm.get("r") == "ok":
            mk, mv = "ok", rm["v"]
        else:
            mk, mv = rm.get("kind"), rm.get("name")
        branch[mk] = branch.get(mk, 0) + 1
        if mk == "ok" and mv != s + "<":
            branch["changed"] += 1
        if (kind, val) != (mk, mv):
            disagreements.append({"input": s + "<", "impl": [kind, val if isinstance(val, str) else str(val)[:300]], "model": [mk, mv]})
    # ---- 2. oracle: every entity name, named vs numeric spelling (independent definition: html5)
    oracle_fail = []
    ent_reqs, ent_cases = [], []
    for name, val in ents:
        h = html5.get(name + ";")
        if h is None:
            oracle_fail.append({"entity": name, "why": "not an HTML5/MathML entity name"})
            continue
        numeric = "".join(f"&#x{ord(c):X};" for c in h)
        for spelled in (f"&{name};", numeric):
            ent_reqs.append({"op": "set_mathml", "xml": f"<math><mtext>a{spelled}b</mtext></math>"})
        ent_cases.append((name, h))
    rep = im.run(pre + ent_reqs, prelude=pre)[len(pre):]
    for k, (name, h) in enumerate(ent_cases):
        a, b = core.canon_of(rep[2 * k]), core.canon_of(rep[2 * k + 1])
        if a != b:
            # the W3C 2007 file spells four combining marks with a leading space: accept that spelling too
            alt = im.run([{"op": "set_mathml", "xml": f"<math><mtext>a {''.join(f'&#x{ord(c):X};' for c in h)}b</mtext></math>"}])[0]
            if core.canon_of(alt) == a and isinstance(a, str):
                continue
            oracle_fail.append({"entity": name, "named": a if isinstance(a, dict) else a[:200], "numeric": b if isinstance(b, dict) else b[:200],
                                "lines": [ent_reqs[2 * k], ent_reqs[2 * k + 1]]})
    # unknown names must be errors
    unk = ["nosuchentity", "Alphaa", "x", "fooBar", "a1", "frac19"]
    rep = im.run(pre + [{"op": "set_mathml", "xml": f"<math><mi>&{u};</mi></math>"} for u in unk], prelude=pre)[len(pre):]
    for u, r in zip(unk, rep):
        if u not in NAMES and r.get("r") != "err":
            oracle_fail.append({"entity": u, "why": "unknown entity name accepted", "reply": r})
    # ---- 3. oracle: metamorphic rewritings of whole expressions
    n_expr = 40 if ctx.tier == "quick" else 1500
    trees = mml.corpus_basic() + [mml.math(mml.gen_expr(rng, rng.randrange(1, 4))) for _ in range(n_expr)]
    # containers without content (pretty printers put a line break inside them)
    E = mml
    trees += [E.math(E.el("msup", E.mrow(), E.mn("2"))), E.math(E.el("mfrac", E.mrow(), E.mi("x"))), E.math(E.mrow(E.mi("a"), E.mo("+"), E.mrow(), E.mi("b"))),
              E.math(E.el("mtable", E.el("mtr", E.el("mtd"), E.el("mtd", E.mi("a"))), E.el("mtr", E.el("mtd", E.mn("1")), E.el("mtd")))), E.math(E.el("msqrt")),
              E.math(E.el("msqrt", E.mrow())), E.N("math"), E.math(E.el("mstyle", E.mrow(), E.mi("x"))), E.math(E.el("msub", E.mi("x"), E.el("mrow", E.mrow())))]
    meta_cases, reqs = [], []
    for t in trees:
        rs = rewritings(rng, t)
        for tag, xml in rs:
            meta_cases.append((tag, xml))
            reqs += core.triple_reqs(xml)
    rep = im.run(pre + reqs, prelude=pre)[len(pre):]
    base = None
    n_changed = 0
    per_tag = {}
    for k, (tag, xml) in enumerate(meta_cases):
        tr = core.triple_of(rep[3 * k:3 * k + 3])
        if tag == "baseline":
            base, base_xml = tr, xml
            continue
        per_tag[tag] = per_tag.get(tag, 0) + 1
        if xml != base_xml:
            n_changed += 1
        if tr != base:
            which = [n for n, x, y in zip(("canonical", "speech", "braille"), tr, base) if x != y]
            oracle_fail.append({"rewrite": tag, "differs_in": which, "baseline_xml": base_xml, "rewritten_xml": xml,
                                "baseline": [str(x)[:300] for x in base], "rewritten": [str(x)[:300] for x in tr],
                                "lines": core.triple_reqs(base_xml) + core.triple_reqs(xml)})
    im.close()
    ctx.coverage.update({
        "evaluations": len(strings) + 2 * len(ent_cases) + len(meta_cases),
        "distinct_nontrivial": len(set(s for s, rm in zip(strings, rep_m) if rm.get("r") != "ok" or rm.get("v") != s + "<")) + n_changed,
        "rule": "model-vs-implementation: fragment-generated strings (entities, MathJax classes, xmlns declarations, prefixed tags, adversarial near-misses) echoed through the "
                "'Invalid MathML input' message; oracle: all entity names named-vs-numeric, and corpus+generated expressions under 12 surface rewritings (white space also as the sole content of empty containers). "
                "non-trivial = the rewriting pipeline changed the string / the rewritten spelling differs from the baseline bytes",
        "correspondence_strings": len(strings), "model_branches": branch, "entities_checked": len(ent_cases),
        "metamorphic_cases": len(meta_cases), "metamorphic_per_rewrite": per_tag,
        "model_vs_impl_disagreements": disagreements[:10], "n_disagreements": len(disagreements),
        "impl_vs_oracle_failures": [{k: v for k, v in f.items() if k != "lines"} for f in oracle_fail[:10]], "n_oracle_failures": len(oracle_fail),
        "samples": [strings[0], strings[1], meta_cases[1][1], meta_cases[-1][1]],
        "outside_claim": ["several xmlns:prefix declarations on one element (only the first is rewritten)", "CDATA sections containing '<x:' text",
                          "unknown entity names inside comments (reported as errors)"],
    })
    ctx.assumptions += ["sxd_document parses the rewritten string as any conforming XML parser would", "Chemistry=Off for the correspondence stream"]
    for f in oracle_fail:
        sig = {"kind": "c17-oracle", "entity": f.get("entity", ""), "rewrite": f.get("rewrite", "")}
        ctx.violation(f"implementation violates C17: {json.dumps({k: v for k, v in f.items() if k != 'lines'}, ensure_ascii=False)[:400]}",
                      {"kind": "impl-vs-oracle", "case": f, "lines": f.get("lines", [])}, tag="oracle", signature=sig)
    found = bool(ctx.violations)
    if extraction_failed:
        ctx.violation(f"translator could not parse the rewriting code ({extraction_failed}); theorems not re-checked against the current source",
                      {"kind": "translator", "theorem": "MC.Props.C17.*", "error": extraction_failed}, tag="translator", no_input=not found)
    if not pr["ok"] and not found:
        ctx.coverage["failing_theorems"] = pr["failed"]
        ctx.violation("theorem(s) no longer check: " + ", ".join(pr["failed"]),
                      {"kind": "theorem", "theorems": pr["failed"], "lean_output": pr["output"][-1500:]}, tag="theorem", no_input=True)
    if disagreements and not found:
        ctx.violation("model and implementation disagree on the preprocessed string",
                      {"kind": "correspondence", "correspondence": "MC.Preproc.preprocess vs set_mathml echo", "cases": disagreements[:5],
                       "lines": [{"op": "set_mathml", "xml": disagreements[0]["input"]}]}, tag="corr", no_input=True)
    mo.close()


def replay(ctx, path):
    with open(path) as f:
        rp = json.load(f)
    core.need_harness(ctx)
    im = core.impl()
    lines = core.prelude() + rp.get("lines", [])
    for q, r in zip(lines, im.run(lines)):
        print(json.dumps(q, ensure_ascii=False), "->", json.dumps(r, ensure_ascii=False)[:400])
    im.close()
    return 0
