"""C04 — speech voices every operand of the expression."""
import json, re
import core, mml, speech_run
from speech_run import N


def run(ctx):
    pr = core.prove("C04")
    core.proof_coverage(ctx, pr, "lake build MC.Props.C04 && lake env lean build/audit_C04.lean (#print axioms)", [
        "modelled, not verified: the string half of speech generation for TTS=None -- replace_array_string after the replacements are evaluated (is_repetitive, the 1..len-1 loop, "
        "automatic pauses, the join) and the clean-up in speak_rules (marker removal, trim, merge_pauses_none) -- as MC.Speech.joinArray / finalize; hook H5 logs the inputs and result of EVERY such "
        "call during the run and the model must reproduce each of them",
        "not modelled: which children a YAML rule references (sxd_xpath evaluation of the shipped rule files), ToOrdinal/ToCommonFraction, the intent rules: for these the property is decided on the "
        "implementation (literals planted at every operand position x language x style x verbosity); a lost literal is attributed to is_repetitive only when the model, run on the logged join "
        "inputs of that very call, drops a text containing it",
        "regex crate / String::replace semantics as transcribed (leftmost, non-overlapping)"])
    core.need_harness(ctx)
    core.need_driver(ctx)
    im, mo = core.impl(), core.model()
    rng = ctx.rng
    langs = speech_run.languages()
    cfgs = speech_run.configs(ctx, langs)
    n_random = 14 if ctx.tier == "quick" else 150
    oracle_fail, known, disagreements = [], [], []
    n_speech = n_lits = n_join = n_entries = 0
    nontrivial = set()
    err_kinds = {}
    for cfg in cfgs:
        # the decimal mark of this locale
        dec0, _, _ = speech_run.run_config(im, cfg, [])
        trees = [f() for f in speech_run.FIXED] + [speech_run.operand_positions(rng, rng.randrange(1, 4)) for _ in range(n_random)]
        lits = [speech_run.plant(rng, t, dec0) for t in trees]
        xmls = [mml.to_xml(mml.math(t), ns_decl=False) for t in trees]
        dec, pre, items = speech_run.run_config(im, cfg, xmls)
        pf = 100
        ne, dis = speech_run.replay_logs(mo, pf, items)
        n_entries += ne
        disagreements += [dict(d, config=cfg) for d in dis]
        for it, ls in zip(items, lits):
            sp = it["speech"]
            if it["set"].get("r") != "ok":
                continue
            if sp.get("r") != "ok":
                k = (sp.get("msg") or sp.get("r") or "")[:60]
                err_kinds[k] = err_kinds.get(k, 0) + 1
                if ls:
                    oracle_fail.append({"why": "speech fails for an expression with operands", "config": cfg, "xml": it["xml"], "reply": sp, "lines": it["lines"]})
                continue
            n_speech += 1
            n_lits += len(ls)
            if len(ls) >= 2:
                nontrivial.add(it["xml"])
            toks = re.findall(r"\d+(?:[.,]\d+)?", sp["v"])
            for l in set(ls):
                want, got = ls.count(l), toks.count(l)
                if want != got:
                    # is the loss explained by the modelled defect of is_repetitive on THIS call's join inputs?
                    explained = got < want and any(l in a and l not in b for a, b in it["dropped"])
                    f = {"why": ("literal spoken %d times instead of %d" % (got, want)), "literal": l, "config": cfg, "xml": it["xml"], "speech": sp["v"], "lines": it["lines"],
                         "dropped_by_is_repetitive": [[a, b] for a, b in it["dropped"] if l in a and l not in b][:2]}
                    (known if explained else oracle_fail).append(f)
    im.close()
    mo.close()
    ctx.coverage.update({
        "evaluations": n_speech, "distinct_nontrivial": len(nontrivial),
        "rule": "9 fixed shapes + generated textbook-grammar expressions (rows, fractions, roots, scripts, limits/sums with under-over, tables, functions, absolute values, factorial, accents, "
                "multiscripts) with a distinct two-digit.two-digit literal, written with the locale's decimal mark, at every operand position; every language directory x {ClearSpeak, SimpleSpeak} x "
                "{Terse, Medium, Verbose}; number tokens of the speech string counted per literal. non-trivial = at least 2 planted literals",
        "languages": langs, "configs": len(cfgs), "literals_planted": n_lits, "join_log_entries_replayed_through_model": n_entries,
        "speech_errors": err_kinds,
        "theorem_hypotheses_on_logged_joins": dict(speech_run.HYP, note="auto_ok_false must be 0 (hypothesis AutoOK of join_resolves_auto / joinArray_chars); front_clean_false counts joins outside the "
                                                   "partial theorem's FrontClean hypothesis (where the known defect can bite); panic_branch = inputs on which is_repetitive would panic"),
        "losses_attributed_to_is_repetitive": len(known), "known_examples": [{k: v for k, v in f.items() if k != "lines"} for f in known[:3]],
        "model_vs_impl_disagreements": [{k: v for k, v in d.items() if k != "lines"} for d in disagreements[:8]], "n_disagreements": len(disagreements),
        "impl_vs_oracle_failures": [{k: v for k, v in f.items() if k != "lines"} for f in oracle_fail[:8]], "n_oracle_failures": len(oracle_fail),
    })
    for f in known:
        ctx.violation("implementation violates C04: " + json.dumps({k: v for k, v in f.items() if k not in ("lines",)}, ensure_ascii=False)[:500],
                      {"kind": "impl-vs-oracle", "case": {k: v for k, v in f.items() if k != "lines"}, "lines": f["lines"]}, tag="oracle",
                      signature={"kind": "c04-oracle", "call_site": "is_repetitive drops the text in front of the optional word"})
    for f in oracle_fail:
        ctx.violation("implementation violates C04: " + json.dumps({k: v for k, v in f.items() if k not in ("lines",)}, ensure_ascii=False)[:500],
                      {"kind": "impl-vs-oracle", "case": {k: v for k, v in f.items() if k != "lines"}, "lines": f["lines"]}, tag="oracle",
                      signature={"kind": "c04-oracle", "call_site": "other", "why": f["why"]})
    found = bool(ctx.violations)          # (a loss attributed to a known finding does not count)
    if not pr["ok"] and not found:
        ctx.violation("theorem(s) no longer check: " + ", ".join(pr["failed"]), {"kind": "theorem", "theorems": pr["failed"], "lean_output": pr["output"][-1500:]}, tag="theorem", no_input=True)
    if disagreements and not found:
        d = disagreements[0]
        ctx.violation("model and implementation join replacement strings differently: " + json.dumps({k: v for k, v in d.items() if k != "lines"}, ensure_ascii=False)[:400],
                      {"kind": "correspondence", "correspondence": "MC.Speech.joinArray/finalize vs replace_array_string/speak_rules (hook H5)", "cases": [{k: v for k, v in x.items() if k != "lines"} for x in disagreements[:5]], "lines": d["lines"]},
                      tag="corr", no_input=True)


def replay(ctx, path):
    with open(path) as f:
        rp = json.load(f)
    core.need_harness(ctx)
    im = core.impl()
    lines = rp.get("lines", [])
    for q, r in zip(lines, im.run([{"op": "session"}] + lines)[1:]):
        print(json.dumps(q, ensure_ascii=False)[:300], "->", json.dumps(r, ensure_ascii=False)[:800])
    im.close()
    return 0
