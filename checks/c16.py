"""C16 — split numbers fold into the same number as the unsplit form."""
import json, re
import xml.etree.ElementTree as ET
import core, mml
from core import log

NBSP, NNBSP = " ", " "
LOCALES = [(", " + NBSP + NNBSP, "."), (". " + NBSP + NNBSP, ","), (". " + NBSP + NNBSP + "'", ","), (", " + NBSP + NNBSP + "'", ".")]
KIND = {"mn": 0, "mo": 1, "mtext": 2}


def gen_number(rng, block, dec, sepch=None):
    """(text, groups): a number of the locale grammar: 1-3 digit lead, 3-digit groups, optional fraction / leading / trailing decimal mark"""
    sep = sepch if sepch is not None else rng.choice([c for c in block if c in ",.'"] or [","])
    if sepch is None and NBSP in block and rng.random() < 0.2:
        sep = NBSP          # a space as group separator: generators write it as mtext / mo / mspace tokens (tokens_full_split)
    ngroups = rng.choice([0, 1, 1, 2, 3])
    lead = str(rng.randrange(1, 10 ** rng.randrange(1, 4)))
    groups = [lead] + ["%03d" % rng.randrange(0, 1000) for _ in range(ngroups)]
    parts = []
    for i, g in enumerate(groups):
        if i:
            parts.append(("sep", sep))
        parts.append(("dig", g))
    r = rng.random()
    if r < 0.45:
        parts += [("dec", dec), ("dig", str(rng.randrange(0, 10 ** rng.randrange(1, 4))))]
    elif r < 0.55:
        parts += [("dec", dec)]
    elif r < 0.62 and ngroups == 0:
        parts = [("dec", dec), ("dig", str(rng.randrange(0, 1000)))]
    return parts


def tokens_full_split(parts, rng):
    toks = []
    for k, v in parts:
        if k == "dig":
            toks.append(("mn", v))
        elif v == NBSP:
            toks.append(rng.choice([("mtext", NBSP), ("mtext", NNBSP), ("mo", NBSP), ("mtext", "\u2009"), ("mspace", "0.3em"), ("mspace", "thickmathspace")]))
        else:
            toks.append((rng.choice(["mo", "mo", "mtext"]), v))
    return toks


def tokens_partial_split(parts, rng):
    """merge some neighbouring parts into one mn"""
    toks = []
    cur = ""
    for k, v in parts:
        if cur and rng.random() < 0.5:
            cur += v
        else:
            if cur:
                toks.append(cur)
            cur = v
    toks.append(cur)
    return [("mn" if re.search(r"\d", t) else "mo", t) for t in toks]


def tok_xml(toks):
    return "".join(f"<mspace width='{v}'/>" if t == "mspace" else f"<{t}>{mml.esc_text(v)}</{t}>" for t, v in toks)


CONTEXTS = {
    "sum": lambda inner: f"<math><mrow><mi>x</mi><mo>=</mo>{inner}<mo>+</mo><mi>y</mi></mrow></math>",
    "exponent": lambda inner: f"<math><msup><mi>x</mi><mrow>{inner}</mrow></msup></math>",
    "fraction": lambda inner: f"<math><mfrac><mrow>{inner}</mrow><mi>z</mi></mfrac></math>",
    "argument": lambda inner: f"<math><mrow><mi>f</mi><mo>&#x2061;</mo><mrow><mo>(</mo><mrow>{inner}<mo>+</mo><mi>z</mi></mrow><mo>)</mo></mrow></mrow></math>",
    "sentence-end": lambda inner: f"<math><mrow><mi>x</mi><mo>=</mo>{inner}<mo>+</mo><mn>1</mn><mo>.</mo></mrow></math>",
}


def leaves(canon):
    try:
        root = ET.fromstring(canon)
    except Exception:
        return None
    out = []
    for e in root.iter():
        if len(e) == 0 and e.text is not None and e.tag in ("mi", "mn", "mo", "mtext"):
            if e.text in ("⁡", "⁢", "⁣", "⁤"):
                continue
            out.append((e.tag, e.text))
    return out


def gen_pat_string(rng, block, dec):
    r = rng.random()
    if r < 0.5:
        s = "".join(v for _, v in gen_number(rng, block, dec))
    elif r < 0.6:
        s = " ".join("%04X" % rng.randrange(0, 65536) for _ in range(rng.randrange(1, 4)))
    elif r < 0.7:
        ds = [str(rng.randrange(10)) for _ in range(rng.randrange(1, 9))]
        s = ds[0] + "".join(rng.choice(["￿", ",", " ", ""]) + d for d in ds[1:]) + rng.choice(["", ".", ".5", ".￿"])
    else:
        s = "".join(rng.choice(list("0123456789") * 3 + list(block) + [dec, dec, "a", "F", "-", "￿", "x"]) for _ in range(rng.randrange(0, 10)))
    if rng.random() < 0.3 and s:
        i = rng.randrange(len(s) + 1)
        s = s[:i] + rng.choice(list("0123456789") + list(block) + [dec, " ", "٣", ""]) + s[i + rng.choice([0, 1]):]
    return s


def run(ctx):
    pr = core.prove("C16", extra_modules=["MC.Props.C16Fold", "MC.Props.C12Sep", "MC.Props.C16Locale"])
    core.proof_coverage(ctx, pr, "lake build MC.Props.C16 && lake env lean build/audit_C16.lean (#print axioms)",
                        ["modelled, not verified: the seven locale regexes as scanners, is_likely_a_number (neutral context), the scan of merge_number_blocks, trim_whitespace and merge_block (MC.Model.Numbers)",
                         "guards of the model: disjoint digit-free separator sets, one decimal-separator character, ASCII digits, no roman-numeral-shaped tokens, neutral context (no fences next to the block, not the end of the expression)",
                         "the rest of canonicalization (leaf clean-up, row re-bracketing) is outside this model: the oracle compares whole canonical trees, speech and braille",
                         "fold_split / split_eq_unsplit (MC/Props/C16Fold.lean): for every separator setting and every number of the grammar, the scan merges the number split at every "
                         "separator (mn digit groups, mo or mtext separators) into ONE mn with the unsplit text and treats the unsplit mn the same; hypotheses: a neutral context and a token "
                         "behind the number that holds no separator character; partial splits and fence / end-of-expression contexts are decided on the implementation only",
                         "derived_good / split_folds_in_force (MC/Props/C16Locale.lean): every separator setting that a language tag and a DecimalSeparator value can derive satisfies the "
                         "hypotheses of fold_split, so after EVERY history of preference requests (MC/Props/C12Sep.lean) split = unsplit holds for the numbers of the language in force"])
    core.need_harness(ctx)
    core.need_driver(ctx)
    im, mo = core.impl(), core.model()
    rng = ctx.rng
    disagreements, oracle_fail = [], []
    evals, nontriv = 0, set()
    # ---- 1. scanners vs the real regexes (hook H4)
    n_pat = 2500 if ctx.tier == "quick" else 100000
    pats = []
    for _ in range(n_pat):
        block, dec = rng.choice(LOCALES)
        pats.append((gen_pat_string(rng, block, dec), block, dec))
    rep_i = im.run([{"op": "hook", "which": "numpat", "text": s, "block": b, "decimal": d} for s, b, d in pats])
    rep_m = mo.run([{"op": "numpat", "text": s, "block": b, "decimal": d} for s, b, d in pats])
    pat_hits = [0] * 7
    out_guard = 0
    for (s, b, d), ri, rm in zip(pats, rep_i, rep_m):
        evals += 1
        if any(ch.isdigit() and not ch.isascii() for ch in s):
            out_guard += 1
            continue
        if ri.get("r") == "ok" and rm.get("r") == "ok":
            for k in range(7):
                pat_hits[k] += 1 if ri["v"][k] else 0
            if ri["v"] != rm["v"]:
                disagreements.append({"what": "number regexes", "text": s, "block": b, "decimal": d, "impl": ri["v"], "model": rm["v"],
                                      "lines": [{"op": "hook", "which": "numpat", "text": s, "block": b, "decimal": d}]})
    # ---- 2. merge scan vs set_mathml in a neutral context; 3. oracle: split == unsplit
    n_num = 150 if ctx.tier == "quick" else 6000
    per_ctx = {}
    samples = []
    for block, dec in LOCALES:
        pre = [{"op": "session"}, {"op": "rules_dir", "dir": core.rules_dir()}, {"op": "set_pref", "name": "Chemistry", "value": "Off"},
               {"op": "set_pref", "name": "BlockSeparators", "value": block}, {"op": "set_pref", "name": "DecimalSeparators", "value": dec}]
        im.run(pre)
        cases = []
        for _ in range(n_num // len(LOCALES)):
            parts = gen_number(rng, block, dec)
            unsplit = "".join(v for _, v in parts)
            full = tokens_full_split(parts, rng)
            partial = tokens_partial_split(parts, rng)
            junk = list(full)
            if rng.random() < 0.5:
                junk.insert(rng.randrange(len(junk) + 1), rng.choice([("mi", "a"), ("mo", "+"), ("mo", dec), ("mn", "7"), ("mo", ","), ("mo", ";")]))
            ctxname = rng.choice(list(CONTEXTS))
            cases.append((unsplit, full, partial, junk, ctxname))
        reqs = []
        for unsplit, full, partial, junk, cn in cases:
            for toks in (full, partial, junk):
                reqs.append({"op": "set_mathml", "xml": CONTEXTS["sum"](tok_xml(toks))})
            for inner in (f"<mn>{mml.esc_text(unsplit)}</mn>", tok_xml(full), tok_xml(partial)):
                reqs += core.triple_reqs(CONTEXTS[cn](inner))
        rep = im.run(reqs)
        mreqs = []
        for unsplit, full, partial, junk, cn in cases:
            for toks in (full, partial, junk):
                mreqs.append({"op": "merge_row", "block": block, "decimal": dec, "tokens": [[3, "x"], [1, "="]] + [[1 if (t == "mtext" and len(v) == 1 and not v.isalnum()) else KIND.get(t, 3), v] for t, v in toks] + [[1, "+"], [3, "y"]]})
        mrep = mo.run(mreqs)
        k = 0
        for ci, (unsplit, full, partial, junk, cn) in enumerate(cases):
            for j, toks in enumerate((full, partial, junk)):
                r = rep[k]
                k += 1
                evals += 1
                m = mrep[3 * ci + j]
                if r.get("r") != "ok" or m.get("r") != "ok":
                    continue
                lv = leaves(r["v"])
                mv = [(["mn", "mo", "mtext", "mi"][t] if t < 3 else "mi", v) for t, v in m["v"]]
                in_guard = not any(v == "'" or t == "mspace" for t, v in toks) and not any(NBSP in v or NNBSP in v or v.strip() == "" for _, v in toks) and "..." not in "".join(v for _, v in toks) and \
                    not any(t == "mo" and v == "." for t, v in toks[-1:])
                if in_guard and lv is not None and [v for _, v in lv] != [v for _, v in mv]:
                    disagreements.append({"what": "merge scan", "tokens": toks, "block": block, "decimal": dec, "impl": lv, "model": mv,
                                          "lines": pre[1:] + [{"op": "set_mathml", "xml": CONTEXTS["sum"](tok_xml(toks))}]})
                if len(toks) > 2:
                    nontriv.add((block, tuple(toks)))
            base = core.triple_of(rep[k:k + 3])
            fullr = core.triple_of(rep[k + 3:k + 6])
            partr = core.triple_of(rep[k + 6:k + 9])
            k += 9
            evals += 2
            per_ctx[cn] = per_ctx.get(cn, 0) + 1
            lines = pre[1:] + core.triple_reqs(CONTEXTS[cn](f"<mn>{mml.esc_text(unsplit)}</mn>"))
            if fullr != base and any(v == "'" for _, v in full):
                oracle_fail.append({"why": "apostrophe group separator given as its own token is turned into a prime before folding", "number": unsplit, "tokens": full, "context": cn, "block": block, "decimal": dec,
                                    "split": [str(x)[:200] for x in fullr], "unsplit": [str(x)[:200] for x in base], "lines": lines + core.triple_reqs(CONTEXTS[cn](tok_xml(full)))})
            elif fullr != base and dec == "," and (full[0][1] == "," or full[-1][1] == ","):
                oracle_fail.append({"why": "leading or trailing decimal comma given as its own token is not folded", "number": unsplit, "tokens": full, "context": cn, "block": block, "decimal": dec,
                                    "split": [str(x)[:200] for x in fullr], "unsplit": [str(x)[:200] for x in base], "lines": lines + core.triple_reqs(CONTEXTS[cn](tok_xml(full)))})
            elif fullr != base:
                which = [n for n, x, y in zip(("canonical", "speech", "braille"), fullr, base) if x != y]
                oracle_fail.append({"why": "fully split number does not fold into the unsplit form", "number": unsplit, "tokens": full, "context": cn, "block": block, "decimal": dec, "differs_in": which,
                                    "split": [str(x)[:200] for x in fullr], "unsplit": [str(x)[:200] for x in base], "lines": lines + core.triple_reqs(CONTEXTS[cn](tok_xml(full)))})
            if partr != base:
                which = [n for n, x, y in zip(("canonical", "speech", "braille"), partr, base) if x != y]
                has_sep_in_mn = any(t == "mn" and re.search(r"\D", v) for t, v in partial)
                why = "partially split number (some mn already contains a separator) does not fold" if has_sep_in_mn else "split number does not fold into the unsplit form"
                if any(v == "'" for _, v in partial):
                    why = "apostrophe group separator given as its own token is turned into a prime before folding"
                elif dec == "," and (partial[0] == ("mo", ",") or partial[-1] == ("mo", ",")):
                    why = "leading or trailing decimal comma given as its own token is not folded"
                oracle_fail.append({"why": why,
                                    "number": unsplit, "tokens": partial, "context": cn, "block": block, "decimal": dec, "differs_in": which,
                                    "split": [str(x)[:200] for x in partr], "unsplit": [str(x)[:200] for x in base], "lines": lines + core.triple_reqs(CONTEXTS[cn](tok_xml(partial)))})
            if len(samples) < 3:
                samples.append({"number": unsplit, "full_split": full, "context": cn, "speech": base[1]})
        # fenced comma lists stay lists; folding never absorbs non-number tokens
        lists = [f"<math><mrow><mo>(</mo><mrow><mn>{a}</mn><mo>,</mo><mn>{b:03d}</mn></mrow><mo>)</mo></mrow></math>" for a, b in [(1, 234), (12, 5), (3, 100)]] if "," in block else []
        for xml in lists:
            r = im.run([{"op": "set_mathml", "xml": xml}])[0]
            evals += 1
            lv = leaves(r.get("v", "")) if r.get("r") == "ok" else None
            if lv is not None and len([1 for t, v in lv if t == "mn"]) != 2:
                oracle_fail.append({"why": "comma separated list inside fences was folded into a number", "xml": xml, "leaves": lv, "block": block, "decimal": dec, "lines": pre[1:] + [{"op": "set_mathml", "xml": xml}]})
    # ---- 4. the separators follow the locale preferences: (a) inside ONE session the two separator preferences are changed one at a
    # time (the regexes are cached per thread, keyed by both); (b) language tags, in any letter case, select the separators
    n_switch = n_tags = 0
    probes = [[("mn", "3"), ("mo", "·"), ("mn", "14")], [("mn", "1"), ("mo", ","), ("mn", "234")], [("mn", "1"), ("mo", "."), ("mn", "234")], [("mn", "12"), ("mo", "'"), ("mn", "345"), ("mo", "."), ("mn", "5")],
              [("mn", "1"), ("mtext", " "), ("mn", "234"), ("mo", ","), ("mn", "5")], [("mn", "7"), ("mo", ";"), ("mn", "500")]]
    SETTINGS = [(", ", "."), (", ", ".·"), (" ", ".·"), (" ", ","), (". ", ","), (". '", ","), (". '", ";"), (",", ";"), (",", "."), ("", "."), ("", ","), (", ", ",")]
    def fold_outputs(session_pre, settings_chain):
        reqs = list(session_pre)
        for b, d in settings_chain:
            reqs += [{"op": "set_pref", "name": "BlockSeparators", "value": b}, {"op": "set_pref", "name": "DecimalSeparators", "value": d}]
            for toks in probes:
                reqs.append({"op": "set_mathml", "xml": CONTEXTS["sum"](tok_xml(toks))})
        rep = im.run(reqs)[len(session_pre):]
        out = []
        for i in range(len(settings_chain)):
            blockrep = rep[i * (2 + len(probes)) + 2:(i + 1) * (2 + len(probes))]
            out.append([leaves(r["v"]) if r.get("r") == "ok" else {"r": r.get("r")} for r in blockrep])
        return out
    base_pre = [{"op": "session"}, {"op": "rules_dir", "dir": core.rules_dir()}, {"op": "set_pref", "name": "Chemistry", "value": "Off"}]
    fresh = {st: fold_outputs(base_pre, [st])[0] for st in SETTINGS}
    for _ in range(6 if ctx.tier == "quick" else 200):
        chain = [rng.choice(SETTINGS)]
        for _ in range(6):
            b, d = chain[-1]
            cands = [st for st in SETTINGS if (st[0] == b) != (st[1] == d)]        # exactly one of the two changes
            chain.append(rng.choice(cands or SETTINGS))
        got = fold_outputs(base_pre + [{"op": "set_mathml", "xml": "<math><mn>1</mn></math>"}], chain)
        for i, (st, g) in enumerate(zip(chain, got)):
            n_switch += 1
            evals += 1
            if g != fresh[st]:
                k = next(j for j in range(len(probes)) if g[j] != fresh[st][j])
                lines = base_pre[1:] + [{"op": "set_mathml", "xml": "<math><mn>1</mn></math>"}]
                for b, d in chain[:i + 1]:
                    lines += [{"op": "set_pref", "name": "BlockSeparators", "value": b}, {"op": "set_pref", "name": "DecimalSeparators", "value": d}]
                lines.append({"op": "set_mathml", "xml": CONTEXTS["sum"](tok_xml(probes[k]))})
                oracle_fail.append({"why": "folding does not follow a separator preference changed inside a session", "settings_so_far": chain[:i + 1], "tokens": probes[k],
                                    "in_session": g[k], "fresh_session": fresh[st][k], "lines": lines})
                break
    TAGS = ["en", "es", "es-mx", "es-MX", "ES-mx", "de", "de-li", "de-LI", "DE-ch", "de-CH", "fi", "sv-FI", "EN-gb", "en-GB", "fr", "FR", "el-cy", "el-CY", "zh-TW", "vi", "ZZ", "pt-BR", "es-419"]
    seps = {}
    for tag in TAGS:
        reqs = base_pre + [{"op": "set_pref", "name": "DecimalSeparator", "value": "Auto"}, {"op": "set_pref", "name": "Language", "value": tag},
                           {"op": "get_pref", "name": "DecimalSeparators"}, {"op": "get_pref", "name": "BlockSeparators"}]
        for toks in probes:
            reqs.append({"op": "set_mathml", "xml": CONTEXTS["sum"](tok_xml(toks))})
        rep = im.run(reqs)[len(base_pre) + 2:]
        seps[tag] = ([r.get("v") if r.get("r") == "ok" else {"r": r.get("r")} for r in rep[:2]], [leaves(r["v"]) if r.get("r") == "ok" else {"r": r.get("r")} for r in rep[2:]], reqs[1:])
        n_tags += 1
        evals += 1
    # ... and they are the separators the regenerated preference model (MC.Model.Prefs over Gen.Prefs: the decimal-point countries of prefs.rs) derives
    n_tag_model = 0
    for tag in TAGS:
        mrep = mo.run([{"op": "prefs_run", "ops": [["init"], ["set", "DecimalSeparator", "Auto", None, True], ["set", "Language", tag, None, True], ["get", "DecimalSeparators"], ["get", "BlockSeparators"]]}])[0]
        want = [r.get("v") if r.get("r") == "ok" else {"r": r.get("r")} for r in (mrep.get("v") or [])[3:5]]
        n_tag_model += 1
        evals += 1
        if want != seps[tag][0]:
            disagreements.append({"what": "separators of a language tag", "tag": tag, "impl": seps[tag][0], "model": want, "lines": seps[tag][2]})
    # ... also when the language comes from the host: Language=Auto + LanguageAuto=<tag> derives the separators of <tag>
    n_tag_auto = 0
    for tag in TAGS:
        if tag in ("ZZ", "FR", "EN-gb"):
            continue
        reqs = base_pre + [{"op": "set_pref", "name": "DecimalSeparator", "value": "Auto"}, {"op": "set_pref", "name": "Language", "value": "Auto"}, {"op": "set_pref", "name": "LanguageAuto", "value": tag},
                           {"op": "get_pref", "name": "DecimalSeparators"}, {"op": "get_pref", "name": "BlockSeparators"}]
        rep = im.run(reqs)[len(base_pre):]
        n_tag_auto += 1
        evals += 1
        if any(r.get("r") != "ok" for r in rep[:3]):
            continue
        got = [r.get("v") if r.get("r") == "ok" else {"r": r.get("r")} for r in rep[3:5]]
        if got != seps[tag][0]:
            oracle_fail.append({"why": "the separators do not follow the language given through Language=Auto + LanguageAuto", "tag": tag, "separators": got, "separators_with_Language": seps[tag][0], "lines": reqs[1:]})
    for tag in TAGS:
        low = tag.lower()
        if low != tag and low in seps and seps[tag][:2] != seps[low][:2]:
            oracle_fail.append({"why": "the separators selected by a language tag depend on its letter case", "tag": tag, "separators": seps[tag][0], "folded": seps[tag][1][:3],
                                "lower_case_tag": low, "separators_lower": seps[low][0], "folded_lower": seps[low][1][:3], "lines": seps[tag][2]})
    im.close()
    mo.close()
    ctx.coverage.update({
        "separator_switches_inside_a_session": n_switch, "language_tags": n_tags, "language_tags_against_the_preference_model": n_tag_model, "language_tags_through_LanguageAuto": n_tag_auto,
        "evaluations": evals, "distinct_nontrivial": len(nontriv),
        "rule": "H4: generated/mutated number strings (locale grammar, hex blocks, U+FFFF digit runs, junk) on the 7 regexes in 4 separator settings; merge scan: full / partial / junk-injected token "
                "splits in a neutral context; oracle: unsplit vs full and partial splits in 5 contexts (sum, exponent, fraction, argument, end of sentence) x 4 settings, canonical MathML + speech + braille; "
                "fenced comma lists. non-trivial = split with more than two tokens",
        "regex_strings": len(pats), "regex_true_counts": pat_hits, "regex_out_of_guard": out_guard, "contexts": per_ctx,
        "model_vs_impl_disagreements": [{k: v for k, v in d.items() if k != "lines"} for d in disagreements[:8]], "n_disagreements": len(disagreements),
        "impl_vs_oracle_failures": [{k: v for k, v in f.items() if k != "lines"} for f in oracle_fail[:8]], "n_oracle_failures": len(oracle_fail),
        "samples": samples, "oracle_failures_by_kind": {w: sum(1 for f in oracle_fail if f["why"] == w) for w in sorted(set(f["why"] for f in oracle_fail))},
        "disagreements_by_kind": {w: sum(1 for f in disagreements if f["what"] == w) for w in sorted(set(f["what"] for f in disagreements))},
    })
    for f in oracle_fail:
        ctx.violation("implementation violates C16: " + json.dumps({k: v for k, v in f.items() if k != "lines"}, ensure_ascii=False)[:400],
                      {"kind": "impl-vs-oracle", "case": {k: v for k, v in f.items() if k != "lines"}, "lines": f["lines"]}, tag="oracle",
                      signature={"kind": "c16-oracle", "why": f["why"]})
    found = bool(ctx.violations)
    if not pr["ok"] and not found:
        ctx.violation("theorem(s) no longer check: " + ", ".join(pr["failed"]), {"kind": "theorem", "theorems": pr["failed"], "lean_output": pr["output"][-1500:]}, tag="theorem", no_input=True)
    if disagreements and not found:
        d = disagreements[0]
        ctx.violation("model and implementation disagree on number folding: " + json.dumps({k: v for k, v in d.items() if k != "lines"}, ensure_ascii=False)[:400],
                      {"kind": "correspondence", "correspondence": "MC.Numbers scanners/mergeRow vs verif_number_patterns/set_mathml; MC.Prefs separators vs get_preference", "cases": [{k: v for k, v in x.items() if k != "lines"} for x in disagreements[:5]],
                       "lines": d["lines"]}, tag="corr", no_input=True)


def replay(ctx, path):
    with open(path) as f:
        rp = json.load(f)
    core.need_harness(ctx)
    im = core.impl()
    lines = rp.get("lines", [])
    for q, r in zip(lines, im.run(lines)):
        print(json.dumps(q, ensure_ascii=False)[:200], "->", json.dumps(r, ensure_ascii=False)[:400])
    im.close()
    return 0
