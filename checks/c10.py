"""C10 — results depend only on the current expression and preferences."""
import json, os, re
import core, mml, speech_run, loader_sim
from core import strip_ids

PREF_CHOICES = {
    "Language": ["en", "en-gb", "es", "fi", "id", "sv", "vi", "zh-tw", "xx"],
    "SpeechStyle": ["ClearSpeak", "SimpleSpeak"],
    "Verbosity": ["Terse", "Medium", "Verbose"],
    "BrailleCode": ["Nemeth", "UEB", "CMU", "Vietnam", "LaTeX", "ASCIIMath", "Swedish"],
    "CheckRuleFiles": ["None", "Prefs", "All"],
    "TTS": ["None", "SSML"],
    "Impairment": ["Blindness", "LowVision"],
    "DecimalSeparator": ["Auto", ".", ","],
    "BrailleNavHighlight": ["Off", "EndPoints"],
    "UEB_START_MODE": ["Grade1", "Grade2"],
    "DecimalSeparators": [".", ",", ".,"],
    "BlockSeparators": [", \u00a0\u202f", ". \u00a0\u202f", " ", ",", "."],
    "Chemistry": ["SpellOut", "Off"],
}
DEFAULTS = {"Language": "en", "SpeechStyle": "ClearSpeak", "Verbosity": "Medium", "BrailleCode": "Nemeth", "CheckRuleFiles": "Prefs", "TTS": "none", "Impairment": "Blindness",
            "DecimalSeparator": "Auto", "BrailleNavHighlight": "EndPoints", "UEB_START_MODE": "Grade2", "DecimalSeparators": ".", "BlockSeparators": ", \u00a0\u202f", "Chemistry": "SpellOut"}
# expressions whose answers depend on a cache: characters only in the full Unicode tables, numbers with separators,
# function names / units from the definition files, nested fractions (Nemeth caches the level on the tree), chemistry
CACHE_SENSITIVE = [
    "<math><mi>x</mi><mo>⊕</mo><mi>ℵ</mi></math>", "<math><mi>x</mi><mo>∜</mo><mi>ℵ</mi><mo>⨁</mo><mi>ℏ</mi></math>", "<math><mi>a</mi><mo>⟹</mo><mi>b</mi><mo>⊗</mo><mi>𝔸</mi></math>",
    "<math><mn>1</mn><mo>.</mo><mn>234</mn><mo>,</mo><mn>5</mn></math>", "<math><mn>1,234.5</mn><mo>+</mo><mn>1.234,5</mn><mo>+</mo><mn>12 345</mn></math>", "<math><mn>3</mn><mo>,</mo><mn>5</mn><mo>+</mo><mn>1</mn><mo>.</mo><mn>000</mn></math>",
    "<math><mrow><mi>sin</mi><mo>⁡</mo><mi>x</mi><mo>+</mo><mi>log</mi><mo>⁡</mo><mi>y</mi></mrow></math>", "<math><mrow><mn>5</mn><mi intent=':unit'>km</mi></mrow></math>",
    "<math><mfrac><mn>1</mn><mrow><mi>x</mi><mo>+</mo><mfrac><mn>1</mn><mrow><mi>y</mi><mo>+</mo><mfrac><mn>2</mn><mn>3</mn></mfrac></mrow></mfrac></mrow></mfrac></math>",
    "<math><mrow><msub><mi>H</mi><mn>2</mn></msub><mi>O</mi><mo>+</mo><mi>Na</mi><mi>Cl</mi></mrow></math>", "<math><msup><mi>x</mi><mn>2</mn></msup><mo>+</mo><mfrac><mn>3</mn><mn>4</mn></mfrac></math>",
]
GETTERS = ["speech", "overview", "braille"]
NAV = ["ZoomIn", "MoveNext", "MovePrevious", "ZoomOut", "ReadCurrent", "ZoomInAll", "MoveStart", "ToggleZoomLockUp", "SetPlacemarker1", "MoveTo1"]


def norm_stored(v, counter):
    """the stored expression as read through get_navigation_mathml, up to the order of the attributes; the Nemeth fraction-level memo
    (data-nemeth-frac-level, written on the live tree by NemethNestingChars: a value that depends on the expression only) is counted, not compared"""
    import xml.etree.ElementTree as ET
    if not isinstance(v, list) or not v or not isinstance(v[0], str):
        return v
    try:
        root = ET.fromstring(v[0])
    except ET.ParseError:
        return v
    def ser(e):
        attrs = sorted((k, x) for k, x in e.attrib.items() if k != "data-nemeth-frac-level")
        counter["n"] += sum(1 for k in e.attrib if k == "data-nemeth-frac-level")
        return [e.tag, attrs, (e.text or "").strip(), [ser(c) for c in e]]
    return [ser(root)] + v[1:]


def getters_reqs():
    return [{"op": "speech"}, {"op": "overview"}, {"op": "braille", "id": ""}]


def outputs(rep):
    out = []
    for r in rep:
        v = r.get("v") if r.get("r") == "ok" else {"r": r.get("r"), "msg": (r.get("msg") or "")[:200]}
        out.append(strip_ids(v) if isinstance(v, str) else v)
    return out


def static_scan():
    """every mutable static of src/ is thread_local (what `sessions_independent` rests on)"""
    bad = []
    n_tl = 0
    for f in sorted(os.listdir(os.path.join(core.REPO, "src"))):
        if not f.endswith(".rs"):
            continue
        src = open(os.path.join(core.REPO, "src", f), encoding="utf-8").read()
        n_tl += len(re.findall(r"thread_local!", src))
        for m in re.finditer(r"^\s*(?:pub\s+)?static\s+mut\s+(\w+)", src, re.M):
            bad.append(f + ": static mut " + m.group(1))
        for m in re.finditer(r"static\s+ref\s+(\w+)\s*:\s*((?:Mutex|RwLock|RefCell|Cell|Atomic)\w*)", src):
            bad.append(f + ": shared mutable lazy_static " + m.group(1) + ": " + m.group(2))
    return n_tl, bad


def run(ctx):
    pr = core.prove("C10")
    core.proof_coverage(ctx, pr, "lake build MC.Props.C10 && lake env lean build/audit_C10.lean (#print axioms)", [
        "modelled, not verified: FileAndTime / FilesAndTimes::is_file_up_to_date, SpeechRules::read_files and the lazy full Unicode table (MC.Loader) over an abstract file system; which files the "
        "preferences select is MC.Fallback (C15). Tied to the code by hooks H2 (files read) and H6 (files resolved): for random histories the model predicts, call by call, exactly which files are read",
        "the theorems assume the files do not change and load (Sane); getters are assumed to be functions of the stored expression, the preferences and the cache CONTENTS -- XPATH_CACHE, the "
        "separator-keyed pattern cache, data-nemeth-frac-level on the live tree and all of the Rust that computes an answer from the tables are not modelled: history-vs-fresh equality is decided "
        "on the implementation",
        "threads: the model can only say that sessions own disjoint caches (sessions_independent) given that every mutable static is thread_local (scanned in src/ on every run); real "
        "interleavings are exercised by a two-thread run, not proved"])
    core.need_harness(ctx)
    core.need_driver(ctx)
    im, mo = core.impl(), core.model()
    rng = ctx.rng
    n_tl, shared = static_scan()
    exprs = [mml.to_xml(t, ns_decl=False) for t in mml.corpus_basic()[:12]] + [mml.to_xml(mml.math(mml.gen_expr(rng, rng.randrange(1, 4))), ns_decl=False) for _ in range(8)] + CACHE_SENSITIVE * 2
    n_hist = 150 if ctx.tier == "quick" else 3000
    oracle_fail, disagreements = [], []
    n_calls = n_pred = 0
    for h in range(n_hist):
        # a history: preference changes, expressions, getters and navigation in random order
        lines = core.prelude([])
        target = {k: rng.choice(v) for k, v in PREF_CHOICES.items() if rng.random() < 0.6}
        for _ in range(rng.randrange(2, 12)):
            r = rng.random()
            if r < 0.4:
                k = rng.choice(list(PREF_CHOICES))
                lines.append({"op": "set_pref", "name": k, "value": rng.choice(PREF_CHOICES[k])})
            elif r < 0.6:
                lines.append({"op": "set_mathml", "xml": rng.choice(exprs)})
            elif r < 0.85:
                lines.append(rng.choice(getters_reqs()))
            else:
                lines.append({"op": "nav", "cmd": rng.choice(NAV)})
        e = rng.choice(exprs)
        gets = getters_reqs()
        rng.shuffle(gets)
        gets = gets + [rng.choice(gets)]          # one getter twice: order and repetition must not matter
        # every preference the history touched must have the same value in the fresh session (defaults restored explicitly).
        # Language and DecimalSeparator recompute the two separator lists when they CHANGE, so the lists are always set
        # explicitly, last, in both sessions.
        LISTS = ("DecimalSeparators", "BlockSeparators")
        touched = {l["name"] for l in lines if l["op"] == "set_pref"} - set(target)
        order = ["Language", "DecimalSeparator"] + sorted(set(DEFAULTS) - {"Language", "DecimalSeparator"} - set(LISTS))
        restore = [{"op": "set_pref", "name": k, "value": DEFAULTS[k]} for k in order if k in touched]
        tail = [{"op": "set_pref", "name": k, "value": target[k]} for k in order if k in target] + \
               [{"op": "set_pref", "name": k, "value": target.get(k, DEFAULTS[k])} for k in LISTS] + [{"op": "set_mathml", "xml": e}]
        hist_lines = lines + restore + tail + gets
        fresh_lines = core.prelude([]) + restore + tail + gets
        rep_h = im.run([{"op": "session"}] + hist_lines)[1:]
        rep_f = im.run([{"op": "session"}] + fresh_lines)[1:]
        n_calls += len(hist_lines)
        oh, of = outputs(rep_h[-len(gets) - 1:]), outputs(rep_f[-len(gets) - 1:])
        if oh != of:
            k = next(i for i in range(len(oh)) if oh[i] != of[i])
            oracle_fail.append({"why": "output after a history differs from a fresh session", "call": (tail + gets)[len(tail) - 1 + k] if k else tail[-1], "after_history": oh[k], "fresh": of[k],
                                "history": [l for l in lines[1:]], "lines": hist_lines, "fresh_lines": fresh_lines})
        # getters order / repetition inside the fresh run: same getter twice gives the same answer
        seen = {}
        for q, o in zip(gets, oh[1:]):
            key = json.dumps(q)
            if key in seen and seen[key] != o:
                oracle_fail.append({"why": "the same getter answers differently when called again", "call": q, "first": seen[key], "again": o, "lines": hist_lines})
            seen[key] = o
    # targeted: the same expression under configuration A, then B, against a fresh B -- one preference at a time
    n_switch = 0
    switch_prefs = ["Language", "BrailleCode", "SpeechStyle", "DecimalSeparators", "BlockSeparators", "Verbosity", "Chemistry"]
    for _ in range(60 if ctx.tier == "quick" else 1500):
        k = rng.choice(switch_prefs)
        a, b = rng.sample(PREF_CHOICES[k], 2)
        e0, e = rng.choice(CACHE_SENSITIVE), rng.choice(CACHE_SENSITIVE)
        hist_lines = core.prelude([{"op": "set_pref", "name": k, "value": a}, {"op": "set_mathml", "xml": e0}]) + getters_reqs() + [{"op": "set_pref", "name": k, "value": b}, {"op": "set_mathml", "xml": e}] + getters_reqs()
        fresh_lines = core.prelude([{"op": "set_pref", "name": k, "value": b}, {"op": "set_mathml", "xml": e}]) + getters_reqs()
        oh = outputs(im.run([{"op": "session"}] + hist_lines)[-4:])
        of = outputs(im.run([{"op": "session"}] + fresh_lines)[-4:])
        n_switch += 1
        n_calls += len(hist_lines)
        if oh != of:
            i = next(i for i in range(4) if oh[i] != of[i])
            oracle_fail.append({"why": "output after switching one preference differs from a fresh session", "pref": [k, a, b], "call": ([{"op": "set_mathml"}] + getters_reqs())[i], "after_history": oh[i], "fresh": of[i],
                                "lines": hist_lines, "fresh_lines": fresh_lines})
    # a preference set AFTER a getter has run, as the very last change before the observed call, against a fresh session that sets it up front:
    # every kind of setter (string, boolean, number) under every speech engine -- a value cached by the first getter must not survive the change
    LAST = [("MathRate", "150"), ("MathRate", "60"), ("Pitch", "25"), ("Rate", "260"), ("Volume", "40"), ("CapitalLetters_Pitch", "35"), ("PauseFactor", "300"), ("PauseFactor", "0"),
            ("CapitalLetters_Beep", "true"), ("CapitalLetters_UseWord", "false"), ("SpeechOverrides_CapitalLetters", "big"), ("Bookmark", "true"), ("Verbosity", "Verbose"), ("Verbosity", "Terse"),
            ("SpeechStyle", "SimpleSpeak"), ("Impairment", "LowVision"), ("BrailleCode", "UEB"), ("UEB_START_MODE", "Grade1"), ("BrailleNavHighlight", "Off"), ("ClearSpeak_Fractions", "Ordinal"),
            ("ClearSpeak_Exponents", "Ordinal"), ("Nemeth_SingleCapitalLetters", "Unknown"), ("Language", "es"), ("DecimalSeparator", ",")]
    LAST_E = ["<math><mi>B</mi><mo>+</mo><mfrac><mn>3</mn><mi>x</mi></mfrac><mo>,</mo><msqrt><mi>C</mi></msqrt><mo>=</mo><msup><mi>y</mi><mn>2</mn></msup></math>",
              "<math><mrow><mi>sin</mi><mo>⁡</mo><mi>A</mi></mrow><mo>=</mo><mn>1,5</mn><mo>+</mo><mfrac><mn>1</mn><mn>2</mn></mfrac></math>"]
    n_last = 0
    for tts in ["SSML", "SAPI5", "None"]:
        for (k, v) in LAST:
            for same_expr in (True, False):
                e0, e = (LAST_E[0], LAST_E[0]) if same_expr else (LAST_E[1], LAST_E[0])
                base = [{"op": "set_pref", "name": "TTS", "value": tts}]
                hist_lines = core.prelude(base + [{"op": "set_mathml", "xml": e0}]) + getters_reqs() + [{"op": "set_pref", "name": k, "value": v}] + \
                    ([] if same_expr else [{"op": "set_mathml", "xml": e}]) + getters_reqs()
                fresh_lines = core.prelude(base + [{"op": "set_pref", "name": k, "value": v}, {"op": "set_mathml", "xml": e}]) + getters_reqs()
                rh = im.run([{"op": "session"}] + hist_lines)
                rf = im.run([{"op": "session"}] + fresh_lines)
                n_last += 1
                n_calls += len(hist_lines)
                if rh[len(hist_lines) - 3 - (0 if same_expr else 1)].get("r") != "ok":
                    continue            # the preference was rejected: nothing to compare
                # (with Bookmark=true the speech carries the generated ids, whose prefix is random per session)
                unid = lambda o: re.sub(r"\bM[a-z0-9]{6,10}-(\d+)", r"ID-\1", o) if isinstance(o, str) else o
                oh, of = [unid(o) for o in outputs(rh[-3:])], [unid(o) for o in outputs(rf[-3:])]
                if oh != of:
                    i = next(i for i in range(3) if oh[i] != of[i])
                    oracle_fail.append({"why": "a preference set after a getter had run is not (fully) in force: output differs from a fresh session that set it first", "pref": [k, v], "TTS": tts,
                                        "call": getters_reqs()[i], "after_history": oh[i], "fresh": of[i], "lines": hist_lines, "fresh_lines": fresh_lines})
    # the ORDER in which the same preferences are set does not matter: two fresh sessions set the same assignment in two random orders
    # (the host's way of giving the language -- Language=Auto, then LanguageAuto -- included; LanguageAuto is only accepted after Language=Auto)
    n_perm = 0
    PERM = {k: v for k, v in PREF_CHOICES.items() if k not in ("DecimalSeparators", "BlockSeparators")}      # (the two derived lists are overwritten by Language / DecimalSeparator: a documented coupling)
    for _ in range(25 if ctx.tier == "quick" else 600):
        items = [(k, rng.choice(v)) for k, v in PERM.items() if rng.random() < 0.5 or k in ("Language", "SpeechStyle")]
        if rng.random() < 0.6:
            items = [it for it in items if it[0] != "Language"] + [("Language", "Auto"), ("LanguageAuto", rng.choice(PREF_CHOICES["Language"][:8]))]
        def an_order():
            o = list(items)
            rng.shuffle(o)
            if ("Language", "Auto") in o:
                i, j = o.index(("Language", "Auto")), next(k for k, it in enumerate(o) if it[0] == "LanguageAuto")
                if i > j:
                    o[i], o[j] = o[j], o[i]
            return o
        o1, o2 = an_order(), an_order()
        e = rng.choice(CACHE_SENSITIVE + exprs[:6])
        l1 = core.prelude([{"op": "set_pref", "name": k, "value": v} for k, v in o1]) + [{"op": "set_mathml", "xml": e}] + getters_reqs()
        l2 = core.prelude([{"op": "set_pref", "name": k, "value": v} for k, v in o2]) + [{"op": "set_mathml", "xml": e}] + getters_reqs()
        r1, r2 = im.run([{"op": "session"}] + l1)[1:], im.run([{"op": "session"}] + l2)[1:]
        n_perm += 1
        n_calls += len(l1) + len(l2)
        if any(r.get("r") != "ok" for r in r1[:len(l1) - 4]) or any(r.get("r") != "ok" for r in r2[:len(l2) - 4]):
            continue            # a rejected request: the two sessions do not hold the same preferences
        a1, a2 = outputs(r1[-4:]), outputs(r2[-4:])
        if a1 != a2:
            i = next(i for i in range(4) if a1[i] != a2[i])
            oracle_fail.append({"why": "the same preferences set in another order give another output", "order_1": [list(x) for x in o1], "order_2": [list(x) for x in o2],
                                "call": ([{"op": "set_mathml"}] + getters_reqs())[i], "output_1": a1[i], "output_2": a2[i], "lines": l1, "fresh_lines": l2})
    # preference round trip on a fixed expression
    n_rt = 0
    for _ in range(15 if ctx.tier == "quick" else 300):
        e = rng.choice(exprs)
        k = rng.choice([x for x in PREF_CHOICES if x not in ("CheckRuleFiles",)])
        a, b = rng.sample(PREF_CHOICES[k], 2) if len(PREF_CHOICES[k]) > 1 else (PREF_CHOICES[k][0],) * 2
        lines = core.prelude([{"op": "set_pref", "name": k, "value": a}, {"op": "set_mathml", "xml": e}]) + getters_reqs() + \
            [{"op": "set_pref", "name": k, "value": b}] + getters_reqs() + [{"op": "set_pref", "name": k, "value": a}] + getters_reqs()
        rep = im.run([{"op": "session"}] + lines)[1:]
        n_rt += 1
        first, last = outputs(rep[3:6]), outputs(rep[-3:])
        if first != last:
            oracle_fail.append({"why": "switching a preference away and back does not restore the output", "pref": [k, a, b], "before": first, "after": last, "lines": lines})
    # getters are queries: none of them changes the stored expression (read back through get_navigation_mathml at the root), and calling
    # them again, in another order, gives the same answers -- in every language, on expressions with intent attributes too
    PURE = CACHE_SENSITIVE + ["<math><mrow><mn>5</mn><mi intent=':unit'>km</mi><mo>+</mo><mn>3</mn><mi mathvariant='normal' intent=':unit'>m</mi></mrow></math>",
                              "<math><mrow intent=':prefix'><mi>f</mi><mi intent=':silent'>x</mi></mrow></math>", "<math><msup intent='power($a,$b)'><mi arg='a'>x</mi><mn arg='b'>2</mn></msup></math>",
                              "<math><mrow><mi intent=':chemical-element'>Na</mi><mo>+</mo><mi intent='foo:bar'>y</mi></mrow></math>"]
    n_pure = 0
    cache_attr = {"n": 0}
    for lang in (PREF_CHOICES["Language"][:8] if ctx.tier == "quick" else PREF_CHOICES["Language"]):
        for e in PURE:
            seq = [{"op": "overview"}, {"op": "speech"}, {"op": "braille", "id": ""}, {"op": "intent_tree"}, {"op": "nav", "cmd": "ReadCurrent"}, {"op": "overview"}, {"op": "speech"}, {"op": "braille", "id": ""}]
            lines = core.prelude([{"op": "set_pref", "name": "Language", "value": lang}, {"op": "set_mathml", "xml": e}, {"op": "nav_mathml"}])
            for q in seq:
                lines += [q, {"op": "nav_mathml"}]
            rep = im.run([{"op": "session"}] + lines)[1:]
            n_pure += 1
            n_calls += len(lines)
            base_i = len(lines) - 2 * len(seq) - 1
            if rep[base_i - 1].get("r") != "ok" or rep[base_i].get("r") != "ok":
                continue
            stored0 = norm_stored(rep[base_i].get("v"), cache_attr)
            answers = {}
            for k, q in enumerate(seq):
                r, after = rep[base_i + 1 + 2 * k], rep[base_i + 2 + 2 * k]
                if after.get("r") == "ok" and norm_stored(after.get("v"), cache_attr) != stored0:
                    oracle_fail.append({"why": "a getter changed the stored expression", "call": q, "Language": lang, "before": stored0, "after": after.get("v"), "lines": lines[:base_i + 3 + 2 * k]})
                    break
                key = json.dumps(q)
                o = outputs([r])[0]
                if key in answers and answers[key] != o:
                    oracle_fail.append({"why": "the same getter answers differently when called again", "call": q, "Language": lang, "first": answers[key], "again": o, "lines": lines})
                    break
                answers.setdefault(key, o)
    # file-read prediction (hooks H2 + H6) along random histories without file changes
    needs_full = {}
    SLOT = {"speech": "speech", "braille": "braille"}
    im2 = core.impl()
    pred_exprs = CACHE_SENSITIVE[:3] + exprs[:6]
    for h in range(30 if ctx.tier == "quick" else 400):
        sim = loader_sim.Sim(mo)
        lines = core.prelude([])
        im.run([{"op": "session"}] + lines + [{"op": "hook", "which": "read_log"}])
        check = "Prefs"
        for step in range(rng.randrange(4, 14)):
            r = rng.random()
            if step == 0:
                q = {"op": "set_mathml", "xml": rng.choice(pred_exprs)}      # getters before any expression fail half-way through their reads
            elif r < 0.35:
                k = rng.choice(["Language", "SpeechStyle", "BrailleCode", "CheckRuleFiles", "Verbosity"])
                v = rng.choice(PREF_CHOICES[k])
                q = {"op": "set_pref", "name": k, "value": v}
                if k == "CheckRuleFiles":
                    check = v
            elif r < 0.55:
                q = {"op": "set_mathml", "xml": rng.choice(pred_exprs)}
            else:
                q = rng.choice(getters_reqs())
            if step == 0:
                q = {"op": "set_mathml", "xml": rng.choice(pred_exprs)}
            lines.append(q)
            rep = im.run([q, {"op": "hook", "which": "read_log"}, {"op": "hook", "which": "rule_files"}])
            if q["op"] == "set_pref" or rep[0].get("r") != "ok" or rep[2].get("r") != "ok":
                continue
            files = {n: p for n, p in rep[2]["v"]}
            log = [os.path.realpath(p) for p in rep[1].get("v", [])]
            ok, pred = sim.api_call(q["op"], files, check != "All")
            fulls = {os.path.realpath(files["speech_unicode_full"]): "speech", os.path.realpath(files["braille_unicode_full"]): "braille"}
            log_eager = [p for p in log if p not in fulls and not p.endswith("/prefs.yaml")]
            n_pred += 1
            # does this call need the full Unicode table at all?  A fresh session tells (it reads the file iff it needs it).
            if q["op"] in ("speech", "braille"):
                sd = "braille" if q["op"] == "braille" else "speech"
                cur_xml = [l for l in lines if l["op"] == "set_mathml"][-1]["xml"]
                key = (q["op"], cur_xml, files[sd + "_unicode"], files[sd + "_unicode_full"], files[SLOT[q["op"]]])
                if key not in needs_full:
                    fl = core.prelude([l for l in lines if l["op"] == "set_pref"]) + [{"op": "set_mathml", "xml": cur_xml}, {"op": "hook", "which": "read_log"}, q, {"op": "hook", "which": "read_log"}]
                    rr = im2.run([{"op": "session"}] + fl)
                    needs_full[key] = os.path.realpath(files[sd + "_unicode_full"]) in [os.path.realpath(p) for p in (rr[-1].get("v") or [])]
                full_path = os.path.realpath(files[sd + "_unicode_full"])
                if needs_full[key]:
                    ok2, needs, _ = sim.full_read(sd, files, check != "All")
                    if needs != (full_path in log):
                        disagreements.append({"why": "the call needs the full Unicode table: the model says it " + ("must" if needs else "need not") + " be read, the library " + ("read" if full_path in log else "did not read") + " it",
                                              "file": os.path.relpath(full_path, core.rules_dir()), "step": q, "lines": list(lines)})
                elif full_path in log:
                    disagreements.append({"why": "the full Unicode table was read by a call that does not need it in a fresh session", "file": os.path.relpath(full_path, core.rules_dir()), "step": q, "lines": list(lines)})
            else:
                # overview / navigation use the speech tables too (the tables are shared by the Intent, Speech, Overview and Navigation rule sets):
                # whether such a call needs the full table is not predicted, but a read of it goes through the model's cell, and must be one the model allows
                for sd in ("speech", "braille"):
                    fp = os.path.realpath(files[sd + "_unicode_full"])
                    if fp in log:
                        ok2, needs, _ = sim.full_read(sd, files, check != "All")
                        if not needs:
                            disagreements.append({"why": "the full Unicode table was read again although the model holds it up to date", "file": os.path.relpath(fp, core.rules_dir()), "step": q, "lines": list(lines)})
            if pred != log_eager:
                disagreements.append({"why": "files read by a call differ from the model's prediction", "step": q, "impl": [os.path.relpath(p, core.rules_dir()) for p in log_eager],
                                      "model": [os.path.relpath(p, core.rules_dir()) for p in pred], "lines": list(lines)})
    im2.close()
    # two threads with independent sessions
    n_thr = 0
    for _ in range(6 if ctx.tier == "quick" else 60):
        a = {"Language": rng.choice(PREF_CHOICES["Language"][:8]), "BrailleCode": rng.choice(PREF_CHOICES["BrailleCode"]), "SpeechStyle": rng.choice(PREF_CHOICES["SpeechStyle"])}
        b = {"Language": rng.choice(PREF_CHOICES["Language"][:8]), "BrailleCode": rng.choice(PREF_CHOICES["BrailleCode"]), "SpeechStyle": rng.choice(PREF_CHOICES["SpeechStyle"])}
        ea, eb = rng.choice(exprs), rng.choice(exprs)
        def script(cfg, e):
            return core.prelude([{"op": "set_pref", "name": k, "value": v} for k, v in cfg.items()]) + [{"op": "set_mathml", "xml": e}] + getters_reqs()
        sa, sb = script(a, ea), script(b, eb)
        solo_a = outputs(im.run([{"op": "session"}] + sa)[-4:])
        solo_b = outputs(im.run([{"op": "session"}] + sb)[-4:])
        inter = [{"op": "session", "sid": "A"}, {"op": "session", "sid": "B"}]
        ia = ib = 0
        while ia < len(sa) or ib < len(sb):
            if ib >= len(sb) or (ia < len(sa) and rng.random() < 0.5):
                inter.append(dict(sa[ia], sid="A")); ia += 1
            else:
                inter.append(dict(sb[ib], sid="B")); ib += 1
        rep = im.run(inter)
        ra = [r for q, r in zip(inter, rep) if q.get("sid") == "A" and q["op"] != "session"][-4:]
        rb = [r for q, r in zip(inter, rep) if q.get("sid") == "B" and q["op"] != "session"][-4:]
        n_thr += 1
        if outputs(ra) != solo_a or outputs(rb) != solo_b:
            oracle_fail.append({"why": "a session's output changes when another thread works on its own session", "a": a, "b": b, "lines": inter})
    im.close()
    mo.close()
    ctx.coverage.update({
        "pure_query_sequences": n_pure, "observation_fraction_level_memo_attributes_seen_on_the_stored_tree": cache_attr["n"],
        "evaluations": n_calls, "distinct_nontrivial": n_hist,
        "rule": "random histories (2-11 steps of set_preference over 10 preferences, set_mathml, getters, navigation) followed by a target preference assignment, an expression and the getters in "
                "random order with one repeated, compared with a fresh session; preference round trips on a fixed expression; file-read prediction along histories (hooks H2 + H6); two sessions "
                "in two threads interleaved at random vs each alone. non-trivial = histories compared with fresh",
        "histories": n_hist, "preference_orders_compared": n_perm, "single_preference_switches": n_switch, "last_preference_after_getter": n_last, "pref_roundtrips": n_rt, "calls_with_predicted_file_reads": n_pred, "thread_interleavings": n_thr,
        "thread_local_blocks_in_src": n_tl, "shared_mutable_statics_found": shared,
        "model_vs_impl_disagreements": [{k: v for k, v in d.items() if k != "lines"} for d in disagreements[:8]], "n_disagreements": len(disagreements),
        "impl_vs_oracle_failures": [{k: v for k, v in f.items() if k not in ("lines", "fresh_lines")} for f in oracle_fail[:8]], "n_oracle_failures": len(oracle_fail),
    })
    for f in oracle_fail:
        ctx.violation("implementation violates C10: " + json.dumps({k: v for k, v in f.items() if k not in ("lines", "fresh_lines", "history")}, ensure_ascii=False)[:600],
                      {"kind": "impl-vs-oracle", "case": {k: v for k, v in f.items() if k != "lines"}, "lines": f["lines"]}, tag="oracle", signature={"kind": "c10-oracle", "why": f["why"]})
    found = bool(ctx.violations)          # (failures attributed to a known finding do not count)
    if shared and not found:
        ctx.violation("a mutable static shared between threads was found in src/ (hypothesis of sessions_independent)", {"kind": "theorem-hypothesis", "theorem": "MC.Props.C10.sessions_independent", "found": shared}, tag="hyp", no_input=True)
    if not pr["ok"] and not found:
        ctx.violation("theorem(s) no longer check: " + ", ".join(pr["failed"]), {"kind": "theorem", "theorems": pr["failed"], "lean_output": pr["output"][-1500:]}, tag="theorem", no_input=True)
    if disagreements and not found:
        d = disagreements[0]
        ctx.violation("model and implementation disagree on which files a call reads: " + json.dumps({k: v for k, v in d.items() if k != "lines"}, ensure_ascii=False)[:500],
                      {"kind": "correspondence", "correspondence": "MC.Loader.refresh vs SpeechRules::read_files (hooks H2, H6)", "cases": [{k: v for k, v in x.items() if k != "lines"} for x in disagreements[:5]], "lines": d["lines"]},
                      tag="corr", no_input=True)


def replay(ctx, path):
    with open(path) as f:
        rp = json.load(f)
    core.need_harness(ctx)
    im = core.impl()
    for name in ("lines", "fresh_lines"):
        lines = rp.get(name) or (rp.get("case") or {}).get(name) or []
        if not lines:
            continue
        print("---", name)
        pre = [] if lines and lines[0].get("op") == "session" else [{"op": "session"}]
        for q, r in zip(lines, im.run(pre + lines)[len(pre):]):
            print(json.dumps(q, ensure_ascii=False)[:200], "->", json.dumps(r, ensure_ascii=False)[:500])
    im.close()
    return 0
