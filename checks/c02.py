"""C02 — returned MathML is well-formed canonical MathML."""
import json, re
import core, mml, canon_run, clean_run
from canon_run import N

SPECIALS = ["<", ">", "&", "'", '"', "⁡", "⁢", "⁣", "⁤", "a<b", "x&y;", "&amp;", "]]>", "'\"", "é", "𝑥", " ", "&#x3c;", "a⁢b"]


def run(ctx):
    pr, im, mo = canon_run.standard(ctx, "C02", "", [
        "modelled, not verified: handle_special_chars of src/pretty_print.rs (MC.Xml.escape) and the standard XML reading of the references it writes (MC.Xml.unescape); "
        "the model's escape is compared with the raw text and attribute values of every returned string",
        "the structural clauses (arities, removed wrappers, no empty token, no short mrow, single child of math) are decided by the Lean checker MC.Spec.Canon.wfViolations applied to the "
        "implementation's output; clean_mathml itself is not modelled (7000 lines of heuristics), so these clauses are checked on generated inputs, not proved",
        "modelled, not verified: the structural skeleton of clean_mathml (MC.Clean, the model of C01's clean_conserves): clean_wf / cleanL_length_fixed (MC/Props/C02Clean.lean) -- on every "
        "tree that passes assure_mathml's arity test the skeleton returns a tree in which every element with a fixed number of children still has it and every one-child element has exactly one; "
        "tied to the library on every run by hook H7 on generated trees inside the fragment guard (as in C01)",
        "python's xml.etree parser is the reference for 'well-formed XML'"], extra_modules=["MC.Props.C02Clean"])
    rng = ctx.rng
    n = 4000 if ctx.tier == "quick" else 100000
    results = canon_run.run_stream(ctx, im, mo, n, canon_run.LOCALES)
    # special characters in text and attribute values
    sp_trees = []
    for _ in range(200 if ctx.tier == "quick" else 4000):
        toks = []
        for _ in range(rng.randrange(1, 4)):
            tag = rng.choice(["mi", "mo", "mtext", "mn", "ms"])
            txt = "".join(rng.choice(SPECIALS + list("abxy12")) for _ in range(rng.randrange(1, 4)))
            a = {}
            if rng.random() < 0.6:
                a[rng.choice(["data-x", "class", "href", "intent"])] = "".join(rng.choice(SPECIALS + list("ab :")) for _ in range(rng.randrange(1, 4)))
            toks.append(N(tag, text=txt, attrs=a))
        sp_trees.append(N("math", [N("mrow", toks)] if rng.random() < 0.7 else toks))
    pre = core.prelude([])
    sp_xml = [canon_run.to_xml(t) for t in sp_trees]
    sp_rep = im.run([{"op": "session"}] + pre + [{"op": "set_mathml", "xml": x} for x in sp_xml], prelude=pre)[1 + len(pre):]
    sp_results = [{"xml": x, "locale": ["", ""], "reply": r, "lines": pre + [{"op": "set_mathml", "xml": x}], "special": True} for x, r in zip(sp_xml, sp_rep)]
    for it in sp_results:
        if it["reply"].get("r") == "ok":
            it["xml_wellformed"] = canon_run.xml_to_json(it["reply"]["v"]) is not None
    # elements with a fixed number of children given the wrong number: rejected, or repaired into canonical form -- never passed through
    ar_xml = []
    kid = lambda i: f"<mi>{'abcd'[i]}</mi>"
    for tag, good in [("mfrac", 2), ("mroot", 2), ("msub", 2), ("msup", 2), ("munder", 2), ("mover", 2), ("msubsup", 3), ("munderover", 3)]:
        for k in range(0, 5):
            if k == good:
                continue
            e = f"<{tag}>" + "".join(kid(i) for i in range(k)) + f"</{tag}>"
            ar_xml += [f"<math>{e}</math>", f"<math><mrow><mi>x</mi><mo>+</mo>{e}<mo>=</mo><mn>1</mn></mrow></math>", f"<math><msup><mi>y</mi>{e}</msup></math>",
                       f"<math><mfrac><mrow>{e}<mi>z</mi></mrow><mn>2</mn></mfrac></math>"]
    ar_rep = im.run([{"op": "session"}] + pre + [{"op": "set_mathml", "xml": x} for x in ar_xml], prelude=pre)[1 + len(pre):]
    ar_results = [{"xml": x, "locale": ["", ""], "reply": r, "lines": pre + [{"op": "set_mathml", "xml": x}], "special": True} for x, r in zip(ar_xml, ar_rep)]
    creqs, keep = [], []
    for it in ar_results:
        if it["reply"].get("r") == "ok":
            inp, out = canon_run.xml_to_json(it["xml"]), canon_run.xml_to_json(it["reply"]["v"])
            it["xml_wellformed"] = out is not None
            if inp is not None and out is not None:
                creqs.append({"op": "canon_check", "inp": inp, "out": out})
                keep.append(it)
    for it, c in zip(keep, mo.run(creqs)):
        it["check"] = c.get("v") if c.get("r") == "ok" else None
    ctx.coverage["wrong_arity_inputs"] = {"n": len(ar_xml), "rejected": sum(1 for it in ar_results if it["reply"].get("r") == "err"), "accepted": len(keep)}
    sp_results = sp_results + ar_results
    n_ok = canon_run.summarize(ctx, results + sp_results)
    oracle_fail, esc_reqs, esc_items = [], [], []
    wf_kinds = {}
    for it in results + sp_results:
        if it["reply"].get("r") != "ok":
            continue
        if not it.get("xml_wellformed"):
            oracle_fail.append({"why": "returned string is not well-formed XML", "xml": it["xml"], "out": it["reply"]["v"], "lines": it["lines"]})
            continue
        c = it.get("check")
        if c and c["wf"]:
            for w in c["wf"]:
                wf_kinds[w.split(":")[0]] = wf_kinds.get(w.split(":")[0], 0) + 1
            oracle_fail.append({"why": "; ".join(c["wf"]), "xml": it["xml"], "out": it["reply"]["v"], "lines": it["lines"]})
        texts, attrs = canon_run.raw_pieces(it["reply"]["v"])
        for raw, is_attr in [(t, False) for t in texts] + [(a, True) for a in attrs]:
            if any(ch in raw for ch in "&⁡⁢⁣⁤\n\r\t"):
                un = canon_run.xml_unescape(raw)
                if un is None:
                    oracle_fail.append({"why": "a text/attribute value does not parse back", "xml": it["xml"], "out": it["reply"]["v"], "lines": it["lines"], "raw": raw})
                    continue
                esc_reqs.append({"op": "escape_attr" if is_attr else "escape", "text": un})
                esc_items.append((raw, un, it))
    # the string parses back to the same tree: attribute values and texts with special characters survive (compare with the input's)
    n_attr_roundtrip = 0
    for it in sp_results:
        if it["reply"].get("r") != "ok" or not it.get("xml_wellformed"):
            continue
        inp, out = canon_run.xml_to_json(it["xml"]), canon_run.xml_to_json(it["reply"]["v"])
        in_attrs = sorted(v for n_ in walk(inp) for k, v in n_["a"] if k in ("data-x", "class", "href"))
        out_attrs = sorted(v for n_ in walk(out) for k, v in n_["a"] if k in ("data-x", "class", "href"))
        n_attr_roundtrip += len(in_attrs)
        missing = [v for v in in_attrs if v not in out_attrs]
        if missing and len(in_attrs) == len(out_attrs):
            oracle_fail.append({"why": "attribute value changed by serialization", "xml": it["xml"], "out": it["reply"]["v"], "lines": it["lines"], "missing": missing})
    disagreements = []
    for (raw, un, it), r in zip(esc_items, mo.run(esc_reqs)):
        if r.get("r") != "ok" or r["v"] != raw:
            disagreements.append({"text": un, "impl": raw, "model": r.get("v"), "lines": it["lines"]})
    # the clean-up skeleton (clean_wf is proved about it) against the library's clean-up phase, hook H7
    cl = clean_run.run(ctx, im, mo, 1500 if ctx.tier == "quick" else 30000)
    cl_in = [r for r in cl if r.get("in_guard")]
    cl_dis = sorted([r for r in cl_in if not r["agree"]], key=lambda r: len(r["xml"]))
    cl_witness = None
    for r in cl_dis[:30]:
        rep = im.run([{"op": "session"}, {"op": "rules_dir", "dir": core.rules_dir()}, {"op": "set_mathml", "xml": r["xml"]}])[-1]
        if rep.get("r") == "ok":
            inp, out = canon_run.xml_to_json(r["xml"]), canon_run.xml_to_json(rep["v"])
            c = mo.run([{"op": "canon_check", "inp": inp, "out": out}])[0].get("v") or {}
            if c.get("wf"):
                cl_witness = {"why": "; ".join(c["wf"]), "xml": r["xml"], "out": rep["v"], "lines": [{"op": "rules_dir", "dir": core.rules_dir()}, {"op": "set_mathml", "xml": r["xml"]}]}
                oracle_fail.append(cl_witness)
                break
    im.close()
    mo.close()
    ctx.coverage.update({
        "clean_correspondence": {"trees": len(cl), "in_fragment": len(cl_in), "disagreements": len(cl_dis), "out_of_fragment_reasons": clean_run.reason_counts(cl)},
        "evaluations": n_ok, "distinct_nontrivial": len({it["xml"] for it in results + sp_results if it["reply"].get("r") == "ok" and len(re.findall(r"<m", it["xml"])) > 3}),
        "rule": "generated presentation trees (all element kinds, degenerate and empty children, mmultiscripts/mfenced variants, embedded HTML) under 4 separator locales + a special-character stream "
                "(text and attribute values drawn from XML-significant characters, invisible operators, entity-looking text); every Ok reply is parsed, checked by the Lean Spec checker, and every escaped "
                "text/attribute is compared with the model's escape. non-trivial = more than 3 elements",
        "escape_comparisons": len(esc_items), "attribute_roundtrips": n_attr_roundtrip, "wf_violation_kinds": wf_kinds,
        "model_vs_impl_disagreements": [{k: v for k, v in d.items() if k != "lines"} for d in disagreements[:8]], "n_disagreements": len(disagreements),
        "impl_vs_oracle_failures": [{k: v for k, v in f.items() if k != "lines"} for f in oracle_fail[:8]], "n_oracle_failures": len(oracle_fail),
    })
    for f in oracle_fail:
        ctx.violation("implementation violates C02: " + json.dumps({k: v for k, v in f.items() if k != "lines"}, ensure_ascii=False)[:500],
                      {"kind": "impl-vs-oracle", "case": {k: v for k, v in f.items() if k != "lines"}, "lines": f["lines"]}, tag="oracle", signature={"kind": "c02-oracle", "why": f["why"]})
    found = bool(ctx.violations)
    if not pr["ok"] and not found:
        ctx.violation("theorem(s) no longer check: " + ", ".join(pr["failed"]), {"kind": "theorem", "theorems": pr["failed"], "lean_output": pr["output"][-1500:]}, tag="theorem", no_input=True)
    if cl_dis and not found:
        r = cl_dis[0]
        ctx.violation("correspondence MC.Clean (clean-up skeleton) vs verif_clean_only no longer holds on %d of %d in-fragment trees, e.g. %s" % (len(cl_dis), len(cl_in), r["xml"][:300]),
                      {"kind": "correspondence", "correspondence": "MC.Clean.cleanMath vs hook H7 verif_clean_only", "input": r["xml"], "impl": r["impl_shape"] if r["impl_shape"] is not None else r["impl"],
                       "model": r["model_shape"], "lines": r["lines"]}, tag="corr", no_input=True)
        found = True
    if disagreements and not found:
        d = disagreements[0]
        ctx.violation("model and implementation escape differently: " + json.dumps({k: v for k, v in d.items() if k != "lines"}, ensure_ascii=False)[:400],
                      {"kind": "correspondence", "correspondence": "MC.Xml.escape vs handle_special_chars", "cases": [{k: v for k, v in x.items() if k != "lines"} for x in disagreements[:5]], "lines": d["lines"]},
                      tag="corr", no_input=True)


def walk(n):
    if isinstance(n, dict):
        yield n
        for c in n["c"]:
            yield from walk(c)


def replay(ctx, path):
    return canon_run.replay_lines(ctx, path)
