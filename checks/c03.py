"""C03 — row structure follows the operator dictionary."""
import json, re
import xml.etree.ElementTree as ET
import core, mml
from core import log
import tr_opdict, tr_common

OPERANDS = list("abcdhkmnpqrstuvwxyz") + ["2", "3", "10", "7.5"]
# operators whose tokens are rewritten before the row parser runs (merged, re-tagged or given special treatment): outside the model guard
GUARD_OUT = set("|∥‖.,:;'′″‴⁗‵‶‷`_\"’‘”“") | {"\\", "∣", "¦", "…", "⋯", "°", "&", "%", "′"}


def to_tree(canon):
    try:
        root = ET.fromstring(canon)
    except Exception:
        return None, None
    ops = []

    def rec(e):
        if e.tag == "mrow":
            return [rec(c) for c in e]
        if len(e) == 0:
            t = e.text or ""
            if e.tag == "mo":
                ops.append(t)
            return t
        return {"el": e.tag, "kids": [rec(c) for c in e]}
    kids = list(root)
    return (rec(kids[0]) if len(kids) == 1 else [rec(c) for c in kids]), ops


def gen_row(rng, opsets, length):
    """alternating-ish row of operands and operators, with prefix/postfix positions, runs and fences"""
    toks = []
    depth = 0
    want_operand = True
    for _ in range(length):
        r = rng.random()
        if want_operand:
            if r < 0.12:
                toks.append(("mo", rng.choice(opsets["prefix"])))
            elif r < 0.22:
                toks.append(("mo", rng.choice(opsets["left"])))
                depth += 1
            else:
                toks.append((rng.choice(["mi", "mi", "mn"]), None))
                want_operand = False
        else:
            if r < 0.10:
                toks.append(("mo", rng.choice(opsets["postfix"])))
            elif r < 0.22 and depth > 0:
                toks.append(("mo", rng.choice(opsets["right"])))
                depth -= 1
            elif r < 0.30:
                want_operand = True       # implied multiplication: next operand follows directly
            elif r < 0.35:
                toks.append(("mo", rng.choice(opsets["right"])))      # unbalanced
            else:
                toks.append(("mo", rng.choice(opsets["common"] if rng.random() < 0.6 else opsets["infix"])))
                want_operand = True
    out = []
    for k, v in toks:
        if v is None:
            v = rng.choice([x for x in OPERANDS if x[0].isdigit()] if k == "mn" else [x for x in OPERANDS if not x[0].isdigit()])
        out.append((k, v))
    return out


def run(ctx):
    report = {}
    extraction_failed = None
    try:
        entries, special = tr_opdict.extract_opdict(report)
    except tr_common.ExtractionError as e:
        extraction_failed = str(e)
        entries = []
    ctx.coverage["translator"] = {k: v for k, v in report.items() if k != "modules"}
    pr = core.prove("C03", extra_modules=["MC.Props.C03NoPanic", "MC.Props.C03Sep", "MC.Props.C03SepSpec"])
    core.proof_coverage(ctx, pr, "lake build MC.Props.C03 && lake env lean build/audit_C03.lean (#print axioms)",
                        ["modelled, not verified: find_operator/compute_type_from_position, is_nary, reduce_stack(_one_time), shift_stack and the loop of canonicalize_mrows_in_mrow for rows of plain tokens "
                         "(MC.Model.Rows); the operator dictionary and the ad-hoc operator infos are regenerated from src/operator-info.in and src/canonicalize.rs",
                         "outside the model: function-name guessing, mixed fractions, implied commas, chemistry, trig arguments, vertical-bar disambiguation, form attributes, embellished operators; "
                         "those rows are checked by the Spec checker on the implementation's output only",
                         "parseRow_no_panic (MC/Props/C03NoPanic.lean): none of the asserts / unwraps of the row parser is reachable for ANY token sequence without the two right quotation "
                         "marks as mo (they have priority 10, below every other fence; the library converts them to primes before parsing, which the check monitors on the implementation)",
                         "parseRow_operands_separated (MC/Props/C03Sep.lean) + reportsD_iff / parseRow_never_reports_d (MC/Props/C03SepSpec.lean): clause (d) for EVERY token sequence - whenever the "
                         "row parser returns a tree, no row at any depth has two neighbouring operands, and that is exactly when the executable checker MC.Spec.Rows.violations (the one run on "
                         "the implementation's canonical trees here) reports no '(d)' line; clauses (a)-(c) are proved for rows of the modelled token classes only (MC/Props/C03.lean)"])
    core.need_harness(ctx)
    core.need_driver(ctx)
    im, mo = core.impl(), core.model()
    rng = ctx.rng
    T = tr_opdict.TYPES
    single = [(k, infos) for k, infos in entries if k not in GUARD_OUT and not any(ch in GUARD_OUT for ch in k) and not k.isspace() and k not in ("⁡", "⁢", "⁣", "⁤")
              and not any(0x2000 <= ord(c) <= 0x200F or ord(c) < 0x21 or c in "<&" for c in k)]
    probe = im.run([{"op": "session"}] + core.prelude([{"op": "set_pref", "name": "Chemistry", "value": "Off"}]) +
                   [{"op": "set_mathml", "xml": f"<math><mrow><mi>a</mi><mo>{mml.esc_text(k)}</mo><mi>b</mi><mo>=</mo><mi>c</mi></mrow></math>"} for k, _ in single])[3:]
    kept = []
    for (k, infos), r in zip(single, probe):
        tree, ops = to_tree(r.get("v", "")) if r.get("r") == "ok" else (None, None)
        flat = json.dumps(tree, ensure_ascii=False) if tree is not None else ""
        if tree is not None and '"el"' not in flat and k in (ops or []) and sorted(ops) == sorted([k, "="]):
            kept.append((k, infos))
    guard_dropped = len(single) - len(kept)
    single = [(k, i) for k, i in kept if k != "*"]      # '*' is a pseudo-script depending on its right neighbour
    opsets = {
        "prefix": [k for k, i in single if any(t == 1 for t, _ in i)] or ["¬"],
        "postfix": [k for k, i in single if any(t == 4 for t, _ in i)] or ["!"],
        "infix": [k for k, i in single if any(t == 2 for t, _ in i)],
        "left": [k for k, i in single if i[0][0] == 9] or ["("],
        "right": [k for k, i in single if i[0][0] == 12] or [")"],
        "common": ["+", "=", "×", "<", "→", "∈", "∪", "∧", "≤", "⋅", "±", "∘", "⊕"],
    }
    for k, infos in entries:
        for ty, p in infos:
            PRIO[(k, ty)] = p
    n = 1500 if ctx.tier == "quick" else 80000
    rows = []
    # table echo first: every dictionary operator between two reference operators
    for k, infos in (single if ctx.tier == "thorough" else rng.sample(single, min(400, len(single)))):
        for t, p in infos:
            if t == 2:
                rows.append([("mi", "a"), ("mo", "+"), ("mi", "b"), ("mo", k), ("mi", "c"), ("mo", "×"), ("mi", "d")])
            elif t == 1:
                rows.append([("mi", "a"), ("mo", "+"), ("mo", k), ("mi", "b"), ("mo", "×"), ("mi", "c")])
            elif t == 4:
                rows.append([("mi", "a"), ("mo", "×"), ("mi", "b"), ("mo", k), ("mo", "+"), ("mi", "c")])
            elif t == 9:
                rows.append([("mi", "a"), ("mo", k), ("mi", "b"), ("mo", "+"), ("mi", "c"), ("mo", ")"), ("mo", "=" ), ("mi", "d")])
            elif t == 12:
                rows.append([("mo", "("), ("mi", "b"), ("mo", "+"), ("mi", "c"), ("mo", k), ("mi", "d")])
    # an infix operator, a prefix operator, a number, then implied multiplication with a fenced group or an operand: two
    # rows are pending when the implied operator arrives
    inf = [k for k, i in single if any(t == 2 for t, _ in i)]
    for X in (inf if ctx.tier == "thorough" else rng.sample(inf, min(120, len(inf)))) + ["/", "^", "+", "=", "×", "∈", "→"]:
        for P in ["-", "+", "¬", "±"]:
            rows.append([("mi", "a"), ("mo", X), ("mo", P), ("mn", "2"), ("mo", "("), ("mi", "c"), ("mo", "+"), ("mi", "d"), ("mo", ")")])
            rows.append([("mn", "1"), ("mo", X), ("mo", P), ("mn", "2"), ("mn", "3"), ("mo", "+"), ("mi", "z")])
    # witnesses of the known finding C03-operator-before-operator-read-as-infix (so that every run shows it)
    rows.append([("mo", "-"), ("mo", "-"), ("mi", "h"), ("mo", "×"), ("mi", "q")])
    rows.append([("mo", "-"), ("mo", "-"), ("mi", "h"), ("mo", "+"), ("mi", "q")])
    n_echo = len(rows)
    # exhaustive: every row up to length 3 (thorough: 5) over a 13-symbol alphabet with every kind of operator and fence
    import itertools
    ALPHA = [("mi", "a"), ("mn", "2"), ("mo", "+"), ("mo", "-"), ("mo", "("), ("mo", ")"), ("mo", "!"), ("mo", "="), ("mo", "×"), ("mo", "¬"), ("mo", "["), ("mo", "}"), ("mo", "∑")]
    for L in range(1, 4 if ctx.tier == "quick" else 6):
        rows += [list(seq) for seq in itertools.product(ALPHA, repeat=L)]
    n_exhaustive = len(rows) - n_echo
    for _ in range(n):
        rows.append(gen_row(rng, opsets, rng.randrange(1, 14 if rng.random() < 0.8 else 40)))
    pre = core.prelude([{"op": "set_pref", "name": "Chemistry", "value": "Off"}])
    reqs = [{"op": "set_mathml", "xml": "<math><mrow>" + "".join(f"<{k}>{mml.esc_text(v)}</{k}>" for k, v in r) + "</mrow></math>"} for r in rows]
    rep_i = im.run([{"op": "session"}] + pre + reqs, prelude=pre)[1 + len(pre):]
    rep_m = mo.run([{"op": "parse_row", "tokens": [[k, v] for k, v in r]} for r in rows])
    disagreements, oracle_fail, panics = [], [], []
    n_in_guard = 0
    nontriv = set()
    checks, cidx = [], []
    for idx, (r, ri, rm) in enumerate(zip(rows, rep_i, rep_m)):
        lines = pre + [reqs[idx]]
        if ri.get("r") in ("panic", "abort", "timeout"):
            panics.append({"row": r, "reply": ri, "lines": lines})
            continue
        if ri.get("r") != "ok":
            continue
        tree, ops = to_tree(ri["v"])
        if tree is None:
            continue
        # function-name guessing (an IDENTIFIER before a left fence) and mi-sequence merging are outside the model; a number before a fence is plain implied multiplication
        in_guard = not any((r[i][0] == "mi" and r[i + 1][0] == "mo" and r[i + 1][1] in opsets["left"]) or (r[i][0] == "mi" and r[i + 1][0] == "mi") for i in range(len(r) - 1))
        # mixed fractions (an integer directly followed by a linear fraction of numbers, '10 3/3': invisible plus instead of times) are outside the model too
        in_guard = in_guard and not any(r[i][0] == "mn" and r[i + 1][0] == "mn" and r[i + 2] == ("mo", "/") and r[i + 3][0] == "mn" for i in range(len(r) - 3))
        n_in_guard += 1 if in_guard else 0
        if not in_guard:
            pass        # function-name guessing (identifier before a left fence) and mi-sequence merging are outside the model
        elif rm.get("r") == "ok":
            if len(r) >= 2 and tree != rm["v"]:
                disagreements.append({"row": r, "impl": tree, "model": rm["v"], "lines": lines})
        else:
            disagreements.append({"row": r, "impl": tree, "model": rm, "lines": lines})
        prios = set()
        for k, v in r:
            if k == "mo":
                prios.add(v)
        if len(prios) >= 2 or any(v in opsets["left"] for k, v in r if k == "mo"):
            nontriv.add(json.dumps(r, ensure_ascii=False))
        checks.append({"op": "check_bracketed", "ops": sorted(set(ops)), "tree": tree})
        cidx.append(idx)
    # the Spec checker (Lean) on every implementation output; clause (c)/(a) are only claimed for well-formed rows
    for idx, rc in zip(cidx, mo.run(checks)):
        r = rows[idx]
        if rc.get("r") == "ok" and rc["v"]:
            wf = well_formed(r, opsets)
            if wf:
                why = "; ".join(rc["v"])
                # known finding C03-operator-before-operator: the form of an operator that is directly followed by another operator is taken to be infix
                # (compute_type_from_position), also where only a prefix operator can stand; that can only break clauses (a)/(b)
                cls = "prefix-chain" if prefix_chain(r, opsets) and all(v.startswith(("(a)", "(b)")) for v in rc["v"]) else "plain"
                oracle_fail.append({"why": why, "class": cls, "row": r, "tree": checks[cidx.index(idx)]["tree"], "lines": pre + [reqs[idx]]})
    # hypothesis of parseRow_no_panic: the right quotation marks never reach the row parser as mo tokens (an earlier pass makes them primes).
    # The model panics on these rows; the library must not.
    quote_rows = [[("mo", "("), ("mo", "’")], [("mo", "("), ("mo", "”")], [("mi", "a"), ("mo", "("), ("mi", "b"), ("mo", "”"), ("mi", "c")], [("mo", "["), ("mo", "("), ("mo", "’"), ("mo", "]")],
                  [("mo", "’")], [("mo", "”"), ("mo", ")")], [("mo", "("), ("mo", "’"), ("mo", "’"), ("mo", ")")], [("mo", "{"), ("mi", "x"), ("mo", "”"), ("mo", "’")],
                  [("mo", "‘"), ("mi", "x"), ("mo", "’")], [("mo", "“"), ("mo", "("), ("mo", "”")], [("mo", "-"), ("mo", "("), ("mo", "’"), ("mn", "2")]]
    q_reqs = [{"op": "set_mathml", "xml": "<math><mrow>" + "".join(f"<{k}>{mml.esc_text(v)}</{k}>" for k, v in r) + "</mrow></math>"} for r in quote_rows]
    q_rep = im.run([{"op": "session"}] + pre + q_reqs, prelude=pre)[1 + len(pre):]
    q_model_panics = sum(1 for rm_ in mo.run([{"op": "parse_row", "tokens": [[k, v] for k, v in r]} for r in quote_rows]) if rm_.get("r") == "panic")
    for r, q, ri in zip(quote_rows, q_reqs, q_rep):
        if ri.get("r") in ("panic", "abort", "timeout"):
            panics.append({"row": r, "reply": ri, "lines": pre + [q]})
            oracle_fail.append({"why": "a right quotation mark reaches the row parser and crashes it (hypothesis of parseRow_no_panic)", "class": "plain", "row": r, "tree": None, "reply": ri, "lines": pre + [q]})
    # vertical bars: a matched pair encloses exactly its contents
    def flat(t):
        return [t] if isinstance(t, str) else [x for k in (t if isinstance(t, list) else t.get("kids", [])) for x in flat(k)]

    def groups(t, bar):
        out = []
        if isinstance(t, list):
            if len(t) >= 2 and t[0] == bar and t[-1] == bar:
                out.append([x for x in flat(t[1:-1]) if x not in ("\u2062", "\u2061", "\u2063", "\u2064")])
            for k in t:
                out += groups(k, bar)
        elif isinstance(t, dict):
            for k in t.get("kids", []):
                out += groups(k, bar)
        return out

    SIMPLE = [["x"], ["x", "+", "y"], ["-", "x"], ["x", "y"], ["x", "+", "y", "-", "1"], ["2", "x"]]
    COMPLEX = [["x", "+", "y", "z"], ["a", "b", "+", "c"], ["x", "=", "y", "+", "1"], ["-", "x", "+", "y", "z"]]
    CONTEXTS = [lambda g: g + ["+", "z"], lambda g: ["a", "+"] + g, lambda g: ["2"] + g + ["z"], lambda g: g, lambda g: g + ["=", "3"], lambda g: ["a", "=", "("] + g + [")", "-", "1"],
                lambda g: g + ["+"] + g]
    bar_cases, bar_fail = [], []
    for bar in ["|", "‖"]:
        for kind, contents in (("simple", SIMPLE), ("complex", COMPLEX)):
            for c in contents:
                for cx in CONTEXTS:
                    toks = cx([bar] + c + [bar])
                    xml = "<math><mrow>" + "".join((f"<mn>{t}</mn>" if t[0].isdigit() else f"<mi>{t}</mi>" if t.isalpha() else f"<mo>{mml.esc_text(t)}</mo>") for t in toks) + "</mrow></math>"
                    bar_cases.append((bar, kind, c, toks, xml))
    rep_b = im.run([{"op": "session"}] + pre + [{"op": "set_mathml", "xml": x[4]} for x in bar_cases], prelude=pre)[1 + len(pre):]
    for (bar, kind, c, toks, xml), r in zip(bar_cases, rep_b):
        if r.get("r") != "ok":
            continue
        tree, _ = to_tree(r["v"])
        want = toks.count(bar) // 2
        got = [g for g in groups(tree, bar) if g == c]
        if len(got) != want:
            bar_fail.append({"why": f"a pair of vertical bars does not enclose exactly its contents ({kind} contents)", "row": toks, "tree": tree, "contents": c, "kind": kind,
                             "lines": pre + [{"op": "set_mathml", "xml": xml}]})
    oracle_fail += bar_fail
    im.close()
    mo.close()
    ctx.coverage.update({
        "vertical_bar_rows": len(bar_cases), "vertical_bar_failures": len(bar_fail),
        "no_panic_theorem": {"theorem": "MC.Props.C03NP.parseRow_no_panic", "hypothesis": "no mo token is U+2019 or U+201D", "rows_with_those_tokens_tried_on_the_library": len(quote_rows),
                             "of_which_the_model_panics": q_model_panics, "library_crashes": sum(1 for ri in q_rep if ri.get("r") in ("panic", "abort", "timeout"))},
        "evaluations": len(rows), "distinct_nontrivial": len(nontriv),
        "rule": "table echo (every sampled dictionary entry and form between two reference operators) + generated rows of length 1-40 over all dictionary operators outside the guard list "
                "(prefix/postfix positions, operator runs, implied multiplication, nested and unbalanced fences); tree shape compared with the model; Spec checker on every output. "
                "non-trivial = >= 2 different operators or a fence",
        "rows_inside_model_guard": n_in_guard, "table_echo_rows": n_echo, "exhaustive_rows_up_to_length": (3 if ctx.tier == "quick" else 5), "exhaustive_rows": n_exhaustive,
        "model_panic_outcomes": sum(1 for rm in rep_m if rm.get("r") == "panic"), "operators_in_play": len(single), "operators_dropped_by_behavioural_guard": guard_dropped, "dictionary_entries": len(entries),
        "model_vs_impl_disagreements": [{k: v for k, v in d.items() if k != "lines"} for d in disagreements[:8]], "n_disagreements": len(disagreements),
        "impl_vs_oracle_failures": [{k: v for k, v in f.items() if k != "lines"} for f in oracle_fail[:8]], "n_oracle_failures": len(oracle_fail),
        "panics_seen_reported_under_C08": [{"row": p["row"], "reply": p["reply"]} for p in panics[:5]],
        "samples": [rows[-1], rows[-2], rows[0]],
    })
    for f in oracle_fail:
        ctx.violation("implementation violates C03: " + json.dumps({k: v for k, v in f.items() if k != "lines"}, ensure_ascii=False)[:400],
                      {"kind": "impl-vs-oracle", "case": {k: v for k, v in f.items() if k != "lines"}, "lines": f["lines"]}, tag="oracle", signature={"kind": "c03-oracle", "why": f["why"], "class": f.get("class", "plain")})      # (the bar oracle's 'why' names simple / complex contents)
    found = bool(ctx.violations)
    if extraction_failed:
        ctx.violation(f"translator could not parse the operator dictionary ({extraction_failed})", {"kind": "translator", "theorem": "MC.Props.C03.*", "error": extraction_failed}, tag="translator", no_input=not found)
    if not pr["ok"] and not found:
        ctx.violation("theorem(s) no longer check: " + ", ".join(pr["failed"]), {"kind": "theorem", "theorems": pr["failed"], "lean_output": pr["output"][-1500:]}, tag="theorem", no_input=True)
    if disagreements and not found:
        d = disagreements[0]
        ctx.violation("model and implementation disagree on a row: " + json.dumps({k: v for k, v in d.items() if k != "lines"}, ensure_ascii=False)[:400],
                      {"kind": "correspondence", "correspondence": "MC.Rows.parseRow vs set_mathml", "cases": [{k: v for k, v in x.items() if k != "lines"} for x in disagreements[:5]], "lines": d["lines"]},
                      tag="corr", no_input=True)


def prefix_chain(row, opsets):
    """is there an operator in operand position (start of the row, after a left fence, or after an operator that is not a right fence and
    can be infix or prefix) that is directly followed by another operator which is not a left fence?  (- - h, a + - - b, ( + - 2 )"""
    for i in range(len(row) - 1):
        (k, v), (k2, v2) = row[i], row[i + 1]
        if k != "mo" or k2 != "mo" or v in opsets["left"] or v in opsets["right"] or v2 in opsets["left"] or v2 in opsets["right"]:
            continue
        if v not in opsets["prefix"] or v2 not in opsets["prefix"]:
            continue
        if i == 0:
            return True
        pk, pv = row[i - 1]
        if pk == "mo" and pv not in opsets["right"] and (pv in opsets["infix"] or pv in opsets["prefix"] or pv in opsets["left"]):
            return True
    return False


def well_formed(row, opsets):
    """The rows C03 is claimed for (DESIGN §4.1), as a recogniser of
         Expr := Term ((Infix)? Term)*      Term := Prefix* Atom Postfix*      Atom := operand | Left Expr Right
    where the form of an operator is the one its position forces: in operand position it must be a prefix operator or a left
    fence; after an operand it is a right fence (when one is open), else postfix if it cannot be infix or if no operand can
    follow, else infix. Two extra conditions keep clause (b) satisfiable / the form unambiguous:
    * a postfix operator does not bind more loosely than the infix operator that follows it,
    * an operator that is followed directly by a left fence is not counted on (the library picks its form heuristically)."""
    depth = 0
    state = "want"          # want an operand / after an operand
    n = len(row)

    def starts_operand(i):
        """does an operand start at i?  (operand, left fence, or ONE prefix operator directly followed by an operand or a left
        fence: the library keeps a chain of prefix operators flat, so chains are not counted on)"""
        if i < n and row[i][0] == "mo" and row[i][1] in opsets["prefix"] and row[i][1] not in opsets["left"] and row[i][1] not in opsets["right"]:
            i += 1
        return i < n and (row[i][0] != "mo" or row[i][1] in opsets["left"])

    for i, (k, v) in enumerate(row):
        nxt = row[i + 1] if i + 1 < n else None
        if k != "mo":
            state = "after"
            continue
        if nxt is not None and nxt[0] == "mo" and nxt[1] in opsets["left"] and v not in opsets["left"]:
            return False     # operator directly before a left fence
        if v in opsets["left"]:
            if state == "after" and False:
                return False
            depth += 1
            state = "want"
        elif v in opsets["right"]:
            if depth == 0 or state != "after":
                return False
            depth -= 1
            state = "after"
        elif state == "want":
            if v not in opsets["prefix"] or not starts_operand(i + 1):
                return False
        else:
            can_in, can_post = v in opsets["infix"], v in opsets["postfix"]
            if can_in and can_post and nxt is not None and nxt[0] == "mo" and nxt[1] in opsets["prefix"] and nxt[1] in opsets["infix"]:
                return False        # 'a ? + c' reads both as (a?)+c and as a?(+c): no unique parse
            if can_in and starts_operand(i + 1):
                state = "want"
            elif can_post:
                if nxt is not None and nxt[0] == "mo" and nxt[1] not in opsets["right"]:
                    if PRIO.get((v, 4), 0) < PRIO.get((nxt[1], 2), 10 ** 6):
                        return False
                state = "after"
            else:
                return False
    return depth == 0 and state == "after"


PRIO = {}


def replay(ctx, path):
    with open(path) as f:
        rp = json.load(f)
    core.need_harness(ctx)
    im = core.impl()
    lines = rp.get("lines", [])
    for q, r in zip(lines, im.run(lines)):
        print(json.dumps(q, ensure_ascii=False)[:300], "->", json.dumps(r, ensure_ascii=False)[:600])
    im.close()
    return 0
