"""C07 — braille output uses only the target alphabet."""
import glob, json, os, re
import core, mml
from core import log
import tr_braille, tr_common

CELL_CODES = ["Nemeth", "UEB", "Vietnam", "CMU", "Swedish"]
TEXT_CODES = ["LaTeX", "ASCIIMath"]
CODE_IDX = {c: i for i, c in enumerate(tr_braille.CODES)}
MARKERS = set("𝐖𝘄𝑁𝑏𝐏𝔹𝐶𝑐") | {chr(c) for c in range(0xE000, 0xF900)}


def unicode_keys(code):
    keys = []
    for f in ("unicode.yaml", "unicode-full.yaml"):
        path = os.path.join(core.REPO, "Rules", "Braille", code, f)
        if not os.path.exists(path):
            continue
        for line in open(path, encoding="utf-8"):
            m = re.match(r'\s*-\s*"((?:[^"\\]|\\.)+)"\s*:', line)
            if m:
                k = m.group(1)
                if k.startswith("\\"):
                    k = {"\\\\": "\\", '\\"': '"'}.get(k, k)
                if "-" in k and len(k) == 3:      # range such as "a-z"
                    keys += [chr(c) for c in range(ord(k[0]), ord(k[2]) + 1)]
                elif len(k) == 1:
                    keys.append(k)
    return keys


def exprs(rng, n):
    v = ["bold", "italic", "script", "fraktur", "double-struck", "sans-serif", "bold-italic"]
    E = [mml.math(mml.mrow(mml.N("mi", text=ch, attrs={"mathvariant": rng.choice(v)}), mml.mo("+"), mml.mi(rng.choice("ABΓΔαβ")), mml.mo("="), mml.mn("12.5"))) for ch in "AbΓδ7"]
    E += [mml.math(mml.mrow(mml.mi("Na"), mml.mi("Cl"), mml.mo("+"), mml.el("msub", mml.mi("H"), mml.mn("2")), mml.mi("O"))),
          mml.math(mml.mrow(mml.mtext("if well-known, x"), mml.mo("—"), mml.mn("1"), mml.mtext("."))),
          mml.math(mml.el("menclose", mml.mi("x"), notation="uparrow")), mml.math(mml.el("menclose", mml.mrow(mml.mi("x"), mml.mo("+"), mml.mn("1")), notation="box updiagonalstrike")),
          mml.math(mml.el("mover", mml.mi("x"), mml.mo("→"))), mml.math(mml.el("munderover", mml.mi("x"), mml.mi("a"), mml.mo("→")))]
    return E + mml.corpus_basic() + [mml.math(mml.gen_expr(rng, rng.randrange(1, 4))) for _ in range(n)]


def run(ctx):
    report = {}
    extraction_failed = None
    core.need_harness(ctx)
    try:
        tr_braille.extract_braille(report, core.MCDRIVE)
    except tr_common.ExtractionError as e:
        extraction_failed = str(e)
    ctx.coverage["translator"] = {k: v for k, v in report.items() if k != "modules"}
    pr = core.prove("C07")
    core.proof_coverage(ctx, pr, "lake build MC.Props.C07 && lake env lean build/audit_C07.lean (#print axioms)",
                        ["modelled, not verified: the final phase of each cell-code clean-up (REPLACE_INDICATORS closure, trimming, COLLAPSE_SPACES) as MC.Model.BrailleFinal; "
                         "replacement tables, character classes (regex-crate range reading), preference-sourced keys, clean-up-function letters and every t:/ct:/ot: literal of the "
                         "shipped braille rule/unicode files are regenerated on every run",
                         "the regex passes before the final phase and the characters Rust code itself inserts (BrailleChars etc.) are outside the theorems: the hypothesis of "
                         "finalPhase_all_cells is monitored on the raw string through hook H3, and the output alphabet is checked on every output of the run",
                         "diagnostic literals (multi-word lower-case ASCII such as 'unknown math m l element') are outside the claim, as the property says"])
    core.need_driver(ctx)
    im, mo = core.impl(), core.model()
    rng = ctx.rng
    status = {s["code"]: s for s in mo.run([{"op": "c07_status"}])[0]["v"]}
    oracle_fail, monitor_fail = [], []
    evals, nontriv = 0, set()
    samples = []
    E = exprs(rng, 20 if ctx.tier == "quick" else 800)
    per_code = {}
    # highlighting Off but a navigation node given: no dots 7-8 may appear (only BrailleNavHighlight decides)
    n_off = 0
    for code in CELL_CODES:
        pre0 = [{"op": "session"}, {"op": "rules_dir", "dir": core.rules_dir()}, {"op": "set_pref", "name": "BrailleCode", "value": code}, {"op": "set_pref", "name": "BrailleNavHighlight", "value": "Off"}]
        eight0 = {chr(c) for c in status.get(CODE_IDX.get(code, -1), {}).get("eight_dot_literals", [])}
        for t in E[:12]:
            n = t.copy()
            for k, x in enumerate(n.walk()):
                x.attrs["id"] = "n%d" % k
            xml = mml.to_xml(n)
            ids = ["n%d" % k for k in range(len(list(n.walk())))]
            reqs0 = [{"op": "set_mathml", "xml": xml}] + [{"op": "braille", "id": i} for i in rng.sample(ids, min(4, len(ids)))]
            rep0 = im.run(pre0 + reqs0, prelude=pre0)[len(pre0):]
            for q, r in zip(reqs0[1:], rep0[1:]):
                n_off += 1
                if r.get("r") == "ok":
                    hl = [ch for ch in r["v"] if 0x28C0 <= ord(ch) <= 0x28FF and ch not in eight0]
                    if hl:
                        oracle_fail.append({"why": "dots 7-8 set although BrailleNavHighlight is Off", "code": code, "chars": "".join(sorted(set(hl))), "input": xml, "id": q["id"], "braille": r["v"],
                                            "lines": pre0[1:] + [reqs0[0], q]})
    for code in CELL_CODES + TEXT_CODES:
        pre = [{"op": "session"}, {"op": "rules_dir", "dir": core.rules_dir()}, {"op": "set_pref", "name": "BrailleCode", "value": code},
               {"op": "set_pref", "name": "BrailleNavHighlight", "value": rng.choice(["Off", "EndPoints", "All"])}]
        keys = unicode_keys(code)
        if ctx.tier == "quick" and len(keys) > 500:
            keys = rng.sample(keys, 500)
        cases = [("char", k, f"<math><mrow><mi>x</mi><mo>{mml.esc_text(k)}</mo><mi>y</mi></mrow></math>") for k in keys if k not in "<&" and not k.isspace()]
        cases += [("expr", None, mml.to_xml(t)) for t in E]
        reqs = []
        for _, _, xml in cases:
            reqs += [{"op": "set_mathml", "xml": xml}, {"op": "braille", "id": ""}, {"op": "hook", "which": "last_braille"}]
        rep = im.run(pre + reqs, prelude=pre)[len(pre):]
        eight = {chr(c) for c in status.get(CODE_IDX.get(code, -1), {}).get("eight_dot_literals", [])}
        defined = set(unicode_keys(code))
        n_ok = 0
        for k, (kind, key, xml) in enumerate(cases):
            sm, br, hk = rep[3 * k:3 * k + 3]
            if sm.get("r") != "ok":
                continue
            evals += 1
            lines = pre[1:3] + [{"op": "set_mathml", "xml": xml}, {"op": "braille", "id": ""}]
            if br.get("r") != "ok":
                continue       # errors / crashes are C08's and C15's subject
            out = br["v"]
            n_ok += 1
            # characters of the (canonical) input the code does not define are passed through by design: outside the guarantee
            canon_text = "".join(re.findall(r">([^<>]+)<", sm["v"]))
            undefined = {ch for ch in canon_text if ch not in defined and not ch.isspace() and not (ch.isascii() and ch.isalnum())}
            if code in CELL_CODES:
                bad = [ch for ch in out if not (0x2800 <= ord(ch) <= 0x28FF) and ch not in undefined]
                hl = [ch for ch in out if 0x28C0 <= ord(ch) <= 0x28FF and ch not in eight]
                if bad and not re.search(r"notation='[^']*(uparrow|downarrow)", xml):
                    oracle_fail.append({"why": "non-braille character in the braille string", "code": code, "chars": "".join(sorted(set(bad))), "input": key or xml, "braille": out, "lines": lines})
                elif bad:
                    oracle_fail.append({"why": "menclose arrow notation spoken as text", "code": code, "chars": "".join(sorted(set(bad))), "input": xml, "braille": out, "lines": lines})
                if hl:
                    oracle_fail.append({"why": "dots 7-8 set although no navigation node was given", "code": code, "chars": "".join(sorted(set(hl))), "input": key or xml, "braille": out, "lines": lines})
                if hk.get("r") == "ok":
                    raw = hk["v"][0]
                    if any(not (0x2800 <= ord(ch) <= 0x28FF) for ch in raw):
                        nontriv.add((code, xml))
            else:
                bad = [ch for ch in out if ch in MARKERS or (ord(ch) < 32) or ch in "\ufffe\uffff"]
                if bad:
                    oracle_fail.append({"why": "internal marker / unprintable character in a text code", "code": code, "chars": [hex(ord(c)) for c in set(bad)], "input": key or xml, "braille": out, "lines": lines})
            if not out.strip("⠀ ") and re.search(r"<m[ion]\b[^>]*>[^<\s\u2061-\u2064]", sm["v"]) and kind == "expr":
                oracle_fail.append({"why": "empty braille for an expression with visible content", "code": code, "input": xml, "lines": lines})
            if len(samples) < 4 and kind == "expr" and k % 7 == 0:
                samples.append({"code": code, "xml": xml, "braille": out})
        per_code[code] = {"cases": len(cases), "brailled": n_ok}
    im.close()
    ctx.coverage.update({
        "evaluations": evals, "distinct_nontrivial": len(nontriv),
        "rule": "every (quick: 500 sampled) key of each code's unicode.yaml/unicode-full.yaml as <mo> between two identifiers, plus typeface/chemistry/text/menclose/corpus/generated expressions, "
                "x 5 cell codes and 2 text codes, with a random highlight style and no navigation node; non-trivial = the rules produced indicator letters (raw string not all cells)",
        "per_code": per_code, "highlight_off_with_node_calls": n_off, "model_status": [{k: v for k, v in s.items()} for s in status.values()],
        "impl_vs_oracle_failures": [{k: v for k, v in f.items() if k != "lines"} for f in oracle_fail[:8]], "n_oracle_failures": len(oracle_fail),
        "samples": samples,
    })
    for f in oracle_fail:
        ctx.violation("implementation violates C07: " + json.dumps({k: v for k, v in f.items() if k != "lines"}, ensure_ascii=False)[:400],
                      {"kind": "impl-vs-oracle", "case": {k: v for k, v in f.items() if k != "lines"}, "lines": f["lines"]}, tag="oracle",
                      signature={"kind": "c07-oracle", "why": f["why"], "code": f["code"]})
    found = bool(ctx.violations)
    if extraction_failed:
        ctx.violation(f"translator could not parse the braille tables ({extraction_failed})", {"kind": "translator", "theorem": "MC.Props.C07.*", "error": extraction_failed}, tag="translator", no_input=not found)
    if not pr["ok"] and not found:
        # search: leaking literal characters -> the unicode entry that emits them -> replay on the implementation
        wit = []
        im2 = core.impl()
        for s in status.values():
            code = tr_braille.CODES[s["code"]]
            for cp in s["leaking_literals"]:
                ch = chr(cp)
                d = tr_braille.RULE_DIR.get(code)
                for f in sorted(glob.glob(os.path.join(core.REPO, "Rules", "Braille", d or "_", "unicode*.yaml"))):
                    for line in open(f, encoding="utf-8"):
                        m = re.match(r'\s*-\s*"(.)"\s*:.*[tT]:\s*"([^"]*)"', line)
                        if m and ch in m.group(2):
                            lines = [{"op": "rules_dir", "dir": core.rules_dir()}, {"op": "set_pref", "name": "BrailleCode", "value": code},
                                     {"op": "set_mathml", "xml": f"<math><mrow><mi>x</mi><mo>{mml.esc_text(m.group(1))}</mo><mi>y</mi></mrow></math>"}, {"op": "braille", "id": ""}]
                            r = im2.run([{"op": "session"}] + lines)[-1]
                            if r.get("r") == "ok" and ch in r["v"]:
                                wit.append({"code": code, "char": ch, "input": m.group(1), "braille": r["v"], "lines": lines})
                            break
        im2.close()
        if wit:
            for w in wit[:3]:
                ctx.violation("a shipped literal leaks a non-braille character: " + json.dumps({k: v for k, v in w.items() if k != "lines"}, ensure_ascii=False),
                              {"kind": "theorem-witness", "theorems": pr["failed"], "case": {k: v for k, v in w.items() if k != "lines"}, "lines": w["lines"]}, tag="witness")
        else:
            ctx.violation("theorem(s) no longer check: " + ", ".join(pr["failed"]), {"kind": "theorem", "theorems": pr["failed"], "model_status": list(status.values()), "lean_output": pr["output"][-1500:]},
                          tag="theorem", no_input=True)
    mo.close()


def replay(ctx, path):
    with open(path) as f:
        rp = json.load(f)
    core.need_harness(ctx)
    im = core.impl()
    lines = rp.get("lines", [])
    for q, r in zip(lines, im.run(lines)):
        print(json.dumps(q, ensure_ascii=False)[:200], "->", json.dumps(r, ensure_ascii=False)[:400])
    im.close()
    return 0
