"""C09 — every node gets a unique id and author ids are kept."""
import json, re
import core, mml, canon_run, clean_run
from canon_run import N

NAV = ["ZoomIn", "ZoomOut", "MoveNext", "MovePrevious", "ZoomInAll", "ZoomOutAll", "MoveStart", "MoveEnd", "MoveLineStart", "MoveLineEnd",
       "MoveCellNext", "MoveCellPrevious", "MoveCellUp", "MoveCellDown", "ReadNext", "ReadPrevious", "ToggleZoomLockUp", "ToggleZoomLockDown",
       "SetPlacemarker0", "MoveTo0", "MoveLastLocation", "ToggleSpeakMode"]


def walk(n):
    if isinstance(n, dict):
        yield n
        for c in n["c"]:
            yield from walk(c)


def text_of(n):
    return "".join(c if isinstance(c, str) else text_of(c) for c in n["c"])


def attr(n, k):
    for a, v in n["a"]:
        if a == k:
            return v
    return None


def strip_generated(n):
    if not isinstance(n, dict):
        return n
    gen = attr(n, "data-id-added") == "true"
    return {"n": n["n"], "a": [[k, v] for k, v in n["a"] if not (gen and k in ("id", "data-id-added"))], "c": [strip_generated(c) for c in n["c"]]}


def run(ctx):
    pr, im, mo = canon_run.standard(ctx, "C09", "", [
        "modelled, not verified: add_ids / add_ids_to_all of src/interface.rs (MC.Xml.addIds); the prefix (time + random) is an input of the model, taken from the implementation's first generated id; "
        "the model is run on every returned tree with the generated ids stripped and must reproduce them exactly",
        "modelled, not verified: how the clean-up pass carries author ids (MC.Clean with add_attrs transcribed for the lifts): clean_ids / clean_ids_nodup (MC/Props/C09Clean.lean) -- the ids of "
        "what the skeleton returns are a sublist of the input's, for every tree and parent context; tied to the library on every run by hook H7 on generated trees with author ids (ids compared "
        "element by element inside the fragment guard)",
        "not modelled: how the REST of canonicalization carries author ids (sibling merges, number folding, re-bracketing, chemistry) and which ids navigation, bookmarks and braille positions hand out; "
        "those clauses are checked on the implementation (generated trees x generated call sequences), not proved",
        "'stays on the element carrying that token's text' is read as: if the author id is still present, that element's text contains the token's normalised text; and an author id may only disappear "
        "when its token was merged into another token (the number of output leaves with that text differs from the input's)"])
    rng = ctx.rng
    n = 3000 if ctx.tier == "quick" else 60000
    results = canon_run.run_stream(ctx, im, mo, n, canon_run.LOCALES, id_modes=("none", "some", "all", "dup", "some", "all"))
    n_ok = canon_run.summarize(ctx, results)
    oracle_fail, disagreements = [], []
    add_reqs, add_items, norm_reqs, norm_items = [], [], [], []
    n_author_ids = n_author_kept = n_author_lost_merge = 0
    lost_examples = []
    n_same_structure = [0]
    for it in results:
        c = it.get("check")
        if it["reply"].get("r") != "ok" or c is None:
            continue
        inp, out = canon_run.xml_to_json(it["xml"]), canon_run.xml_to_json(it["reply"]["v"])
        it["out_json"] = out
        in_ids = [attr(x, "id") for x in walk(inp) if attr(x, "id") is not None]
        dup_in = {i for i in in_ids if in_ids.count(i) > 1}
        out_nodes = list(walk(out))
        by_id = {}
        for x in out_nodes:
            by_id.setdefault(attr(x, "id"), []).append(x)
        for v in c["ids"]:
            if v.startswith("duplicate id") and v[len("duplicate id "):] in dup_in:
                oracle_fail.append({"why": "duplicate author id stays duplicated", "xml": it["xml"], "out": it["reply"]["v"], "lines": it["lines"], "detail": v})
            else:
                oracle_fail.append({"why": v.split(" ")[0] + " " + v.split(" ")[1] + " (ids of the returned tree)", "xml": it["xml"], "out": it["reply"]["v"], "lines": it["lines"], "detail": v})
        # author ids on tokens
        out_leaf_texts = [text_of(x) for x in out_nodes if x["n"] in ("mi", "mn", "mo", "mtext", "ms")]
        in_leaf_texts = [text_of(x).strip() for x in walk(inp) if x["n"] in ("mi", "mn", "mo", "mtext", "ms") and all(isinstance(k, str) for k in x["c"])]
        for x in walk(inp):
            i = attr(x, "id")
            if i is None or i in dup_in or x["n"] not in ("mi", "mn", "mo", "mtext") or not all(isinstance(k, str) for k in x["c"]):
                continue
            t = text_of(x).strip()
            if not t:
                continue
            n_author_ids += 1
            if i in by_id:
                n_author_kept += 1
                norm_reqs += [{"op": "norm_text", "text": t}, {"op": "norm_text", "text": text_of(by_id[i][0])}]
                norm_items.append((i, t, it))
            elif out_leaf_texts.count(t) == in_leaf_texts.count(t) and out_leaf_texts.count(t) > 0 and "mphantom" not in it["xml"] and "semantics" not in it["xml"] and \
                    not any(t in o and o != t for o in out_leaf_texts + in_leaf_texts):
                # (a token that is part of a longer token on either side may have been merged into it -- number folding keeps the first id -- or the
                #  surviving leaf may be a split-off piece of another token, "-2" -> "-" "2": such coincidences of text are not counted)
                oracle_fail.append({"why": "author id lost although its token is still there", "xml": it["xml"], "out": it["reply"]["v"], "lines": it["lines"], "id": i, "token": t})
            else:
                n_author_lost_merge += 1
                if len(lost_examples) < 5:
                    lost_examples.append({"id": i, "token": t, "xml": it["xml"][:300]})
        # add_ids correspondence on the input itself when canonicalization kept the element structure (exercises repeated author ids)
        if [(x["n"], text_of(x).strip()) for x in walk(inp)] == [(x["n"], text_of(x).strip()) for x in out_nodes] and "data-changed" not in it["reply"]["v"] and "data-added" not in it["reply"]["v"]:
            gen0 = [attr(x, "id") for x in out_nodes if attr(x, "data-id-added") == "true"]
            if gen0:
                add_reqs.append({"op": "add_ids", "prefix": gen0[0][: gen0[0].rindex("-") + 1], "tree": inp})
                add_items.append(([attr(x, "id") for x in out_nodes], it))
                n_same_structure[0] += 1
        # add_ids correspondence
        gen_ids = [attr(x, "id") for x in out_nodes if attr(x, "data-id-added") == "true"]
        if gen_ids:
            prefix = gen_ids[0][: gen_ids[0].rindex("-") + 1]
            add_reqs.append({"op": "add_ids", "prefix": prefix, "tree": strip_generated(out)})
            add_items.append(([attr(x, "id") for x in out_nodes], it))
    nr = mo.run(norm_reqs)
    for k, (i, t, it) in enumerate(norm_items):
        a, b = nr[2 * k].get("v", ""), nr[2 * k + 1].get("v", "")
        squeeze = lambda s: re.sub(r"\s+", "", s)
        if squeeze(a) not in squeeze(b):
            oracle_fail.append({"why": "author id moved to an element that does not carry its token's text", "xml": it["xml"], "out": it["reply"]["v"], "lines": it["lines"], "id": i, "token": t, "now_on": b})
    for (ids, it), r in zip(add_items, mo.run(add_reqs)):
        if r.get("r") != "ok" or r["v"] != ids:
            disagreements.append({"impl": ids[:12], "model": (r.get("v") or [])[:12], "xml": it["xml"], "lines": it["lines"]})
    # histories: every id handed out later is an id of the returned tree
    hist = [it for it in results if it.get("out_json") is not None]
    rng.shuffle(hist)
    hist = hist[: (150 if ctx.tier == "quick" else 3000)]
    # expressions whose rules place bookmarks on other nodes than the one being spoken (inverse functions, roots of signed
    # numbers, intent literals, scripts, tables), with author ids everywhere
    special = ["<math><mrow><msup><mi>sin</mi><mrow><mo>-</mo><mn>1</mn></mrow></msup><mo>&#x2061;</mo><mi>x</mi></mrow></math>", "<math><mrow><mo>-</mo><msqrt><mn>2</mn></msqrt></mrow></math>",
               "<math><mi intent='velocity'>v</mi><mo>=</mo><mfrac><mi>d</mi><mi>t</mi></mfrac></math>", "<math><msubsup><mi>x</mi><mn>1</mn><mn>2</mn></msubsup><mo>+</mo><mroot><mi>y</mi><mn>3</mn></mroot></math>",
               "<math><mrow><mi>log</mi><mo>&#x2061;</mo><mi>x</mi></mrow><mo>+</mo><mrow><mi>f</mi><mo>&#x2061;</mo><mrow><mo>(</mo><mi>x</mi><mo>)</mo></mrow></mrow></math>",
               "<math><mrow><mo>(</mo><mtable><mtr><mtd><mn>1</mn></mtd><mtd><mn>2</mn></mtd></mtr></mtable><mo>)</mo></mrow></math>", "<math><mrow><mn>3</mn><mo>&#x2064;</mo><mfrac><mn>1</mn><mn>2</mn></mfrac></mrow></math>"]
    for x in special:
        t = canon_run.parse_N(x)
        canon_run.author_ids(rng, t, "all")
        x2 = canon_run.to_xml(t)
        hist.append({"xml": x2, "lines": core.prelude([]) + [{"op": "set_mathml", "xml": x2}], "out_json": canon_run.xml_to_json(x2)})
    n_handed = 0
    handed_kinds = {"nav": 0, "mark": 0, "bpos": 0}
    for it in hist:
        ids = {attr(x, "id") for x in walk(it["out_json"])}
        code = rng.choice(["Nemeth", "UEB", "CMU"])
        seq = [{"op": "set_pref", "name": "TTS", "value": "SSML"}, {"op": "set_pref", "name": "Bookmark", "value": "true"}, {"op": "set_pref", "name": "BrailleCode", "value": code},
               {"op": "set_pref", "name": "SpeechStyle", "value": rng.choice(["ClearSpeak", "SimpleSpeak"])}]
        lines = it["lines"][:-1] + seq + [it["lines"][-1], {"op": "speech"}, {"op": "braille", "id": ""}]
        for _ in range(rng.randrange(3, 12)):
            lines += [{"op": "nav", "cmd": rng.choice(NAV)}, {"op": "nav_id"}]
        rep = im.run([{"op": "session"}] + lines)[1:]
        sm = [r for q, r in zip(lines, rep) if q["op"] == "set_mathml"][-1]
        if sm.get("r") != "ok":
            continue
        out2 = canon_run.xml_to_json(sm["v"])
        if out2 is None:
            continue
        # ids of THIS call (author ids identical, generated ones differ by prefix)
        ids = {attr(x, "id") for x in walk(out2)}
        br = None
        for q, r in zip(lines, rep):
            if r.get("r") != "ok":
                continue
            got = []
            if q["op"] == "speech":
                got = [("mark", m) for m in re.findall(r"<mark name='([^']*)'", r["v"])]
            elif q["op"] == "nav_id":
                got = [("nav", r["v"][0])]
            elif q["op"] == "braille":
                br = r["v"]
            for kind, i in got:
                n_handed += 1
                handed_kinds[kind] += 1
                if i not in ids:
                    oracle_fail.append({"why": f"id handed out by {kind} is not in the returned MathML", "xml": it["xml"], "id": i, "lines": lines, "out": sm["v"]})
        if br:
            pos = sorted({0, len(br) - 1, rng.randrange(len(br)), rng.randrange(len(br))})
            rep2 = im.run([{"op": "from_bpos", "pos": p} for p in pos])
            for p, r in zip(pos, rep2):
                if r.get("r") == "ok":
                    n_handed += 1
                    handed_kinds["bpos"] += 1
                    if r["v"][0] not in ids:
                        oracle_fail.append({"why": "id handed out by braille position is not in the returned MathML", "xml": it["xml"], "id": r["v"][0], "lines": lines + [{"op": "from_bpos", "pos": p}], "out": sm["v"]})
    # the clean-up skeleton with author ids (clean_ids is proved about it) against the library's clean-up phase, hook H7
    cl = clean_run.run(ctx, im, mo, 2000 if ctx.tier == "quick" else 40000)
    cl_in = [r for r in cl if r.get("in_guard")]
    cl_dis = sorted([r for r in cl_in if not r["agree"]], key=lambda r: len(r["xml"]))
    im.close()
    mo.close()
    kinds = {}
    for f in oracle_fail:
        kinds[f["why"]] = kinds.get(f["why"], 0) + 1
    ctx.coverage.update({
        "evaluations": n_ok, "distinct_nontrivial": len({it["xml"] for it in results if it.get("check") is not None and " id=" in it["xml"]}),
        "rule": "generated trees with no / some / all / duplicate author ids under 4 separator locales; returned ids checked by the Lean Spec checker (present, distinct), author ids on tokens followed to the output, "
                "MC.Xml.addIds re-run on every returned tree; then generated call histories (SSML speech with bookmarks, braille + positions, 3-11 navigation commands) whose ids must be ids of the returned tree. "
                "non-trivial = input carrying author ids",
        "author_token_ids": n_author_ids, "author_token_ids_kept": n_author_kept, "author_token_ids_lost_with_merged_or_removed_token": n_author_lost_merge, "lost_examples": lost_examples,
        "add_ids_comparisons": len(add_items), "add_ids_comparisons_on_inputs_with_unchanged_structure": n_same_structure[0], "histories": len(hist), "ids_handed_out_checked": n_handed, "ids_handed_out_by_kind": handed_kinds,
        "model_vs_impl_disagreements": [{k: v for k, v in d.items() if k != "lines"} for d in disagreements[:8]], "n_disagreements": len(disagreements) + len(cl_dis),
        "clean_correspondence": {"trees": len(cl), "in_fragment": len(cl_in), "with_author_ids": sum(1 for r in cl_in if " id=" in r["xml"]), "disagreements": len(cl_dis),
                                 "first_disagreements": [{"xml": r["xml"], "impl": r["impl_shape"] if r["impl_shape"] is not None else r["impl"], "model": r["model_shape"]} for r in cl_dis[:4]],
                                 "out_of_fragment_reasons": clean_run.reason_counts(cl)},
        "impl_vs_oracle_failures": [{k: v for k, v in f.items() if k != "lines"} for f in oracle_fail[:8]], "n_oracle_failures": len(oracle_fail), "oracle_failure_kinds": kinds,
    })
    for f in oracle_fail:
        ctx.violation("implementation violates C09: " + json.dumps({k: v for k, v in f.items() if k not in ("lines", "out")}, ensure_ascii=False)[:500],
                      {"kind": "impl-vs-oracle", "case": {k: v for k, v in f.items() if k != "lines"}, "lines": f["lines"]}, tag="oracle", signature={"kind": "c09-oracle", "why": f["why"]})
    found = bool(ctx.violations)
    if not pr["ok"] and not found:
        ctx.violation("theorem(s) no longer check: " + ", ".join(pr["failed"]), {"kind": "theorem", "theorems": pr["failed"], "lean_output": pr["output"][-1500:]}, tag="theorem", no_input=True)
    if cl_dis and not found:
        r = cl_dis[0]
        ctx.violation("correspondence MC.Clean (clean-up skeleton, author ids included) vs verif_clean_only no longer holds on %d of %d in-fragment trees, e.g. %s" % (len(cl_dis), len(cl_in), r["xml"][:300]),
                      {"kind": "correspondence", "correspondence": "MC.Clean.cleanMath vs hook H7 verif_clean_only", "input": r["xml"], "impl": r["impl_shape"] if r["impl_shape"] is not None else r["impl"],
                       "model": r["model_shape"], "lines": r["lines"]}, tag="corr", no_input=True)
        found = True
    if disagreements and not found:
        d = disagreements[0]
        ctx.violation("model and implementation assign ids differently: " + json.dumps({k: v for k, v in d.items() if k != "lines"}, ensure_ascii=False)[:400],
                      {"kind": "correspondence", "correspondence": "MC.Xml.addIds vs add_ids", "cases": [{k: v for k, v in x.items() if k != "lines"} for x in disagreements[:5]], "lines": d["lines"]},
                      tag="corr", no_input=True)


def replay(ctx, path):
    return canon_run.replay_lines(ctx, path)
