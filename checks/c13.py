"""C13 — speech-engine markup is well formed and never changes the words."""
import json, re
import core, mml
from core import log
import tr_tts, tr_common
from c11 import ids_of

VOCAB = {"SSML": {"break", "prosody", "audio", "voice", "say-as", "phoneme", "mark"},
         "SAPI5": {"silence", "rate", "volume", "pitch", "voice", "spell", "pron", "bookmark"}}
TAG_RE = re.compile(r"""<(/?)([A-Za-z][A-Za-z-]*)((?:\s+[A-Za-z][A-Za-z-]*=(?:'[^'<]*'|"[^"<]*"))*)\s*(/?)>""")


def tokenize(s):
    """[('op'|'cl'|'empty'|'text', value)], or an error string."""
    out, i = [], 0
    while i < len(s):
        j = s.find("<", i)
        if j < 0:
            out.append(("text", s[i:]))
            break
        if j > i:
            out.append(("text", s[i:j]))
        m = TAG_RE.match(s, j)
        if not m:
            return "malformed tag at: " + s[j:j + 60]
        if m.group(1):
            if m.group(3) or m.group(4):
                return "malformed end tag: " + m.group(0)
            out.append(("cl", m.group(2)))
        elif m.group(4):
            out.append(("empty", m.group(2), m.group(3)))
        else:
            out.append(("op", m.group(2), m.group(3)))
        i = m.end()
    if any(t[0] == "text" and ">" in t[1] for t in out):
        return "stray '>' in text"
    if any(t[0] == "text" and re.search(r"&(?!(?:amp|lt|gt|apos|quot);)", t[1]) for t in out):
        return "unescaped '&' in text"
    return out


def check_markup(engine, s, ids):
    toks = tokenize(s)
    if isinstance(toks, str):
        return toks
    st = []
    for t in toks:
        if t[0] in ("op", "cl", "empty") and t[1] not in VOCAB[engine]:
            return f"tag <{t[1]}> is not in the {engine} vocabulary"
        if t[0] == "op":
            st.append(t[1])
        elif t[0] == "cl":
            if not st or st[-1] != t[1]:
                return f"</{t[1]}> closes {'<' + st[-1] + '>' if st else 'nothing'}"
            st.pop()
        if t[0] == "empty" and t[1] in ("mark", "bookmark"):
            m = re.search(r"""=(?:'([^']*)'|"([^"]*)")""", t[2])
            bid = (m.group(1) or m.group(2) or "") if m else ""
            if re.search(r"[<>]|&(?!(?:amp|lt|gt|apos|quot);)", bid):
                return f"bookmark attribute value '{bid}' holds an unescaped markup character"
            bid = bid.replace("&lt;", "<").replace("&gt;", ">").replace("&apos;", "'").replace("&quot;", '"').replace("&amp;", "&")      # what an XML reader hands to the engine
            if bid not in ids:
                return f"bookmark names '{bid}', which is not an id of the expression"
    if st:
        return "unclosed " + ", ".join(st)
    return None


def words(s, tagged):
    if tagged:
        toks = tokenize(s)
        if isinstance(toks, str):
            return None
        s = " ".join(t[1] for t in toks if t[0] == "text")
        s = s.replace("&lt;", "<").replace("&gt;", ">").replace("&apos;", "'").replace("&quot;", '"').replace("&amp;", "&")      # what an XML reader hands to the engine
    # pauses aside: pause punctuation and spacing are not words ("a-th" is glued under TTS=None, "a <phoneme>-th</phoneme>" under SSML)
    return re.sub(r"[,;\s]", "", s)


def exprs(rng, n):
    A = [mml.math(mml.mrow(mml.mi("A"), mml.mo("+"), mml.mi("B"), mml.mo("="), mml.mi("C"))),
         mml.math(mml.el("mfrac", mml.mrow(mml.mi("X"), mml.mo("+"), mml.mn("1.5")), mml.el("msqrt", mml.mi("Y")))),
         mml.math(mml.mrow(mml.mi("sin"), mml.mo("⁡"), mml.mi("Θ"), mml.mo("+"), mml.el("msup", mml.mi("e"), mml.mrow(mml.mi("i"), mml.mi("π"))))),
         mml.math(mml.mrow(mml.mi("Na"), mml.mi("Cl"), mml.mo("+"), mml.el("msub", mml.mi("H"), mml.mn("2")), mml.mi("O"))),
         mml.math(mml.mrow(mml.mi("x", intent="foo"), mml.mo("+"), mml.mi("y"))),
         # author ids with quotes and markup characters (they are written into <mark name=...>), signed roots (the rule bookmarks the parent)
         mml.math(mml.mrow(mml.mi("x", id="a'b<c&d"), mml.mo("+", id='p"q'), mml.mn("1", id="n>1"), mml.mo("-"), mml.mi("B", id="''"))),
         mml.math(mml.mrow(mml.mo("-"), mml.el("mroot", mml.mi("x"), mml.mn("3")), mml.mo("+"), mml.mrow(mml.mo("-"), mml.el("msqrt", mml.mi("y"))))),
         mml.math(mml.mrow(mml.mo("+"), mml.el("msqrt", mml.mrow(mml.mi("a"), mml.mo("+"), mml.mn("2"))))),
         # token text with markup characters: inside SSML / SAPI5 it has to be escaped (and read back as the same words)
         mml.math(mml.mrow(mml.mtext("a<b & c"), mml.mo("+"), mml.mi("x"), mml.mo("<"), mml.mtext("if x>1 && y<2"), mml.mo("&"), mml.mi("A&B"))),
         mml.math(mml.mrow(mml.N("ms", text="1<2>0"), mml.mo("="), mml.mtext("R&D"), mml.mo("+"), mml.mtext("&amp;")))]
    return A + mml.corpus_basic() + [mml.math(mml.gen_expr(rng, rng.randrange(1, 4))) for _ in range(n)]


def run(ctx):
    report = {}
    extraction_failed = None
    try:
        tr_tts.extract_tts(report)
    except tr_common.ExtractionError as e:
        extraction_failed = str(e)
    ctx.coverage["translator"] = {"Tts": {k: v for k, v in report.get("Tts", {}).items() if k != "rows"}}
    pr = core.prove("C13")
    core.proof_coverage(ctx, pr, "lake build MC.Props.C13 && lake env lean build/audit_C13.lean (#print axioms)",
                        ["modelled, not verified: replace_string's 'start tag ++ nested replacements ++ end tag' shape is transcribed at token level (MC.Model.Tts); the tag templates of "
                         "get_string_ssml/get_string_sapi5, the bookmark templates and the merge_pauses replacement strings are regenerated from src/tts.rs",
                         "string-level tokenisation of real outputs (text is tag-free, attribute values quote-free) is checked by the oracle on every output, not proved",
                         "which commands the YAML rules issue, pause lengths and other numbers are outside the model"])
    core.need_harness(ctx)
    core.need_driver(ctx)
    im, mo = core.impl(), core.model()
    rng = ctx.rng
    n_expr = 25 if ctx.tier == "quick" else 600
    n_cfg = 10 if ctx.tier == "quick" else 60
    E = exprs(rng, n_expr)
    templates = mo.run([{"op": "c13_templates"}])[0]["v"]
    observed = set()
    oracle_fail, evals, nontriv = [], 0, set()
    samples = []
    cfgs = []
    for _ in range(n_cfg):
        cfgs.append({"Rate": rng.choice(["180", "250", "90"]), "Pitch": rng.choice(["0", "10", "-20", "1", "-0.5"]), "Volume": rng.choice(["100", "50"]),
                     "PauseFactor": rng.choice(["100", "200", "0", "50"]), "MathRate": rng.choice(["100", "80", "150", "101", "99.5", "300"]),
                     "CapitalLetters_Pitch": rng.choice(["0", "30", "-15", "1", "-1", "0.4", "100", "-60"]), "CapitalLetters_Beep": rng.choice(["true", "false"]),
                     "CapitalLetters_UseWord": rng.choice(["true", "false"]), "Bookmark": rng.choice(["true", "false"]),
                     "Verbosity": rng.choice(["Terse", "Medium", "Verbose"]), "SpeechStyle": rng.choice(["ClearSpeak", "SimpleSpeak"]),
                     "ClearSpeak_Roots": rng.choice(["Auto", "PosNegSqRoot", "PosNegSqRootEnd", "RootEnd"]),
                     "Language": rng.choice(["en", "en", "de", "fr", "es", "sv", "fi", "id", "vi"])})
    for cfg in cfgs:
        pre = [{"op": "session"}, {"op": "rules_dir", "dir": core.rules_dir()}] + [{"op": "set_pref", "name": k, "value": v} for k, v in cfg.items()]
        reqs = list(pre)
        for t in E:
            xml = mml.to_xml(t)
            reqs.append({"op": "set_mathml", "xml": xml})
            for eng in ("None", "SSML", "SAPI5"):
                reqs += [{"op": "set_pref", "name": "TTS", "value": eng}, {"op": "speech"}]
        rep = im.run(reqs)[len(pre):]
        k = 0
        for t in E:
            xml = mml.to_xml(t)
            sm = rep[k]
            k += 1
            outs = {}
            for eng in ("None", "SSML", "SAPI5"):
                outs[eng] = rep[k + 1]
                k += 2
            if sm.get("r") != "ok":
                continue
            _, ids, _ = ids_of(sm["v"])
            evals += 1
            base = outs["None"]
            lines = pre[1:] + [{"op": "set_mathml", "xml": xml}]
            for eng in ("SSML", "SAPI5"):
                o = outs[eng]
                if o.get("r") != "ok":
                    if base.get("r") == "ok":
                        oracle_fail.append({"why": f"speech fails under TTS={eng} but not under TTS=None", "config": cfg, "xml": xml, "reply": {a: str(b)[:200] for a, b in o.items()},
                                            "msg_tail": str(o.get("msg", "")).strip().split("caused by: ")[-1][:80],
                                            "lines": lines + [{"op": "set_pref", "name": "TTS", "value": eng}, {"op": "speech"}]})
                    continue
                s = o["v"]
                if "<" in s:
                    nontriv.add((eng, xml))
                    for e_id, c_id, st, en in templates:
                        if st and (e_id == 1) == (eng == "SSML"):
                            head = st.split("{}")[0]
                            if head and head in s:
                                observed.add((eng, c_id))
                err = check_markup(eng, s, ids)
                if err:
                    oracle_fail.append({"why": "markup: " + err, "engine": eng, "config": cfg, "xml": xml, "speech": s[:400],
                                        "lines": lines + [{"op": "set_pref", "name": "TTS", "value": eng}, {"op": "speech"}]})
                    continue
                if base.get("r") == "ok":
                    w1, w0 = words(s, True), words(base["v"], False)
                    if w1 != w0:
                        oracle_fail.append({"why": "removing the tags does not leave the TTS=None words", "engine": eng, "config": cfg, "xml": xml, "tagged": s[:300], "none": base["v"][:300],
                                            "lines": lines + [{"op": "set_pref", "name": "TTS", "value": "None"}, {"op": "speech"}, {"op": "set_pref", "name": "TTS", "value": eng}, {"op": "speech"}]})
            if base.get("r") == "ok" and TAG_RE.search(base["v"]):       # (a '<' of the token text itself is not markup)
                oracle_fail.append({"why": "markup with no engine selected", "config": cfg, "xml": xml, "speech": base["v"][:300], "lines": lines + [{"op": "speech"}]})
            if len(samples) < 3 and outs["SAPI5"].get("r") == "ok" and "<" in outs["SAPI5"]["v"]:
                samples.append({"xml": xml, "ssml": outs["SSML"].get("v"), "sapi5": outs["SAPI5"].get("v"), "none": base.get("v")})
    im.close()
    ctx.coverage.update({
        "evaluations": evals * 3, "distinct_nontrivial": len(nontriv),
        "rule": "corpus + capital-letter/chemistry/intent-literal expressions + generated expressions x random preference configurations "
                "(rate, pitch, volume, pause factor, math rate, capital-letter pitch/beep/word, bookmark, verbosity, style, 4 languages) x {None, SSML, SAPI5}; "
                "non-trivial = (engine, expression) whose speech contains markup",
        "configurations": len(cfgs), "expressions": len(E),
        "templates_observed_in_real_output": sorted(f"{e}:{tr_tts.COMMANDS[c]}" for e, c in observed),
        "templates_total": len([t for t in templates if t[2]]),
        "impl_vs_oracle_failures": [{k: v for k, v in f.items() if k != "lines"} for f in oracle_fail[:8]], "n_oracle_failures": len(oracle_fail),
        "samples": samples,
    })
    for f in oracle_fail:
        sig = {"kind": "c13-oracle", "why_prefix": f.get("why", ""), "bookmark": f.get("config", {}).get("Bookmark", ""),
               "intent_attr": "intent=" in f.get("xml", ""), "msg_tail_prefix": f.get("msg_tail", "")}
        ctx.violation("implementation violates C13: " + json.dumps({k: v for k, v in f.items() if k != "lines"}, ensure_ascii=False)[:400],
                      {"kind": "impl-vs-oracle", "case": {k: v for k, v in f.items() if k != "lines"}, "lines": f["lines"]}, tag="oracle", signature=sig)
    found = bool(ctx.violations)
    if extraction_failed:
        ctx.violation(f"translator could not parse the tag templates ({extraction_failed})", {"kind": "translator", "theorem": "MC.Props.C13.tags_pair", "error": extraction_failed},
                      tag="translator", no_input=not found)
    if not pr["ok"] and not found:
        bad = mo.run([{"op": "c13_bad_pairs"}])[0].get("v", [])
        ctx.violation("theorem(s) no longer check: " + ", ".join(pr["failed"]) + f"; template pairs failing the pair check (engine, command): {bad}",
                      {"kind": "theorem", "theorems": pr["failed"], "model_witnesses": bad, "lean_output": pr["output"][-1500:]}, tag="theorem", no_input=True)
    mo.close()


def replay(ctx, path):
    with open(path) as f:
        rp = json.load(f)
    core.need_harness(ctx)
    im = core.impl()
    lines = rp.get("lines", [])
    for q, r in zip(lines, im.run(lines)):
        print(json.dumps(q, ensure_ascii=False)[:200], "->", json.dumps(r, ensure_ascii=False)[:400])
    im.close()
    return 0
