"""C15 — every shipped language, style and braille code loads and works."""
import json, os, re
import core, mml, speech_run
from mml import N, mi, mn, mo, mrow, el, mtext

NAV = ["ZoomIn", "MoveNext", "ReadCurrent", "DescribeCurrent", "WhereAmI", "ZoomOutAll", "MoveNext", "MoveCellNext", "ReadNext", "MoveLineEnd"]


def listing():
    root = core.rules_dir()
    dirs, files = [], []
    for d, sub, fs in os.walk(root):
        rel = os.path.relpath(d, root)
        comps = [] if rel == "." else rel.split(os.sep)
        if comps:
            dirs.append(comps)
        for f in fs:
            files.append(comps + [f])
    return sorted(dirs), sorted(files)


def braille_codes():
    base = os.path.join(core.rules_dir(), "Braille")
    return sorted(d for d in os.listdir(base) if os.path.isdir(os.path.join(base, d)))


def styles():
    base = os.path.join(core.rules_dir(), "Languages")
    out = set()
    for d, _, fs in os.walk(base):
        for f in fs:
            if f.endswith("_Rules.yaml"):
                out.add(f[:-len("_Rules.yaml")])
    return sorted(out)


def corpus():
    c = list(mml.corpus_basic())
    x, y = mi("x"), mi("y")
    extra = [
        mrow(mo("|"), el("mtable", el("mtr", el("mtd", mn("1")), el("mtd", mn("2"))), el("mtr", el("mtd", mn("3")), el("mtd", mn("4")))), mo("|")),
        mrow(mo("{"), el("mtable", el("mtr", el("mtd", mi("x")), el("mtd", mtext("if x>0"))), el("mtr", el("mtd", mn("0")), el("mtd", mtext("otherwise")))), N("mo", text="")),
        el("mtable", el("mlabeledtr", el("mtd", mtext("(1)")), el("mtd", mrow(mi("a"), mo("="), mi("b"))))),
        mrow(el("msup", mi("sin"), mn("2")), mo("⁡"), mi("x")), mrow(el("msup", mi("sin"), mrow(mo("-"), mn("1"))), mo("⁡"), mi("x")),
        mrow(mi("log"), mo("⁡"), mi("x")), mrow(el("msub", mi("log"), mn("2")), mo("⁡"), mi("x")), mrow(mi("ln"), mo("⁡"), mi("x")),
        mrow(mn("3"), mo("⁤"), el("mfrac", mn("1"), mn("2"))), el("mfrac", mn("3"), mn("4")), el("mfrac", mn("7"), mn("11")), el("mfrac", mi("a"), mi("b"), linethickness="0"),
        mrow(mo("("), el("mfrac", mi("n"), mi("k"), linethickness="0"), mo(")")),
        mrow(mo("("), mi("a"), mo(","), mi("b"), mo(")")), mrow(mo("["), mn("0"), mo(","), mn("1"), mo(")")), mrow(mo("{"), mi("x"), mo("|"), mi("x"), mo(">"), mn("0"), mo("}")),
        mrow(mi("A"), mo("∪"), mi("B"), mo("∩"), mi("C")), mrow(mi("x"), mo("∈"), mi("ℝ")), mrow(mo("∀"), mi("x"), mo("∃"), mi("y")), mrow(mi("p"), mo("⇒"), mi("q")),
        el("msup", mi("x"), mo("′")), el("msup", mi("f"), mo("″")), mrow(el("mfrac", mi("d"), mrow(mi("d"), mi("x"))), mi("y")), mrow(el("mfrac", mo("∂"), mrow(mo("∂"), mi("x"))), mi("f")),
        mrow(el("msubsup", mo("∫"), mn("0"), mn("1")), mi("x"), mi("d"), mi("x")), mrow(el("munder", mo("lim"), mrow(mi("n"), mo("→"), mi("∞"))), el("msub", mi("a"), mi("n"))),
        el("mover", mi("x"), mo("^")), el("mover", mi("x"), mo("~")), el("mover", mrow(mi("A"), mi("B")), mo("→")), el("munder", mi("x"), mo("_")), el("mover", mi("x"), mo("˙")),
        mrow(mn("2"), mo("×"), el("msup", mn("10"), mn("3"))), mrow(mn("5"), mo("%")), mrow(mn("3"), mo("!")), mrow(mo("-"), mn("2")), mrow(mo("+"), mn("2")), mrow(mo("±"), mn("2")),
        mrow(el("msub", mi("H"), mn("2")), mi("O")), mrow(mi("Na"), mi("Cl")), mrow(mn("2"), el("msub", mi("H"), mn("2")), mo("+"), el("msub", mi("O"), mn("2")), mo("→"), mn("2"), el("msub", mi("H"), mn("2")), mi("O")),
        el("mmultiscripts", mi("U"), N("mprescripts"), mn("92"), mn("238")), el("menclose", mrow(mi("x"), mo("+"), mn("1")), notation="box"), el("menclose", mi("x"), notation="updiagonalstrike"),
        el("menclose", mn("12"), notation="longdiv"), el("mpadded", mi("x"), width="2em"), mrow(mi("x"), N("mspace", attrs={"width": "1em"}), mi("y")),
        N("ms", text="abc"), mtext("for all x"), mrow(mn("1"), mi("m"), mo("/"), mi("s")), mrow(mn("5"), N("mi", text="kg", attrs={"intent": ":unit"})),
        mrow(mi("a"), mo("≤"), mi("b"), mo("<"), mi("c")), mrow(mi("a"), mo("≠"), mi("b")), mrow(mi("a"), mo("≈"), mi("b")), mrow(mi("a"), mo("∝"), mi("b")),
        mrow(mi("α"), mo("+"), mi("Ω")), N("mi", text="A", attrs={"mathvariant": "bold"}), N("mi", text="x", attrs={"mathvariant": "script"}), mrow(mi("i"), mo("="), el("msqrt", mrow(mo("-"), mn("1")))),
        N("mi", text="x", attrs={"intent": "foo"}), N("mrow", [mi("x"), mo("+"), mi("y")], attrs={"intent": "sum($a,$b)"}), el("merror", mtext("bad")), N("semantics", [mi("x"), N("annotation", text="x", attrs={"encoding": "tex"})]),
        mrow(mi("x"), mo("…"), mi("y")), mrow(mn("1"), mo(","), mn("2"), mo(","), mo("…")), mrow(mn("1,234.5")), mrow(mn("1"), mo(":"), mn("2")), mrow(mi("f"), mo("∘"), mi("g")),
        mrow(mo("⌊"), mi("x"), mo("⌋")), mrow(mo("⌈"), mi("x"), mo("⌉")), mrow(mo("‖"), mi("v"), mo("‖")), mrow(mo("⟨"), mi("u"), mo(","), mi("v"), mo("⟩")),
        el("mroot", mi("x"), mi("n")), el("msqrt", mn("2")), el("msup", mi("e"), mrow(mo("-"), el("msup", mi("x"), mn("2")))), el("msup", mi("x"), el("mfrac", mn("1"), mn("2"))),
        mrow(el("munderover", mo("∏"), mrow(mi("i"), mo("="), mn("1")), mi("n")), el("msub", mi("a"), mi("i"))), mrow(el("munder", mo("max"), mi("x")), mi("f")),
    ]
    return c + [mml.math(e) for e in extra]


def nav_shape(xml):
    """names the expression shape of a NAV_NODE_NOT_FOUND failure (the rules speak the node's parent without visiting the node)"""
    if re.search(r"<mi>(log|ln)</mi><mo>\u2061</mo>", xml):
        return "log/ln function application"
    if "<mlabeledtr>" in xml:
        return "mlabeledtr"
    if re.search(r"<mo>\|</mo><mtable>", xml):
        return "determinant"
    if re.search(r"<munder><mi>x</mi><mo>_</mo></munder>", xml):
        return "underscore under-script"
    return "other " + xml[:80]


def run(ctx):
    pr = core.prove("C15", extra_modules=["MC.Props.C15Files"])
    core.proof_coverage(ctx, pr, "lake build MC.Props.C15 && lake env lean build/audit_C15.lean (#print axioms)", [
        "modelled, not verified: get_language_dir, find_file (with the definitions.yaml exception and find_any_style_file), set_speech_files, set_braille_files of src/prefs.rs as MC.Fallback over a "
        "listing of the rules directory taken on every run; hook H6 reports the eleven files the library resolved and the model must predict each of them for every configuration",
        "NOT modelled: that a shipped rule file parses, compiles its XPath and matches (YAML and XPath are evaluated by third-party engines): decided on the implementation by exhausting the finite "
        "space (language | language-region | unknown tags) x style x verbosity x braille code x a corpus covering the element kinds",
        "find_any_style_file returns the first *_Rules.yaml that read_dir yields (OS order): for an unknown style the model accepts any style file of that directory",
        "files_follow_language (MC/Props/C15Files.lean, over the selection layer MC/Model/PrefFiles.lean of reset_files_from_preference_change): after EVERY history of preference requests -- "
        "Language, Language=Auto + LanguageAuto, SpeechStyle, in any order, accepted or rejected -- the language whose speech-side files are selected and the language the style file was "
        "looked up in are the language in force; not provable of the code before dafc07b and 13af2b8. Tied to the code by the route battery: the model's selection, resolved by MC.Fallback, "
        "must give the eleven files of hook H6 for every route"])
    core.need_harness(ctx)
    core.need_driver(ctx)
    im, mo = core.impl(), core.model()
    rng = ctx.rng
    dirs, files = listing()
    langs = speech_run.languages()
    odd_langs = ["xx", "en-xx", "fi-fi", "zh", "zh-cn", "en-gb-oed", "EN", "", "e", "sv-", "-gb", "Auto"]
    sty = styles()
    codes = braille_codes()
    oracle_fail, disagreements = [], []
    # 1. resolution: model vs hook H6
    res_cases = [(l, s, c) for l in langs + odd_langs for s in sty + ["Foo"] for c in (codes if ctx.tier == "thorough" else rng.sample(codes, 3)) + ["Bar"]]
    n_res = 0
    for l, s, c in res_cases:
        lines = core.prelude([{"op": "set_pref", "name": "Language", "value": l}, {"op": "set_pref", "name": "SpeechStyle", "value": s}, {"op": "set_pref", "name": "BrailleCode", "value": c}, {"op": "hook", "which": "rule_files"}])
        rep = im.run([{"op": "session"}] + lines)[1:]
        hk = rep[-1]
        mres = mo.run([{"op": "resolve_files", "dirs": dirs, "files": files, "lang": "en" if l == "Auto" else l, "style": s, "code": c}])[0]
        n_res += 1
        if any(r.get("r") in ("panic", "abort", "timeout") for r in rep):
            oracle_fail.append({"why": "selecting a configuration crashes", "config": [l, s, c], "replies": [r for r in rep if r.get("r") != "ok"][:2], "lines": lines})
            continue
        rejected = [r for r in rep[1:4] if r.get("r") == "err" and "Improper format" not in (r.get("msg") or "")]
        if rejected:
            # a preference value rejected for another reason than its format: the model must agree that resolution fails
            # (an unknown language, region, style or code falls back instead)
            if mres.get("r") == "ok" and all(v is not None for _, v in mres["v"]["files"]):
                oracle_fail.append({"why": "selecting a language/style/code fails although the fallback chain resolves every file", "config": [l, s, c], "replies": rejected[:2], "lines": lines})
            continue
        if hk.get("r") != "ok" or any(r.get("r") == "err" for r in rep[1:4]):
            continue
        root = core.rules_dir()
        impl_files = {n: os.path.relpath(p, root) for n, p in hk["v"]}
        # a shipped code / language selects its own directory
        if c in codes and not impl_files.get("braille", "").startswith("Braille/" + c + "/"):
            oracle_fail.append({"why": "a shipped braille code does not resolve to its own directory", "config": [c], "resolved": impl_files.get("braille"), "lines": lines})
        if l in langs and not impl_files.get("speech", "").startswith("Languages/" + l.split("-")[0] + "/"):
            oracle_fail.append({"why": "a shipped language does not resolve to its own directory", "config": [l], "resolved": impl_files.get("speech"), "lines": lines})
        for n, v in mres["v"]["files"]:
            iv = impl_files.get(n)
            if v == iv:
                continue
            if n == "speech" and iv and v and iv.endswith("_Rules.yaml") and os.path.dirname(iv) == os.path.dirname(v) and not os.path.exists(os.path.join(root, os.path.dirname(iv), s + "_Rules.yaml")):
                continue        # unknown style: any style file of the directory
            if n == "braille" and iv and v and os.path.dirname(iv) == os.path.dirname(v) and iv.endswith("_Rules.yaml") and c not in codes:
                continue
            disagreements.append({"config": [l, s, c], "file": n, "impl": iv, "model": v, "lines": lines})
    # 1b. "an unknown language falls back to English": where the model resolves every speech-side file to Languages/en, the answers are the English ones
    FB = ["<math><mfrac><mn>1</mn><mn>2</mn></mfrac><mo>+</mo><mroot><mi>x</mi><mn>5</mn></mroot></math>", "<math><msup><mi>x</mi><mn>3</mn></msup><mo>+</mo><mfrac><mn>2</mn><mn>3</mn></mfrac><mo>≤</mo><mn>21</mn></math>",
          "<math><mrow><munderover><mo>∑</mo><mrow><mi>k</mi><mo>=</mo><mn>1</mn></mrow><mn>10</mn></munderover><msup><mi>k</mi><mn>2</mn></msup></mrow><mo>⊕</mo><mi>ℵ</mi></math>"]
    def fb_answers(lang):
        lines = core.prelude([{"op": "set_pref", "name": "Language", "value": lang}])
        for x in FB:
            lines += [{"op": "set_mathml", "xml": x}, {"op": "speech"}, {"op": "overview"}, {"op": "nav", "cmd": "ZoomIn"}]
        rep = im.run([{"op": "session"}] + lines)[1:]
        return [r.get("v") if r.get("r") == "ok" else {"r": r.get("r")} for q, r in zip(lines, rep) if q["op"] in ("speech", "overview", "nav")], lines
    en_answers, _ = fb_answers("en")
    n_fb = 0
    for l in odd_langs:
        mres = mo.run([{"op": "resolve_files", "dirs": dirs, "files": files, "lang": l, "style": "ClearSpeak", "code": "Nemeth"}])[0]
        if mres.get("r") != "ok":
            continue
        speech_side = [v for n, v in mres["v"]["files"] if n in ("speech", "overview", "navigation", "speech_unicode", "speech_unicode_full", "speech_defs")]
        if not speech_side or not all(v and v.startswith("Languages/en/") and not v.startswith("Languages/en/gb") for v in speech_side):
            continue
        got, lines = fb_answers(l)
        n_fb += 1
        if got != en_answers and not any(isinstance(g, dict) for g in got[:1]):
            k = next(i for i in range(len(got)) if got[i] != en_answers[i])
            oracle_fail.append({"why": "a language that falls back to English does not give the English answer", "config": [l], "got": got[k], "english": en_answers[k], "lines": lines})
    # 1c. the other route of selecting a language: Language=Auto and the host's language in LanguageAuto. It selects the files that Language=<tag> selects
    # and gives the same answers (also when LanguageAuto is changed a second time, and when it is given before Language=Auto is... not allowed: rejected)
    n_auto = n_auto_model = 0
    auto_langs = langs + ["xx", "en-xx", "zh-cn"]
    RD = ("set_rules_dir", "again")          # the host initialises the library a second time (also what a repair by re-pointing does, C14)
    def by_route(route_prefs):
        lines = core.prelude([{"op": "rules_dir", "dir": core.rules_dir()} if (n, v) == RD else {"op": "set_pref", "name": n, "value": v} for n, v in route_prefs] + [{"op": "hook", "which": "rule_files"}])
        lines += [{"op": "set_mathml", "xml": FB[1]}, {"op": "speech"}, {"op": "overview"}, {"op": "nav", "cmd": "ZoomIn"}]
        rep = im.run([{"op": "session"}] + lines)[1:]
        bad = [r for q, r in zip(lines[1:], rep[1:]) if q["op"] in ("set_pref", "rules_dir") and r.get("r") != "ok"]
        hk = next(r for q, r in zip(lines, rep) if q["op"] == "hook")
        return bad, (hk.get("v") if hk.get("r") == "ok" else {"r": hk.get("r")}), [r.get("v") if r.get("r") == "ok" else {"r": r.get("r")} for r in rep[-3:]], lines
    for l in auto_langs:
        other = rng.choice([x for x in langs if x.split("-")[0] != l.split("-")[0]])
        direct_plain = by_route([("Language", l)])
        # ... and a speech style chosen before or after the host gave the language is the style of THAT language
        st, st0 = rng.choice(sty), rng.choice(sty)
        direct_style = by_route([("Language", l), ("SpeechStyle", st)])
        A, L, S = ("Language", "Auto"), ("LanguageAuto", l), ("SpeechStyle", st)
        for route in ([A, L], [A, ("LanguageAuto", other), L], [("Language", other), A, L],
                      [A, L, S], [S, A, L], [A, ("LanguageAuto", other), S, L], [A, L, ("SpeechStyle", st0), S],
                      [A, L, RD], [("Language", l), A, RD], [A, L, S, RD]):
            direct = direct_style if S in route else direct_plain
            got = by_route(route)
            n_auto += 1
            # the model of the selection (MC.Prefs.runOpsF, theorem files_follow_language) predicts the language of the files; MC.Fallback resolves them
            mf = mo.run([{"op": "prefs_files", "ops": [list(x) for x in route if x != RD]}])[0]      # (initialising again selects the files of the language in force: no change under the invariant)
            if mf.get("r") == "ok" and not got[0] and isinstance(got[1], list):
                fl, sl = mf["v"]
                style = ([v for n_, v in route if n_ == "SpeechStyle"] or ["ClearSpeak"])[-1]
                root = core.rules_dir()
                impl_files = {n_: os.path.relpath(p_, root) for n_, p_ in got[1]}
                for lang_, names in ((fl, ("overview", "navigation", "speech_unicode", "speech_unicode_full", "speech_defs")), (sl, ("speech",))):
                    mres = mo.run([{"op": "resolve_files", "dirs": dirs, "files": files, "lang": lang_, "style": style, "code": "Nemeth"}])[0]
                    if mres.get("r") != "ok":
                        continue
                    for n_, v_ in mres["v"]["files"]:
                        if n_ in names and v_ != impl_files.get(n_):
                            disagreements.append({"config": [l], "route": [list(x) for x in route], "file": n_, "impl": impl_files.get(n_), "model": v_, "model_selection": [fl, sl], "lines": got[3]})
                n_auto_model += 1
            if direct[0]:
                continue            # the tag itself is rejected
            if got[0]:
                oracle_fail.append({"why": "a language that can be selected with Language is rejected through Language=Auto + LanguageAuto", "config": [l], "route": route, "replies": got[0][:2], "lines": got[3]})
            elif got[1] != direct[1] or got[2] != direct[2]:
                oracle_fail.append({"why": "Language=Auto + LanguageAuto selects other rule files / gives other answers than Language", "config": [l], "route": route,
                                    "files": [x for x in (got[1] if isinstance(got[1], list) else [got[1]]) if not isinstance(direct[1], list) or x not in direct[1]][:3], "answers": got[2], "direct_answers": direct[2], "lines": got[3]})
    # 2. every shipped configuration works on the corpus
    C = corpus()
    xmls = [mml.to_xml(t, ns_decl=False) for t in C]
    n_eval = 0
    cfgs = []
    for l in langs:
        for s in sty:
            for v in speech_run.VERBOSITY:          # all three in both tiers (a rule branch taken only for Terse hid a failing rule once)
                cfgs.append((l, s, v, rng.choice(codes)))
    for c in codes:
        cfgs.append((rng.choice(langs), rng.choice(sty), "Medium", c))
    kinds = {}
    for l, s, v, c in cfgs:
        pre = core.prelude([{"op": "set_pref", "name": "Language", "value": l}, {"op": "set_pref", "name": "SpeechStyle", "value": s}, {"op": "set_pref", "name": "Verbosity", "value": v},
                            {"op": "set_pref", "name": "BrailleCode", "value": c}])
        reqs = []
        for x in xmls:
            reqs += [{"op": "set_mathml", "xml": x}, {"op": "speech"}, {"op": "overview"}, {"op": "braille", "id": ""}, {"op": "nav", "cmd": rng.choice(NAV)}, {"op": "nav", "cmd": rng.choice(NAV)}]
        rep = im.run([{"op": "session"}] + pre + reqs, prelude=pre)
        for q, r in zip(pre, rep[1:1 + len(pre)]):
            if r.get("r") != "ok":
                oracle_fail.append({"why": "a shipped configuration cannot be selected", "config": [l, s, v, c], "reply": r, "lines": pre})
        rep = rep[1 + len(pre):]
        for k, x in enumerate(xmls):
            a = rep[6 * k: 6 * k + 6]
            if len(a) < 6 or a[0].get("r") != "ok":
                if len(a) == 6 and a[0].get("r") != "ok":
                    oracle_fail.append({"why": "set_mathml fails on a corpus expression", "config": [l, s, v, c], "xml": x, "reply": a[0], "lines": pre + [{"op": "set_mathml", "xml": x}]})
                continue
            for name, r, q in zip(["speech", "overview", "braille", "nav", "nav"], a[1:], reqs[6 * k + 1: 6 * k + 6]):
                n_eval += 1
                if r.get("r") == "ok":
                    continue
                msg = (r.get("msg") or r.get("at") or r.get("r") or "")
                if name == "nav" and r.get("r") == "err" and re.search(r"(?i)can't|cannot|no |not |start|end|already|first|last", msg):
                    continue     # a navigation command that is meaningless at this position reports an error by design
                why = f"{name} fails ({r.get('r')})"
                if name == "nav" and "NAV_NODE_NOT_FOUND" in msg:
                    why = "navigation speech not found for the node: " + nav_shape(x) + " / " + q["cmd"]
                kinds[(l, s, c, why)] = kinds.get((l, s, c, why), 0) + 1
                oracle_fail.append({"why": why, "config": [l, s, v, c], "xml": x, "reply": {k2: (v2[-300:] if isinstance(v2, str) else v2) for k2, v2 in r.items()},
                                    "lines": pre + [{"op": "set_mathml", "xml": x}, q]})
    im.close()
    mo.close()
    ctx.coverage.update({
        "evaluations": n_eval + n_res + n_auto, "language_auto_routes": n_auto, "language_auto_routes_against_the_selection_model": n_auto_model, "distinct_nontrivial": n_res,
        "rule": "resolution: every language directory, regional variant and 12 unknown/odd tags x every style file name + an unknown one x braille codes + an unknown one, the eleven resolved files "
                "compared with the model (hook H6); operation: every language x style x a verbosity (thorough: all) with a braille code, and every braille code, over a corpus of "
                + str(len(xmls)) + " expressions covering the element kinds and the common intents: speech, overview, braille and two navigation commands must answer. non-trivial = resolutions compared",
        "fallback_languages_compared_with_english": n_fb,
        "languages": langs, "styles": sty, "braille_codes": codes, "configurations_run": len(cfgs), "corpus": len(xmls), "listing": {"dirs": len(dirs), "files": len(files)},
        "failure_kinds": {" / ".join(k): v for k, v in sorted(kinds.items(), key=lambda kv: -kv[1])[:12]},
        "model_vs_impl_disagreements": [{k: v for k, v in d.items() if k != "lines"} for d in disagreements[:8]], "n_disagreements": len(disagreements),
        "impl_vs_oracle_failures": [{k: v for k, v in f.items() if k != "lines"} for f in oracle_fail[:8]], "n_oracle_failures": len(oracle_fail),
    })
    for f in oracle_fail:
        ctx.violation("implementation violates C15: " + json.dumps({k: v for k, v in f.items() if k not in ("lines",)}, ensure_ascii=False)[:500],
                      {"kind": "impl-vs-oracle", "case": {k: v for k, v in f.items() if k != "lines"}, "lines": f["lines"]}, tag="oracle",
                      signature={"kind": "c15-oracle", "why": f["why"], "why_prefix": f["why"], "subject": f["config"][0] if len(f["config"]) == 1 else ""})
    found = bool(ctx.violations)          # (failures attributed to a known finding do not count)
    if not pr["ok"] and not found:
        ctx.violation("theorem(s) no longer check: " + ", ".join(pr["failed"]), {"kind": "theorem", "theorems": pr["failed"], "lean_output": pr["output"][-1500:]}, tag="theorem", no_input=True)
    if disagreements and not found:
        d = disagreements[0]
        ctx.violation("model and implementation resolve a rule file differently: " + json.dumps({k: v for k, v in d.items() if k != "lines"}, ensure_ascii=False)[:400],
                      {"kind": "correspondence", "correspondence": "MC.Fallback.findFile vs PreferenceManager::find_file (hook H6)", "cases": [{k: v for k, v in x.items() if k != "lines"} for x in disagreements[:5]], "lines": d["lines"]},
                      tag="corr", no_input=True)


def replay(ctx, path):
    with open(path) as f:
        rp = json.load(f)
    core.need_harness(ctx)
    im = core.impl()
    lines = rp.get("lines", [])
    for q, r in zip(lines, im.run([{"op": "session"}] + lines)[1:]):
        print(json.dumps(q, ensure_ascii=False)[:300], "->", json.dumps(r, ensure_ascii=False)[:800])
    im.close()
    return 0
