"""C14 — broken rule files give errors, not crashes, and recovery is complete."""
import json, os, re, shutil, time
import core, mml, loader_sim
from core import strip_ids

COPY_PARENT = os.path.join(core.BUILD, "rules_copy")
COPY = os.path.join(COPY_PARENT, "Rules")
FAULTS = ["deleted", "empty", "truncated", "wrong_type", "bad_xpath", "unknown_key", "garbage", "malformed_entry"]
EXPRS = ["<math><mfrac><mn>1</mn><mrow><mi>x</mi><mo>+</mo><mn>2.5</mn></mrow></mfrac><mo>⨁</mo><msup><mi>A</mi><mn>2</mn></msup></math>",
         "<math><mrow><mi>sin</mi><mo>⁡</mo><mi>x</mi><mo>=</mo><msqrt><mn>3</mn></msqrt><mo>⟹</mo><mi>ℏ</mi></mrow></math>"]


def fresh_copy():
    os.makedirs(COPY_PARENT, exist_ok=True)
    if os.path.exists(COPY):
        shutil.rmtree(COPY)
    shutil.copytree(core.rules_dir(), COPY)
    base = time.time() - 1000
    for d, _, fs in os.walk(COPY):
        for f in fs:
            os.utime(os.path.join(d, f), (base, base))
    return base


def apply_fault(path, kind, rng):
    text = open(path, encoding="utf-8").read()
    if kind == "deleted":
        os.remove(path)
        return
    if kind == "empty":
        new = ""
    elif kind == "truncated":
        lines = text.split("\n")
        cut = [i for i, l in enumerate(lines) if l.startswith("-") or l.startswith("  - ")] or [len(lines) // 2]
        k = rng.choice(cut[1:] or cut)
        new = "\n".join(lines[:k]) + "\n" + (lines[k][: max(1, len(lines[k]) // 2)] if rng.random() < 0.5 else "")
    elif kind == "wrong_type":
        new = "foo: bar\nbaz: [1, 2]\n"
    elif kind == "bad_xpath":
        # one xpath somewhere in the file (not the first one: the entries before it load, so the failure comes in the middle of the load)
        spots = [m for m in re.finditer(r'((?:match|if|x):\s*)"[^"\n]*"', text)]
        n = len(spots)
        entries = [m for m in re.finditer(r'^(\s*)- "', text, flags=re.M)]
        if os.path.basename(path).startswith("unicode") and len(entries) > 20:
            # a character table: an entry with an invalid xpath 10-25 % into the file (most of the characters come after it)
            m = entries[rng.randrange(len(entries) // 10, len(entries) // 4)]
            new = text[:m.start()] + m.group(1) + '- "\uF8F0": [x: "((( and ]"]\n' + text[m.start():]
            n = 1
        elif n:
            m = spots[0] if n < 3 else spots[rng.randrange(n // 3, n - 1)]
            new = text[:m.start()] + m.group(1) + '"((( and ]"' + text[m.end():]
        if n == 0:
            new = re.sub(r'(\[\s*[tx]:\s*)"[^"\n]*"', r'\1"\\ud800"', text, count=1) if False else text.replace("- ", "- [[[", 1)
    elif kind == "malformed_entry":
        # valid YAML whose entries have the wrong shape for the kind of file: an empty character, a range without one of its ends, a range over
        # the surrogates, a number list that is not a list, a rule whose replacement is a scalar
        base_name = os.path.basename(path)
        entries = [m for m in re.finditer(r'^(\s*)- ', text, flags=re.M)]
        ind = entries[0].group(1) if entries else ""
        if base_name.startswith("unicode"):
            bad = rng.choice(['- "": [t: "x"]', '- "a-": [t: "x"]', '- "-z": [t: "x"]', '- "\\uD7FF-\\uE000": [t: "x"]', '- "ab": 3', '- 5: [t: "x"]', '- "q": {t: [1, 2]}'])
        elif base_name.startswith("definitions"):
            bad = rng.choice(['- NumbersOnes: 3', '- NumbersTens: {a: b}', '- Foo_vec: "x"', '- TrigFunctionNames: [a, b]', '- 7: {a: b}', '- LikelyFunctionNames: {a: [1]}'])
        else:
            bad = rng.choice(['- name: x\n' + ind + '  tag: mi\n' + ind + '  match: "."\n' + ind + '  replace: 3', '- name: [a]\n' + ind + '  tag: {b: c}\n' + ind + '  match: 1\n' + ind + '  replace: [t: 2]',
                              '- name: x\n' + ind + '  tag: mi\n' + ind + '  match: "."\n' + ind + '  replace: [test: 3]', '- name: x\n' + ind + '  tag: mi\n' + ind + '  match: "."\n' + ind + '  variables: 4\n' + ind + '  replace: [t: "x"]'])
        if entries:
            m = entries[rng.randrange(0, max(1, len(entries) // 4))]
            new = text[:m.start()] + ind + bad + "\n" + text[m.start():]
        else:
            new = bad + "\n" + text
    elif kind == "unknown_key":
        new = re.sub(r"^(\s*)(name|tag):", r"\1nmae:", text, count=1, flags=re.M)
        if new == text:
            new = "- completely_unknown_key: {a: 1}\n" + text
    else:
        new = "\x00\x01{{{{ not yaml ::: - [ \n\t- x"
    open(path, "w", encoding="utf-8").write(new)


def outputs(rep):
    out = []
    for r in rep:
        v = r.get("v") if r.get("r") == "ok" else {"r": r.get("r")}
        out.append(strip_ids(v) if isinstance(v, str) else v)
    return out


LOAD_ERR = re.compile(r"in file|cannot read file|Read error|Parse error|does not begin with|Didn't find preferences|Wasn't able to find")


def name_check(errs, f, rel, kind, order, lines_log, oracle_fail, counts):
    """An error raised while a file is being LOADED must name that file. A damaged file that still loads (a truncation at an
    entry boundary, a misspelt key) fails later, when a rule is evaluated: that error cannot know the file and is only counted;
    a deleted file that the fallback chain replaces by another one (C15) is never read at all."""
    load_errs = [r for r in errs if LOAD_ERR.search(r.get("msg") or "")]
    if not load_errs:
        counts["errors_at_evaluation_time_only"] = counts.get("errors_at_evaluation_time_only", 0) + 1
        return
    counts["load_errors"] = counts.get("load_errors", 0) + 1
    if not any(os.path.basename(f) in (r.get("msg") or "") for r in load_errs):
        oracle_fail.append({"why": "the load error does not name the broken file", "file": rel, "fault": kind, "message": (load_errs[0].get("msg") or "")[-400:], "order": order, "lines": list(lines_log)})


def run(ctx):
    pr = core.prove("C14")
    core.proof_coverage(ctx, pr, "lake build MC.Props.C14 && lake env lean build/audit_C14.lean (#print axioms)", [
        "modelled, not verified: the cache bookkeeping of src/speech.rs (MC.Loader, as for C10): when a load is attempted, that a broken file makes the call an error and empties the table, "
        "and when a repaired file is read again; after every repair the model predicts which files are re-read (hooks H2 + H6)",
        "NOT modelled: what the YAML parser, the XPath compiler and the OS do with a damaged file (the predicate `good`), the error text, and PreferenceManager::initialize: for these the "
        "property is decided on the implementation by enumerating faults on a private copy of Rules/ under /verif/build",
        "recovery_complete assumes a repaired file has a strictly newer modification time than when it was last read (the code compares time >= mtime); the check repairs with newer time stamps; "
        "same_time_not_noticed is the kernel-checked witness that the assumption is needed"])
    core.need_harness(ctx)
    core.need_driver(ctx)
    im, mo = core.impl(), core.model()
    rng = ctx.rng
    base = fresh_copy()
    configs = [("en", "ClearSpeak", "Nemeth"), ("es", "SimpleSpeak", "UEB"), ("en-gb", "ClearSpeak", "CMU"), ("fi", "ClearSpeak", "LaTeX"), ("zh-tw", "SimpleSpeak", "Vietnam")]
    if ctx.tier == "quick":
        configs = configs[:2]
    calls = [{"op": "speech"}, {"op": "overview"}, {"op": "braille", "id": ""}, {"op": "nav", "cmd": "ZoomIn"}]
    oracle_fail, disagreements = [], []
    n_scen = n_err = n_silent = n_pred = 0
    counts = {}
    per_fault = {}
    clock = [base]

    def tick():
        clock[0] += 50
        return clock[0]

    for ci, (lang, style, code) in enumerate(configs):
        # every second configuration gets its language the way a host gives it (Language=Auto, then LanguageAuto): re-pointing the rules
        # directory must bring back the files of THAT language
        lang_prefs = [{"op": "set_pref", "name": "Language", "value": lang}] if ci % 2 == 0 else \
            [{"op": "set_pref", "name": "Language", "value": "Auto"}, {"op": "set_pref", "name": "LanguageAuto", "value": lang}]
        pre = [{"op": "rules_dir", "dir": COPY}, {"op": "set_pref", "name": "CheckRuleFiles", "value": "All"}] + lang_prefs + \
              [{"op": "set_pref", "name": "SpeechStyle", "value": style}, {"op": "set_pref", "name": "BrailleCode", "value": code}]
        body = []
        for e in EXPRS:
            body += [{"op": "set_mathml", "xml": e}] + calls
        rep = im.run([{"op": "session"}] + pre + body + [{"op": "hook", "which": "rule_files"}])
        baseline = outputs(rep[1 + len(pre):-1])
        # the same configuration on the unmodified rules directory with the default CheckRuleFiles (re-pointing scenarios)
        pre_clean = [{"op": "rules_dir", "dir": core.rules_dir()}] + pre[2:]
        pre_copy = [{"op": "rules_dir", "dir": COPY}] + pre[2:]
        baseline_clean = outputs(im.run([{"op": "session"}] + pre_clean + body)[1 + len(pre_clean):])
        if rep[-1].get("r") != "ok":
            raise core.CheckBroken("hook H6 unavailable: " + json.dumps(rep[-1])[:200])
        files = {n: p for n, p in rep[-1]["v"]}
        reachable = []
        for p in files.values():
            for q in loader_sim.includes(os.path.realpath(p)):
                if q not in reachable:
                    reachable.append(q)
        reachable.append(os.path.join(COPY, "prefs.yaml"))
        targets = [(f, k) for f in reachable for k in FAULTS]
        # the lazily loaded tables and the shared ones first, in both re-pointing orders (a failure in the middle of their load is the delicate
        # case); then a sample (quick) or every (file, fault) pair (thorough: all four orders for every pair) in a random order
        must = [(f, k) for f in reachable for k in ("bad_xpath", "truncated", "malformed_entry") if os.path.basename(f) in ("unicode-full.yaml", "unicode.yaml", "definitions.yaml")]
        forced = [(f, k, o) for f, k in must for o in ("clean-repoint_to_broken-repoint_back", "broken-repoint_to_clean")]
        if ctx.tier == "quick":
            targets = forced + [(f, k, None) for f, k in rng.sample(targets, 30)]
        else:
            targets = forced + [(f, k, o) for f, k in targets for o in ("call-fault-call-repair-call", "fault-call-repair-repoint-call", "clean-repoint_to_broken-repoint_back", "broken-repoint_to_clean")]
        for f, kind, forced_order in targets:
            n_scen += 1
            rel = os.path.relpath(f, COPY)
            orig = open(f, encoding="utf-8").read()
            order = rng.choice(["call-fault-call-repair-call", "fault-call-repair-repoint-call", "clean-repoint_to_broken-repoint_back", "broken-repoint_to_clean"])
            if forced_order:
                order = forced_order
            lines_log = []

            def do(reqs):
                lines_log.extend(reqs)
                return im.run(reqs)

            def crashed(rep, stage):
                for q, r in zip(rep[0], rep[1]):
                    if r.get("r") in ("panic", "abort", "timeout"):
                        oracle_fail.append({"why": f"{r.get('r')} with a broken rule file ({stage})", "file": rel, "fault": kind, "call": q, "reply": {k: (v[-300:] if isinstance(v, str) else v) for k, v in r.items()},
                                            "order": order, "lines": list(lines_log)})
                        return True
                return False

            try:
                if order == "call-fault-call-repair-call":
                    do([{"op": "session"}] + pre + body)
                    apply_fault(f, kind, rng)
                    if os.path.exists(f):
                        t = tick(); os.utime(f, (t, t))
                    r2 = do(body)
                    crashed((body, r2), "after the fault")
                    errs = [r for r in r2 if r.get("r") == "err"]
                    if errs:
                        n_err += 1
                        name_check(errs, f, rel, kind, order, lines_log, oracle_fail, counts)
                    else:
                        n_silent += 1
                    open(f, "w", encoding="utf-8").write(orig)
                    t = tick(); os.utime(f, (t, t))
                    do([{"op": "hook", "which": "read_log"}])
                    r3 = do(body)
                    if not crashed((body, r3), "after the repair") and outputs(r3) != baseline:
                        k = next(i for i in range(len(baseline)) if outputs(r3)[i] != baseline[i])
                        oracle_fail.append({"why": "output after the repair differs from the output before the fault (CheckRuleFiles=All)", "file": rel, "fault": kind, "call": body[k],
                                            "before": baseline[k], "after": outputs(r3)[k], "order": order, "lines": list(lines_log)})
                elif order in ("clean-repoint_to_broken-repoint_back", "broken-repoint_to_clean"):
                    # default CheckRuleFiles; the broken directory is left broken and the session is pointed (back) to a good one
                    apply_fault(f, kind, rng)
                    if os.path.exists(f):
                        t = tick(); os.utime(f, (t, t))
                    if order == "clean-repoint_to_broken-repoint_back":
                        do([{"op": "session"}] + pre_clean + body)
                        r2 = do(pre_copy + body)
                    else:
                        r2 = do([{"op": "session"}] + pre_copy + body)[1:]
                    crashed((pre_copy + body, r2), "pointed to a directory with a broken file")
                    errs = [r for r in r2 if r.get("r") == "err"]
                    if errs:
                        n_err += 1
                        name_check(errs, f, rel, kind, order, lines_log, oracle_fail, counts)
                    else:
                        n_silent += 1
                    r3 = do(pre_clean + body)
                    if not crashed((pre_clean + body, r3), "pointed (back) to the good directory") and outputs(r3[len(pre_clean):]) != baseline_clean:
                        k = next(i for i in range(len(baseline_clean)) if outputs(r3[len(pre_clean):])[i] != baseline_clean[i])
                        oracle_fail.append({"why": "output after pointing (back) to a good rules directory differs from a clean session", "file": rel, "fault": kind, "call": body[k],
                                            "before": baseline_clean[k], "after": outputs(r3[len(pre_clean):])[k], "order": order, "lines": list(lines_log)})
                else:
                    apply_fault(f, kind, rng)
                    if os.path.exists(f):
                        t = tick(); os.utime(f, (t, t))
                    r1 = do([{"op": "session"}] + pre + body)
                    crashed((([{"op": "session"}] + pre + body), r1), "session started on a broken file")
                    errs = [r for r in r1 if r.get("r") == "err"]
                    if errs:
                        n_err += 1
                        name_check(errs, f, rel, kind, order, lines_log, oracle_fail, counts)
                    else:
                        n_silent += 1
                    open(f, "w", encoding="utf-8").write(orig)
                    t = tick(); os.utime(f, (t, t))
                    r3 = do(pre + body)            # re-point the rules directory and set the preferences again
                    if not crashed((pre + body, r3), "after repair and re-pointing") and outputs(r3[len(pre):]) != baseline:
                        k = next(i for i in range(len(baseline)) if outputs(r3[len(pre):])[i] != baseline[i])
                        oracle_fail.append({"why": "output after repair and re-pointing differs from a clean session", "file": rel, "fault": kind, "call": body[k],
                                            "before": baseline[k], "after": outputs(r3[len(pre):])[k], "order": order, "lines": list(lines_log)})
            finally:
                open(f, "w", encoding="utf-8").write(orig)
                t = tick(); os.utime(f, (t, t))
            per_fault[kind] = per_fault.get(kind, 0) + 1
        # repair-phase read prediction: touch one reachable file (content unchanged, newer time) and predict the reload
        for f in (rng.sample(reachable[:-1], 4) if ctx.tier == "quick" else reachable[:-1]):
            sim = loader_sim.Sim(mo)
            im.run([{"op": "session"}] + pre + [{"op": "set_mathml", "xml": EXPRS[0]}])
            r = im.run([{"op": "hook", "which": "read_log"}, {"op": "hook", "which": "rule_files"}])
            files2 = {n: p for n, p in r[1]["v"]}
            sim.api_call("set_mathml", files2, False)
            seq = [{"op": "speech"}, {"op": "braille", "id": ""}, {"op": "overview"}]
            for q in seq:
                im.run([q, {"op": "hook", "which": "read_log"}])
                sim.api_call(q["op"], files2, False)
                for sd in ("speech", "braille"):
                    sim.full_read(sd, files2, False)      # the expression needs the full tables on both sides
            t = tick(); os.utime(f, (t, t))
            for q in seq:
                rep = im.run([q, {"op": "hook", "which": "read_log"}])
                log = [os.path.realpath(p) for p in rep[1].get("v", [])]
                fulls = {os.path.realpath(files2["speech_unicode_full"]): "speech", os.path.realpath(files2["braille_unicode_full"]): "braille"}
                ok, pred = sim.api_call(q["op"], files2, False)
                predf = []
                for p, sd in fulls.items():
                    if p in log:
                        _, needs, rd = sim.full_read(sd, files2, False)
                        predf += rd if needs else []
                n_pred += 1
                if sorted(pred + predf) != sorted(p for p in log if not p.endswith("/prefs.yaml")):
                    disagreements.append({"why": "files re-read after a file became newer differ from the model's prediction", "touched": os.path.relpath(f, COPY), "call": q,
                                          "impl": [os.path.relpath(p, COPY) for p in log], "model": [os.path.relpath(p, COPY) for p in pred + predf], "lines": pre + [{"op": "set_mathml", "xml": EXPRS[0]}] + seq})
    im.close()
    mo.close()
    shutil.rmtree(COPY, ignore_errors=True)
    kinds = {}
    for f in oracle_fail:
        kinds[f["why"]] = kinds.get(f["why"], 0) + 1
    ctx.coverage.update({
        "evaluations": n_scen, "distinct_nontrivial": n_err,
        "rule": "on a private copy of Rules/: every (quick: 24 sampled per configuration) file reachable from the configuration (the eleven resolved files, their includes, prefs.yaml) x 7 fault kinds "
                "(deleted, empty, truncated at a YAML entry boundary, wrong top-level type, invalid xpath, unknown key, garbage bytes) x four orders (clean directory -> directory with the broken file -> back; session started on the broken directory -> clean directory (both with the default CheckRuleFiles); call-fault-call-repair-call with "
                "CheckRuleFiles=All; fault-call-repair-repoint-call); speech, overview, braille and navigation on two expressions that need the full Unicode tables. No call may crash, an error must "
                "name the file, outputs after the repair must equal the outputs before. non-trivial = scenarios in which the fault produced an error",
        "configurations": configs, "scenarios_per_fault": per_fault, "faults_reported_as_errors": n_err, "faults_without_visible_effect": n_silent, "repair_reads_predicted": n_pred, "error_classes": counts,
        "oracle_failure_kinds": kinds,
        "model_vs_impl_disagreements": [{k: v for k, v in d.items() if k != "lines"} for d in disagreements[:8]], "n_disagreements": len(disagreements),
        "impl_vs_oracle_failures": [{k: v for k, v in f.items() if k != "lines"} for f in oracle_fail[:8]], "n_oracle_failures": len(oracle_fail),
    })
    for f in oracle_fail:
        ctx.violation("implementation violates C14: " + json.dumps({k: v for k, v in f.items() if k not in ("lines",)}, ensure_ascii=False)[:600],
                      {"kind": "impl-vs-oracle", "case": {k: v for k, v in f.items() if k != "lines"}, "lines": f["lines"], "note": "replay applies the fault to a private copy of Rules/ first"},
                      tag="oracle", signature={"kind": "c14-oracle", "why": f["why"], "fault": f["fault"], "file_kind": os.path.basename(f["file"])})
    found = bool(ctx.violations)          # (failures attributed to a known finding do not count)
    if not pr["ok"] and not found:
        ctx.violation("theorem(s) no longer check: " + ", ".join(pr["failed"]), {"kind": "theorem", "theorems": pr["failed"], "lean_output": pr["output"][-1500:]}, tag="theorem", no_input=True)
    if disagreements and not found:
        d = disagreements[0]
        ctx.violation("model and implementation disagree on what is re-read after a file changed: " + json.dumps({k: v for k, v in d.items() if k != "lines"}, ensure_ascii=False)[:500],
                      {"kind": "correspondence", "correspondence": "MC.Loader.refresh vs read_files (hooks H2, H6)", "cases": [{k: v for k, v in x.items() if k != "lines"} for x in disagreements[:5]], "lines": d["lines"]},
                      tag="corr", no_input=True)


def replay(ctx, path):
    with open(path) as f:
        rp = json.load(f)
    print(json.dumps(rp.get("case"), ensure_ascii=False, indent=1)[:3000])
    print("(the fault is applied to a private copy of Rules/ between the logged calls; re-run ./check C14 to reproduce)")
    return 0
