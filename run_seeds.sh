#!/bin/bash
# run every quick check under several seeds; list the ones that raise anything on the unchanged tree
cd "$(dirname "$0")"
for seed in "$@"; do
  for p in C01 C02 C03 C04 C05 C06 C07 C08 C09 C10 C11 C12 C13 C14 C15 C16 C17 C18 C19 C20; do
    VERIF_SEED=$seed ./check $p --tier quick > build/seedrun_${seed}_$p.txt 2>&1
    rc=$?
    v=$(grep -c '^VIOLATION' build/seedrun_${seed}_$p.txt)
    if [ $rc -ne 0 ] || [ $v -ne 0 ]; then echo "seed=$seed $p rc=$rc violations=$v"; grep -m2 '^\[check\]    ' build/seedrun_${seed}_$p.txt | cut -c1-500; fi
  done
  echo "seed $seed done"
done
