//! mcdrive: implementation side of the /verif line protocol.
//! One JSON request per stdin line, one JSON reply per stdout line.
//! Every request is executed on a *session* thread (fresh thread = fresh MathCAT thread-locals),
//! under catch_unwind with a panic hook that records the panic location, and under a wall-clock
//! bound enforced by the main thread.
use serde_json::{json, Value};
use std::cell::RefCell;
use std::io::{BufRead, Write};
use std::panic::{catch_unwind, AssertUnwindSafe};
use std::sync::mpsc::{channel, Receiver, RecvTimeoutError, Sender};
use std::time::Duration;

use libmathcat::*;

thread_local! {
    static LAST_PANIC: RefCell<Option<(String, String)>> = RefCell::new(None);
}

fn err_json(e: &libmathcat::errors::Error) -> Value {
    let msg = errors_to_string(e);
    json!({"r":"err","msg":msg})
}

fn ok<T: Into<Value>>(v: T) -> Value {
    json!({"r":"ok","v":v.into()})
}

fn s(req: &Value, k: &str) -> String {
    req.get(k).and_then(|v| v.as_str()).unwrap_or("").to_string()
}
fn n(req: &Value, k: &str) -> usize {
    req.get(k).and_then(|v| v.as_u64()).unwrap_or(0) as usize
}
fn b(req: &Value, k: &str) -> bool {
    req.get(k).and_then(|v| v.as_bool()).unwrap_or(false)
}

fn yaml_to_json(y: &yaml_rust::Yaml) -> Value {
    use yaml_rust::Yaml;
    match y {
        Yaml::Real(r) => json!({"real": r}),
        Yaml::Integer(i) => json!(i),
        Yaml::String(st) => json!(st),
        Yaml::Boolean(bv) => json!(bv),
        Yaml::Array(a) => Value::Array(a.iter().map(yaml_to_json).collect()),
        Yaml::Hash(h) => {
            // keep order: list of [key, value]
            Value::Array(
                h.iter()
                    .map(|(k, v)| json!({"k": yaml_to_json(k), "v": yaml_to_json(v)}))
                    .collect(),
            )
        }
        Yaml::Alias(_) => json!({"alias": true}),
        Yaml::Null => Value::Null,
        Yaml::BadValue => json!({"bad": true}),
    }
}

fn intent_tree() -> Value {
    use sxd_document::Package;
    let r = MATHML_INSTANCE.with(|package_instance| {
        let package_instance = package_instance.borrow();
        let mathml = get_element(&package_instance);
        let new_package = Package::new();
        match libmathcat::speech::intent_from_mathml(mathml, new_package.as_document()) {
            Ok(intent) => Ok(elem_to_json(&intent)),
            Err(e) => Err(err_json(&e)),
        }
    });
    match r {
        Ok(v) => ok(v),
        Err(e) => e,
    }
}

fn elem_to_json(e: &sxd_document::dom::Element) -> Value {
    use sxd_document::dom::ChildOfElement;
    let mut attrs: Vec<(String, String)> = e
        .attributes()
        .iter()
        .map(|a| (a.name().local_part().to_string(), a.value().to_string()))
        .collect();
    attrs.sort();
    let mut kids = vec![];
    for c in e.children() {
        match c {
            ChildOfElement::Element(ce) => kids.push(elem_to_json(&ce)),
            ChildOfElement::Text(t) => kids.push(json!(t.text())),
            _ => {}
        }
    }
    json!({"n": e.name().local_part(), "a": attrs, "c": kids})
}

fn handle(req: &Value) -> Value {
    let op = s(req, "op");
    match op.as_str() {
        "version" => ok(get_version()),
        "rules_dir" => match set_rules_dir(s(req, "dir")) {
            Ok(()) => ok(Value::Null),
            Err(e) => err_json(&e),
        },
        "set_pref" => match set_preference(s(req, "name"), s(req, "value")) {
            Ok(()) => ok(Value::Null),
            Err(e) => err_json(&e),
        },
        "get_pref" => match get_preference(s(req, "name")) {
            Ok(v) => ok(v),
            Err(e) => err_json(&e),
        },
        "set_mathml" => match set_mathml(s(req, "xml")) {
            Ok(v) => ok(v),
            Err(e) => err_json(&e),
        },
        "speech" => match get_spoken_text() {
            Ok(v) => ok(v),
            Err(e) => err_json(&e),
        },
        "overview" => match get_overview_text() {
            Ok(v) => ok(v),
            Err(e) => err_json(&e),
        },
        "braille" => match get_braille(s(req, "id")) {
            Ok(v) => ok(v),
            Err(e) => err_json(&e),
        },
        "nav_braille" => match get_navigation_braille() {
            Ok(v) => ok(v),
            Err(e) => err_json(&e),
        },
        "nav" => match do_navigate_command(s(req, "cmd")) {
            Ok(v) => ok(v),
            Err(e) => err_json(&e),
        },
        "key" => match do_navigate_keypress(n(req, "k"), b(req, "shift"), b(req, "ctrl"), b(req, "alt"), b(req, "meta")) {
            Ok(v) => ok(v),
            Err(e) => err_json(&e),
        },
        "nav_id" => match get_navigation_mathml_id() {
            Ok((id, off)) => ok(json!([id, off])),
            Err(e) => err_json(&e),
        },
        "nav_mathml" => match get_navigation_mathml() {
            Ok((m, off)) => ok(json!([m, off])),
            Err(e) => err_json(&e),
        },
        "set_nav" => match set_navigation_node(s(req, "id"), n(req, "off")) {
            Ok(()) => ok(Value::Null),
            Err(e) => err_json(&e),
        },
        "bpos" => match get_braille_position() {
            Ok((a, bb)) => ok(json!([a, bb])),
            Err(e) => err_json(&e),
        },
        "from_bpos" => match get_navigation_node_from_braille_position(n(req, "pos")) {
            Ok((id, off)) => ok(json!([id, off])),
            Err(e) => err_json(&e),
        },
        "intent_tree" => intent_tree(),
        "yaml2json" => {
            let file = s(req, "file");
            match std::fs::read_to_string(&file) {
                Err(e) => json!({"r":"err","msg":format!("read: {}", e)}),
                Ok(text) => match yaml_rust::YamlLoader::load_from_str(&text) {
                    Err(e) => json!({"r":"err","msg":format!("yaml: {}", e)}),
                    Ok(docs) => ok(Value::Array(docs.iter().map(yaml_to_json).collect())),
                },
            }
        }
        "hook" => hooks::handle(req),
        _ => json!({"r":"err","msg":format!("mcdrive: unknown op '{}'", op),"kind":"bad-op"}),
    }
}

mod hooks;

fn session_main(rx: Receiver<Value>, tx: Sender<Value>) {
    while let Ok(req) = rx.recv() {
        LAST_PANIC.with(|p| *p.borrow_mut() = None);
        let res = catch_unwind(AssertUnwindSafe(|| handle(&req)));
        let reply = match res {
            Ok(v) => v,
            Err(_) => {
                let (at, msg) = LAST_PANIC.with(|p| p.borrow_mut().take()).unwrap_or_default();
                json!({"r":"panic","at":at,"msg":msg})
            }
        };
        if tx.send(reply).is_err() {
            break;
        }
    }
}

struct Session {
    tx: Sender<Value>,
    rx: Receiver<Value>,
}

/// stack of a session thread: 8 MB (the usual main-thread stack of a host application) unless the request says otherwise
fn new_session_with(stack_mb: usize) -> Session {
    let (tx_req, rx_req) = channel::<Value>();
    let (tx_rep, rx_rep) = channel::<Value>();
    std::thread::Builder::new()
        .name("mathcat-session".into())
        .stack_size(stack_mb << 20)
        .spawn(move || session_main(rx_req, tx_rep))
        .expect("spawn");
    Session { tx: tx_req, rx: rx_rep }
}

fn new_session() -> Session {
    return new_session_with(8);
}

#[allow(dead_code)]
fn new_session_old() -> Session {
    let (tx_req, rx_req) = channel::<Value>();
    let (tx_rep, rx_rep) = channel::<Value>();
    std::thread::Builder::new()
        .name("mathcat-session".into())
        .stack_size(1 << 30)
        .spawn(move || session_main(rx_req, tx_rep))
        .expect("spawn");
    Session { tx: tx_req, rx: rx_rep }
}

fn main() {
    std::panic::set_hook(Box::new(|info| {
        let at = info
            .location()
            .map(|l| format!("{}:{}", l.file(), l.line()))
            .unwrap_or_default();
        let msg = if let Some(s) = info.payload().downcast_ref::<&str>() {
            s.to_string()
        } else if let Some(s) = info.payload().downcast_ref::<String>() {
            s.clone()
        } else {
            "?".to_string()
        };
        if std::env::var("MCDRIVE_BT").is_ok() {
            eprintln!("panic at {}: {}\n{}", at, msg, std::backtrace::Backtrace::force_capture());
        }
        LAST_PANIC.with(|p| *p.borrow_mut() = Some((at, msg)));
    }));
    let stdin = std::io::stdin();
    let stdout = std::io::stdout();
    let mut out = std::io::BufWriter::new(stdout.lock());
    // named sessions: "sid" selects among several concurrently alive sessions (for C10 threads)
    let mut sessions: std::collections::HashMap<String, Session> = std::collections::HashMap::new();
    sessions.insert("".to_string(), new_session());
    for line in stdin.lock().lines() {
        let line = match line {
            Ok(l) => l,
            Err(_) => break,
        };
        if line.trim().is_empty() {
            continue;
        }
        let req: Value = match serde_json::from_str(&line) {
            Ok(v) => v,
            Err(e) => {
                writeln!(out, "{}", json!({"r":"err","kind":"bad-json","msg":e.to_string()})).unwrap();
                out.flush().unwrap();
                continue;
            }
        };
        let sid = s(&req, "sid");
        let op = s(&req, "op");
        let reply = if op == "session" {
            // drop the old thread (it exits when its channel closes) and start a fresh one
            let mb = req.get("stack_mb").and_then(|v| v.as_u64()).unwrap_or(8) as usize;
            sessions.insert(sid.clone(), new_session_with(mb));
            json!({"r":"ok","v":Value::Null})
        } else {
            if !sessions.contains_key(&sid) {
                sessions.insert(sid.clone(), new_session());
            }
            let timeout_ms = req.get("timeout_ms").and_then(|v| v.as_u64()).unwrap_or(30000);
            let sess = sessions.get(&sid).unwrap();
            let _ = sess.tx.send(req.clone());
            match sess.rx.recv_timeout(Duration::from_millis(timeout_ms)) {
                Ok(v) => v,
                Err(RecvTimeoutError::Timeout) => {
                    // abandon the stuck thread
                    sessions.insert(sid.clone(), new_session());
                    json!({"r":"timeout"})
                }
                Err(RecvTimeoutError::Disconnected) => {
                    sessions.insert(sid.clone(), new_session());
                    json!({"r":"abort","msg":"session thread died"})
                }
            }
        };
        writeln!(out, "{}", reply).unwrap();
        out.flush().unwrap();
    }
}
