//! Ops that need the cfg(mathcat_verif) hooks compiled into /repo.
use serde_json::{json, Value};

pub fn handle(req: &Value) -> Value {
    let which = req.get("which").and_then(|v| v.as_str()).unwrap_or("");
    match which {
        _ => json!({"r":"err","kind":"bad-op","msg":format!("unknown hook '{}'", which)}),
    }
}
