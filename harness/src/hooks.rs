//! Ops that need the cfg(mathcat_verif) hooks compiled into /repo.
use serde_json::{json, Value};

pub fn handle(req: &Value) -> Value {
    let which = req.get("which").and_then(|v| v.as_str()).unwrap_or("");
    match which {
        "nav_state" => {
            let s = libmathcat::verif::verif_nav_state();
            match serde_json::from_str::<Value>(&s) {
                Ok(v) => json!({"r":"ok","v":v}),
                Err(e) => json!({"r":"err","kind":"hook-json","msg":format!("{}: {}", e, s)}),
            }
        }
        "nav_log" => {
            let entries: Vec<Value> = libmathcat::verif::verif_take_nav_log()
                .iter()
                .map(|s| serde_json::from_str::<Value>(s).unwrap_or(json!({"bad": s})))
                .collect();
            json!({"r":"ok","v":entries})
        }
        "last_braille" => {
            let (raw, cleaned) = libmathcat::verif::verif_last_braille();
            json!({"r":"ok","v":[raw, cleaned]})
        }
        "join_log" => {
            let entries: Vec<Value> = libmathcat::verif::verif_take_join_log()
                .into_iter()
                .map(|(i, o)| json!([i, o]))
                .collect();
            json!({"r":"ok","v":entries})
        }
        "rule_files" => match libmathcat::verif::verif_rule_files() {
            Ok(files) => json!({"r":"ok","v":files.into_iter().map(|(n, p)| json!([n, p])).collect::<Vec<Value>>()}),
            Err(e) => json!({"r":"err","msg":e}),
        },
        "read_log" => json!({"r":"ok","v":libmathcat::verif::verif_take_read_log()}),
        "numpat" => {
            let g = |k: &str| req.get(k).and_then(|v| v.as_str()).unwrap_or("").to_string();
            let r = libmathcat::verif::verif_number_patterns(&g("text"), &g("block"), &g("decimal"));
            json!({"r":"ok","v":r.to_vec()})
        }
        "clean_only" => {
            let xml = req.get("xml").and_then(|v| v.as_str()).unwrap_or("");
            match libmathcat::verif::verif_clean_only(xml) {
                Ok(s) => json!({"r":"ok","v":s}),
                Err(e) => json!({"r":"err","kind":"clean","msg":libmathcat::errors_to_string(&e)}),
            }
        }
        _ => json!({"r":"err","kind":"bad-op","msg":format!("unknown hook '{}'", which)}),
    }
}
