#!/usr/bin/env python3
"""Re-apply every stored seeded change to the CURRENT /repo, run the check(s) that caught it, undo it; write seeded/SUMMARY.json.
(/repo must be clean; nothing is committed there.)"""
import json, os, subprocess, glob, sys, re
os.chdir("/verif")
assert subprocess.run(["git", "-C", "/repo", "status", "--short", "--untracked-files=no"], capture_output=True, text=True).stdout.strip() == "", "/repo not clean"
head = subprocess.run(["git", "-C", "/repo", "rev-parse", "--short", "HEAD"], capture_output=True, text=True).stdout.strip()
out = {"repo_head": head, "seeds": []}
only = set(sys.argv[1:])
for d in sorted(glob.glob("seeded/C*")):
    pid = os.path.basename(d)
    if only and pid not in only:
        continue
    for patch in sorted(glob.glob(d + "/patch*.diff")):
        suffix = re.search(r"patch(.*)\.diff", patch).group(1)
        meta = json.load(open(f"{d}/meta{suffix}.json"))
        checks = [c for c, r in meta.get("check_results", {}).items() if r["exit"] == 1] or [pid]
        entry = {"property": pid, "patch": patch, "checks": {}}
        ap = subprocess.run(["git", "-C", "/repo", "apply", "--check", os.path.abspath(patch)], capture_output=True, text=True)
        if ap.returncode != 0:
            entry["applies"] = False
            entry["note"] = ap.stderr.strip()[:300]
            out["seeds"].append(entry)
            print(pid, suffix, "DOES NOT APPLY", flush=True)
            continue
        entry["applies"] = True
        subprocess.run(["git", "-C", "/repo", "apply", os.path.abspath(patch)], check=True)
        try:
            for c in checks:
                p = subprocess.run(["./check", c, "--tier", "quick"], capture_output=True, text=True)
                o = p.stdout + p.stderr
                vio = [l for l in o.splitlines() if l.startswith("VIOLATION")]
                entry["checks"][c] = {"exit": p.returncode, "violations": len(vio), "no_failing_input_found": sum("no-failing-input-found" in l for l in vio),
                                      "first": next((l[:300] for l in o.splitlines() if l.startswith("[check]    ")), "")}
        finally:
            subprocess.run(["git", "-C", "/repo", "checkout", "--", "."], check=True)
        entry["caught"] = any(r["exit"] == 1 and r["violations"] > 0 for r in entry["checks"].values())
        if "note_no_longer_a_violation" in meta:
            entry["note"] = "no longer a violation on the current tree (see meta)"
        out["seeds"].append(entry)
        print(pid, suffix, "caught" if entry["caught"] else "NOT CAUGHT", {c: (r["exit"], r["violations"]) for c, r in entry["checks"].items()}, flush=True)
if len(sys.argv) > 1 and os.path.exists("seeded/SUMMARY.json"):
    # a partial run: merge into the stored summary (keyed by patch file)
    old = json.load(open("seeded/SUMMARY.json"))
    fresh = {e["patch"]: e for e in out["seeds"]}
    out["seeds"] = [fresh.pop(e["patch"], e) for e in old.get("seeds", [])] + list(fresh.values())
json.dump(out, open("seeded/SUMMARY.json", "w"), indent=1, ensure_ascii=False)
subprocess.run(["python3", "-c", "import sys;sys.path.insert(0,'/verif/lib');import core;core.build_harness()"])
