import MC.Props.C18
import MC.Props.C17
import MC.Props.C12
import MC.Props.C11
import MC.Props.C13
import MC.Props.C19
import MC.Props.C20
import MC.Props.C07
