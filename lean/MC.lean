import MC.Props.C18
