import MC.Spec.Canon
/-!
# C09 — every node gets a unique id and author ids are kept (`add_ids`)

Theorems about `MC.Xml.addIds` for EVERY tree, prefix, starting counter and set of ids seen so far.
-/
namespace MC.Props.C09
open MC.Xml

/-- the generated id number `k` -/
def gen (pre : Str) (k : Nat) : Str := pre ++ natToStr k

/-- decimal rendering is injective -/
theorem natToStr_injective (a b : Nat) (h : natToStr a = natToStr b) : a = b := by
  unfold natToStr at h
  have h1 : (toString a).toList = (toString b).toList :=
    (List.map_inj_right (fun x y hxy => Char.toNat_inj.mp hxy)).mp h
  have ha := @Nat.ofDigitChars_ten_toDigits a
  have hb := @Nat.ofDigitChars_ten_toDigits b
  have ta : (toString a).toList = Nat.toDigits 10 a := by
    rw [Nat.toString_eq_repr]; exact Nat.toList_repr
  have tb : (toString b).toList = Nat.toDigits 10 b := by
    rw [Nat.toString_eq_repr]; exact Nat.toList_repr
  rw [ta, tb] at h1
  rw [← ha, ← hb, h1]

/-- two generated ids are equal only for the same counter value -/
theorem gen_injective (pre : Str) (a b : Nat) (h : gen pre a = gen pre b) : a = b :=
  natToStr_injective a b (List.append_cancel_left h)

theorem idOf_setId (attrs : List (Str × Str)) (v : Str) : idOf (setId attrs v) = some v := by
  unfold setId
  by_cases h : hasId attrs = true
  · simp only [h, if_true]
    unfold idOf
    unfold hasId at h
    rw [List.any_eq_true] at h
    obtain ⟨a, ha, hp⟩ := h
    induction attrs with
    | nil => cases ha
    | cons x xs ih =>
      simp only [List.map_cons, List.cons_append]
      by_cases hx : x.1 = s "id"
      · simp [hx, List.find?_cons]
      · simp only [hx, if_false, List.find?_cons, decide_false]
        rcases List.mem_cons.mp ha with rfl | ha'
        · exact absurd (by simpa using hp) hx
        · exact ih ha'
  · have hn : attrs.find? (fun a => a.1 = s "id") = none := by
      rw [List.find?_eq_none]
      intro a ha
      have h' : hasId attrs = false := by simpa using h
      unfold hasId at h'
      rw [List.any_eq_false] at h'
      simpa using h' a ha
    simp only [h, Bool.false_eq_true, if_false]
    unfold idOf
    rw [List.find?_append, hn]
    simp

/-- what `visit` does: the element ends up with exactly the id pushed on `seen`; that id is the author's (if it is
new) or the generated id `c` (and then the counter moves on) -/
theorem visit_spec (pre : Str) (c : Nat) (seen : List Str) (attrs : List (Str × Str)) :
    let v := visit pre c seen attrs
    (∃ a, idOf attrs = some a ∧ a ∉ seen ∧ v = (attrs, c, a :: seen)) ∨
    (idOf v.1 = some (gen pre c) ∧ v.2.1 = c + 1 ∧ v.2.2 = gen pre c :: seen) := by
  unfold visit
  cases h : idOf attrs with
  | none => right; exact ⟨idOf_setId _ _, rfl, rfl⟩
  | some a =>
    show (∃ a_1, some a = some a_1 ∧ a_1 ∉ seen ∧ (if seen.contains a = true then _ else _) = (attrs, c, a_1 :: seen)) ∨
      (idOf (if seen.contains a = true then _ else _ : List (Str × Str) × Nat × List Str).1 = some (gen pre c) ∧
       (if seen.contains a = true then _ else _ : List (Str × Str) × Nat × List Str).2.1 = c + 1 ∧
       (if seen.contains a = true then _ else _ : List (Str × Str) × Nat × List Str).2.2 = gen pre c :: seen)
    by_cases hc : seen.contains a = true
    · right; rw [if_pos hc]; exact ⟨idOf_setId _ _, rfl, rfl⟩
    · left; rw [if_neg hc]
      exact ⟨a, rfl, by simpa using hc, rfl⟩

/-- invariant of the traversal: ids seen so far are distinct and no id the counter can still produce is among them -/
def Inv (pre : Str) (c : Nat) (seen : List Str) : Prop := seen.Nodup ∧ ∀ k, c ≤ k → gen pre k ∉ seen

theorem visit_inv (pre : Str) (c : Nat) (seen : List Str) (attrs : List (Str × Str)) (hI : Inv pre c seen)
    (hA : ∀ k, idOf attrs ≠ some (gen pre k)) :
    let v := visit pre c seen attrs
    c ≤ v.2.1 ∧ Inv pre v.2.1 v.2.2 ∧ ∃ i, idOf v.1 = some i ∧ v.2.2 = i :: seen := by
  intro v
  rcases visit_spec pre c seen attrs with ⟨a, ha, hns, hv⟩ | ⟨h1, h2, h3⟩
  · have : v = (attrs, c, a :: seen) := hv
    rw [this]
    refine ⟨Nat.le_refl _, ⟨List.nodup_cons.mpr ⟨hns, hI.1⟩, ?_⟩, a, ha, rfl⟩
    intro k hk hm
    rcases List.mem_cons.mp hm with h | h
    · exact hA k (by rw [ha, h])
    · exact hI.2 k hk h
  · refine ⟨by show c ≤ v.2.1; rw [h2]; omega, ?_, gen pre c, h1, h3⟩
    show Inv pre v.2.1 v.2.2
    rw [h2, h3]
    refine ⟨List.nodup_cons.mpr ⟨hI.2 c (Nat.le_refl _), hI.1⟩, ?_⟩
    intro k hk hm
    rcases List.mem_cons.mp hm with h | h
    · have := gen_injective pre k c h; omega
    · exact hI.2 k (by omega) h

mutual
/-- the traversal keeps the invariant, and the ids it pushes on `seen` are exactly the ids of the elements it visited -/
theorem addIds_spec (pre : Str) (c : Nat) (seen : List Str) (t : Node) (hI : Inv pre c seen)
    (hA : ∀ k, some (gen pre k) ∉ idsOf t) :
    c ≤ (addIds pre c seen t).2.1 ∧ Inv pre (addIds pre c seen t).2.1 (addIds pre c seen t).2.2 ∧
    (addIds pre c seen t).2.2.map some = (idsOf (addIds pre c seen t).1).reverse ++ seen.map some := by
  cases t with
  | text x => simp [addIds, idsOf, hI]
  | elem n attrs kids =>
    have hA0 : ∀ k, idOf attrs ≠ some (gen pre k) := by
      intro k h; exact hA k (by simp [idsOf, h])
    have hv := visit_inv pre c seen attrs hI hA0
    obtain ⟨hle, hInv, i, hid, hseen⟩ := hv
    by_cases hl : isLeafName n = true
    · simp only [addIds, hl, if_true, idsOf]
      refine ⟨hle, hInv, ?_⟩
      rw [hseen, hid]; simp
    · simp only [addIds, hl, Bool.false_eq_true, if_false, idsOf]
      have hAk : ∀ k, some (gen pre k) ∉ idsOfL kids := by
        intro k h; exact hA k (by simp [idsOf, hl, h])
      have ih := addIdsL_spec pre _ _ kids hInv hAk
      refine ⟨by omega, ih.2.1, ?_⟩
      rw [ih.2.2, hseen, hid]; simp
theorem addIdsL_spec (pre : Str) (c : Nat) (seen : List Str) (ts : List Node) (hI : Inv pre c seen)
    (hA : ∀ k, some (gen pre k) ∉ idsOfL ts) :
    c ≤ (addIdsL pre c seen ts).2.1 ∧ Inv pre (addIdsL pre c seen ts).2.1 (addIdsL pre c seen ts).2.2 ∧
    (addIdsL pre c seen ts).2.2.map some = (idsOfL (addIdsL pre c seen ts).1).reverse ++ seen.map some := by
  cases ts with
  | nil => simp [addIdsL, idsOfL, hI]
  | cons k ks =>
    simp only [addIdsL, idsOfL]
    have hA1 : ∀ j, some (gen pre j) ∉ idsOf k := by intro j h; exact hA j (by simp [idsOfL, h])
    have hA2 : ∀ j, some (gen pre j) ∉ idsOfL ks := by intro j h; exact hA j (by simp [idsOfL, h])
    have h1 := addIds_spec pre c seen k hI hA1
    have h2 := addIdsL_spec pre _ _ ks h1.2.1 hA2
    refine ⟨by omega, h2.2.1, ?_⟩
    rw [h2.2.2, h1.2.2]; simp
end

/-- **every element `add_ids` visits carries an id afterwards, and all these ids are distinct** — also when the author
repeated ids — provided no author id has the shape `<this call's random prefix><digits>` -/
theorem addIds_distinct (pre : Str) (t : Node) (hA : ∀ k, some (gen pre k) ∉ idsOf t) :
    (idsOf (addIds pre 0 [] t).1).Nodup ∧ ∀ i ∈ idsOf (addIds pre 0 [] t).1, i.isSome = true := by
  have h := addIds_spec pre 0 [] t ⟨List.nodup_nil, by simp⟩ hA
  have hmap : (addIds pre 0 [] t).2.2.map some = (idsOf (addIds pre 0 [] t).1).reverse := by simpa using h.2.2
  have hn : ((addIds pre 0 [] t).2.2.map some).Nodup :=
    List.Pairwise.map some (fun a b (hab : a ≠ b) => fun h => hab (Option.some.inj h)) h.2.1.1
  rw [hmap] at hn
  have hn2 : (idsOf (addIds pre 0 [] t).1).Nodup := by
    have := List.pairwise_reverse.mp hn
    exact this.imp (fun h => fun e => h e.symm)
  refine ⟨hn2, ?_⟩
  intro i hi
  have : i ∈ (addIds pre 0 [] t).2.2.map some := by rw [hmap]; exact List.mem_reverse.mpr hi
  obtain ⟨x, _, rfl⟩ := List.mem_map.mp this
  rfl

mutual
/-- an author id that did not occur earlier in the document is kept on its element: the output's attribute list is
the input's, unless the id is missing or a repeat -/
theorem addIds_keeps_author (pre : Str) (c : Nat) (seen : List Str) (t : Node) :
    ∀ i ∈ idsOf (addIds pre c seen t).1, (∃ k, i = some (gen pre k)) ∨ i ∈ idsOf t := by
  cases t with
  | text x => simp [addIds, idsOf]
  | elem n attrs kids =>
    have hv : idOf (visit pre c seen attrs).1 = idOf attrs ∨ idOf (visit pre c seen attrs).1 = some (gen pre c) := by
      rcases visit_spec pre c seen attrs with ⟨a, _, _, hv⟩ | ⟨h1, _, _⟩
      · left; rw [show visit pre c seen attrs = (attrs, c, a :: seen) from hv]
      · right; exact h1
    by_cases hl : isLeafName n = true
    · simp only [addIds, hl, if_true, idsOf]
      intro i hi
      simp only [List.mem_singleton] at hi
      rcases hv with h | h
      · right; simp [hi, h]
      · left; exact ⟨c, by rw [hi, h]⟩
    · simp only [addIds, hl, Bool.false_eq_true, if_false, idsOf]
      intro i hi
      rcases List.mem_cons.mp hi with hi | hi
      · rcases hv with h | h
        · right; simp [hi, h]
        · left; exact ⟨c, by rw [hi, h]⟩
      · rcases addIdsL_keeps_author pre _ _ kids i hi with h | h
        · left; exact h
        · right; simp [h]
theorem addIdsL_keeps_author (pre : Str) (c : Nat) (seen : List Str) (ts : List Node) :
    ∀ i ∈ idsOfL (addIdsL pre c seen ts).1, (∃ k, i = some (gen pre k)) ∨ i ∈ idsOfL ts := by
  cases ts with
  | nil => simp [addIdsL, idsOfL]
  | cons k ks =>
    simp only [addIdsL, idsOfL]
    intro i hi
    rcases List.mem_append.mp hi with hi | hi
    · rcases addIds_keeps_author pre c seen k i hi with h | h
      · left; exact h
      · right; simp [h]
    · rcases addIdsL_keeps_author pre _ _ ks i hi with h | h
      · left; exact h
      · right; simp [h]
end

/-- the premise of `addIds_distinct` is satisfiable and the conclusion non-trivial: a tree with a repeated author id -/
example : (idsOf (addIds (s "M-") 0 [] (.elem (s "mrow") [(s "id", s "a")] [.elem (s "mi") [(s "id", s "a")] [], .elem (s "mi") [] []])).1)
    = [some (s "a"), some (s "M-0"), some (s "M-1")] := by decide +kernel

end MC.Props.C09
