import MC.Props.C10
/-!
# C14 — broken rule files give errors and recovery is complete (the cache layer)

Faults and repairs are changes of the abstract file system between calls. The YAML parser's and the OS's behaviour on a
damaged file is the predicate `good`; what the model adds is the bookkeeping: when an error is reported, what the caches
look like afterwards, and when a repaired file is read again.
-/
namespace MC.Props.C14
open MC.Loader MC.Props.C10

/-- **a fault is an error, not a stale answer**: if a cache has to load and a file it needs is broken, the call reports
the error; afterwards the cache is in the state of a fresh session (nothing loaded, nothing recorded) -/
theorem fault_is_error (k : Kind) (c : Cell) (pref : Path) (ignore : Bool) (fs : FS)
    (hn : needsLoad k c pref ignore fs = true) (hb : (fs.incl pref).all fs.good = false) :
    (refresh k c pref ignore fs).2 = false ∧ (refresh k c pref ignore fs).1 = Cell.empty := by
  unfold refresh; simp [hn, hb]

/-- whenever a refresh reports an error, the cache it leaves is the empty one -/
theorem error_leaves_empty (k : Kind) (c : Cell) (pref : Path) (ignore : Bool) (fs : FS)
    (he : (refresh k c pref ignore fs).2 = false) : (refresh k c pref ignore fs).1 = Cell.empty := by
  unfold refresh at he ⊢
  by_cases hn : needsLoad k c pref ignore fs = true
  · by_cases hg : (fs.incl pref).all fs.good = true
    · simp [hn, hg] at he
    · simp [hn, hg]
  · simp [hn] at he

/-- an empty cache always loads: every kind, whatever `CheckRuleFiles` says and whichever file is preferred -/
theorem empty_needs_load (k : Kind) (pref : Path) (ignore : Bool) (fs : FS) : needsLoad k Cell.empty pref ignore fs = true := by
  cases k <;> simp [needsLoad, Cell.empty, upToDate]

/-- **recovery after an error is complete, in every `CheckRuleFiles` mode and after re-pointing**: whatever the cache held,
if a refresh fails (some file is broken), then the next refresh against repaired files — any preferred file, file checking
on or off, whatever the time stamps — succeeds and builds exactly the table a fresh session builds.
(Before the repair 'fix: a failed load of rule files is retried', the record of the files survived the failed load: going back
to the files recorded there left the short Unicode table and the definitions empty, see DESIGN §8.2.) -/
theorem recovery_after_error (k : Kind) (c : Cell) (pref pref' : Path) (ignore ignore' : Bool) (fs fs' : FS)
    (he : (refresh k c pref ignore fs).2 = false) (hs : Sane fs') :
    (refresh k (refresh k c pref ignore fs).1 pref' ignore' fs').2 = true ∧
    (refresh k (refresh k c pref ignore fs).1 pref' ignore' fs').1.data = contentOf fs' (fs'.incl pref') := by
  rw [error_leaves_empty k c pref ignore fs he]
  unfold refresh
  simp [empty_needs_load, hs.good pref']

/-- a failing rule set makes the whole call fail (and later caches are not touched) -/
theorem call_reports_rules_fault (s : Caches) (p : Pref) (ignore full : Bool) (fs : FS)
    (hn : needsLoad .rules s.rules p.rules ignore fs = true) (hb : (fs.incl p.rules).all fs.good = false) :
    (call s p ignore full fs).2 = false := by
  have := (fault_is_error .rules s.rules p.rules ignore fs hn hb).1
  unfold call; simp [this]

/-- **with file checking enabled a newer file is always noticed**, by every kind of cache -/
theorem newer_is_noticed (k : Kind) (c : Cell) (pref : Path) (fs : FS) (q tq : Nat) (hq : (q, tq) ∈ c.files)
    (hnew : fs.mtime q > tq) : needsLoad k c pref false fs = true := by
  have hu : upToDate c pref false fs = false := by
    unfold upToDate
    cases hf : c.files with
    | nil => rfl
    | cons x rest =>
      obtain ⟨p, t⟩ := x
      simp only [Bool.false_or, Bool.and_eq_false_iff]
      right; right
      rw [List.all_eq_false]
      refine ⟨(q, tq), by rw [← hf]; exact hq, ?_⟩
      simp only [decide_eq_true_eq]; omega
  cases k <;> simp [needsLoad, hu]

/-- **re-pointing always reloads**: a preferred file different from the recorded head file is loaded whatever
`CheckRuleFiles` says -/
theorem repoint_is_noticed (k : Kind) (c : Cell) (pref : Path) (ignore : Bool) (fs : FS)
    (h : ∀ t rest, c.files ≠ (pref, t) :: rest) : needsLoad k c pref ignore fs = true := by
  have hu : upToDate c pref ignore fs = false := by
    cases hu : upToDate c pref ignore fs with
    | false => rfl
    | true => obtain ⟨t, rest, hf⟩ := upToDate_head c pref ignore fs hu; exact absurd hf (h t rest)
  cases k <;> simp [needsLoad, hu]

/-- rule tables and the full Unicode table retry after an error even without file checking (their emptiness is looked at) -/
theorem retry_after_error (c : Cell) (pref : Path) (ignore : Bool) (fs : FS) (hd : c.data = []) :
    needsLoad .rules c pref ignore fs = true ∧ needsLoad .uniFull c pref ignore fs = true := by
  simp [needsLoad, hd]

/-- every cache a session can reach has a record exactly when it has a table (so "recorded but empty", the state in which
the short Unicode table and the definitions used not to retry, does not occur) -/
def Paired (c : Cell) : Prop := c.files = [] ↔ c.data = []

theorem paired_refresh (k : Kind) (c : Cell) (pref : Path) (ignore : Bool) (fs : FS) (hs : Sane fs) (h : Paired c) :
    Paired (refresh k c pref ignore fs).1 := by
  unfold refresh
  by_cases hn : needsLoad k c pref ignore fs = true
  · by_cases hg : (fs.incl pref).all fs.good = true
    · obtain ⟨rest, hr⟩ := hs.head pref
      rw [hr] at hg
      simp only [hn, if_true, Paired, timesOf, contentOf, hr, List.map_cons, hg]
      constructor <;> intro h' <;> cases h'
    · simp [hn, hg, Paired, Cell.empty]
  · simp [hn]; exact h

/-- **recovery is complete** (one cache). After ANY sequence of faults and failed or successful calls, let the files be
repaired (`Sane`). With file checking enabled, a cache that is not already coherent with the repaired files is reloaded
— provided the repair is visible: some recorded file is strictly newer than when it was read, or the preferred file is
not the recorded head file, or nothing was recorded. Then the call succeeds and the table is the one a fresh session builds. -/
theorem recovery_complete (k : Kind) (c : Cell) (pref : Path) (fs : FS) (hs : Sane fs)
    (hvis : Coh c fs ∧ (c.data = [] → c = Cell.empty) ∨ (∃ q tq, (q, tq) ∈ c.files ∧ fs.mtime q > tq) ∨ (∀ t rest, c.files ≠ (pref, t) :: rest)) :
    (refresh k c pref false fs).2 = true ∧ (refresh k c pref false fs).1.data = contentOf fs (fs.incl pref) := by
  rcases hvis with ⟨hc, _⟩ | ⟨q, tq, hq, hnew⟩ | hrep
  · have := refresh_coherent k c pref false fs hs hc
    exact ⟨this.1, this.2.1⟩
  · have hn := newer_is_noticed k c pref fs q tq hq hnew
    unfold refresh; simp [hn, hs.good pref]
  · have hn := repoint_is_noticed k c pref false fs hrep
    unfold refresh; simp [hn, hs.good pref]

/-- whole call: if every cache is coherent with the repaired files or visibly stale, the call succeeds and computes from
the fresh tables -/
theorem recovery_complete_call (s : Caches) (p : Pref) (full : Bool) (fs : FS) (hs : Sane fs)
    (vis : ∀ (c : Cell) (pref : Path), (c, pref) ∈ [(s.rules, p.rules), (s.uniShort, p.uniShort), (s.defs, p.defs), (s.uniFull, p.uniFull)] →
      Coh c fs ∧ (c.data = [] → c = Cell.empty) ∨ (∃ q tq, (q, tq) ∈ c.files ∧ fs.mtime q > tq) ∨ (∀ t rest, c.files ≠ (pref, t) :: rest)) :
    (call s p false full fs).2 = true ∧ view (call s p false full fs).1 full = freshView p full fs := by
  have r := recovery_complete .rules s.rules p.rules fs hs (vis _ _ (by simp))
  have u := recovery_complete .uniShort s.uniShort p.uniShort fs hs (vis _ _ (by simp))
  have d := recovery_complete .defs s.defs p.defs fs hs (vis _ _ (by simp))
  have f := recovery_complete .uniFull s.uniFull p.uniFull fs hs (vis _ _ (by simp))
  unfold call
  simp only [r.1, u.1, d.1, Bool.not_true, Bool.false_eq_true, if_false]
  cases full with
  | true => simp only [if_true, view, freshView, r.2, u.2, d.2, f.2]; exact ⟨f.1, trivial⟩
  | false => simp only [Bool.false_eq_true, if_false, view, freshView, r.2, u.2, d.2]; exact ⟨trivial, trivial⟩

/-- why "strictly newer" is needed for a change that did NOT produce an error: a file rewritten with its old time stamp
is not seen (the table built from version 1 is kept although the file now holds version 2) -/
theorem same_time_not_noticed :
    ∃ (c : Cell) (fs : FS), (fs.incl 3).all fs.good = true ∧ c.data = [(3, 1)] ∧ fs.content 3 = 2 ∧ (refresh .uniShort c 3 false fs).1.data = [(3, 1)] :=
  ⟨⟨[(3, 50)], [(3, 1)]⟩, { content := fun _ => 2, mtime := fun _ => 50, good := fun _ => true, incl := fun p => [p] }, by decide, rfl, rfl, by decide⟩

end MC.Props.C14
