import MC.Props.C16
/-!
# C16 — a number split at its separators folds into the unsplit number (the scan of `merge_number_blocks`)

For EVERY separator setting (`GoodSeps`), every number of the locale grammar (1–3 digit lead group, any number of
3-digit groups, optionally a decimal mark and digits) that a generator has split into `mn` digit groups and `mo` / `mtext`
separators, in a row where the number is followed by a token that is not part of a number: the scan merges exactly these
tokens into one `mn` whose text is the unsplit number, and goes on behind it — which is what it does with the unsplit
`mn` as well (`split_eq_unsplit`).
-/
namespace MC.Props.C16
open MC.Numbers

/-- the tokens of a fully split number; separators may be `mo` (kind 1) or `mtext` (kind 2) -/
def groupToks (k : Nat) (groups : List (Nat × Str)) : List Tok := groups.flatMap fun g => [⟨k, [g.1]⟩, ⟨0, g.2⟩]

def fracToks (k : Nat) : Option (Nat × Str) → List Tok
  | none => []
  | some (d, fd) => [⟨k, [d]⟩, ⟨0, fd⟩]

def fracText : Option (Nat × Str) → Str
  | none => []
  | some (d, fd) => d :: fd

def splitToks (k : Nat) (lead : Str) (groups : List (Nat × Str)) (frac : Option (Nat × Str)) : List Tok :=
  ⟨0, lead⟩ :: (groupToks k groups ++ fracToks k frac)

def numText (lead : Str) (groups : List (Nat × Str)) (frac : Option (Nat × Str)) : Str := intText lead groups ++ fracText frac

/-- a token at which the sibling scan stops without judging the block: not an `mn`, and free of separator characters -/
def stops (S : Seps) (t : Tok) : Prop := t.kind ≠ 0 ∧ hasAny S.block t.text = false ∧ hasAny S.dec t.text = false

/-! ## digits contain no separators -/

theorem dig_not_block (S : Seps) (hS : GoodSeps S) (c : Nat) (h : isDig c = true) : S.block.contains c = false := by
  cases hb : S.block.contains c with
  | false => rfl
  | true => have := hS.blockNoDigit c (by simpa using hb); rw [this] at h; cases h

theorem dig_not_dec (S : Seps) (hS : GoodSeps S) (c : Nat) (h : isDig c = true) : S.dec.contains c = false := by
  cases hb : S.dec.contains c with
  | false => rfl
  | true => have := hS.decNoDigit c (by simpa using hb); rw [this] at h; cases h

theorem digits_no_seps (S : Seps) (hS : GoodSeps S) (s : Str) (h : allDig s = true) :
    hasAny S.block s = false ∧ hasAny S.dec s = false := by
  unfold allDig at h; rw [List.all_eq_true] at h
  unfold hasAny
  constructor
  · rw [List.any_eq_false]; intro c hc; rw [dig_not_block S hS c (h c hc)]; simp
  · rw [List.any_eq_false]; intro c hc; rw [dig_not_dec S hS c (h c hc)]; simp

theorem dec_not_block (S : Seps) (hS : GoodSeps S) (d : Nat) (h : S.dec.contains d = true) : S.block.contains d = false := by
  cases hb : S.block.contains d with
  | false => rfl
  | true => have := hS.disjoint d (by simpa using hb); rw [this] at h; cases h

/-! ## the sibling scan runs over the whole split number -/

theorem scan_digits (S : Seps) (hS : GoodSeps S) (hd : Bool) (ds : Str) (hds : allDig ds = true) (r : List Tok) :
    scanSibs S false hd (⟨0, ds⟩ :: r) = ((scanSibs S false hd r).1 + 1, (scanSibs S false hd r).2) := by
  obtain ⟨h1, h2⟩ := digits_no_seps S hS ds hds
  simp [scanSibs, h1, h2]

theorem scan_block_sep (S : Seps) (hS : GoodSeps S) (k : Nat) (hk : k = 1 ∨ k = 2) (hd : Bool) (c : Nat) (hc : S.block.contains c = true) (r : List Tok) :
    scanSibs S false hd (⟨k, [c]⟩ :: r) = ((scanSibs S false hd r).1 + 1, (scanSibs S false hd r).2) := by
  have hnd : S.dec.contains c = false := hS.disjoint c (by simpa using hc)
  have hc' : c ∈ S.block := by simpa using hc
  have hnd' : c ∉ S.dec := by simpa using hnd
  rcases hk with rfl | rfl <;> simp [scanSibs, hasAny, hc', hnd']

theorem scan_groups (S : Seps) (hS : GoodSeps S) (k : Nat) (hk : k = 1 ∨ k = 2) (hd : Bool) (groups : List (Nat × Str))
    (hg : ∀ g ∈ groups, S.block.contains g.1 = true ∧ allDig g.2 = true ∧ g.2.length = 3) (r : List Tok) :
    scanSibs S false hd (groupToks k groups ++ r) = ((scanSibs S false hd r).1 + (groupToks k groups).length, (scanSibs S false hd r).2) := by
  induction groups with
  | nil => simp [groupToks]
  | cons g gs ih =>
    obtain ⟨hb, hdg, _⟩ := hg g (by simp)
    have ih' := ih (fun g' hg' => hg g' (by simp [hg']))
    simp only [groupToks, List.flatMap_cons, List.cons_append, List.nil_append, List.length_cons, List.length_append] at ih' ⊢
    rw [scan_block_sep S hS k hk hd g.1 hb, scan_digits S hS hd g.2 hdg, ih']
    simp only [Prod.mk.injEq, and_true]
    omega

theorem scan_frac (S : Seps) (hS : GoodSeps S) (k : Nat) (hk : k = 1 ∨ k = 2) (frac : Option (Nat × Str))
    (hfr : ∀ d fd, frac = some (d, fd) → S.dec.contains d = true ∧ allDig fd = true) (stop : Tok) (hstop : stops S stop) (rest : List Tok) :
    scanSibs S false false (fracToks k frac ++ stop :: rest) = ((fracToks k frac).length, false) := by
  have hstopScan : ∀ hd, scanSibs S false hd (stop :: rest) = (0, false) := by
    intro hd
    obtain ⟨h0, hb, hdd⟩ := hstop
    simp only [scanSibs, h0, if_false, hb, hdd]
    by_cases h12 : stop.kind = 1 ∨ stop.kind = 2
    · simp [h12]
    · simp [h12]
  cases frac with
  | none => simp [fracToks, hstopScan]
  | some p =>
    obtain ⟨d, fd⟩ := p
    obtain ⟨hd, hfd⟩ := hfr d fd rfl
    have hnb := dec_not_block S hS d hd
    have hk0 : k ≠ 0 := by omega
    simp only [fracToks, List.cons_append, List.nil_append, List.length_cons, List.length_nil]
    have hd' : d ∈ S.dec := by simpa using hd
    have hnb' : d ∉ S.block := by simpa using hnb
    have h1 : scanSibs S false false (⟨k, [d]⟩ :: ⟨0, fd⟩ :: stop :: rest) =
        ((scanSibs S false true (⟨0, fd⟩ :: stop :: rest)).1 + 1, (scanSibs S false true (⟨0, fd⟩ :: stop :: rest)).2) := by
      have step : ∀ (r : List Tok), scanSibs S false false (⟨k, [d]⟩ :: r) = ((scanSibs S false true r).1 + 1, (scanSibs S false true r).2) := by
        intro r
        rcases hk with rfl | rfl <;> simp [scanSibs, hasAny, hd', hnb']
      exact step _
    rw [h1, scan_digits S hS true fd hfd, hstopScan true]

theorem scan_split (S : Seps) (hS : GoodSeps S) (k : Nat) (hk : k = 1 ∨ k = 2) (groups : List (Nat × Str))
    (hg : ∀ g ∈ groups, S.block.contains g.1 = true ∧ allDig g.2 = true ∧ g.2.length = 3)
    (frac : Option (Nat × Str)) (hfr : ∀ d fd, frac = some (d, fd) → S.dec.contains d = true ∧ allDig fd = true)
    (stop : Tok) (hstop : stops S stop) (rest : List Tok) :
    scanSibs S false false ((groupToks k groups ++ fracToks k frac) ++ stop :: rest) = ((groupToks k groups ++ fracToks k frac).length, false) := by
  rw [List.append_assoc, scan_groups S hS k hk false groups hg, scan_frac S hS k hk frac hfr stop hstop rest]
  simp only [List.length_append, Prod.mk.injEq, and_true]
  omega

/-! ## the gathered text is the unsplit number -/

theorem gather_groups (k : Nat) (hk : k = 1 ∨ k = 2) (groups : List (Nat × Str)) (r : List Tok) :
    gather true (groupToks k groups ++ r) = (groups.flatMap fun g => g.1 :: g.2) ++ gather true r := by
  induction groups with
  | nil => simp [groupToks]
  | cons g gs ih =>
    have hk0 : k ≠ 0 := by omega
    simp only [groupToks, List.flatMap_cons, List.cons_append, List.nil_append] at ih ⊢
    simp only [gather, hk0, Bool.and_false, Bool.false_eq_true, if_false, List.nil_append, decide_false, decide_true, List.append_assoc,
      List.cons_append, Bool.false_and]
    rw [ih]

theorem gather_frac (k : Nat) (hk : k = 1 ∨ k = 2) (frac : Option (Nat × Str)) : gather true (fracToks k frac) = fracText frac := by
  have hk0 : k ≠ 0 := by omega
  cases frac with
  | none => rfl
  | some p => obtain ⟨d, fd⟩ := p; simp [fracToks, fracText, gather, hk0]

theorem gather_split (k : Nat) (hk : k = 1 ∨ k = 2) (lead : Str) (groups : List (Nat × Str)) (frac : Option (Nat × Str)) :
    gather false (splitToks k lead groups frac) = numText lead groups frac := by
  unfold splitToks numText intText
  simp only [gather, Bool.false_and, Bool.false_eq_true, if_false, List.nil_append, decide_true]
  rw [gather_groups k hk groups (fracToks k frac), gather_frac k hk frac, List.append_assoc]

theorem texts_groups (k : Nat) (groups : List (Nat × Str)) :
    ((groupToks k groups).map (·.text)).flatten = groups.flatMap fun g => g.1 :: g.2 := by
  induction groups with
  | nil => rfl
  | cons g gs ih =>
    simp only [groupToks, List.flatMap_cons, List.map_append, List.flatten_append, List.map_cons, List.map_nil, List.flatten_cons,
      List.flatten_nil, List.append_nil] at ih ⊢
    rw [ih]; simp

theorem texts_frac (k : Nat) (frac : Option (Nat × Str)) : ((fracToks k frac).map (·.text)).flatten = fracText frac := by
  cases frac with
  | none => rfl
  | some p => obtain ⟨d, fd⟩ := p; simp [fracToks, fracText]

theorem texts_split (k : Nat) (lead : Str) (groups : List (Nat × Str)) (frac : Option (Nat × Str)) :
    ((splitToks k lead groups frac).map (·.text)).flatten = numText lead groups frac := by
  unfold splitToks numText intText
  simp only [List.map_cons, List.map_append, List.flatten_cons, List.flatten_append, texts_groups, texts_frac, List.append_assoc]

/-! ## the number ends in a digit group: trimming changes nothing -/

theorem dig_not_ws (c : Nat) (h : isDig c = true) : isWsChar c = false := by
  simp only [isDig, Bool.and_eq_true, decide_eq_true_eq] at h
  simp only [isWsChar, Bool.or_eq_false_iff, Bool.and_eq_false_iff, decide_eq_false_iff_not]
  omega

theorem trim_id (s : Str) (a : Nat) (m : Str) (z : Nat) (m' : Str) (h1 : s = a :: m) (ha : isWsChar a = false)
    (h2 : s.reverse = z :: m') (hz : isWsChar z = false) : trimWs s = s := by
  unfold trimWs
  have e1 : span isWsChar s = ([], s) := by rw [h1]; simp [span, ha]
  rw [e1]
  simp only
  have e2 : span isWsChar s.reverse = ([], s.reverse) := by rw [h2]; simp [span, hz]
  rw [e2]
  simp

theorem digits_trim (ds : Str) (hne : ds ≠ []) (hd : allDig ds = true) : trimWs ds = ds := by
  unfold allDig at hd; rw [List.all_eq_true] at hd
  obtain ⟨a, m, h1⟩ := List.exists_cons_of_ne_nil hne
  have hr : ds.reverse ≠ [] := by simpa using hne
  obtain ⟨z, m', h2⟩ := List.exists_cons_of_ne_nil hr
  have hz : z ∈ ds := by rw [← List.mem_reverse, h2]; simp
  exact trim_id ds a m z m' h1 (dig_not_ws a (hd a (by rw [h1]; simp))) h2 (dig_not_ws z (hd z hz))

/-- the unsplit text and the token list both end in a non-empty digit group -/
theorem ends_in_digits (S : Seps) (k : Nat) (lead : Str) (groups : List (Nat × Str)) (h : GoodInt S lead groups)
    (frac : Option (Nat × Str)) (hfr : ∀ d fd, frac = some (d, fd) → S.dec.contains d = true ∧ allDig fd = true ∧ fd ≠ []) :
    ∃ P ds Q, numText lead groups frac = P ++ ds ∧ splitToks k lead groups frac = Q ++ [⟨0, ds⟩] ∧ ds ≠ [] ∧ allDig ds = true := by
  have hleadne : lead ≠ [] := by
    intro he; have := h.leadLen; rw [he] at this; simp at this
  cases frac with
  | some p =>
    obtain ⟨d, fd⟩ := p
    obtain ⟨_, hfd, hne⟩ := hfr d fd rfl
    refine ⟨intText lead groups ++ [d], fd, ⟨0, lead⟩ :: (groupToks k groups ++ [⟨k, [d]⟩]), ?_, ?_, hne, hfd⟩
    · simp [numText, fracText]
    · simp [splitToks, fracToks]
  | none =>
    rcases List.eq_nil_or_concat groups with rfl | ⟨L, g, rfl⟩
    · refine ⟨[], lead, [], ?_, ?_, hleadne, h.leadDig⟩
      · simp [numText, fracText, intText]
      · simp [splitToks, fracToks, groupToks]
    · obtain ⟨_, hg2, hg3⟩ := h.groupOk g (by simp)
      refine ⟨lead ++ (L.flatMap fun g => g.1 :: g.2) ++ [g.1], g.2, ⟨0, lead⟩ :: (groupToks k L ++ [⟨k, [g.1]⟩]), ?_, ?_, ?_, hg2⟩
      · simp [numText, fracText, intText, List.flatMap_append]
      · simp [splitToks, fracToks, groupToks, List.flatMap_append]
      · intro he; rw [he] at hg3; simp at hg3

theorem numText_trim (S : Seps) (lead : Str) (groups : List (Nat × Str)) (h : GoodInt S lead groups)
    (frac : Option (Nat × Str)) (hfr : ∀ d fd, frac = some (d, fd) → S.dec.contains d = true ∧ allDig fd = true ∧ fd ≠ []) :
    trimWs (numText lead groups frac) = numText lead groups frac := by
  obtain ⟨P, ds, _, hP, _, hne, hd⟩ := ends_in_digits S 1 lead groups h frac hfr
  have hleadne : lead ≠ [] := by
    intro he; have := h.leadLen; rw [he] at this; simp at this
  obtain ⟨a, m, h1⟩ := List.exists_cons_of_ne_nil hleadne
  have ha : isDig a = true := by
    have := h.leadDig; unfold allDig at this; rw [List.all_eq_true] at this; exact this a (by rw [h1]; simp)
  have hr : ds.reverse ≠ [] := by simpa using hne
  obtain ⟨z, m', h2⟩ := List.exists_cons_of_ne_nil hr
  have hz : isDig z = true := by
    unfold allDig at hd; rw [List.all_eq_true] at hd
    exact hd z (by rw [← List.mem_reverse, h2]; simp)
  refine trim_id _ a (m ++ (groups.flatMap fun g => g.1 :: g.2) ++ fracText frac) z (m' ++ P.reverse) ?_ (dig_not_ws a ha) ?_ (dig_not_ws z hz)
  · simp [numText, intText, h1]
  · rw [hP, List.reverse_append, h2]; simp

/-! ## merging, and the loop -/

theorem mergeBlock_ends (t : Tok) (r : List Tok) (z : Tok) (Q : List Tok) (h0 : isBlankTok t = false) (hlast : t :: r = Q ++ [z])
    (hz : isBlankTok z = false) : mergeBlock (t :: r) = [⟨0, ((t :: r).map (·.text)).flatten⟩] := by
  unfold mergeBlock
  have hlead : (t :: r).takeWhile isBlankTok = [] := by simp [List.takeWhile, h0]
  simp only [hlead, List.length_nil, List.length_cons, List.drop_zero, List.nil_append]
  have hne' : ¬ (0 = r.length + 1) := by omega
  simp only [hne', if_false]
  have hrev : ((t :: r).reverse.takeWhile isBlankTok) = [] := by
    rw [hlast, List.reverse_append]; simp [List.takeWhile, hz]
  rw [hrev]
  simp

theorem digits_not_blank (ds : Str) (hne : ds ≠ []) (hd : allDig ds = true) : isBlankTok ⟨0, ds⟩ = false := by
  unfold isBlankTok
  rw [digits_trim ds hne hd]
  cases ds with
  | nil => exact absurd rfl hne
  | cons _ _ => rfl

/-- **a fully split number folds into the unsplit number.** In a row `… split-number stop …`, with the scan standing at the
first token of the split number, the loop puts out ONE `mn` whose text is the number as a single token would have it, and goes
on at `stop`. For every separator setting, every number of the grammar, separators given as `mo` or as `mtext`. -/
theorem fold_split (S : Seps) (hS : GoodSeps S) (k : Nat) (hk : k = 1 ∨ k = 2) (lead : Str) (groups : List (Nat × Str))
    (h : GoodInt S lead groups) (frac : Option (Nat × Str))
    (hfr : ∀ d fd, frac = some (d, fd) → S.dec.contains d = true ∧ allDig fd = true ∧ fd ≠ [])
    (hsplit : groups ≠ [] ∨ frac ≠ none) (stop : Tok) (hstop : stops S stop) (rest : List Tok) (f : Nat) :
    mergeLoop S false (f + 1) (splitToks k lead groups frac ++ stop :: rest) =
      ⟨0, numText lead groups frac⟩ :: mergeLoop S false f (stop :: rest) := by
  have hfr' : ∀ d fd, frac = some (d, fd) → S.dec.contains d = true ∧ allDig fd = true := fun d fd he => ⟨(hfr d fd he).1, (hfr d fd he).2.1⟩
  have hleadne : lead ≠ [] := by
    intro he; have := h.leadLen; rw [he] at this; simp at this
  obtain ⟨hlb, hld⟩ := digits_no_seps S hS lead h.leadDig
  have hstart : canStart S false ⟨0, lead⟩ = true := by simp [canStart, hlb, hld]
  have hscan := scan_split S hS k hk groups h.groupOk frac hfr' stop hstop rest
  have hn : 1 ≤ (groupToks k groups ++ fracToks k frac).length := by
    rcases hsplit with hg | hf
    · obtain ⟨g, gs, rfl⟩ := List.exists_cons_of_ne_nil hg
      simp [groupToks]
    · cases frac with
      | none => exact absurd rfl hf
      | some p => obtain ⟨d, fd⟩ := p; simp [fracToks]
  have htake : ((groupToks k groups ++ fracToks k frac) ++ stop :: rest).take (groupToks k groups ++ fracToks k frac).length =
      groupToks k groups ++ fracToks k frac := by
    rw [List.take_append_of_le_length (Nat.le_refl _), List.take_length]
  have hdrop : ((groupToks k groups ++ fracToks k frac) ++ stop :: rest).drop (groupToks k groups ++ fracToks k frac).length = stop :: rest := by
    rw [List.drop_append_of_le_length (Nat.le_refl _), List.drop_length, List.nil_append]
  have hlikely : isLikely S (⟨0, lead⟩ :: (groupToks k groups ++ fracToks k frac)) = true := by
    have hg := gather_split k hk lead groups frac
    unfold splitToks at hg
    unfold isLikely numberText
    rw [hg, numText_trim S lead groups h frac hfr]
    have hacc : blockPattern 3 S (numText lead groups frac) = true := by
      have := grammar_accepted S hS lead groups h frac hfr'
      cases frac with
      | none => simpa [numText, fracText] using this
      | some p => obtain ⟨d, fd⟩ := p; simpa [numText, fracText] using this
    simp [hacc]
  obtain ⟨P, ds, Q, _, hQ, hdsne, hdsd⟩ := ends_in_digits S k lead groups h frac hfr
  have hmerge : mergeBlock (⟨0, lead⟩ :: (groupToks k groups ++ fracToks k frac)) = [⟨0, numText lead groups frac⟩] := by
    have hQ' : (⟨0, lead⟩ : Tok) :: (groupToks k groups ++ fracToks k frac) = Q ++ [⟨0, ds⟩] := by unfold splitToks at hQ; exact hQ
    rw [mergeBlock_ends _ _ ⟨0, ds⟩ Q (digits_not_blank lead hleadne h.leadDig) hQ' (digits_not_blank ds hdsne hdsd)]
    have := texts_split k lead groups frac
    unfold splitToks at this
    rw [this]
  have hleadTok : (⟨0, lead⟩ :: (groupToks k groups ++ fracToks k frac)).takeWhile isBlankTok = [] := by
    simp [List.takeWhile, digits_not_blank lead hleadne h.leadDig]
  unfold splitToks
  simp only [List.cons_append, mergeLoop, hstart, Bool.not_true, Bool.false_eq_true, if_false, hscan, htake, hdrop, hlikely, hmerge,
    hleadTok, List.length_nil]
  simp
  intro h1 h2
  rw [h1, h2] at hn
  simp at hn

/-- the unsplit number is left as it is (it already contains its separators, so it does not start a block) -/
theorem unsplit_kept (S : Seps) (hS : GoodSeps S) (lead : Str) (groups : List (Nat × Str)) (h : GoodInt S lead groups)
    (frac : Option (Nat × Str)) (hfr : ∀ d fd, frac = some (d, fd) → S.dec.contains d = true ∧ allDig fd = true ∧ fd ≠ [])
    (hsplit : groups ≠ [] ∨ frac ≠ none) (r : List Tok) (f : Nat) :
    mergeLoop S false (f + 1) (⟨0, numText lead groups frac⟩ :: r) = ⟨0, numText lead groups frac⟩ :: mergeLoop S false f r := by
  have hns : canStart S false ⟨0, numText lead groups frac⟩ = false := by
    have hleadne : lead ≠ [] := by
      intro he; have := h.leadLen; rw [he] at this; simp at this
    simp only [canStart, if_true, Bool.not_eq_false', Bool.or_eq_true, Bool.and_eq_true, decide_eq_true_eq, true_or]
    rcases hsplit with hg | hf
    · left
      obtain ⟨g, gs, rfl⟩ := List.exists_cons_of_ne_nil hg
      obtain ⟨hb, _, _⟩ := h.groupOk g (by simp)
      have hb' : g.1 ∈ S.block := by simpa using hb
      simp only [hasAny, numText, intText, List.flatMap_cons, List.any_append, List.any_cons, Bool.or_eq_true]
      left; right; left; left; simpa using hb'
    · cases frac with
      | none => exact absurd rfl hf
      | some p =>
        obtain ⟨d, fd⟩ := p
        obtain ⟨hd, _, hne⟩ := hfr d fd rfl
        have hd' : d ∈ S.dec := by simpa using hd
        right
        constructor
        · obtain ⟨a, m, ha⟩ := List.exists_cons_of_ne_nil hleadne
          simp [numText, intText, fracText, ha]
          omega
        · simp only [hasAny, numText, fracText, List.any_append, List.any_cons, Bool.or_eq_true]
          right; left; simpa using hd'
  simp [mergeLoop, hns]

/-- **split = unsplit**: the scan gives the same row for the split spelling and for the single token -/
theorem split_eq_unsplit (S : Seps) (hS : GoodSeps S) (k : Nat) (hk : k = 1 ∨ k = 2) (lead : Str) (groups : List (Nat × Str))
    (h : GoodInt S lead groups) (frac : Option (Nat × Str))
    (hfr : ∀ d fd, frac = some (d, fd) → S.dec.contains d = true ∧ allDig fd = true ∧ fd ≠ [])
    (hsplit : groups ≠ [] ∨ frac ≠ none) (stop : Tok) (hstop : stops S stop) (rest : List Tok) (f : Nat) :
    mergeLoop S false (f + 1) (splitToks k lead groups frac ++ stop :: rest) =
      mergeLoop S false (f + 1) (⟨0, numText lead groups frac⟩ :: stop :: rest) := by
  rw [fold_split S hS k hk lead groups h frac hfr hsplit stop hstop rest f, unsplit_kept S hS lead groups h frac hfr hsplit (stop :: rest) f]

/-- non-vacuity: 12,345.67 in the English setting, followed by `+` -/
example : GoodSeps en ∧ GoodInt en [49, 50] [(44, [51, 52, 53])] ∧ stops en ⟨1, [43]⟩ ∧
    splitToks 1 [49, 50] [(44, [51, 52, 53])] (some (46, [54, 55])) = [t 0 "12", t 1 ",", t 0 "345", t 1 ".", t 0 "67"] ∧
    numText [49, 50] [(44, [51, 52, 53])] (some (46, [54, 55])) = "12,345.67".toList.map Char.toNat := by
  refine ⟨⟨by decide, by decide, by decide⟩, ⟨by decide, by decide, by decide⟩, ⟨by decide, by decide, by decide⟩, by decide, by decide⟩

end MC.Props.C16
