import MC.Model.Clean
/-!
# C09 for the clean-up skeleton: author ids are neither invented, duplicated nor reordered

`clean_ids`: the author ids of what `clean_mathml` (skeleton `MC.Clean`, with `add_attrs` transcribed for the lifts) returns
are a **sublist** of the author ids of its input, in document order — for every tree and parent context.  The clean-up can
lose an id only together with its element (an `mphantom`, a blank token, a row that is replaced by its single child: the
child's id wins, as `add_attrs` sets the child's attributes last); it never copies an id to a second element and never moves
one past another.  With `List.Sublist.nodup`: ids that were distinct stay distinct (`clean_ids_nodup`), which is what `add_ids`
(modelled in `MC.Xml.addIds`, C09's other theorems) relies on when it keeps author ids.
-/
namespace MC.Props.C09Clean
open MC.Xml MC.Clean

abbrev Str := List Nat

mutual
/-- author ids in document order -/
def ids : Node → List Str
  | .text _ => []
  | .elem _ attrs kids => (idOf attrs).toList ++ idsL kids
def idsL : List Node → List Str
  | [] => []
  | k :: ks => ids k ++ idsL ks
end

theorem idsL_append (a b : List Node) : idsL (a ++ b) = idsL a ++ idsL b := by
  induction a with
  | nil => simp [idsL]
  | cons k ks ih => simp [idsL, ih]

theorem idsL_sublist {a b : List Node} (h : a.Sublist b) : (idsL a).Sublist (idsL b) := by
  induction h with
  | slnil => exact List.Sublist.refl _
  | cons x _ ih => simp only [idsL]; exact List.Sublist.trans ih (List.sublist_append_right _ _)
  | cons_cons x _ ih => simp only [idsL]; exact List.Sublist.append (List.Sublist.refl _) ih

/-! ### attributes -/

theorem idOf_append_noid (a e : List (Str × Str)) (he : idOf e = none) : idOf (a ++ e) = idOf a := by
  unfold idOf at *
  rw [List.find?_append]
  cases h : a.find? (fun x => x.1 = s "id") with
  | some x => rfl
  | none => simpa using he

theorem idOf_filter (l : List (Str × Str)) (p : (Str × Str) → Bool) (hp : ∀ x ∈ l, x.1 = s "id" → p x = true) : idOf (l.filter p) = idOf l := by
  unfold idOf
  induction l with
  | nil => rfl
  | cons x xs ih =>
    have ih' := ih (fun y hy => hp y (List.mem_cons_of_mem _ hy))
    by_cases hx : x.1 = s "id"
    · have := hp x (List.mem_cons_self ..) hx
      simp [List.filter_cons, this, List.find?_cons, hx]
    · by_cases hpx : p x = true
      · simp only [List.filter_cons, hpx, if_true, List.find?_cons, hx, decide_false]
        simpa using ih'
      · simp only [List.filter_cons, hpx, List.find?_cons, hx, decide_false]
        simpa using ih'

theorem keeps_id : keepsAttr (s "id") = true := by decide

theorem any_id_false_of_idOf_none (a : List (Str × Str)) (h : idOf a = none) : (a.any fun y => y.1 = s "id") = false := by
  unfold idOf at h
  simp only [Option.map_eq_none_iff, List.find?_eq_none, decide_eq_true_eq] at h
  simp only [List.any_eq_false, decide_eq_true_eq]
  exact h

/-- `add_attrs`: the child's id wins; without one the row's id stays -/
theorem idOf_addAttrs (attrs a : List (Str × Str)) : idOf (addAttrs attrs a) = (match idOf a with | some c => some c | none => idOf attrs) := by
  unfold addAttrs
  cases h : idOf a with
  | some c =>
    unfold idOf at *
    rw [List.find?_append]
    cases h2 : a.find? (fun x => x.1 = s "id") with
    | some x => rw [h2] at h; simpa using h
    | none => rw [h2] at h; cases h
  | none =>
    have hany := any_id_false_of_idOf_none a h
    have h1 : idOf (a ++ attrs.filter fun x => keepsAttr x.1 && !(a.any fun y => y.1 = x.1)) =
        idOf (attrs.filter fun x => keepsAttr x.1 && !(a.any fun y => y.1 = x.1)) := by
      unfold idOf at *
      rw [List.find?_append]
      cases h2 : a.find? (fun x => x.1 = s "id") with
      | some x => rw [h2] at h; cases h
      | none => rfl
    rw [h1]
    apply idOf_filter
    intro x _ hx
    rw [hx, keeps_id, hany]; rfl

theorem ids_lift (attrs : List (Str × Str)) (k : Node) : (ids (lift attrs k)).Sublist ((idOf attrs).toList ++ ids k) := by
  cases k with
  | text t => simp [lift, ids]
  | elem n a kids =>
    simp only [lift, ids, idOf_addAttrs]
    cases h : idOf a with
    | some c => simp only [Option.toList]; exact List.sublist_append_right _ _
    | none => simp only [Option.toList, List.nil_append]; exact List.Sublist.refl _

/-! ### pieces of the clean-up -/

theorem ids_makeEmpty (attrs : List (Str × Str)) : ids (makeEmpty attrs) = (idOf attrs).toList := by
  simp only [makeEmpty, ids, idsL, List.append_nil]
  rw [idOf_append_noid _ _ (by decide)]

theorem ids_createEmpty : ids createEmpty = [] := by decide

theorem ids_leaf (n : Str) (attrs : List (Str × Str)) (t : Str) : ids (leaf n attrs t) = (idOf attrs).toList := by
  simp [leaf, ids, idsL]

/-- what a node may keep: its own id, then ids from below -/
def Below (r : Node) (attrs : List (Str × Str)) (rest : List Str) : Prop := (ids r).Sublist ((idOf attrs).toList ++ rest)

theorem own_sub (attrs : List (Str × Str)) (rest : List Str) : ((idOf attrs).toList).Sublist ((idOf attrs).toList ++ rest) :=
  List.sublist_append_left _ _

theorem cleanLeaf_ids (prc : Bool) (n : Str) (attrs : List (Str × Str)) (t : Str) (rest : List Str) (r : Node)
    (h : cleanLeaf prc n attrs t = some r) : (ids r).Sublist ((idOf attrs).toList ++ rest) := by
  unfold cleanLeaf at h
  repeat' split at h
  all_goals try (injection h with h; subst h)
  all_goals first
    | cases h
    | (rw [ids_makeEmpty]; exact own_sub _ _)
    | (rw [ids_leaf]; exact own_sub _ _)
    | (simp only [ids, idsL, ids_leaf, idOf_append_noid _ _ (show idOf [(s "data-changed", s "added")] = none by decide)]
       simp only [idOf, List.find?_nil, Option.map_none, Option.toList, List.append_nil, List.nil_append]
       exact own_sub _ _)
    | (simp only [ids]; split <;> simp [idsL, ids] <;> exact own_sub _ _)

theorem mergeWsLoop_sublist (acc : List Node) (prev : Node) (b : Bool) (rest : List Node) :
    (mergeWsLoop acc prev b rest).Sublist (acc ++ prev :: rest) := by
  induction rest generalizing acc prev b with
  | nil =>
    unfold mergeWsLoop
    split
    · exact List.sublist_append_left _ _
    · exact List.Sublist.refl _
  | cons c rest ih =>
    unfold mergeWsLoop
    split
    · exact List.Sublist.trans (ih acc prev b) (List.Sublist.append (List.Sublist.refl _) (List.Sublist.cons_cons _ (List.Sublist.cons _ (List.Sublist.refl _))))
    · split
      · exact List.Sublist.trans (ih acc c false) (List.Sublist.append (List.Sublist.refl _) (List.Sublist.cons _ (List.Sublist.refl _)))
      · have := ih (acc ++ [prev]) c (isWsMtext c)
        simpa [List.append_assoc] using this

theorem mergeWs_sublist (cs : List Node) : (mergeWs cs).Sublist cs := by
  cases cs with
  | nil => exact List.Sublist.refl _
  | cons k ks => simpa [mergeWs] using mergeWsLoop_sublist [] k (isWsMtext k) ks

theorem ids_mrow (attrs : List (Str × Str)) (kids : List Node) : ids (.elem (s "mrow") attrs kids) = (idOf attrs).toList ++ idsL kids := by rw [ids]

theorem rowFinish_ids (prc : Bool) (pn : Str) (attrs : List (Str × Str)) (cs : List Node) (rest : List Str)
    (hc : (idsL cs).Sublist rest) (r : Node) (h : rowFinish prc pn attrs cs = some r) : (ids r).Sublist ((idOf attrs).toList ++ rest) := by
  have hm : (ids (.elem (s "mrow") attrs (mergeWs cs))).Sublist ((idOf attrs).toList ++ rest) := by
    rw [ids_mrow]
    exact List.Sublist.append (List.Sublist.refl _) (List.Sublist.trans (idsL_sublist (mergeWs_sublist cs)) hc)
  unfold rowFinish at h
  repeat' split at h
  all_goals try (injection h with h; subst h)
  all_goals first
    | cases h
    | (rw [ids_makeEmpty]; exact own_sub _ _)
    | exact hm
    | (simp only [ids, idsL, List.append_nil]; exact own_sub _ _)
    | (refine List.Sublist.trans (ids_lift _ _) (List.Sublist.append (List.Sublist.refl _) ?_)
       simpa [idsL] using hc)

theorem assureOne_ids (cs : List Node) : idsL (assureOne cs) = idsL cs := by
  unfold assureOne
  split
  · simp [idsL, ids_createEmpty]
  · rfl
  · simp only [idsL, ids, List.append_nil]
    have : idOf [(s "data-changed", s "added")] = none := by decide
    rw [this]; rfl

theorem cleanMsubsup_ids (attrs : List (Str × Str)) (cs : List Node) : (ids (cleanMsubsup attrs cs)).Sublist ((idOf attrs).toList ++ idsL cs) := by
  unfold cleanMsubsup
  split
  · rename_i b sub sup
    repeat' split
    · rw [ids]; exact List.Sublist.refl _
    · rw [ids]; refine List.Sublist.append (List.Sublist.refl _) ?_
      simp only [idsL, List.append_nil]
      exact List.Sublist.append (List.Sublist.refl _) (List.sublist_append_left _ _)
    · rw [ids]; refine List.Sublist.append (List.Sublist.refl _) ?_
      simp only [idsL, List.append_nil]
      exact List.Sublist.append (List.Sublist.refl _) (List.sublist_append_right _ _)
    · simp only [idsL]
      exact List.Sublist.trans (List.sublist_append_left _ _) (List.sublist_append_right _ _)
  · rw [ids]; exact List.Sublist.refl _

theorem otherFinish_ids (prc : Bool) (n : Str) (attrs : List (Str × Str)) (cs : List Node) (rest : List Str)
    (hc : (idsL cs).Sublist rest) (r : Node) (h : otherFinish prc n attrs cs = some r) : (ids r).Sublist ((idOf attrs).toList ++ rest) := by
  have hgen : ∀ xs, (idsL xs).Sublist rest → (ids (.elem n attrs xs)).Sublist ((idOf attrs).toList ++ rest) := by
    intro xs hx; rw [ids]; exact List.Sublist.append (List.Sublist.refl _) hx
  unfold otherFinish at h
  split at h
  · injection h with h; subst h
    apply hgen
    rw [assureOne_ids]
    exact List.Sublist.trans (idsL_sublist (mergeWs_sublist cs)) hc
  · split at h
    · split at h
      · split at h
        · injection h with h; subst h; rw [ids_createEmpty]; exact List.nil_sublist _
        · cases h
      · split at h
        · cases cs with
          | nil => cases h
          | cons k ks =>
            have h' : (if prc = true then some k else none) = some r := h
            split at h'
            · injection h' with h'; subst h'
              simp only [idsL] at hc
              exact List.Sublist.trans (List.Sublist.trans (List.sublist_append_left _ _) hc) (List.sublist_append_right _ _)
            · cases h'
        · split at h
          · injection h with h; subst h
            exact List.Sublist.trans (cleanMsubsup_ids attrs cs) (List.Sublist.append (List.Sublist.refl _) hc)
          · injection h with h; subst h; exact hgen cs hc
    · injection h with h; subst h; exact hgen cs hc

/-! ### the theorem -/

mutual
/-- **C09 for the clean-up skeleton**: the author ids of what the clean-up returns are a sublist (same order, nothing invented,
nothing duplicated) of the author ids of its input -/
theorem clean_ids (prc : Bool) (pn : Str) : (t : Node) → (r : Node) → clean prc pn t = some r → (ids r).Sublist (ids t)
  | .text t, r, h => by rw [clean] at h; injection h with h; subst h; exact List.Sublist.refl _
  | .elem n attrs kids, r, h => by
    have ihL := fun (p : Bool) (q : Str) => cleanL_ids p q kids
    rw [ids]
    rw [clean] at h
    split at h
    · exact cleanLeaf_ids prc n attrs _ _ r h
    · split at h
      · repeat' split at h
        all_goals try (injection h with h; subst h)
        all_goals first
          | cases h
          | (rw [ids_makeEmpty]; exact own_sub _ _)
          | (simp only [ids, idsL, List.append_nil]; exact own_sub _ _)
      · split at h
        · split at h
          · injection h with h; subst h; rw [ids_makeEmpty]; exact own_sub _ _
          · cases h
        · split at h
          · -- mstyle / mpadded
            split at h
            · injection h with h; subst h
              refine List.Sublist.trans (ids_lift _ _) ?_
              rw [ids_createEmpty, List.append_nil]; exact own_sub _ _
            · split at h
              · have hL := ihL false n
                split at h
                · rename_i new rest heq
                  injection h with h; subst h
                  refine List.Sublist.trans (ids_lift _ _) (List.Sublist.append (List.Sublist.refl _) ?_)
                  rw [heq] at hL; simp only [idsL] at hL
                  exact List.Sublist.trans (List.sublist_append_left _ _) hL
                · split at h
                  · injection h with h; subst h; rw [ids_makeEmpty]; exact own_sub _ _
                  · cases h
              · refine List.Sublist.trans (rowFinish_ids prc pn _ _ _ (ihL false (s "mrow")) r h) ?_
                rw [idOf_append_noid _ _ (by decide)]; exact List.Sublist.refl _
          · split at h
            · -- mrow
              split at h
              · injection h with h; subst h
                rw [ids]; simp only [idsL, ids_createEmpty, List.append_nil]; exact own_sub _ _
              · split at h
                · have hL := ihL false n
                  split at h
                  · rename_i new rest heq
                    injection h with h; subst h
                    refine List.Sublist.trans (ids_lift _ _) (List.Sublist.append (List.Sublist.refl _) ?_)
                    rw [heq] at hL; simp only [idsL] at hL
                    exact List.Sublist.trans (List.sublist_append_left _ _) hL
                  · split at h
                    · injection h with h; subst h; rw [ids_makeEmpty]; exact own_sub _ _
                    · cases h
                · exact rowFinish_ids prc pn _ _ _ (ihL false n) r h
            · -- every other container
              split at h
              · split at h
                · injection h with h; subst h; rw [ids]; simp only [idsL, List.append_nil]; exact own_sub _ _
                · exact otherFinish_ids prc n attrs _ _ (by simp only [idsL, ids_createEmpty, List.append_nil]; exact List.nil_sublist _) r h
              · exact otherFinish_ids prc n attrs _ _ (ihL _ n) r h
theorem cleanL_ids (prc : Bool) (pn : Str) : (ts : List Node) → (idsL (cleanL prc pn ts)).Sublist (idsL ts)
  | [] => by rw [cleanL]; exact List.Sublist.refl _
  | k :: ks => by
    have h1 := clean_ids prc pn k
    have h2 := cleanL_ids prc pn ks
    rw [cleanL, idsL_append]
    simp only [idsL]
    refine List.Sublist.append ?_ h2
    cases hc : clean prc pn k with
    | none => exact List.nil_sublist _
    | some r => simp only [idsL, List.append_nil]; exact h1 r hc
end

/-- author ids that were distinct before the clean-up are distinct after it -/
theorem clean_ids_nodup (prc : Bool) (pn : Str) (t r : Node) (h : clean prc pn t = some r) (hd : (ids t).Nodup) : (ids r).Nodup :=
  List.Nodup.sublist (clean_ids prc pn t r h) hd

/-- ... and no id appears that the author did not write -/
theorem clean_ids_subset (prc : Bool) (pn : Str) (t r : Node) (h : clean prc pn t = some r) (i : Str) (hi : i ∈ ids r) : i ∈ ids t :=
  (clean_ids prc pn t r h).subset hi

example : (clean false (s "math") (.elem (s "mrow") [(s "id", s "r")] [.elem (s "mphantom") [(s "id", s "ph")] [.elem (s "mi") [] [.text (s "y")]],
    .elem (s "mi") [(s "id", s "x")] [.text (s "x")]])).map ids = some [s "x"] := by decide +kernel

end MC.Props.C09Clean
