/-!
`Erase X s t`: `t` is obtained from `s` by replacing some characters of the class `X` by arbitrary strings (deleting them,
substituting them, expanding them) and copying every other character. Such a rewriting keeps every `X`-free run of `s`
as a contiguous run of `t` (`Erase.keeps_infix`) — the shape of the braille clean-up phases modelled in `/verif`.
-/
namespace MC

inductive Erase (X : Nat → Bool) : List Nat → List Nat → Prop where
  | nil : Erase X [] []
  | keep (c : Nat) {s t : List Nat} : Erase X s t → Erase X (c :: s) (c :: t)
  | rep (x : Nat) (wd : List Nat) {s t : List Nat} : X x = true → Erase X s t → Erase X (x :: s) (wd ++ t)

namespace Erase
variable {X : Nat → Bool}

theorem refl : ∀ s : List Nat, Erase X s s
  | [] => .nil
  | c :: r => .keep c (refl r)

theorem del (x : Nat) {s t : List Nat} (hx : X x = true) (h : Erase X s t) : Erase X (x :: s) t := by
  have := Erase.rep x [] hx h
  simpa using this

theorem sub (x y : Nat) {s t : List Nat} (hx : X x = true) (h : Erase X s t) : Erase X (x :: s) (y :: t) :=
  Erase.rep x [y] hx h

theorem append {s t s' t' : List Nat} (h : Erase X s t) (h' : Erase X s' t') : Erase X (s ++ s') (t ++ t') := by
  induction h with
  | nil => simpa using h'
  | keep c _ ih => exact .keep c ih
  | rep x wd hx _ ih => rw [List.cons_append, List.append_assoc]; exact .rep x wd hx ih

theorem del_all {l s t : List Nat} (hl : ∀ c ∈ l, X c = true) (h : Erase X s t) : Erase X (l ++ s) t := by
  induction l with
  | nil => simpa using h
  | cons c r ih => exact del c (hl c List.mem_cons_self) (ih (fun d hd => hl d (List.mem_cons_of_mem _ hd)))

theorem del_all_right {l : List Nat} (hl : ∀ c ∈ l, X c = true) : Erase X l [] := by
  have := del_all (s := []) (t := []) hl .nil
  simpa using this

/-- an `X`-free prefix is copied -/
theorem keeps_prefix : ∀ (r b t : List Nat), (∀ c ∈ r, X c = false) → Erase X (r ++ b) t → ∃ b', t = r ++ b' ∧ Erase X b b'
  | [], b, t, _, h => ⟨t, rfl, h⟩
  | c :: r, b, t, hr, h => by
    cases h with
    | keep _ h' =>
      obtain ⟨b', e, hb⟩ := keeps_prefix r b _ (fun d hd => hr d (List.mem_cons_of_mem _ hd)) h'
      exact ⟨b', by rw [e]; rfl, hb⟩
    | rep _ wd hx h' =>
      have := hr c List.mem_cons_self
      rw [this] at hx; cases hx

/-- **an `X`-free run stays a contiguous run** -/
theorem keeps_infix : ∀ (a r b t : List Nat), (∀ c ∈ r, X c = false) → Erase X (a ++ r ++ b) t → ∃ a' b', t = a' ++ r ++ b'
  | [], r, b, t, hr, h => by
    obtain ⟨b', e, _⟩ := keeps_prefix r b t hr (by simpa using h)
    exact ⟨[], b', by simpa using e⟩
  | x :: a, r, b, t, hr, h => by
    simp only [List.cons_append] at h
    cases h with
    | keep _ h' =>
      obtain ⟨a', b', e⟩ := keeps_infix a r b _ hr h'
      exact ⟨x :: a', b', by rw [e]; rfl⟩
    | rep _ wd hx h' =>
      obtain ⟨a', b', e⟩ := keeps_infix a r b _ hr h'
      exact ⟨wd ++ a', b', by rw [e]; simp [List.append_assoc]⟩

/-- composition: an `X`-erasure followed by an `X`-erasure keeps `X`-free runs (what the chains of phases need) -/
theorem keeps_infix₂ (a r b t u : List Nat) (hr : ∀ c ∈ r, X c = false) (h1 : Erase X (a ++ r ++ b) t) (h2 : Erase X t u) :
    ∃ a' b', u = a' ++ r ++ b' := by
  obtain ⟨a1, b1, e⟩ := keeps_infix a r b t hr h1
  rw [e] at h2
  exact keeps_infix a1 r b1 u hr h2

/-- an erasure of a concatenation splits -/
theorem split : ∀ (a b u : List Nat), Erase X (a ++ b) u → ∃ u1 u2, u = u1 ++ u2 ∧ Erase X a u1 ∧ Erase X b u2
  | [], b, u, h => ⟨[], u, rfl, .nil, by simpa using h⟩
  | c :: a, b, u, h => by
    simp only [List.cons_append] at h
    cases h with
    | keep _ h' =>
      obtain ⟨u1, u2, e, h1, h2⟩ := split a b _ h'
      exact ⟨c :: u1, u2, by rw [e]; rfl, .keep c h1, h2⟩
    | rep _ wd hx h' =>
      obtain ⟨u1, u2, e, h1, h2⟩ := split a b _ h'
      exact ⟨wd ++ u1, u2, by rw [e, List.append_assoc], .rep c wd hx h1, h2⟩

theorem trans {s t u : List Nat} (h1 : Erase X s t) : Erase X t u → Erase X s u := by
  induction h1 generalizing u with
  | nil => intro h; exact h
  | keep c _ ih =>
    intro h
    cases h with
    | keep _ h' => exact .keep c (ih h')
    | rep _ wd hx h' => exact .rep c wd hx (ih h')
  | rep x wd hx _ ih =>
    intro h
    obtain ⟨u1, u2, e, _, h2⟩ := split wd _ u h
    rw [e]
    exact .rep x u1 hx (ih h2)

theorem mono {Y : Nat → Bool} (hxy : ∀ c, X c = true → Y c = true) {s t : List Nat} (h : Erase X s t) : Erase Y s t := by
  induction h with
  | nil => exact .nil
  | keep c _ ih => exact .keep c ih
  | rep x wd hx _ ih => exact .rep x wd (hxy x hx) ih

theorem dropWhile (p : Nat → Bool) (hp : ∀ c, p c = true → X c = true) : ∀ s : List Nat, Erase X s (s.dropWhile p)
  | [] => .nil
  | c :: r => by
    simp only [List.dropWhile_cons]
    split
    · rename_i h; exact del c (hp c h) (dropWhile p hp r)
    · exact refl _

theorem dropWhile_end (p : Nat → Bool) (hp : ∀ c, p c = true → X c = true) (s : List Nat) :
    Erase X s (s.reverse.dropWhile p).reverse := by
  have h := List.takeWhile_append_dropWhile (p := p) (l := s.reverse)
  have hs : s = (s.reverse.dropWhile p).reverse ++ (s.reverse.takeWhile p).reverse := by
    have h2 := congrArg List.reverse h
    rw [List.reverse_append, List.reverse_reverse] at h2
    exact h2.symm
  have hall : ∀ c ∈ (s.reverse.takeWhile p).reverse, X c = true := by
    intro c hc
    exact hp c (List.all_eq_true.mp List.all_takeWhile c (List.mem_reverse.mp hc))
  have := append (refl (X := X) (s.reverse.dropWhile p).reverse) (del_all_right hall)
  rw [← hs] at this
  simpa using this

theorem map_sub (f : Nat → Nat) (hf : ∀ c, f c ≠ c → X c = true) : ∀ s : List Nat, Erase X s (s.map f)
  | [] => .nil
  | c :: r => by
    simp only [List.map_cons]
    by_cases h : f c = c
    · rw [h]; exact .keep c (map_sub f hf r)
    · exact sub c (f c) (hf c h) (map_sub f hf r)

theorem flatMap_rep (g : Nat → List Nat) (hg : ∀ c, g c ≠ [c] → X c = true) : ∀ s : List Nat, Erase X s (s.flatMap g)
  | [] => .nil
  | c :: r => by
    simp only [List.flatMap_cons]
    by_cases h : g c = [c]
    · rw [h]; exact .keep c (flatMap_rep g hg r)
    · exact .rep c (g c) (hg c h) (flatMap_rep g hg r)

end Erase
end MC
