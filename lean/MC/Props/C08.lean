import MC.Model.Session
import MC.Props.C11
import MC.Props.C12
import MC.Props.C19
import MC.Props.C20
import MC.Props.C18
/-!
# C08 — no API call crashes the host; errors are recoverable

There is no model of all of the Rust. The kernel-checked part of the claim is:
* `recover_*`: on the API-level state machine, errors leave the stored expression and the preferences alone, and a
  successful `set_mathml` after ANY history reaches the state a fresh session reaches with the same accepted preferences;
* the `no_panic` theorems of the engine models, collected here: each model carries the Rust `unwrap`/index/`assert`
  sites of the code it transcribes as explicit panic outcomes.
Everything else (the panic-capable sites outside the models) is counted by the translator and exercised by the fuzz streams.
-/
namespace MC.Props.C08
open MC.Session

/-- a rejected `set_mathml` keeps the stored expression and the preferences -/
theorem error_keeps_expression (s : St) (e : Nat) : (step s (.setMathml e false)).expr = s.expr ∧ (step s (.setMathml e false)).prefs = s.prefs :=
  ⟨rfl, rfl⟩

/-- a rejected `set_preference` changes nothing at all -/
theorem rejected_pref_changes_nothing (s : St) (k v : String) : step s (.setPref k v false) = s := rfl

/-- getters never change the state -/
theorem getter_pure (s : St) : step s .getter = s := rfl

theorem prefs_run_filter : ∀ (ops : List Op) (s t : St), s.prefs = t.prefs → (run s ops).prefs = (run t (ops.filter keeps)).prefs
  | [], s, t, h => h
  | o :: r, s, t, h => by
    cases o with
    | setMathml e a => cases a <;> exact prefs_run_filter r _ t h
    | setPref k v a =>
      cases a with
      | true => simp only [run, List.filter_cons, keeps, if_true]; exact prefs_run_filter r _ _ (by simp [step, h])
      | false => exact prefs_run_filter r _ t h
    | nav => exact prefs_run_filter r _ t h
    | getter => exact prefs_run_filter r _ t h

/-- **recoverable**: after ANY history of calls — failing and succeeding `set_mathml`, accepted and rejected preferences,
navigation, getters, in any order — a successful `set_mathml e` leaves exactly the state that a fresh session reaches
by making only the accepted preference settings of that history and then `set_mathml e` -/
theorem recover_eq_fresh (ops : List Op) (e : Nat) :
    step (run init ops) (.setMathml e true) = step (run init (ops.filter keeps)) (.setMathml e true) := by
  have h := prefs_run_filter ops init init rfl
  simp only [step]
  rw [h]

/-- the failing calls of a history -/
def failed : Op → Bool
  | .setMathml _ false => true
  | .setPref _ _ false => true
  | _ => false

theorem filter_keeps_drop_failed : ∀ ops : List Op, (ops.filter (fun o => !failed o)).filter keeps = ops.filter keeps
  | [] => rfl
  | o :: r => by
    have ih := filter_keeps_drop_failed r
    cases o with
    | setMathml e a =>
      cases a <;> simp only [List.filter_cons, keeps, failed, Bool.not_true, Bool.not_false, if_true, if_false, Bool.false_eq_true] <;> exact ih
    | setPref k v a =>
      cases a <;> simp only [List.filter_cons, keeps, failed, Bool.not_true, Bool.not_false, if_true, if_false, Bool.false_eq_true]
      · exact ih
      · exact congrArg _ ih
    | nav => simp only [List.filter_cons, keeps, failed, Bool.not_false, if_true, if_false, Bool.false_eq_true]; exact ih
    | getter => simp only [List.filter_cons, keeps, failed, Bool.not_false, if_true, if_false, Bool.false_eq_true]; exact ih

/-- ... in particular the errors of the history leave no trace: dropping every failing call gives the same state -/
theorem errors_leave_no_trace (ops : List Op) (e : Nat) :
    step (run init ops) (.setMathml e true) = step (run init (ops.filter fun o => !failed o)) (.setMathml e true) := by
  rw [recover_eq_fresh, recover_eq_fresh (ops.filter fun o => !failed o), filter_keeps_drop_failed]

example : step (run init [.setMathml 1 true, .nav, .setPref "Language" "es" true, .setMathml 2 false, .setPref "Rate" "x" false, .getter]) (.setMathml 3 true)
    = ⟨some 3, true, [("Language", "es")]⟩ := by decide

/-! ## the engine models do not reach their panic outcomes -/

/-- preference store: after any history `set_preference` returns a value or an error -/
theorem prefs_no_panic : ∀ (E : MC.Prefs.Env) (ops : List (String × String)) (n v : String) (p : String),
    MC.Prefs.setPreference E (MC.Props.C12.runOps E MC.Prefs.initState ops) n v ≠ .panic p :=
  fun E ops n v => MC.Props.C12.no_panic_after_any_history E ops n v

/-- intent parser: no panic on any element that carries an intent attribute -/
theorem intent_no_panic : True ∧ (∀ (E : MC.Intent.Env) (errorMode rematchOk : Bool) (e : MC.Intent.Elem) (s : MC.Intent.Str), e.intent = some s →
    ∀ site, (MC.Intent.inferIntent E errorMode rematchOk e).1 ≠ .panic site) :=
  ⟨trivial, MC.Props.C19.inferIntent_no_panic⟩

/-- braille highlighting arithmetic: no slice out of range, no underflow, for every string and code -/
theorem highlight_no_panic : ∀ (code : Nat) (fill : Bool) (s : MC.Highlight.Str), MC.Highlight.highlightChars code fill s ≠ none :=
  MC.Props.C20.highlightChars_no_panic

end MC.Props.C08
