import MC.Spec.Variant
/-!
# C18 — mathvariant maps characters to the right Unicode math letters

Property theorems only. Tables: `MC.Variant.tables` (regenerated from src/canonicalize.rs on every run) and
`MC.Gen.Ucd` (python's Unicode Character Database). Finite facts are decided by the kernel over the *whole*
table (`decide +kernel`) and lifted to all characters / all strings by the generic lemmas below.
-/
namespace MC.Props.C18
open MC.Variant MC.Spec.Variant

/-! ## finite facts about the generated tables -/

/-- every (variant, key) pair maps to the UCD character of that letter in that style, a documented fallback
style, or stays unchanged exactly where Unicode has nothing (and for plain-italic Latin). -/
theorem matches_ucd : allKeysOk tables = true := by decide +kernel

/-- keys are ordinary unstyled characters (needed to recover the original letter). -/
theorem keys_unstyled : keysUnstyled tables = true := by decide +kernel

/-- the 24 legacy holes: every exception source is an unassigned hole of the block and its target is a
Letterlike character whose base is a Latin letter. -/
theorem holes_mapped :
    tables.exceptions.all (fun (hole, tgt) =>
      (ucdInfo hole).isNone && (match ucdInfo tgt with | some (base, _) => latin base | none => false)) = true := by
  decide +kernel

/-- no Rust index panic: every table index is 0, 1 or 2. -/
theorem table_index_lt_three : tables.shiftAmounts.all (fun e => e.2.2 < 3) = true := by decide +kernel

/-- the Letterlike rows of the oracle are valid scalars (the block rows are by their range). -/
theorem letterlike_valid : MC.Gen.Ucd.letterlike.all (fun e => validScalar e.1) = true := by decide +kernel

/-- plain italic leaves Latin letters alone. -/
theorem italic_latin_unchanged :
    (match tables.variants.lookup (nm "italic") with
     | some starts => (tables.shiftAmounts.filter (fun e => latin e.1)).all (fun e => shiftChar tables starts e.1 == some e.1)
     | none => false) = true := by
  decide +kernel

/-- all 13 MathML variants the statement lists are mapped, and nothing else is. -/
theorem variants_are_the_thirteen :
    (tables.variants.map (·.1)).length = 13 ∧
    variantStyle.all (fun p => (tables.variants.lookup p.1).isSome) = true := by
  decide +kernel

/-! ## generic lifting lemmas (all characters, all strings) -/

theorem lookup_none_of_not_mem {α} (k : Nat) (l : List (Nat × α)) (h : k ∉ l.map (·.1)) : l.lookup k = none := by
  induction l with
  | nil => rfl
  | cons p ps ih =>
    obtain ⟨a, b⟩ := p
    simp only [List.map_cons, List.mem_cons, not_or] at h
    have hne : (k == a) = false := by simpa using h.1
    simp [List.lookup, hne, ih h.2]

theorem lookup_mem {α} (k : Nat) (l : List (Nat × α)) (v : α) (h : l.lookup k = some v) : (k, v) ∈ l := by
  induction l with
  | nil => simp [List.lookup] at h
  | cons p ps ih =>
    obtain ⟨a, b⟩ := p
    simp only [List.lookup] at h
    split at h
    · rename_i heq; simp at heq; simp at h; subst heq; subst h; simp
    · exact List.mem_cons_of_mem _ (ih h)

/-- characters outside the key set are never touched (for every table, every variant). -/
theorem unchanged_outside (T : Tables) (starts : Nat × Nat × Nat) (c : Nat)
    (h : c ∉ keysOf T starts) : shiftChar T starts c = some c := by
  unfold keysOf at h
  simp only [List.mem_append, not_or] at h
  unfold shiftChar
  rw [lookup_none_of_not_mem c T.shiftAmounts h.1]
  by_cases hd : starts.2.2 = T.digammaStart
  · simp only [hd, if_true] at h ⊢
    rw [lookup_none_of_not_mem c T.digamma h.2]
  · simp [hd]

/-- what `keyOk` says, as a proposition -/
theorem keyOk_spec (T : Tables) (name : List Nat) (starts : Nat × Nat × Nat) (c : Nat)
    (h : keyOk T name starts c = true) :
    ∃ r, shiftChar T starts c = some r ∧ (r = c ∨ ∃ rs, ucdInfo r = some (c, rs)) := by
  unfold keyOk at h
  split at h
  · rename_i r hr
    refine ⟨r, hr, ?_⟩
    by_cases hrc : r = c
    · exact Or.inl hrc
    · right
      have : (r == c) = false := by simpa using hrc
      unfold resultOk at h
      simp only at h
      split at h
      · rw [this] at h
        simp only [Bool.false_eq_true, if_false] at h
        split at h
        · rename_i base rs hu
          simp only [Bool.and_eq_true, beq_iff_eq] at h
          exact ⟨rs, by rw [hu, h.1]⟩
        · simp at h
      · simp at h
  · simp at h

theorem ucdInfo_valid (r : Nat) (x : Nat × Nat) (h : ucdInfo r = some x) : validScalar r = true := by
  unfold ucdInfo at h
  split at h
  · rename_i hb
    simp only [MC.Gen.Ucd.blockStart, MC.Gen.Ucd.blockLen, Bool.and_eq_true] at hb
    have h1 := of_decide_eq_true hb.1
    have h2 := of_decide_eq_true hb.2
    unfold validScalar
    simp
    omega
  · have hm := lookup_mem _ _ _ h
    have := letterlike_valid
    rw [List.all_eq_true] at this
    exact this _ hm

/-- **C18, main statement.** For each of the 13 variants and EVERY character `c`: the model's output `r` is either `c`
itself, or the Unicode styled form whose `<font>` decomposition is exactly `c`; it is a valid scalar value. -/
theorem shiftChar_sound (v : List Nat × Nat × Nat × Nat) (hv : v ∈ tables.variants) (c : Nat) :
    ∃ r, shiftChar tables v.2 c = some r ∧ (r = c ∨ ∃ rs, ucdInfo r = some (c, rs)) ∧
      (validScalar c = true → validScalar r = true) := by
  by_cases hk : c ∈ keysOf tables v.2
  · have h := matches_ucd
    unfold allKeysOk at h
    rw [List.all_eq_true] at h
    have h2 := h v hv
    rw [List.all_eq_true] at h2
    obtain ⟨r, hr, hor⟩ := keyOk_spec _ _ _ _ (h2 c hk)
    refine ⟨r, hr, hor, ?_⟩
    intro hc
    rcases hor with rfl | ⟨rs, hu⟩
    · exact hc
    · exact ucdInfo_valid _ _ hu
  · exact ⟨c, unchanged_outside _ _ _ hk, Or.inl rfl, id⟩

/-- **one-to-one within a style**: on the keys a variant acts on, two different letters never get the same image,
so the original letter can always be recovered (it is the `<font>` base of the image). -/
theorem injective_on_keys (v : List Nat × Nat × Nat × Nat) (hv : v ∈ tables.variants) (c₁ c₂ : Nat)
    (h₁ : c₁ ∈ keysOf tables v.2) (h₂ : c₂ ∈ keysOf tables v.2)
    (heq : shiftChar tables v.2 c₁ = shiftChar tables v.2 c₂) : c₁ = c₂ := by
  obtain ⟨r₁, hr₁, ho₁, _⟩ := shiftChar_sound v hv c₁
  obtain ⟨r₂, hr₂, ho₂, _⟩ := shiftChar_sound v hv c₂
  have hr : r₁ = r₂ := by rw [hr₁, hr₂] at heq; exact Option.some.inj heq
  subst hr
  have unst : ∀ c, c ∈ keysOf tables v.2 → ucdInfo c = none := by
    intro c hc
    have := keys_unstyled
    unfold keysUnstyled at this
    rw [List.all_eq_true] at this
    have hc' : c ∈ tables.shiftAmounts.map (·.1) ++ tables.digamma.map (·.1) := by
      unfold keysOf at hc
      simp only [List.mem_append] at hc ⊢
      rcases hc with hc | hc
      · exact Or.inl hc
      · split at hc
        · exact Or.inr hc
        · simp at hc
    simpa using this c hc'
  rcases ho₁ with rfl | ⟨rs₁, hu₁⟩
  · rcases ho₂ with rfl | ⟨rs₂, hu₂⟩
    · rfl
    · rw [unst _ h₁] at hu₂; simp at hu₂
  · rcases ho₂ with rfl | ⟨rs₂, hu₂⟩
    · rw [unst _ h₂] at hu₁; simp at hu₁
    · rw [hu₁] at hu₂; simp at hu₂; exact hu₂.1

/-- text level: the model never changes the number of characters. -/
theorem shiftText_length (T : Tables) (starts : Nat × Nat × Nat) (s r : List Nat)
    (h : shiftText T starts s = some r) : r.length = s.length := by
  induction s generalizing r with
  | nil => simp [shiftText] at h; subst h; rfl
  | cons c cs ih =>
    simp only [shiftText] at h
    split at h
    · rename_i d ds _ hds; simp at h; subst h; simp [ih ds hds]
    · simp at h

/-- text level: it acts character-wise (`r[i]` is the image of `s[i]`). -/
theorem shiftText_pointwise (T : Tables) (starts : Nat × Nat × Nat) (s r : List Nat)
    (h : shiftText T starts s = some r) (i : Nat) (hi : i < s.length) :
    ∃ d, r[i]? = some d ∧ shiftChar T starts s[i] = some d := by
  induction s generalizing r i with
  | nil => simp at hi
  | cons c cs ih =>
    simp only [shiftText] at h
    split at h
    · rename_i d ds hd hds
      simp at h; subst h
      cases i with
      | zero => exact ⟨d, by simp, by simpa using hd⟩
      | succ j =>
        have hj : j < cs.length := by simpa using hi
        obtain ⟨e, he1, he2⟩ := ih ds hds j hj
        exact ⟨e, by simpa using he1, by simpa using he2⟩
    · simp at h

/-- no mathvariant attribute, or a value that is not one of the mapped ones: text is returned as is. -/
theorem unknown_variant_identity (T : Tables) (v : Option (List Nat)) (text : List Nat)
    (h : v = none ∨ ∃ n, v = some n ∧ T.variants.lookup n = none) : plane1 T v text = some text := by
  rcases h with h | ⟨n, hv, hn⟩
  · subst h; rfl
  · subst hv; simp [plane1, hn]

/-- with the generated tables `shift_text` never panics (no out-of-range table index), on any text and any starts. -/
theorem shiftChar_total (starts : Nat × Nat × Nat) (c : Nat) : (shiftChar tables starts c).isSome = true := by
  unfold shiftChar
  split
  · split
    · split <;> rfl
    · rfl
  · rename_i off tbl hl
    have hm := lookup_mem _ _ _ hl
    have h3 := table_index_lt_three
    rw [List.all_eq_true] at h3
    have := h3 _ hm
    simp at this
    match tbl, this with
    | 0, _ => simp only [startOf]; split <;> rfl
    | 1, _ => simp only [startOf]; split <;> rfl
    | 2, _ => simp only [startOf]; split <;> rfl

theorem shiftText_total (starts : Nat × Nat × Nat) (s : List Nat) : (shiftText tables starts s).isSome = true := by
  induction s with
  | nil => rfl
  | cons c cs ih =>
    have h1 := shiftChar_total starts c
    simp only [shiftText]
    cases hc : shiftChar tables starts c with
    | none => simp [hc] at h1
    | some d =>
      cases hs : shiftText tables starts cs with
      | none => simp [hs] at ih
      | some ds => rfl

/-- non-vacuity: script 'B' is the Letterlike hole U+212C; bold digamma; italic leaves `h` alone and maps α. -/
example : plane1 tables (some (nm "script")) [66, 120] = some [0x212C, 0x1D4CD] := by decide +kernel
example : plane1 tables (some (nm "bold")) [0x3DC] = some [0x1D7CA] := by decide +kernel
example : plane1 tables (some (nm "italic")) [104, 0x3B1] = some [104, 0x1D6FC] := by decide +kernel

end MC.Props.C18
