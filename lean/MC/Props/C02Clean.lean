import MC.Model.Clean
/-!
# C02 for the clean-up skeleton: fixed-arity elements keep their arity

`clean_mathml` deletes, lifts, merges and replaces children. `clean_wf`: on every tree whose elements with a fixed number of
children have that number (what `assure_mathml` checks before the clean-up runs), the skeleton `MC.Clean` returns a tree in
which they still have it, and in which every element that takes exactly one child (`math`, `msqrt`, `menclose`, `mtd`, ...)
has exactly one.  The reason is `clean_keeps`: under a parent with a fixed number of children nothing is ever removed — a
placeholder is put in its place — so the children loop keeps the count (`cleanL_length_fixed`).
-/
namespace MC.Props.C02Clean
open MC.Xml MC.Clean

abbrev Str := List Nat

def ar2 : List Str := [s "mfrac", s "mroot", s "msub", s "msup", s "munder", s "mover"]
def ar3 : List Str := [s "msubsup", s "munderover"]

/-- the number of children the element must have, if it is fixed -/
def arityOf (n : Str) : Option Nat := if ar2.contains n then some 2 else if ar3.contains n then some 3 else none

def arityOk (n : Str) (k : Nat) : Bool :=
  (match arityOf n with | some a => k == a | none => true) && (if oneChildEls.contains n then k == 1 else true)

mutual
/-- output side: fixed arities and one-child elements -/
def wf : Node → Bool
  | .text _ => true
  | .elem n _ kids => arityOk n kids.length && wfL kids
def wfL : List Node → Bool
  | [] => true
  | k :: ks => wf k && wfL ks
end

mutual
/-- input side (`assure_mathml`): elements with a fixed number of children have it -/
def arIn : Node → Bool
  | .text _ => true
  | .elem n _ kids => (match arityOf n with | some a => kids.length == a | none => true) && arInL kids
def arInL : List Node → Bool
  | [] => true
  | k :: ks => arIn k && arInL ks
end

theorem wfL_append (a b : List Node) : wfL (a ++ b) = (wfL a && wfL b) := by
  induction a with
  | nil => simp [wfL]
  | cons k ks ih => simp [wfL, ih, Bool.and_assoc]

theorem fixed_mem (n : Str) : n ∈ fixedArity ↔ (n ∈ ar2 ∨ n ∈ ar3) := by
  simp only [fixedArity, ar2, ar3, List.mem_cons, List.mem_nil_iff, or_false]
  grind

theorem fixed_iff (n : Str) : fixedArity.contains n = (arityOf n).isSome := by
  unfold arityOf
  by_cases ha : ar2.contains n = true
  · rw [if_pos ha]
    have : n ∈ fixedArity := (fixed_mem n).2 (Or.inl (by simpa using ha))
    simpa using this
  · rw [if_neg ha]
    by_cases hb : ar3.contains n = true
    · rw [if_pos hb]
      have : n ∈ fixedArity := (fixed_mem n).2 (Or.inr (by simpa using hb))
      simpa using this
    · rw [if_neg hb]
      have : ¬ n ∈ fixedArity := by
        intro h
        rcases (fixed_mem n).1 h with h | h
        · exact ha (by simpa using h)
        · exact hb (by simpa using h)
      simpa using this

/-! ### under a parent that needs all its children nothing is removed -/

theorem cleanLeaf_keeps (n : Str) (attrs : List (Str × Str)) (t : Str) : (cleanLeaf true n attrs t).isSome = true := by
  unfold cleanLeaf
  repeat' split
  all_goals first | rfl | (exfalso; simp_all) | simp

theorem rowFinish_keeps (pn : Str) (attrs : List (Str × Str)) (cs : List Node) : (rowFinish true pn attrs cs).isSome = true := by
  unfold rowFinish
  repeat' split
  all_goals first | rfl | (exfalso; simp_all) | simp

theorem otherFinish_keeps (n : Str) (attrs : List (Str × Str)) (cs : List Node) : (otherFinish true n attrs cs).isSome = true := by
  unfold otherFinish
  split
  · rfl
  · split
    · split
      · rfl
      · split
        · cases cs with
          | nil => rename_i h _; simp at h
          | cons k ks => rfl
        · split <;> rfl
    · rfl

theorem clean_keeps (pn : Str) (t : Node) : (clean true pn t).isSome = true := by
  cases t with
  | text x => rw [clean]; rfl
  | elem n attrs kids =>
    rw [clean]
    split
    · exact cleanLeaf_keeps _ _ _
    · split
      · split <;> rfl
      · split
        · rfl
        · split
          · split
            · rfl
            · split
              · split <;> rfl
              · exact rowFinish_keeps _ _ _
          · split
            · split
              · rfl
              · split
                · split <;> rfl
                · exact rowFinish_keeps _ _ _
            · split
              · split
                · rfl
                · exact otherFinish_keeps _ _ _
              · exact otherFinish_keeps _ _ _

/-- the children loop under a parent with a fixed number of children keeps the count -/
theorem cleanL_length_fixed (pn : Str) (ks : List Node) : (cleanL true pn ks).length = ks.length := by
  induction ks with
  | nil => simp [cleanL]
  | cons k ks ih =>
    rw [cleanL]
    have := clean_keeps pn k
    cases h : clean true pn k with
    | none => rw [h] at this; cases this
    | some r => simp [ih]

/-! ### well-formedness of what comes back -/

theorem ok_of (n : Str) (h1 : arityOf n = none) (h2 : oneChildEls.contains n = false) (k : Nat) : arityOk n k = true := by
  unfold arityOk; rw [h1, h2]; rfl

theorem leaf_arityOk (n : Str) (hl : isLeafName n = true) (k : Nat) : arityOk n k = true := by
  simp only [isLeafName, List.contains_eq_mem, List.mem_cons, List.mem_nil_iff, or_false, decide_eq_true_eq] at hl
  rcases hl with h | h | h | h | h | h | h | h | h | h | h | h <;> subst h <;> exact ok_of _ (by decide) (by decide) k

theorem ok_mrow (k : Nat) : arityOk (s "mrow") k = true := ok_of _ (by decide) (by decide) k
theorem ok_none (k : Nat) : arityOk (s "none") k = true := ok_of _ (by decide) (by decide) k
theorem ok_mtext (k : Nat) : arityOk (s "mtext") k = true := ok_of _ (by decide) (by decide) k
theorem ok_mo (k : Nat) : arityOk (s "mo") k = true := ok_of _ (by decide) (by decide) k
theorem ok_mn (k : Nat) : arityOk (s "mn") k = true := ok_of _ (by decide) (by decide) k
theorem ok_mi (k : Nat) : arityOk (s "mi") k = true := ok_of _ (by decide) (by decide) k

theorem wf_leaf (n : Str) (attrs : List (Str × Str)) (t : Str) (h : ∀ k, arityOk n k = true) : wf (leaf n attrs t) = true := by
  simp [leaf, wf, wfL, h]

theorem wf_makeEmpty (attrs : List (Str × Str)) : wf (makeEmpty attrs) = true := by simp [makeEmpty, wf, wfL, ok_mtext]
theorem wf_createEmpty : wf createEmpty = true := by simp [createEmpty, wf, wfL, ok_mtext]

theorem wf_lift (attrs : List (Str × Str)) (k : Node) : wf (lift attrs k) = wf k := by
  cases k with
  | text t => rfl
  | elem n a kids => simp only [lift]; rw [wf, wf]

theorem cleanLeaf_wf (prc : Bool) (n : Str) (attrs : List (Str × Str)) (t : Str) (hl : isLeafName n = true) (r : Node)
    (h : cleanLeaf prc n attrs t = some r) : wf r = true := by
  unfold cleanLeaf at h
  have hn := leaf_arityOk n hl
  repeat' split at h
  all_goals try (injection h with h; subst h)
  all_goals first
    | cases h
    | exact wf_makeEmpty _
    | exact wf_leaf _ _ _ ok_mo | exact wf_leaf _ _ _ ok_mn | exact wf_leaf _ _ _ ok_mi | exact wf_leaf _ _ _ ok_mtext
    | exact wf_leaf _ _ _ hn
    | (simp only [wf, wfL, Bool.and_true]; exact hn _)
    | (simp only [wf, wfL, ok_mrow, Bool.and_true, Bool.true_and]; simp [wf_leaf _ _ _ ok_mo, wf_leaf _ _ _ ok_mn])
    | (rw [wf]; simp [hn, wfL, wf]; done)
    | (simp only [wf, hn, Bool.true_and]; split <;> simp [wfL, wf, hn])

theorem mergeWsLoop_wf (acc : List Node) (prev : Node) (b : Bool) (rest : List Node)
    (ha : wfL acc = true) (hp : wf prev = true) (hr : wfL rest = true) : wfL (mergeWsLoop acc prev b rest) = true := by
  induction rest generalizing acc prev b with
  | nil =>
    unfold mergeWsLoop
    split
    · exact ha
    · rw [wfL_append]; simp [ha, wfL, hp]
  | cons c rest ih =>
    simp only [wfL, Bool.and_eq_true] at hr
    unfold mergeWsLoop
    split
    · exact ih acc prev b ha hp hr.2
    · split
      · exact ih acc c false ha hr.1 hr.2
      · exact ih (acc ++ [prev]) c _ (by rw [wfL_append]; simp [ha, wfL, hp]) hr.1 hr.2

theorem mergeWs_wf (cs : List Node) (h : wfL cs = true) : wfL (mergeWs cs) = true := by
  cases cs with
  | nil => rfl
  | cons k ks =>
    simp only [wfL, Bool.and_eq_true] at h
    exact mergeWsLoop_wf [] k _ ks rfl h.1 h.2

theorem rowFinish_wf (prc : Bool) (pn : Str) (attrs : List (Str × Str)) (cs : List Node) (hc : wfL cs = true) (r : Node)
    (h : rowFinish prc pn attrs cs = some r) : wf r = true := by
  unfold rowFinish at h
  have hm : wf (.elem (s "mrow") attrs (mergeWs cs)) = true := by rw [wf]; simp [ok_mrow, mergeWs_wf cs hc]
  repeat' split at h
  all_goals try (injection h with h; subst h)
  all_goals first
    | cases h
    | exact wf_makeEmpty _
    | exact hm
    | (rw [wf]; simp [ok_none, wfL])
    | (rw [wf_lift]; simp only [wfL, Bool.and_eq_true] at hc; exact hc.1)

theorem arity_vals (n : Str) (a : Nat) (h : arityOf n = some a) : a = 2 ∨ a = 3 := by
  unfold arityOf at h
  split at h
  · injection h with h; exact Or.inl h.symm
  · split at h
    · injection h with h; exact Or.inr h.symm
    · cases h

theorem one_no_arity (n : Str) (h : oneChildEls.contains n = true) : arityOf n = none := by
  simp only [oneChildEls, List.contains_eq_mem, List.mem_cons, List.mem_nil_iff, or_false, decide_eq_true_eq] at h
  rcases h with h | h | h | h | h | h | h | h <;> subst h <;> decide

theorem assureOne_length (cs : List Node) : (assureOne cs).length = 1 := by
  unfold assureOne; split <;> rfl

theorem assureOne_wf (cs : List Node) (h : wfL cs = true) : wfL (assureOne cs) = true := by
  unfold assureOne
  split
  · simp [wfL, wf_createEmpty]
  · exact h
  · simp only [wfL, wf, ok_mrow, Bool.true_and, Bool.and_true]; exact h

theorem ok_msubsup3 : arityOk (s "msubsup") 3 = true := by decide
theorem ok_msub2 : arityOk (s "msub") 2 = true := by decide
theorem ok_msup2 : arityOk (s "msup") 2 = true := by decide

theorem cleanMsubsup_wf (attrs : List (Str × Str)) (cs : List Node) (h : wfL cs = true) (hl : cs.length = 3) : wf (cleanMsubsup attrs cs) = true := by
  unfold cleanMsubsup
  split
  · rename_i b sub sup
    simp only [wfL, Bool.and_eq_true, Bool.and_true] at h
    obtain ⟨hb, hsub, hsup⟩ := h
    repeat' split
    · rw [wf]; simp [ok_msubsup3, wfL, hb, hsub, hsup]
    · rw [wf]; simp [ok_msub2, wfL, hb, hsub]
    · rw [wf]; simp [ok_msup2, wfL, hb, hsup]
    · exact hb
  · rw [wf, hl, ok_msubsup3, h]; rfl

theorem otherFinish_wf (prc : Bool) (n : Str) (attrs : List (Str × Str)) (cs : List Node) (hc : wfL cs = true)
    (hk : ∀ a, arityOf n = some a → cs.length = a) (r : Node) (h : otherFinish prc n attrs cs = some r) : wf r = true := by
  have hgen : oneChildEls.contains n = false → wf (.elem n attrs cs) = true := by
    intro h1
    rw [wf, hc, Bool.and_true]
    unfold arityOk; rw [h1]
    cases ha : arityOf n with
    | none => rfl
    | some a => simp [hk a ha]
  unfold otherFinish at h
  split at h
  · rename_i h1
    injection h with h; subst h
    rw [wf, assureOne_wf _ (mergeWs_wf cs hc), Bool.and_true]
    unfold arityOk; rw [one_no_arity n h1, h1, assureOne_length]; rfl
  · rename_i h1
    have h1' : oneChildEls.contains n = false := by simpa using h1
    split at h
    · split at h
      · split at h
        · injection h with h; subst h; exact wf_createEmpty
        · cases h
      · split at h
        · cases cs with
          | nil => cases h
          | cons k ks =>
            simp only [wfL, Bool.and_eq_true] at hc
            have h' : (if prc = true then some k else none) = some r := h
            split at h'
            · injection h' with h'; subst h'; exact hc.1
            · cases h'
        · split at h
          · rename_i hn
            injection h with h; subst h
            exact cleanMsubsup_wf attrs cs hc (hk 3 (by rw [hn]; decide))
          · injection h with h; subst h; exact hgen h1'
    · injection h with h; subst h; exact hgen h1'

mutual
/-- **C02 for the clean-up skeleton**: whatever the clean-up keeps is well formed as far as child counts go — an element with a
fixed number of children still has that number (a deleted child was replaced by a placeholder), and every one-child element
has exactly one child (several were wrapped in an `mrow`, none was replaced by a placeholder) -/
theorem clean_wf (prc : Bool) (pn : Str) : (t : Node) → arIn t = true → (r : Node) → clean prc pn t = some r → wf r = true
  | .text t, _, r, h => by rw [clean] at h; injection h with h; subst h; rfl
  | .elem n attrs kids, hin, r, h => by
    rw [arIn, Bool.and_eq_true] at hin
    have ihL := fun (p : Bool) (q : Str) => cleanL_wf p q kids hin.2
    rw [clean] at h
    split at h
    · rename_i hl; exact cleanLeaf_wf prc n attrs _ hl r h
    · split at h
      · repeat' split at h
        all_goals try (injection h with h; subst h)
        all_goals first
          | cases h
          | exact wf_makeEmpty _
          | (rw [wf]; simp [ok_none, wfL])
      · split at h
        · split at h
          · injection h with h; subst h; exact wf_makeEmpty _
          · cases h
        · split at h
          · -- mstyle / mpadded
            split at h
            · injection h with h; subst h; rw [wf_lift]; exact wf_createEmpty
            · split at h
              · have hL := ihL false n
                split at h
                · rename_i new rest heq
                  injection h with h; subst h
                  rw [wf_lift]; rw [heq] at hL; simp only [wfL, Bool.and_eq_true] at hL; exact hL.1
                · split at h
                  · injection h with h; subst h; exact wf_makeEmpty _
                  · cases h
              · exact rowFinish_wf prc pn _ _ (ihL false (s "mrow")) r h
          · split at h
            · -- mrow
              split at h
              · rename_i hn _
                injection h with h; subst h; subst hn
                rw [wf]; simp [ok_mrow, wfL, wf_createEmpty]
              · split at h
                · have hL := ihL false n
                  split at h
                  · rename_i new rest heq
                    injection h with h; subst h
                    rw [wf_lift]; rw [heq] at hL; simp only [wfL, Bool.and_eq_true] at hL; exact hL.1
                  · split at h
                    · injection h with h; subst h; exact wf_makeEmpty _
                    · cases h
                · exact rowFinish_wf prc pn _ _ (ihL false n) r h
            · -- every other container
              split at h
              · rename_i hk
                simp only [List.isEmpty_iff] at hk; subst hk
                split at h
                · rename_i he
                  injection h with h; subst h
                  rw [wf]; simp only [wfL, Bool.and_true]
                  unfold arityOk
                  cases ha : arityOf n with
                  | none =>
                    have hone : oneChildEls.contains n = false := by
                      simp only [emptyEls, oneChildEls, List.contains_eq_mem, List.mem_cons, List.mem_nil_iff, or_false, decide_eq_true_eq] at he
                      rcases he with he | he | he | he | he | he | he <;> subst he <;> decide
                    rw [hone]; rfl
                  | some a =>
                    rw [ha] at hin; simp at hin
                    rcases arity_vals n a ha with h2 | h2 <;> omega
                · refine otherFinish_wf prc n attrs _ (by simp [wfL, wf_createEmpty]) ?_ r h
                  intro a ha
                  rw [ha] at hin; simp at hin
                  rcases arity_vals n a ha with h2 | h2 <;> omega
              · refine otherFinish_wf prc n attrs _ (ihL _ n) ?_ r h
                intro a ha
                have hf : fixedArity.contains n = true := by rw [fixed_iff, ha]; rfl
                rw [hf, cleanL_length_fixed]
                rw [ha] at hin; simpa using hin.1
theorem cleanL_wf (prc : Bool) (pn : Str) : (ts : List Node) → arInL ts = true → wfL (cleanL prc pn ts) = true
  | [], _ => by rw [cleanL]; rfl
  | k :: ks, h => by
    rw [arInL, Bool.and_eq_true] at h
    have h1 := clean_wf prc pn k h.1
    have h2 := cleanL_wf prc pn ks h.2
    rw [cleanL, wfL_append, h2, Bool.and_true]
    cases hc : clean prc pn k with
    | none => rfl
    | some r => simp [wfL, h1 r hc]
end

/-- on a whole expression: the first phase of `canonicalize` keeps `math` with exactly one child and every fixed arity below it -/
theorem cleanMath_wf (t r : Node) (hin : arIn (trim t) = true) (h : cleanMath t = some r) : wf r = true :=
  clean_wf false (s "math") (trim t) hin r h

example : (cleanMath (.elem (s "math") [] [.elem (s "msubsup") [] [.elem (s "mphantom") [] [.elem (s "mi") [] [.text (s "y")]], .elem (s "mrow") [] [],
    .elem (s "mn") [] [.text (s "2")]], .elem (s "mi") [] [.text (s "x")]])).map wf = some true := by decide +kernel
example : arIn (trim (.elem (s "math") [] [.elem (s "msubsup") [] [.elem (s "mphantom") [] [.elem (s "mi") [] [.text (s "y")]], .elem (s "mrow") [] [],
    .elem (s "mn") [] [.text (s "2")]], .elem (s "mi") [] [.text (s "x")]])) = true := by decide +kernel

/-! ### the index expressions of the script branch (`children[1]`, `children[2]`, canonicalize.rs:1151-1154, `clean_msubsup`) are in range -/

/-- after the children loop an `msub` / `msup` that passed `assure_mathml` still has two children, an `msubsup` three: the
`children[0]`, `children[1]` (and `children[2]`) of the empty-script test and of `clean_msubsup` exist -/
theorem script_children_present (n : Str) (attrs : List (Str × Str)) (kids : List Node) (hin : arIn (.elem n attrs kids) = true) :
    ((n = s "msub" ∨ n = s "msup") → (cleanL (fixedArity.contains n) n kids).length = 2) ∧
    (n = s "msubsup" → (cleanL (fixedArity.contains n) n kids).length = 3) := by
  rw [arIn, Bool.and_eq_true] at hin
  constructor
  · intro hn
    have ha : arityOf n = some 2 := by rcases hn with hn | hn <;> subst hn <;> decide
    have hf : fixedArity.contains n = true := by rw [fixed_iff, ha]; rfl
    rw [hf, cleanL_length_fixed]
    rw [ha] at hin; simpa using hin.1
  · intro hn
    have ha : arityOf n = some 3 := by subst hn; decide
    have hf : fixedArity.contains n = true := by rw [fixed_iff, ha]; rfl
    rw [hf, cleanL_length_fixed]
    rw [ha] at hin; simpa using hin.1

/-- the `chars.next().unwrap()` of the `mn` arm (canonicalize.rs:807) is reached with a non-empty text only: an empty `mn` has
been replaced or removed by the empty-leaf rule in front of the `match` -/
theorem mn_first_char_present (prc : Bool) (attrs : List (Str × Str)) (r : Node) (h : cleanLeaf prc (s "mn") attrs [] = some r) :
    r = makeEmpty attrs := by
  unfold cleanLeaf at h
  have he : (!emptyEls.contains (s "mn") && ([] : Str).isEmpty) = true := by decide
  rw [if_pos he] at h
  split at h
  · injection h with h; exact h.symm
  · cases h

end MC.Props.C02Clean
