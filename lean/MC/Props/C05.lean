import MC.Props.SpeechTree
/-!
# C05 — speech is clean text (the string half of the engine, TTS=None)
-/
namespace MC.Props.C05
open MC.Speech

/-- **C05 (markers, markup)**: for every nesting of rule applications whose literal pieces do not themselves contain the
placeholder character, and whose top level is a rule application: the final string contains none of the three marker
characters, and every character of it is a character of some literal piece, a space or pause punctuation — in
particular no `<` unless a rule's literal text contains one. -/
theorem speak_clean (pf : Nat) (ks : List Sp) (hw : WF (.arr ks)) :
    ∀ c ∈ speak pf (.arr ks), c ≠ FE ∧ c ≠ FD ∧ c ≠ FA ∧ ((∃ s ∈ lits (.arr ks), c ∈ s) ∨ c = 32 ∨ c = 44 ∨ c = 59) := by
  intro c hc
  unfold speak at hc
  obtain ⟨h1, hfe, hfd⟩ := finalize_mem _ c hc
  obtain ⟨hna, _, hch⟩ := eval_spec pf (.arr ks) hw
  have hfa : FA ∉ eval pf (.arr ks) := hna rfl
  rcases h1 with h1 | h1
  · have hcfa : c ≠ FA := fun e => hfa (e ▸ h1)
    refine ⟨hfe, hfd, hcfa, ?_⟩
    rcases hch c h1 with e | e | e | e | e | e
    · exact Or.inl e
    · exact Or.inr (Or.inl e)
    · exact absurd e hfe
    · exact Or.inr (Or.inr (Or.inl e))
    · exact Or.inr (Or.inr (Or.inr e))
    · exact absurd e hcfa
  · exact ⟨hfe, hfd, by rw [h1]; decide, Or.inr (Or.inr (Or.inr h1))⟩

/-- no markup for TTS=None: `<` appears only if a literal piece of a rule contains it -/
theorem speak_no_markup (pf : Nat) (ks : List Sp) (hw : WF (.arr ks)) (hl : ∀ s ∈ lits (.arr ks), 60 ∉ s) :
    60 ∉ speak pf (.arr ks) := by
  intro h
  rcases (speak_clean pf ks hw 60 h).2.2.2 with ⟨s, hs, hc⟩ | e | e | e
  · exact hl s hs hc
  all_goals exact absurd e (by decide)

/-- the clean-up alone, for EVERY string: the concatenation and optional markers never survive it -/
theorem cleanup_removes_markers (s : Str) : FE ∉ finalize s ∧ FD ∉ finalize s :=
  ⟨fun h => (finalize_mem s FE h).2.1 rfl, fun h => (finalize_mem s FD h).2.2 rfl⟩

/-- every joined array is free of the automatic-pause placeholder (so it can never reach the caller) -/
theorem join_resolves_auto (pf : Nat) (xs : List Str) (h : ∀ x ∈ xs, AutoOK x) : FA ∉ joinArray pf xs :=
  (joinArray_chars pf xs h).1

/-- non-emptiness: content of the literal pieces is content of the speech (partial: under `FC`) -/
theorem speak_nonempty_partial (q : Nat → Bool) (hq : Content q) (pf : Nat) (t : Sp) (hw : WF t) (hf : FC q pf t)
    (hc : (lits t).flatten.filter q ≠ []) : speak pf t ≠ [] := by
  intro h
  have := MC.Speech.eval_filter q hq pf t hw hf
  have h2 : (speak pf t).filter q = (lits t).flatten.filter q := by
    unfold speak; rw [finalize_filter q hq, this]
  rw [h] at h2
  exact hc h2.symm

def str (x : String) : Str := x.toList.map Char.toNat
example : WF (.arr [.lit (str "x"), .auto, .nodes [.arr [.lit (str "squared")], .arr [.lit (str "the end")]]]) := by
  simp only [WF, WFL, Sp.isAuto]; decide
example : speak 100 (.arr [.lit (str "x"), .auto, .nodes [.arr [.lit (str "squared")], .arr [.lit (str "the end")]]])
    = str "xsquared the end" := by decide +kernel

end MC.Props.C05
