import MC.Props.Erase
import MC.Model.TextCodes
import MC.Spec.BrailleFinal
/-!
# C06 — braille renders every operand: the clean-up phases that are modelled keep every literal as a contiguous run

* the two text codes completely (`LaTeX_cleanup`, `ASCIIMath_cleanup`): a literal is kept verbatim;
* the last phase of every cell code (`REPLACE_INDICATORS`, trimming, `COLLAPSE_SPACES`): a run of non-blank cells is kept.
The regex chains in front of the last phase of the cell codes (`nemeth_cleanup`, `remove_unneeded_mode_changes`, ...) are
NOT modelled; for them the property is decided on the implementation (planted literals, hook H3).
-/
namespace MC.Props.C06
open MC MC.TextCodes

/-! ## text codes -/

def XT (c : Nat) : Bool := c = 32 || c = W || c = w

theorem collapseSp_erase : ∀ s : Str, Erase XT s (collapseSp s) := by
  intro s
  fun_induction collapseSp s with
  | case1 r ih => exact Erase.del 32 (by decide) ih
  | case2 c r _ ih => exact .keep c ih
  | case3 => exact .nil

theorem removeSpBefore_erase : ∀ s : Str, Erase XT s (removeSpBefore s) := by
  intro s
  fun_induction removeSpBefore s with
  | case1 c r h ih => exact Erase.del 32 (by decide) (.keep c ih)
  | case2 c r h ih => exact .keep 32 ih
  | case3 c r _ ih => exact .keep c ih
  | case4 => exact .nil

theorem trimSp_erase (s : Str) : Erase XT s (trimSp s) := by
  unfold trimSp
  have hp : ∀ c, (decide (c = 32)) = true → XT c = true := by
    intro c h; simp only [decide_eq_true_eq] at h; subst h; decide
  exact (Erase.dropWhile _ hp s).trans (Erase.dropWhile_end _ hp _)

theorem mapW_erase (s : Str) : Erase XT s (mapW s) := by
  unfold mapW
  apply Erase.map_sub
  intro c h
  by_cases hc : c = W
  · subst hc; decide
  · simp [hc] at h

theorem mapw_erase (s : Str) : Erase XT s (mapw s) := by
  unfold mapw
  apply Erase.map_sub
  intro c h
  by_cases hc : c = w
  · subst hc; decide
  · simp [hc] at h

theorem stripPrefix_eq : ∀ (pat s rest : Str), stripPrefix? pat s = some rest → s = pat ++ rest
  | [], s, rest, h => by simp [stripPrefix?] at h; simp [h]
  | _ :: _, [], rest, h => by simp [stripPrefix?] at h
  | p :: ps, c :: cs, rest, h => by
    simp only [stripPrefix?] at h
    split at h
    · rename_i hp; subst hp
      rw [stripPrefix_eq ps cs rest h]; rfl
    · cases h

theorem protect_erase : ∀ (f : Nat) (s : Str), Erase XT s (protect f s)
  | 0, s => Erase.refl s
  | _ + 1, [] => by simp only [protect]; exact .nil
  | f + 1, c :: r => by
    simp only [protect]
    split
    · rename_i rest hs
      rw [stripPrefix_eq _ _ _ hs]
      have ih := protect_erase f rest
      show Erase XT ([124, W, 95, 95, 124] ++ rest) ([124, w, 95, 95, 124] ++ protect f rest)
      exact .keep 124 (Erase.sub W w (by decide) (.keep 95 (.keep 95 (.keep 124 ih))))
    · exact .keep c (protect_erase f r)

theorem spaces_split (r : Str) : r = r.takeWhile (· = 32) ++ r.dropWhile (· = 32) := List.takeWhile_append_dropWhile.symm
theorem spaces_all (r : Str) : ∀ c ∈ r.takeWhile (· = 32), XT c = true := by
  intro c hc
  have := List.all_eq_true.mp List.all_takeWhile c hc
  simp only [decide_eq_true_eq] at this; subst this; decide

theorem spBeforeOp_erase (extra : List Nat) : ∀ (f : Nat) (s : Str), Erase XT s (spBeforeOp extra f s)
  | 0, s => Erase.refl s
  | _ + 1, [] => by simp only [spBeforeOp]; exact .nil
  | f + 1, c :: r => by
    simp only [spBeforeOp]
    split
    · split
      · rename_i d r' hd
        split
        · refine .keep c ?_
          have : Erase XT (r.takeWhile (· = 32) ++ (d :: r')) (d :: spBeforeOp extra f r') :=
            Erase.del_all (spaces_all r) (.keep d (spBeforeOp_erase extra f r'))
          rw [← hd, ← spaces_split] at this
          exact this
        · exact .keep c (spBeforeOp_erase extra f r)
      · exact .keep c (spBeforeOp_erase extra f r)
    · exact .keep c (spBeforeOp_erase extra f r)

theorem spAfterOp_erase (extra : List Nat) : ∀ (f : Nat) (s : Str), Erase XT s (spAfterOp extra f s)
  | 0, s => Erase.refl s
  | _ + 1, [] => by simp only [spAfterOp]; exact .nil
  | f + 1, c :: r => by
    simp only [spAfterOp]
    split
    · split
      · rename_i d r' hd
        split
        · refine .keep c ?_
          have : Erase XT (r.takeWhile (· = 32) ++ (d :: r')) (d :: spAfterOp extra f r') :=
            Erase.del_all (spaces_all r) (.keep d (spAfterOp_erase extra f r'))
          rw [← hd, ← spaces_split] at this
          exact this
        · exact .keep c (spAfterOp_erase extra f r)
      · exact .keep c (spAfterOp_erase extra f r)
    · exact .keep c (spAfterOp_erase extra f r)

theorem latexCleanup_erase (s : Str) : Erase XT s (latexCleanup s) := by
  unfold latexCleanup
  exact (((mapW_erase s).trans (collapseSp_erase _)).trans (removeSpBefore_erase _)).trans (trimSp_erase _)

theorem asciimathCleanup_erase (extra : List Nat) (s : Str) : Erase XT s (asciimathCleanup extra s) := by
  unfold asciimathCleanup
  exact ((((((((protect_erase _ s).trans (mapW_erase _)).trans (collapseSp_erase _)).trans (spBeforeOp_erase extra _ _)).trans
    (spAfterOp_erase extra _ _)).trans (mapw_erase _)).trans (collapseSp_erase _))).trans (trimSp_erase _)

/-- **LaTeX**: whatever the rules wrote around it, a literal without space characters (digits, a decimal point or comma,
any run of non-space characters) is in the output verbatim and contiguous -/
theorem latex_keeps_literal (a r b : Str) (hr : ∀ c ∈ r, XT c = false) :
    ∃ a' b', latexCleanup (a ++ r ++ b) = a' ++ r ++ b' :=
  Erase.keeps_infix a r b _ hr (latexCleanup_erase _)

/-- **ASCIIMath**: the same, for every set of extra word characters -/
theorem asciimath_keeps_literal (extra : List Nat) (a r b : Str) (hr : ∀ c ∈ r, XT c = false) :
    ∃ a' b', asciimathCleanup extra (a ++ r ++ b) = a' ++ r ++ b' :=
  Erase.keeps_infix a r b _ hr (asciimathCleanup_erase extra _)

/-- digits and the decimal marks are not space characters: the hypothesis above holds for every numeric literal -/
theorem numeric_not_space (c : Nat) (h : (48 ≤ c ∧ c ≤ 57) ∨ c = 46 ∨ c = 44) : XT c = false := by
  have h1 : c ≠ 32 := by omega
  have h2 : c ≠ W := by unfold W; omega
  have h3 : c ≠ w := by unfold w; omega
  simp [XT, h1, h2, h3]

/-! ## cell codes: the last phase -/
open MC.BrailleFinal MC.Spec.BrailleFinal

def XC (code : Nat) (c : Nat) : Bool := inRanges (classOf code) c || c = 0x2800

theorem replaceIndicators_erase (code : Nat) (pref : BrailleFinal.Str → BrailleFinal.Str) (s : BrailleFinal.Str) :
    Erase (XC code) s (replaceIndicators code pref s) := by
  unfold replaceIndicators
  apply Erase.flatMap_rep
  intro c h
  by_cases hc : inRanges (classOf code) c = true
  · simp [XC, hc]
  · simp [hc] at h

theorem trimStartBlank_eq (s : BrailleFinal.Str) : trimStartBlank s = s.dropWhile (· = 0x2800) := by
  fun_induction trimStartBlank s with
  | case1 r ih => simp [ih]
  | case2 s h =>
    cases s with
    | nil => rfl
    | cons c r =>
      have : c ≠ 0x2800 := fun e => h r (by rw [e])
      simp [List.dropWhile_cons, this]

theorem collapse_erase (code : Nat) : ∀ s : BrailleFinal.Str, Erase (XC code) s (collapse s) := by
  intro s
  fun_induction collapse s with
  | case1 r ih => exact Erase.del 0x2800 (by simp [XC]) ih
  | case2 c r _ ih => exact .keep c ih
  | case3 => exact .nil

theorem finalPhase_erase (code : Nat) (pref : BrailleFinal.Str → BrailleFinal.Str) (s : BrailleFinal.Str) :
    Erase (XC code) s (finalPhase code pref s) := by
  unfold finalPhase trimBlank
  have hp : ∀ c, (decide (c = 0x2800)) = true → XC code c = true := by
    intro c h; simp only [decide_eq_true_eq] at h; subst h; simp [XC]
  refine ((replaceIndicators_erase code pref s).trans ?_).trans (collapse_erase code _)
  rw [trimStartBlank_eq, trimStartBlank_eq]
  exact (Erase.dropWhile _ hp _).trans (Erase.dropWhile_end _ hp _)

/-- the indicator classes of the shipped codes contain no braille cell (decided over the regenerated class tables) -/
def classFreeOfCells (code : Nat) : Bool := (classOf code).all fun (lo, hi) => hi < 0x2800 || 0x28FF < lo

theorem classes_free_of_cells : codes.all classFreeOfCells = true := by decide +kernel

theorem cell_outside_class (code : Nat) (hcode : code ∈ codes) (c : Nat) (hc : isCell c = true) : inRanges (classOf code) c = false := by
  have h := List.all_eq_true.mp classes_free_of_cells code hcode
  unfold classFreeOfCells at h
  unfold inRanges
  rw [List.any_eq_false]
  intro p hp
  have := List.all_eq_true.mp h p hp
  simp only [isCell, Bool.and_eq_true, decide_eq_true_eq] at hc
  obtain ⟨lo, hi⟩ := p
  simp only [Bool.or_eq_true, decide_eq_true_eq] at this
  simp only [Bool.and_eq_true, decide_eq_true_eq, not_and]
  omega

/-- **cell codes, last phase**: a run of non-blank braille cells (the digit cells and the decimal-point cell of every
literal, in every code) that is contiguous before the last phase is contiguous after it -/
theorem finalPhase_keeps_cells (code : Nat) (hcode : code ∈ codes) (pref : BrailleFinal.Str → BrailleFinal.Str)
    (a r b : BrailleFinal.Str) (hr : ∀ c ∈ r, isCell c = true ∧ c ≠ 0x2800) :
    ∃ a' b', finalPhase code pref (a ++ r ++ b) = a' ++ r ++ b' := by
  apply Erase.keeps_infix a r b _ _ (finalPhase_erase code pref _)
  intro c hc
  obtain ⟨h1, h2⟩ := hr c hc
  simp [XC, cell_outside_class code hcode c h1, h2]

example : ∃ a' b', latexCleanup ([120, 32] ++ [49, 50, 46, 55, 53] ++ [32, 94, 50]) = a' ++ [49, 50, 46, 55, 53] ++ b' :=
  latex_keeps_literal _ _ _ (by decide)

end MC.Props.C06
