import MC.Props.SpeechJoin
/-!
The recursion of the speech engine over rule applications, as a tree of replacement pieces, and the lift of the
join-level facts to every such tree (any nesting depth, any number of pieces).
-/
namespace MC.Speech

/-- the trace of evaluating one rule: its replacement array, piece by piece -/
inductive Sp where
  | lit (s : Str)          -- `t:` / `ct:` / `ot:` (with their marker characters), a fixed `pause:`, `x:` on text or an attribute
  | auto                   -- `pause: auto`
  | arr (kids : List Sp)   -- a replacement array: a rule's `replace:`, a `then:`/`else:` branch, the body of `with:` ...
  | nodes (kids : List Sp) -- `x:` selecting several nodes: the results for the nodes joined by single spaces

def Sp.isAuto : Sp → Bool
  | .auto => true
  | _ => false

mutual
def eval (pf : Nat) : Sp → Str
  | .lit s => s
  | .auto => autoStr
  | .arr ks =>
    let xs := (evalL pf ks).filter (fun x => !x.isEmpty)      -- empty replacement strings are skipped
    if xs.isEmpty then [] else joinArray pf xs
  | .nodes ks => joinSp (evalL pf ks)
def evalL (pf : Nat) : List Sp → List Str
  | [] => []
  | k :: ks => eval pf k :: evalL pf ks
end

/-- `speak_rules`: evaluate the matched rule, then clean up -/
def speak (pf : Nat) (t : Sp) : Str := finalize (eval pf t)

mutual
/-- literal pieces hold no placeholder character; the nodes selected by `x:` are spoken by rules (never a bare `pause: auto`) -/
def WF : Sp → Prop
  | .lit s => FA ∉ s
  | .auto => True
  | .arr ks => WFL ks
  | .nodes ks => WFL ks ∧ ks.all (fun k => !k.isAuto) = true
def WFL : List Sp → Prop
  | [] => True
  | k :: ks => WF k ∧ WFL ks
end

mutual
def lits : Sp → List Str
  | .lit s => [s]
  | .auto => []
  | .arr ks => litsL ks
  | .nodes ks => litsL ks
def litsL : List Sp → List Str
  | [] => []
  | k :: ks => lits k ++ litsL ks
end

mutual
/-- hypothesis of the partial content theorem: every string entering a join is `FrontClean` -/
def FC (q : Nat → Bool) (pf : Nat) : Sp → Prop
  | .lit _ => True
  | .auto => True
  | .arr ks => FCL q pf ks ∧ ∀ x ∈ evalL pf ks, FrontClean q x
  | .nodes ks => FCL q pf ks
def FCL (q : Nat → Bool) (pf : Nat) : List Sp → Prop
  | [] => True
  | k :: ks => FC q pf k ∧ FCL q pf ks
end

theorem mem_evalL (pf : Nat) : ∀ (ks : List Sp) (x : Str), x ∈ evalL pf ks → ∃ k ∈ ks, x = eval pf k
  | [], x, h => by simp [evalL] at h
  | k :: ks, x, h => by
    simp only [evalL] at h
    rcases List.mem_cons.mp h with h | h
    · exact ⟨k, List.mem_cons_self, h⟩
    · obtain ⟨k', hk, he⟩ := mem_evalL pf ks x h
      exact ⟨k', List.mem_cons_of_mem _ hk, he⟩

mutual
/-- the placeholder survives nowhere except as the value of a bare `pause: auto` piece; every character of a result is
a character of some literal piece, a space, pause punctuation or a marker -/
theorem eval_spec (pf : Nat) : ∀ (t : Sp), WF t →
    (t.isAuto = false → FA ∉ eval pf t) ∧ AutoOK (eval pf t) ∧
    ∀ c ∈ eval pf t, (∃ s ∈ lits t, c ∈ s) ∨ c = 32 ∨ c = FE ∨ c = 44 ∨ c = 59 ∨ c = FA
  | .lit s, h => by
    simp only [WF] at h
    simp only [eval, lits]
    exact ⟨fun _ => h, Or.inl h, fun c hc => Or.inl ⟨s, List.mem_singleton.mpr rfl, hc⟩⟩
  | .auto, _ => by
    simp only [eval, lits]
    refine ⟨fun h => by simp [Sp.isAuto] at h, Or.inr rfl, fun c hc => ?_⟩
    simp only [autoStr, List.mem_cons, List.not_mem_nil, or_false] at hc
    rcases hc with e | e | e
    · exact Or.inr (Or.inr (Or.inl e))
    · exact Or.inr (Or.inr (Or.inr (Or.inr (Or.inr e))))
    · exact Or.inr (Or.inr (Or.inr (Or.inr (Or.inr e))))
  | .arr ks, h => by
    simp only [WF] at h
    have ih := evalL_spec pf ks h
    simp only [eval, lits]
    by_cases he : ((evalL pf ks).filter (fun x => !x.isEmpty)).isEmpty = true
    · simp only [he, if_true]
      exact ⟨fun _ => List.not_mem_nil, Or.inl List.not_mem_nil, fun c hc => absurd hc List.not_mem_nil⟩
    · simp only [he, Bool.false_eq_true, if_false]
      have hx : ∀ x ∈ (evalL pf ks).filter (fun x => !x.isEmpty), AutoOK x :=
        fun x hx => (ih x (List.mem_filter.mp hx).1).1
      obtain ⟨h1, h2⟩ := joinArray_chars pf _ hx
      refine ⟨fun _ => h1, Or.inl h1, fun c hc => ?_⟩
      rcases h2 c hc with ⟨x, hx', hcx⟩ | e | e | e | e
      · rcases (ih x (List.mem_filter.mp hx').1).2 c hcx with e | e | e | e | e | e
        · exact Or.inl e
        · exact Or.inr (Or.inl e)
        · exact Or.inr (Or.inr (Or.inl e))
        · exact Or.inr (Or.inr (Or.inr (Or.inl e)))
        · exact Or.inr (Or.inr (Or.inr (Or.inr (Or.inl e))))
        · exact Or.inr (Or.inr (Or.inr (Or.inr (Or.inr e))))
      · exact Or.inr (Or.inl e)
      · exact Or.inr (Or.inr (Or.inl e))
      · exact Or.inr (Or.inr (Or.inr (Or.inl e)))
      · exact Or.inr (Or.inr (Or.inr (Or.inr (Or.inl e))))
  | .nodes ks, h => by
    simp only [WF] at h
    have ih := evalL_spec pf ks h.1
    have hna := evalL_noAuto pf ks h.1 h.2
    simp only [eval, lits]
    have hfa : FA ∉ joinSp (evalL pf ks) := by
      intro hm
      rcases joinSp_mem _ _ hm with ⟨x, hx, hc⟩ | e
      · exact hna x hx hc
      · exact absurd e (by decide)
    refine ⟨fun _ => hfa, Or.inl hfa, fun c hc => ?_⟩
    rcases joinSp_mem _ _ hc with ⟨x, hx, hcx⟩ | e
    · exact (ih x hx).2 c hcx
    · exact Or.inr (Or.inl e)
theorem evalL_spec (pf : Nat) : ∀ (ks : List Sp), WFL ks →
    ∀ x ∈ evalL pf ks, AutoOK x ∧ ∀ c ∈ x, (∃ s ∈ litsL ks, c ∈ s) ∨ c = 32 ∨ c = FE ∨ c = 44 ∨ c = 59 ∨ c = FA
  | [], _ => by intro x hx; simp [evalL] at hx
  | k :: ks, h => by
    simp only [WFL] at h
    intro x hx
    simp only [evalL] at hx
    simp only [litsL]
    rcases List.mem_cons.mp hx with hx | hx
    · rw [hx]
      have := eval_spec pf k h.1
      refine ⟨this.2.1, fun c hc => ?_⟩
      rcases this.2.2 c hc with ⟨s, hs, hcs⟩ | e
      · exact Or.inl ⟨s, List.mem_append.mpr (Or.inl hs), hcs⟩
      · exact Or.inr e
    · have := evalL_spec pf ks h.2 x hx
      refine ⟨this.1, fun c hc => ?_⟩
      rcases this.2 c hc with ⟨s, hs, hcs⟩ | e
      · exact Or.inl ⟨s, List.mem_append.mpr (Or.inr hs), hcs⟩
      · exact Or.inr e
theorem evalL_noAuto (pf : Nat) : ∀ (ks : List Sp), WFL ks → ks.all (fun k => !k.isAuto) = true →
    ∀ x ∈ evalL pf ks, FA ∉ x
  | [], _, _ => by intro x hx; simp [evalL] at hx
  | k :: ks, h, ha => by
    simp only [WFL] at h
    simp only [List.all_cons, Bool.and_eq_true, Bool.not_eq_true'] at ha
    intro x hx
    simp only [evalL] at hx
    rcases List.mem_cons.mp hx with hx | hx
    · rw [hx]; exact (eval_spec pf k h.1).1 ha.1
    · exact evalL_noAuto pf ks h.2 ha.2 x hx
end

mutual
/-- content is conserved through every join whose inputs are `FrontClean` -/
theorem eval_filter (q : Nat → Bool) (hq : Content q) (pf : Nat) : ∀ (t : Sp), WF t → FC q pf t →
    (eval pf t).filter q = (lits t).flatten.filter q
  | .lit s, _, _ => by simp [eval, lits]
  | .auto, _, _ => by simp [eval, lits, autoStr, List.filter_cons, hq.fe, hq.fa]
  | .arr ks, h, hf => by
    simp only [WF] at h
    simp only [FC] at hf
    simp only [eval, lits]
    have hflat : ((evalL pf ks).filter (fun x => !x.isEmpty)).flatten = (evalL pf ks).flatten := by
      generalize evalL pf ks = l
      induction l with
      | nil => rfl
      | cons x r ih =>
        simp only [List.filter_cons]
        cases x with
        | nil => simpa using ih
        | cons a b => simp [ih]
    by_cases he : ((evalL pf ks).filter (fun x => !x.isEmpty)).isEmpty = true
    · simp only [he, if_true]
      rw [← evalL_filter q hq pf ks h hf.1, ← hflat, List.isEmpty_iff.mp he]; rfl
    · simp only [he, Bool.false_eq_true, if_false]
      rw [joinArray_filter_partial q hq pf _
            (fun x hx => (evalL_spec pf ks h x (List.mem_filter.mp hx).1).1)
            (fun x hx => hf.2 x (List.mem_filter.mp hx).1), hflat]
      exact evalL_filter q hq pf ks h hf.1
  | .nodes ks, h, hf => by
    simp only [WF] at h
    simp only [FC] at hf
    simp only [eval, lits]
    rw [joinSp_filter q hq]
    exact evalL_filter q hq pf ks h.1 hf
theorem evalL_filter (q : Nat → Bool) (hq : Content q) (pf : Nat) : ∀ (ks : List Sp), WFL ks → FCL q pf ks →
    (evalL pf ks).flatten.filter q = (litsL ks).flatten.filter q
  | [], _, _ => rfl
  | k :: ks, h, hf => by
    simp only [WFL] at h
    simp only [FCL] at hf
    simp only [evalL, litsL, List.flatten_cons, List.flatten_append, List.filter_append]
    rw [eval_filter q hq pf k h.1 hf.1, evalL_filter q hq pf ks h.2 hf.2]
end

end MC.Speech
