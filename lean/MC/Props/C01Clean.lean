import MC.Model.Clean
import MC.Props.C01
/-!
# C01 for the clean-up pass (structural skeleton `MC.Clean`, tied to the library by hook H7)

`clean_conserves`: for EVERY tree (any element names, any nesting, any token text, any parent context) the skeleton of
`clean_mathml` returns a tree with the same visible token text up to the documented normalisations — or returns nothing
only when there was nothing visible.  "Same up to normalisation" is the contextual equivalence `Eqv`: whatever stands in
front and behind, `norm` (the C01 checker's normal form) of the whole text is unchanged, so the statement composes over
rows and survives the later passes.  `trim_conserves` is the same for `trim_element`.
-/
namespace MC.Props.C01Clean
open MC.Xml MC.Clean MC.Spec.Canon MC.Props.C01

abbrev Str := List Nat

/-! ### hyphen runs -/

theorem collapse_cons_ne (c : Nat) (r : Str) (h : ¬ (c = 45 ∧ ∃ r', r = 45 :: r')) : collapse (c :: r) = c :: collapse r := by
  rw [collapse.eq_def]
  split
  · rename_i r' heq
    injection heq with h1 h2
    exact absurd ⟨h1, _, h2⟩ h
  · rename_i c' r' _ heq; injection heq with h1 h2; subst h1; subst h2; rfl
  · rename_i heq; cases heq

theorem collapse_dd_cons (r : Str) : collapse (45 :: 45 :: r) = collapse (45 :: r) := by
  rw [collapse]

/-- one hyphen more or less inside a run of hyphens does not change the collapsed text, in any context -/
theorem collapse_dd : ∀ (u v : Str), collapse (u ++ 45 :: 45 :: v) = collapse (u ++ 45 :: v)
  | [], v => collapse_dd_cons v
  | [c], v => by
    by_cases hc : c = 45
    · subst hc; simp only [List.cons_append, List.nil_append]; rw [collapse_dd_cons, collapse_dd_cons]
    · simp only [List.cons_append, List.nil_append]
      rw [collapse_cons_ne c _ (by intro h; exact hc h.1), collapse_cons_ne c _ (by intro h; exact hc h.1), collapse_dd_cons]
  | c :: d :: u, v => by
    have ih := collapse_dd (d :: u) v
    by_cases h : c = 45 ∧ d = 45
    · obtain ⟨h1, h2⟩ := h; subst h1; subst h2
      simp only [List.cons_append] at *
      rw [collapse_dd_cons, collapse_dd_cons, ih]
    · simp only [List.cons_append] at *
      rw [collapse_cons_ne c _ (by rintro ⟨h1, r', h2⟩; injection h2 with h3 _; exact h ⟨h1, h3⟩),
          collapse_cons_ne c _ (by rintro ⟨h1, r', h2⟩; injection h2 with h3 _; exact h ⟨h1, h3⟩), ih]

/-! ### contextual equivalence of visible text -/

/-- `a` and `b` are interchangeable in every context as far as the C01 checker's normal form can tell -/
def Eqv (a b : Str) : Prop := ∀ x y : Str, norm (x ++ a ++ y) = norm (x ++ b ++ y)

theorem Eqv.rfl_ (a : Str) : Eqv a a := fun _ _ => rfl
theorem Eqv.symm {a b : Str} (h : Eqv a b) : Eqv b a := fun x y => (h x y).symm
theorem Eqv.trans {a b c : Str} (h1 : Eqv a b) (h2 : Eqv b c) : Eqv a c := fun x y => (h1 x y).trans (h2 x y)
theorem Eqv.norm_eq {a b : Str} (h : Eqv a b) : norm a = norm b := by simpa using h [] []

theorem Eqv.append {a a' b b' : Str} (h1 : Eqv a a') (h2 : Eqv b b') : Eqv (a ++ b) (a' ++ b') := by
  intro x y
  have e1 := h1 x (b ++ y)
  have e2 := h2 (x ++ a') y
  simp only [List.append_assoc] at *
  rw [e1, e2]

theorem Eqv.of_expand {a b : Str} (h : expand a = expand b) : Eqv a b := by
  intro x y; unfold norm; rw [expand_append, expand_append, expand_append, expand_append, h]

theorem eqv_dash4 : Eqv [0x2015] [45, 45, 45, 45] := by
  intro x y
  unfold norm
  rw [expand_append, expand_append, expand_append, expand_append]
  have e1 : expand [0x2015] = [45, 45, 45] := by decide
  have e2 : expand [45, 45, 45, 45] = [45, 45, 45, 45] := by decide
  rw [e1, e2]
  simp only [List.append_assoc, List.cons_append, List.nil_append]
  exact (collapse_dd (expand x) (45 :: 45 :: expand y)).symm

/-! ### visible text of a (trimmed) tree -/

mutual
/-- visible token characters, in document order: the text of the tokens; `mphantom` and the alignment marks contribute nothing -/
def visT : Node → Str
  | .text _ => []
  | .elem n _ kids =>
    if isLeafName n then (if tokenNames.contains n then textOf kids else [])
    else if n = s "mphantom" || n = s "malignmark" || n = s "maligngroup" then [] else visTL kids
def visTL : List Node → Str
  | [] => []
  | k :: ks => visT k ++ visTL ks
end

theorem visTL_append (a b : List Node) : visTL (a ++ b) = visTL a ++ visTL b := by
  induction a with
  | nil => simp [visTL]
  | cons k ks ih => simp [visTL, ih]

theorem isRustWs_isWs (c : Nat) (h : isRustWs c = true) : isWs c = true := by
  unfold isRustWs at h; unfold isWs
  simp only [Bool.or_eq_true, Bool.and_eq_true, decide_eq_true_eq] at *
  omega

theorem expand_allWs (t : Str) (h : allWs t = true) : expand t = [] := by
  induction t with
  | nil => rfl
  | cons c r ih =>
    simp only [allWs, List.all_cons, Bool.and_eq_true] at h
    have hc : expandChar c = [] := (expandChar_nil_iff c).2 (by rw [isRustWs_isWs c h.1]; rfl)
    show expandChar c ++ expand r = []
    rw [hc, ih (by simpa [allWs] using h.2)]; rfl

theorem eqv_ws {t : Str} (h : allWs t = true) : Eqv t [] := Eqv.of_expand (by rw [expand_allWs t h]; rfl)
theorem eqv_nbsp : Eqv nbsp [] := eqv_ws (by decide)

theorem dash_eqv {t d : Str} (h : dash t = some d) : Eqv d t := by
  unfold dash at h
  split at h
  · rename_i h1; injection h with h; subst h; subst h1; exact Eqv.of_expand (by decide)
  · split at h
    · rename_i h2; injection h with h; subst h
      simp only [Bool.or_eq_true, decide_eq_true_eq] at h2
      rcases h2 with h2 | h2
      · subst h2; exact Eqv.of_expand (by decide)
      · subst h2; exact eqv_dash4
    · cases h

/-! ### the token arms -/

/-- outcome of cleaning a node whose visible text is `v`: what comes back shows the same text; nothing comes back only if nothing showed -/
def Res (o : Option Node) (v : Str) : Prop :=
  match o with
  | some r => Eqv (visT r) v
  | none => Eqv [] v

theorem leaf_mi : isLeafName (s "mi") = true := by decide
theorem leaf_mn : isLeafName (s "mn") = true := by decide
theorem leaf_mo : isLeafName (s "mo") = true := by decide
theorem leaf_mtext : isLeafName (s "mtext") = true := by decide
theorem leaf_none : isLeafName (s "none") = true := by decide
theorem tok_mi : tokenNames.contains (s "mi") = true := by decide
theorem tok_mn : tokenNames.contains (s "mn") = true := by decide
theorem tok_mo : tokenNames.contains (s "mo") = true := by decide
theorem tok_mtext : tokenNames.contains (s "mtext") = true := by decide
theorem tok_mspace : tokenNames.contains (s "mspace") = false := by decide
theorem tok_none : tokenNames.contains (s "none") = false := by decide
theorem notleaf_mrow : isLeafName (s "mrow") = false := by decide
theorem notphantom_mrow : (s "mrow" = s "mphantom" || s "mrow" = s "malignmark" || s "mrow" = s "maligngroup") = false := by decide

theorem visT_tok (n : Str) (attrs : List (Str × Str)) (t : Str) (hl : isLeafName n = true) (ht : tokenNames.contains n = true) :
    visT (leaf n attrs t) = t := by
  unfold leaf; rw [visT, if_pos hl, if_pos ht]; simp [textOf]

theorem visT_makeEmpty (attrs : List (Str × Str)) : visT (makeEmpty attrs) = nbsp := by
  unfold makeEmpty; rw [visT, if_pos leaf_mtext, if_pos tok_mtext]; simp [textOf]
theorem visT_createEmpty : visT createEmpty = nbsp := by
  unfold createEmpty; rw [visT, if_pos leaf_mtext, if_pos tok_mtext]; simp [textOf]

theorem visT_mrow (attrs : List (Str × Str)) (kids : List Node) : visT (.elem (s "mrow") attrs kids) = visTL kids := by
  rw [visT]; simp only [notleaf_mrow, notphantom_mrow]; simp

theorem eqv_sign (c : Nat) (r : Str) (h : c = 45 ∨ c = 0x2212) : Eqv ([45] ++ (r ++ [])) (c :: r) := by
  apply Eqv.of_expand
  rcases h with h | h <;> subst h <;> simp [expand] <;> decide

theorem cleanLeaf_conserves (prc : Bool) (n : Str) (attrs : List (Str × Str)) (t : Str) (hl : isLeafName n = true) :
    Res (cleanLeaf prc n attrs t) (if tokenNames.contains n then t else []) := by
  unfold cleanLeaf
  split
  · -- empty token
    rename_i h
    simp only [Bool.and_eq_true, List.isEmpty_iff] at h
    have ht : t = [] := h.2
    subst ht
    have hv : (if tokenNames.contains n = true then ([] : Str) else []) = [] := by split <;> rfl
    rw [hv]
    split
    · show Eqv (visT (makeEmpty attrs)) []; rw [visT_makeEmpty]; exact eqv_nbsp
    · exact Eqv.rfl_ _
  · split
    · -- mn
      rename_i hn; subst hn; simp only [tok_mn, if_true]
      cases t with
      | nil => show Eqv (visT (leaf _ _ _)) _; rw [visT_tok _ _ _ leaf_mn tok_mn]; exact Eqv.rfl_ _
      | cons c r =>
        show Res (if (c = 45 || c = 0x2212) && !r.isEmpty then _ else _) _
        split
        · rename_i hc
          simp only [Bool.and_eq_true, Bool.or_eq_true, decide_eq_true_eq] at hc
          show Eqv (visT (.elem (s "mrow") _ _)) _
          rw [visT_mrow]; simp only [visTL, visT_tok _ _ _ leaf_mo tok_mo, visT_tok _ _ _ leaf_mn tok_mn]
          exact eqv_sign c r hc.1
        · show Eqv (visT (leaf _ _ _)) _; rw [visT_tok _ _ _ leaf_mn tok_mn]; exact Eqv.rfl_ _
    · split
      · -- mi
        rename_i hn; subst hn; simp only [tok_mi, if_true]
        split
        · rename_i d hd; show Eqv (visT (leaf _ _ _)) _; rw [visT_tok _ _ _ leaf_mi tok_mi]; exact dash_eqv hd
        · split
          · show Eqv (visT (leaf _ _ _)) _; rw [visT_tok _ _ _ leaf_mo tok_mo]; exact Eqv.rfl_ _
          · split
            · rename_i h3; subst h3; show Eqv (visT (leaf _ _ _)) _; rw [visT_tok _ _ _ leaf_mi tok_mi]; exact Eqv.of_expand (by decide)
            · show Eqv (visT (leaf _ _ _)) _; rw [visT_tok _ _ _ leaf_mi tok_mi]; exact Eqv.rfl_ _
      · split
        · -- mtext
          rename_i hn; subst hn; simp only [tok_mtext, if_true]
          split
          · rename_i hw; show Eqv (visT (leaf _ _ _)) _; rw [visT_tok _ _ _ leaf_mtext tok_mtext]; exact eqv_nbsp.trans (eqv_ws hw).symm
          · split
            · rename_i d hd; show Eqv (visT (leaf _ _ _)) _; rw [visT_tok _ _ _ leaf_mtext tok_mtext]; exact dash_eqv hd
            · split
              · show Eqv (visT (leaf _ _ _)) _; rw [visT_tok _ _ _ leaf_mo tok_mo]; exact Eqv.rfl_ _
              · show Eqv (visT (leaf _ _ _)) _; rw [visT_tok _ _ _ leaf_mtext tok_mtext]; exact Eqv.rfl_ _
        · split
          · -- mo
            rename_i hn; subst hn; simp only [tok_mo, if_true]
            split
            · rename_i hw; show Eqv (visT (leaf _ _ _)) _; rw [visT_tok _ _ _ leaf_mtext tok_mtext]; exact eqv_nbsp.trans (eqv_ws hw).symm
            · split
              · rename_i h3; subst h3; show Eqv (visT (leaf _ _ _)) _; rw [visT_tok _ _ _ leaf_mo tok_mo]; exact Eqv.of_expand (by decide)
              · split
                · rename_i h3; subst h3; show Eqv (visT (leaf _ _ _)) _; rw [visT_tok _ _ _ leaf_mo tok_mo]; exact Eqv.of_expand (by decide)
                · split
                  · show Eqv (visT (leaf _ _ _)) _; rw [visT_tok _ _ _ leaf_mi tok_mi]; exact Eqv.rfl_ _
                  · split
                    · split
                      · show Eqv (visT (leaf _ _ _)) _; rw [visT_tok _ _ _ leaf_mi tok_mi]; exact Eqv.rfl_ _
                      · show Eqv (visT (leaf _ _ _)) _; rw [visT_tok _ _ _ leaf_mo tok_mo]; exact Eqv.rfl_ _
                    · show Eqv (visT (leaf _ _ _)) _; rw [visT_tok _ _ _ leaf_mo tok_mo]; exact Eqv.rfl_ _
          · split
            · -- mspace
              rename_i hn; subst hn; simp only [tok_mspace]
              show Eqv (visT (leaf _ _ _)) _; rw [visT_tok _ _ _ leaf_mtext tok_mtext]; exact eqv_nbsp
            · -- any other leaf keeps its name and text
              show Eqv (visT (.elem n attrs _)) _
              rw [visT]; simp only [hl, if_true]
              split
              · split
                · rename_i he; simp only [List.isEmpty_iff] at he; subst he; exact Eqv.rfl_ _
                · simp [textOf]; exact Eqv.rfl_ _
              · exact Eqv.rfl_ _

/-! ### lists of cleaned children -/

theorem visT_lift (attrs : List (Str × Str)) (k : Node) : visT (lift attrs k) = visT k := by
  cases k with
  | text t => rfl
  | elem n a kids => simp only [lift]; rw [visT, visT]

theorem isWsMtext_eqv (k : Node) (h : isWsMtext k = true) : Eqv (visT k) [] := by
  unfold isWsMtext at h
  split at h
  · rename_i n a t
    simp only [Bool.and_eq_true, decide_eq_true_eq] at h
    obtain ⟨h1, h2⟩ := h; subst h1; subst h2
    rw [visT, if_pos leaf_mtext, if_pos tok_mtext]; simp only [textOf, List.append_nil]; exact eqv_nbsp
  · cases h

theorem mergeWsLoop_eqv (acc : List Node) (prev : Node) (prevWs : Bool) (rest : List Node)
    (hp : prevWs = true → Eqv (visT prev) []) :
    Eqv (visTL (mergeWsLoop acc prev prevWs rest)) (visTL acc ++ visT prev ++ visTL rest) := by
  induction rest generalizing acc prev prevWs with
  | nil =>
    unfold mergeWsLoop
    split
    · rename_i h
      simp only [Bool.and_eq_true] at h
      simp only [visTL, List.append_nil]
      have := (Eqv.rfl_ (visTL acc)).append (hp h.2).symm
      simpa using this
    · rw [visTL_append]; simp [visTL]; exact Eqv.rfl_ _
  | cons c rest ih =>
    unfold mergeWsLoop
    split
    · rename_i h
      simp only [Bool.and_eq_true] at h
      refine (ih acc prev prevWs hp).trans ?_
      simp only [visTL]
      have hc := (isWsMtext_eqv c h.1).symm
      have := ((Eqv.rfl_ (visTL acc ++ visT prev)).append hc).append (Eqv.rfl_ (visTL rest))
      simpa [List.append_assoc] using this
    · split
      · rename_i _ h
        refine (ih acc c false (by intro h'; cases h')).trans ?_
        simp only [visTL]
        have := ((Eqv.rfl_ (visTL acc)).append (hp h).symm).append (Eqv.rfl_ (visT c ++ visTL rest))
        simpa [List.append_assoc] using this
      · refine (ih (acc ++ [prev]) c (isWsMtext c) (fun h => isWsMtext_eqv c h)).trans ?_
        rw [visTL_append]; simp [visTL, List.append_assoc]; exact Eqv.rfl_ _

theorem mergeWs_eqv (cs : List Node) : Eqv (visTL (mergeWs cs)) (visTL cs) := by
  cases cs with
  | nil => exact Eqv.rfl_ _
  | cons k ks =>
    have := mergeWsLoop_eqv [] k (isWsMtext k) ks (fun h => isWsMtext_eqv k h)
    simpa [mergeWs, visTL] using this

theorem assureOne_eqv (cs : List Node) : Eqv (visTL (assureOne cs)) (visTL cs) := by
  unfold assureOne
  split
  · simp only [visTL, visT_createEmpty, List.append_nil]; exact eqv_nbsp
  · exact Eqv.rfl_ _
  · simp only [visTL, visT_mrow, List.append_nil]; exact Eqv.rfl_ _

theorem isEmptyElement_eqv (k : Node) (h : isEmptyElement k = true) : Eqv (visT k) [] := by
  cases k with
  | text t => exact Eqv.rfl_ _
  | elem n attrs kids =>
    simp only [isEmptyElement, Bool.or_eq_true, Bool.and_eq_true, decide_eq_true_eq] at h
    rcases h with ⟨hl, hw⟩ | ⟨⟨hn, hk⟩, _⟩
    · rw [visT, if_pos hl]; split
      · exact eqv_ws hw
      · exact Eqv.rfl_ _
    · subst hn; rw [visT_mrow]; simp only [List.isEmpty_iff] at hk; subst hk; exact Eqv.rfl_ _

theorem allEmpty_eqv (cs : List Node) (h : cs.all isEmptyElement = true) : Eqv (visTL cs) [] := by
  induction cs with
  | nil => exact Eqv.rfl_ _
  | cons k ks ih =>
    simp only [List.all_cons, Bool.and_eq_true] at h
    have := (isEmptyElement_eqv k h.1).append (ih h.2)
    simpa [visTL] using this

theorem isBlankMtext_eqv (k : Node) (h : isBlankMtext k = true) : Eqv (visT k) [] := by
  cases k with
  | text t => exact Eqv.rfl_ _
  | elem n attrs kids =>
    simp only [isBlankMtext, Bool.and_eq_true, decide_eq_true_eq] at h
    obtain ⟨hn, hw⟩ := h; subst hn
    rw [visT, if_pos leaf_mtext, if_pos tok_mtext]; exact eqv_ws hw

theorem cleanL_length (prc : Bool) (pn : Str) (ks : List Node) : (cleanL prc pn ks).length ≤ ks.length := by
  induction ks with
  | nil => simp [cleanL]
  | cons k ks ih =>
    rw [cleanL]; simp only [List.length_append, List.length_cons]
    split <;> simp <;> omega

/-! ### what becomes of an element once its children are cleaned -/

theorem visT_none (attrs : List (Str × Str)) : visT (.elem (s "none") attrs []) = [] := by
  rw [visT, if_pos leaf_none]; split <;> rfl

theorem emptied_res (prc : Bool) (pn : Str) (attrs : List (Str × Str)) (v : Str) (hv : Eqv [] v) :
    Res (if pn = s "mmultiscripts" then some (.elem (s "none") attrs []) else if prc then some (makeEmpty attrs) else none) v := by
  split
  · show Eqv (visT _) v; rw [visT_none]; exact hv
  · split
    · show Eqv (visT _) v; rw [visT_makeEmpty]; exact eqv_nbsp.trans hv
    · exact hv

theorem rowFinish_res (prc : Bool) (pn : Str) (attrs : List (Str × Str)) (cs : List Node) (v : Str) (h : Eqv (visTL cs) v) :
    Res (rowFinish prc pn attrs cs) v := by
  unfold rowFinish
  split
  · rename_i he
    simp only [Bool.and_eq_true, List.isEmpty_iff] at he
    have : cs = [] := he.1
    subst this
    exact emptied_res prc pn attrs v h
  · split
    · rename_i k
      split
      · show Eqv (visT _) v; rw [visT_lift]; simpa [visTL] using h
      · show Eqv (visT _) v; rw [visT_mrow]; exact (mergeWs_eqv _).trans h
    · show Eqv (visT _) v; rw [visT_mrow]; exact (mergeWs_eqv _).trans h

theorem cleanMsubsup_eqv (attrs : List (Str × Str)) (cs : List Node) : Eqv (visT (cleanMsubsup attrs cs)) (visTL cs) := by
  have hms : ∀ (a : List (Str × Str)) (ks : List Node) (n : Str), (n = s "msubsup" ∨ n = s "msub" ∨ n = s "msup") → visT (.elem n a ks) = visTL ks := by
    intro a ks n hn
    rcases hn with hn | hn | hn <;> subst hn <;> rw [visT] <;>
      first | (rw [if_neg (by decide)]; rw [if_neg (by decide)]) | skip
  unfold cleanMsubsup
  split
  · rename_i b sub sup
    split
    · rw [hms _ _ _ (Or.inl rfl)]; exact Eqv.rfl_ _
    · split
      · rename_i h1 h2
        have hsup : isBlankMtext sup = true := by
          simp only [Bool.and_eq_true, Bool.not_eq_true', not_and, Bool.not_eq_false] at h1 h2
          cases hh : isBlankMtext sup
          · simp [hh] at h1; simp [h1] at h2
          · rfl
        rw [hms _ _ _ (Or.inr (Or.inl rfl))]
        simp only [visTL, List.append_nil]
        exact (Eqv.rfl_ (visT b)).append ((Eqv.rfl_ (visT sub)).append (isBlankMtext_eqv sup hsup).symm) |> fun e => by simpa using e
      · split
        · rename_i h2 h3
          have hsub : isBlankMtext sub = true := by
            cases hh : isBlankMtext sub
            · simp [hh] at h2
            · rfl
          rw [hms _ _ _ (Or.inr (Or.inr rfl))]
          simp only [visTL, List.append_nil]
          have e := (Eqv.rfl_ (visT b)).append (((isBlankMtext_eqv sub hsub).symm).append (Eqv.rfl_ (visT sup)))
          simpa using e
        · rename_i h2 h3
          have hsub : isBlankMtext sub = true := by
            cases hh : isBlankMtext sub
            · simp [hh] at h2
            · rfl
          have hsup : isBlankMtext sup = true := by
            cases hh : isBlankMtext sup
            · simp [hh] at h3
            · rfl
          simp only [visTL, List.append_nil]
          have e := (Eqv.rfl_ (visT b)).append (((isBlankMtext_eqv sub hsub).symm).append ((isBlankMtext_eqv sup hsup).symm))
          simpa using e
  · rw [hms _ _ _ (Or.inl rfl)]; exact Eqv.rfl_ _

theorem otherFinish_res (prc : Bool) (n : Str) (attrs : List (Str × Str)) (cs : List Node) (v : Str)
    (hl : isLeafName n = false) (hp : (n = s "mphantom" || n = s "malignmark" || n = s "maligngroup") = false)
    (h : Eqv (visTL cs) v) : Res (otherFinish prc n attrs cs) v := by
  have hv : ∀ ks, visT (.elem n attrs ks) = visTL ks := by
    intro ks; rw [visT]; simp only [hl, hp]; simp
  unfold otherFinish
  split
  · show Eqv (visT _) v; rw [hv]; exact ((assureOne_eqv _).trans (mergeWs_eqv _)).trans h
  · split
    · split
      · rename_i he
        simp only [List.isEmpty_iff] at he; subst he
        split
        · show Eqv (visT _) v; rw [visT_createEmpty]; exact eqv_nbsp.trans h
        · exact h
      · split
        · rename_i hall
          have h0 := (allEmpty_eqv cs hall).symm.trans h
          cases cs with
          | nil => exact h0
          | cons k ks =>
            show Res (if prc then some k else none) v
            split
            · show Eqv (visT k) v
              simp only [List.all_cons, Bool.and_eq_true] at hall
              exact (isEmptyElement_eqv k hall.1).trans h0
            · exact h0
        · split
          · show Eqv (visT _) v; exact (cleanMsubsup_eqv attrs cs).trans h
          · show Eqv (visT _) v; rw [hv]; exact h
    · show Eqv (visT _) v; rw [hv]; exact h

/-! ### the theorem -/

theorem single_of_length {α} (l : List α) (x : α) (r : List α) (h : l = x :: r) (hl : l.length ≤ 1) : r = [] := by
  subst h; cases r with
  | nil => rfl
  | cons y ys => simp at hl

mutual
/-- **C01 for the clean-up skeleton.**  For every node, in every parent context: if `clean_mathml` keeps the node, the visible
text of what it returns is the node's visible text up to the documented normalisations, in every surrounding context; if it
removes the node, the node showed nothing. -/
theorem clean_conserves (prc : Bool) (pn : Str) : (t : Node) → Res (clean prc pn t) (visT t)
  | .text t => by rw [clean]; exact Eqv.rfl_ _
  | .elem n attrs kids => by
    have ihL := fun (p : Bool) (q : Str) => cleanL_conserves p q kids
    rw [clean]
    split
    · rename_i hl
      rw [visT, if_pos hl]
      exact cleanLeaf_conserves prc n attrs (textOf kids) hl
    · rename_i hl
      have hl' : isLeafName n = false := by simpa using hl
      split
      · -- an empty mrow
        rename_i he
        simp only [Bool.and_eq_true, List.isEmpty_iff, decide_eq_true_eq] at he
        obtain ⟨⟨⟨hk, _⟩, hn⟩, _⟩ := he
        subst hk; subst hn
        rw [visT_mrow]
        exact emptied_res prc pn attrs _ (Eqv.rfl_ _)
      · split
        · -- mphantom and the alignment marks show nothing
          rename_i hp
          rw [visT, if_neg hl, if_pos hp]
          split
          · show Eqv (visT _) []; rw [visT_makeEmpty]; exact eqv_nbsp
          · exact Eqv.rfl_ _
        · rename_i hp
          have hp' : (n = s "mphantom" || n = s "malignmark" || n = s "maligngroup") = false := by simpa using hp
          have hv : visT (.elem n attrs kids) = visTL kids := by rw [visT]; simp only [hl', hp']; simp
          rw [hv]
          split
          · -- mstyle / mpadded
            split
            · rename_i hk; simp only [List.isEmpty_iff] at hk; subst hk
              show Eqv (visT _) _; rw [visT_lift, visT_createEmpty]; exact eqv_nbsp
            · split
              · rename_i hlen
                have hL := ihL false n
                have hlen' := cleanL_length false n kids
                split
                · rename_i new rest heq
                  have hr : rest = [] := single_of_length _ new rest heq (by omega)
                  subst hr
                  show Eqv (visT _) _; rw [visT_lift]
                  rw [heq] at hL; simpa [visTL] using hL
                · rename_i heq
                  rw [heq] at hL
                  split
                  · show Eqv (visT _) _; rw [visT_makeEmpty]; exact eqv_nbsp.trans (by simpa [visTL] using hL)
                  · have hL' : Eqv [] (visTL kids) := by simpa [visTL] using hL
                    exact hL'
              · exact rowFinish_res prc pn _ _ _ (ihL false (s "mrow"))
          · split
            · -- mrow
              rename_i hn; subst hn
              split
              · rename_i hk; simp only [List.isEmpty_iff] at hk; subst hk
                show Eqv (visT _) _; rw [visT_mrow]; simp only [visTL, visT_createEmpty, List.append_nil]; exact eqv_nbsp
              · split
                · rename_i hlen
                  simp only [Bool.and_eq_true, decide_eq_true_eq] at hlen
                  have hL := ihL false (s "mrow")
                  have hlen' := cleanL_length false (s "mrow") kids
                  split
                  · rename_i new rest heq
                    have hr : rest = [] := single_of_length _ new rest heq (by omega)
                    subst hr
                    show Eqv (visT _) _; rw [visT_lift]
                    rw [heq] at hL; simpa [visTL] using hL
                  · rename_i heq
                    rw [heq] at hL
                    split
                    · show Eqv (visT _) _; rw [visT_makeEmpty]; exact eqv_nbsp.trans (by simpa [visTL] using hL)
                    · have hL' : Eqv [] (visTL kids) := by simpa [visTL] using hL
                      exact hL'
                · exact rowFinish_res prc pn _ _ _ (ihL false (s "mrow"))
            · -- every other container
              split
              · rename_i hk; simp only [List.isEmpty_iff] at hk; subst hk
                split
                · show Eqv (visT _) _; rw [visT]; simp only [hl', hp']; simp; exact Eqv.rfl_ _
                · exact otherFinish_res prc n attrs _ _ hl' hp' (by simp only [visTL, visT_createEmpty, List.append_nil]; exact eqv_nbsp)
              · exact otherFinish_res prc n attrs _ _ hl' hp' (ihL _ n)
/-- the children loop: what stays shows what was there -/
theorem cleanL_conserves (prc : Bool) (pn : Str) : (ts : List Node) → Eqv (visTL (cleanL prc pn ts)) (visTL ts)
  | [] => by rw [cleanL]; exact Eqv.rfl_ _
  | k :: ks => by
    have h1 := clean_conserves prc pn k
    have h2 := cleanL_conserves prc pn ks
    rw [cleanL, visTL_append]
    simp only [visTL]
    refine Eqv.append ?_ h2
    cases hc : clean prc pn k with
    | none => rw [hc] at h1; have h1' : Eqv [] (visT k) := h1; simpa [visTL] using h1'
    | some r => rw [hc] at h1; have h1' : Eqv (visT r) (visT k) := h1; simpa [visTL] using h1'
end

/-- the first phase of `canonicalize` on a whole expression (after `trim_element`): the visible text of the result is that of
the trimmed input, up to the normal form of the C01 checker -/
theorem cleanMath_conserves (t r : Node) (h : cleanMath t = some r) : norm (visT r) = norm (visT (trim t)) := by
  have := clean_conserves false (s "math") (trim t)
  unfold cleanMath at h
  rw [h] at this
  exact Eqv.norm_eq this

/-- ... and when the clean-up removes a node altogether, the node showed nothing -/
theorem clean_none_invisible (prc : Bool) (pn : Str) (t : Node) (h : clean prc pn t = none) : norm (visT t) = [] := by
  have := clean_conserves prc pn t
  rw [h] at this
  exact (Eqv.norm_eq this).symm.trans (by decide)

/-- the hypotheses are met by real trees: `x₍phantom y₎ -5` cleans to a row holding `x`, `-`, `5` (non-vacuity), and an
`msubsup` whose scripts are blank collapses to its base -/
example : (cleanMath (.elem (s "math") [] [.elem (s "mrow") [] [.elem (s "mi") [] [.text (s " x ")], .elem (s "mphantom") [] [.elem (s "mi") [] [.text (s "y")]],
      .elem (s "mn") [] [.text [0x2212, 53]]]])).map visT = some (s "x-5") := by decide +kernel
example : (clean false (s "mrow") (.elem (s "mphantom") [] [.elem (s "mi") [] [.text (s "y")]])).isNone = true := by decide +kernel
example : (cleanMath (.elem (s "math") [] [.elem (s "msubsup") [] [.elem (s "mi") [] [.text (s "b")], .elem (s "mrow") [] [], .elem (s "mtext") [] [.text [0xA0]]]])).map nameOf
    = some (s "math") := by decide +kernel
example : norm (s "----") = norm [0x2015] := by decide +kernel

end MC.Props.C01Clean
