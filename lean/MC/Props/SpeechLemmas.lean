import MC.Model.Speech
/-! Helper lemmas about the string functions of `MC.Speech` (used by the C04 and C05 property theorems). -/
namespace MC.Speech

theorem stripPrefix_eq : ∀ (pat s rest : Str), stripPrefix? pat s = some rest → s = pat ++ rest
  | [], s, rest, h => by simp [stripPrefix?] at h; simp [h]
  | _ :: _, [], rest, h => by simp [stripPrefix?] at h
  | p :: ps, c :: cs, rest, h => by
    simp only [stripPrefix?] at h
    split at h
    · rename_i hp; subst hp
      rw [stripPrefix_eq ps cs rest h]; rfl
    · cases h

/-- characters of `replaceAll` come from the string or from the replacement -/
theorem replaceAll_mem (pat rep : Str) : ∀ (f : Nat) (s : Str) (c : Nat), c ∈ replaceAll pat rep f s → c ∈ s ∨ c ∈ rep
  | 0, s, c, h => Or.inl h
  | _ + 1, [], c, h => by simp [replaceAll] at h
  | f + 1, x :: r, c, h => by
    simp only [replaceAll] at h
    split at h
    · rename_i rest hs
      have he := stripPrefix_eq _ _ _ hs
      rcases List.mem_append.mp h with h | h
      · exact Or.inr h
      · rcases replaceAll_mem pat rep f rest c h with h | h
        · left; rw [he]; exact List.mem_append.mpr (Or.inr h)
        · exact Or.inr h
    · rcases List.mem_cons.mp h with h | h
      · left; rw [h]; exact List.mem_cons_self
      · rcases replaceAll_mem pat rep f r c h with h | h
        · left; exact List.mem_cons_of_mem _ h
        · exact Or.inr h

/-- a projection (filter) that sees neither the pattern nor the replacement is unchanged by `replaceAll` -/
theorem replaceAll_filter (p : Nat → Bool) (pat rep : Str) (hp : ∀ c ∈ pat, p c = false) (hr : ∀ c ∈ rep, p c = false) :
    ∀ (f : Nat) (s : Str), (replaceAll pat rep f s).filter p = s.filter p
  | 0, s => rfl
  | _ + 1, [] => by simp [replaceAll]
  | f + 1, x :: r => by
    simp only [replaceAll]
    split
    · rename_i rest hs
      have he := stripPrefix_eq _ _ _ hs
      rw [he, List.filter_append, List.filter_append, replaceAll_filter p pat rep hp hr f rest]
      have h1 : rep.filter p = [] := List.filter_eq_nil_iff.mpr (fun c hc => by simp [hr c hc])
      have h2 : pat.filter p = [] := List.filter_eq_nil_iff.mpr (fun c hc => by simp [hp c hc])
      rw [h1, h2]
    · simp only [List.filter_cons]
      rw [replaceAll_filter p pat rep hp hr f r]

/-- removing a single character: with enough fuel nothing of it is left -/
theorem replaceAll_single_nil (c : Nat) : ∀ (f : Nat) (s : Str), s.length ≤ f → replaceAll [c] [] f s = s.filter (· ≠ c)
  | 0, s, h => by
    have : s = [] := List.eq_nil_of_length_eq_zero (by omega)
    subst this; rfl
  | _ + 1, [], _ => by simp [replaceAll]
  | f + 1, x :: r, h => by
    simp only [replaceAll, stripPrefix?]
    by_cases hx : c = x
    · subst hx
      simp only [if_true, List.nil_append]
      rw [replaceAll_single_nil c f r (by simp at h; omega)]
      simp
    · simp only [hx, if_false]
      rw [replaceAll_single_nil c f r (by simp at h; omega)]
      have : x ≠ c := fun e => hx e.symm
      simp [List.filter_cons, this]

theorem replaceS_mem (pat rep s : Str) (c : Nat) (h : c ∈ replaceS pat rep s) : c ∈ s ∨ c ∈ rep :=
  replaceAll_mem pat rep _ s c h

theorem replaceS_filter (p : Nat → Bool) (pat rep s : Str) (hp : ∀ c ∈ pat, p c = false) (hr : ∀ c ∈ rep, p c = false) :
    (replaceS pat rep s).filter p = s.filter p := replaceAll_filter p pat rep hp hr _ s

theorem trimStart_sublist (s : Str) : (trimStart s).Sublist s := by
  unfold trimStart; exact (List.dropWhile_suffix _).sublist
theorem trimEnd_sublist (s : Str) : (trimEnd s).Sublist s := by
  unfold trimEnd
  have h := (List.dropWhile_suffix isWs (l := s.reverse)).sublist
  have := List.reverse_sublist.mpr h
  simpa using this
theorem trim_sublist (s : Str) : (trim s).Sublist s :=
  (trimEnd_sublist _).trans (trimStart_sublist s)

theorem dropWhile_filter (p q : Nat → Bool) (h : ∀ c, q c = true → p c = false) :
    ∀ s : Str, (s.dropWhile p).filter q = s.filter q
  | [] => rfl
  | x :: r => by
    simp only [List.dropWhile_cons]
    split
    · rename_i hp
      rw [dropWhile_filter p q h r]
      have : q x = false := by
        cases hq : q x
        · rfl
        · have := h x hq; rw [hp] at this; cases this
      simp [List.filter_cons, this]
    · rfl

theorem trimStart_filter (q : Nat → Bool) (h : ∀ c, q c = true → isWs c = false) (s : Str) :
    (trimStart s).filter q = s.filter q := dropWhile_filter isWs q h s
theorem trimEnd_filter (q : Nat → Bool) (h : ∀ c, q c = true → isWs c = false) (s : Str) :
    (trimEnd s).filter q = s.filter q := by
  unfold trimEnd
  rw [List.filter_reverse, dropWhile_filter isWs q h, List.filter_reverse, List.reverse_reverse]
theorem trim_filter (q : Nat → Bool) (h : ∀ c, q c = true → isWs c = false) (s : Str) :
    (trim s).filter q = s.filter q := by
  unfold trim; rw [trimEnd_filter q h, trimStart_filter q h]

/-- every run reported by `pauseRuns` consists of pause characters only -/
theorem pauseRuns_chars : ∀ (f : Nat) (s : Str) (m : Str), m ∈ pauseRuns f s → ∀ c ∈ m, isPauseCh c = true
  | 0, _, m, h => by simp [pauseRuns] at h
  | _ + 1, [], m, h => by simp [pauseRuns] at h
  | f + 1, x :: r, m, h => by
    simp only [pauseRuns] at h
    split at h
    · rcases List.mem_append.mp h with h | h
      · split at h
        · simp only [List.mem_singleton] at h
          intro c hc
          rw [h] at hc
          exact List.all_eq_true.mp List.all_takeWhile c hc
        · cases h
      · exact pauseRuns_chars f _ m h
    · exact pauseRuns_chars f r m h

theorem foldl_replace_mem (ms : List Str) : ∀ (s : Str) (c : Nat), c ∈ ms.foldl (fun acc m => replaceS m [59] acc) s → c ∈ s ∨ c = 59 := by
  induction ms with
  | nil => intro s c h; exact Or.inl h
  | cons m ms ih =>
    intro s c h
    simp only [List.foldl_cons] at h
    rcases ih _ c h with h | h
    · rcases replaceS_mem _ _ _ _ h with h | h
      · exact Or.inl h
      · right; simpa using h
    · exact Or.inr h

theorem mergePausesNone_mem (s : Str) (c : Nat) (h : c ∈ mergePausesNone s) : c ∈ s ∨ c = 59 :=
  foldl_replace_mem _ s c h

theorem foldl_replace_filter (q : Nat → Bool) (hq : ∀ c, isPauseCh c = true → q c = false) (ms : List Str)
    (hm : ∀ m ∈ ms, ∀ c ∈ m, isPauseCh c = true) :
    ∀ s : Str, (ms.foldl (fun acc m => replaceS m [59] acc) s).filter q = s.filter q := by
  induction ms with
  | nil => intro s; rfl
  | cons m ms ih =>
    intro s
    simp only [List.foldl_cons]
    rw [ih (fun m' h' => hm m' (List.mem_cons_of_mem _ h'))]
    apply replaceS_filter
    · intro c hc; exact hq c (hm m List.mem_cons_self c hc)
    · intro c hc; simp only [List.mem_singleton] at hc; subst hc; exact hq 59 (by decide)

theorem mergePausesNone_filter (q : Nat → Bool) (hq : ∀ c, isPauseCh c = true → q c = false) (s : Str) :
    (mergePausesNone s).filter q = s.filter q :=
  foldl_replace_filter q hq _ (fun m hm => pauseRuns_chars _ s m hm) s

end MC.Speech
