import MC.Props.C01Trim
/-!
# C01: the checker accepts what the clean-up skeleton returns

`clean_out`: on the modelled vocabulary, trimmed input gives output in which tokens hold text only, containers hold elements
only, and nothing hidden (`mphantom`, alignment marks) or positional (`mmultiscripts`) is left — so the checker's `visibleOut`
of the output is `visT` of it (`visT_eq_visibleOut`), and `conserves_cleanMath`: **the executable C01 checker that is applied to
the implementation's outputs answers `true` on (input, skeleton's output) for every input over the vocabulary**.
-/
namespace MC.Props.C01Clean
open MC.Xml MC.Clean MC.Spec.Canon MC.Props.C01

def isText : Node → Bool
  | .text _ => true
  | .elem _ _ _ => false

def hiddenName (n : Str) : Bool := n = s "mphantom" || n = s "malignmark" || n = s "maligngroup"

mutual
/-- the shape of an output: tokens hold text only (and a leaf that is not a token holds nothing), containers hold elements only,
no hidden element and no `mmultiscripts` -/
def Out : Node → Bool
  | .text _ => false
  | .elem n _ kids =>
    if isLeafName n then kids.all isText && (tokenNames.contains n || kids.isEmpty)
    else !hiddenName n && !(n = s "mmultiscripts") && OutL kids
def OutL : List Node → Bool
  | [] => true
  | k :: ks => Out k && OutL ks
end

theorem textOf_eq_visibleOutL (kids : List Node) (h : kids.all isText = true) : visibleOutL kids = textOf kids := by
  induction kids with
  | nil => rfl
  | cons k ks ih =>
    simp only [List.all_cons, Bool.and_eq_true] at h
    cases k with
    | text t => simp only [visibleOutL, visibleOut, textOf]; rw [ih h.2]
    | elem n a c => simp [isText] at h

theorem leaf_ne_mm (n : Str) (hl : isLeafName n = true) : n ≠ s "mmultiscripts" := by
  intro h; subst h; revert hl; decide

mutual
theorem visT_eq_visibleOut : (r : Node) → Out r = true → visT r = visibleOut r
  | .text t, h => by simp [Out] at h
  | .elem n attrs kids, h => by
    rw [Out] at h
    rw [visT, visibleOut]
    by_cases hl : isLeafName n = true
    · rw [if_pos hl] at h ⊢
      simp only [Bool.and_eq_true, Bool.or_eq_true] at h
      rw [if_neg (leaf_ne_mm n hl), textOf_eq_visibleOutL kids h.1]
      rcases h.2 with ht | he
      · rw [if_pos ht]
      · simp only [List.isEmpty_iff] at he; subst he; split <;> rfl
    · rw [if_neg hl] at h ⊢
      simp only [Bool.and_eq_true, Bool.not_eq_true', decide_eq_false_iff_not] at h
      obtain ⟨⟨hh, hm⟩, hk⟩ := h
      have hh' : (n = s "mphantom" || n = s "malignmark" || n = s "maligngroup") = false := by simpa [hiddenName] using hh
      rw [if_neg hm]
      simp only [hh']
      exact visTL_eq_visibleOutL kids hk
theorem visTL_eq_visibleOutL : (ks : List Node) → OutL ks = true → visTL ks = visibleOutL ks
  | [], _ => by rw [visTL, visibleOutL]
  | k :: ks, h => by
    rw [OutL, Bool.and_eq_true] at h
    rw [visTL, visibleOutL, visT_eq_visibleOut k h.1, visTL_eq_visibleOutL ks h.2]
end

/-! ### what goes in, what comes out -/

mutual
/-- trimmed input over the modelled vocabulary: tokens hold text only, containers hold elements only -/
def In : Node → Bool
  | .text _ => false
  | .elem n _ kids => modelledEls.contains n && (if isLeafName n then kids.all isText else InL kids)
def InL : List Node → Bool
  | [] => true
  | k :: ks => In k && InL ks
end

theorem OutL_append (a b : List Node) : OutL (a ++ b) = (OutL a && OutL b) := by
  induction a with
  | nil => simp [OutL]
  | cons k ks ih => simp [OutL, ih, Bool.and_assoc]

theorem OutL_sublist {a b : List Node} (h : a.Sublist b) (hb : OutL b = true) : OutL a = true := by
  induction h with
  | slnil => rfl
  | cons x _ ih => rw [OutL, Bool.and_eq_true] at hb; exact ih hb.2
  | cons_cons x _ ih => rw [OutL, Bool.and_eq_true] at hb ⊢; exact ⟨hb.1, ih hb.2⟩

theorem out_leaf (n : Str) (attrs : List (Str × Str)) (t : Str) (hl : isLeafName n = true) (ht : tokenNames.contains n = true) : Out (leaf n attrs t) = true := by
  unfold leaf; rw [Out, if_pos hl, ht]; rfl

theorem out_makeEmpty (attrs : List (Str × Str)) : Out (makeEmpty attrs) = true := by
  unfold makeEmpty; rw [Out, if_pos leaf_mtext, tok_mtext]; rfl
theorem out_createEmpty : Out createEmpty = true := by decide

theorem out_mrow (attrs : List (Str × Str)) (kids : List Node) (h : OutL kids = true) : Out (.elem (s "mrow") attrs kids) = true := by
  rw [Out, if_neg (by decide), h]; decide

theorem out_lift (attrs : List (Str × Str)) (k : Node) : Out (lift attrs k) = Out k := by
  cases k with
  | text t => rfl
  | elem n a kids => simp only [lift]; rw [Out, Out]

theorem leaf_vocab (n : Str) (hv : modelledEls.contains n = true) (hl : isLeafName n = true) :
    n = s "mi" ∨ n = s "mn" ∨ n = s "mo" ∨ n = s "mtext" ∨ n = s "mspace" := by
  simp only [modelledEls, List.contains_eq_mem, List.mem_cons, List.mem_nil_iff, or_false, decide_eq_true_eq] at hv
  rcases hv with h | h | h | h | h | h | h | h | h | h | h | h | h | h | h | h | h | h | h | h | h | h | h | h <;> subst h <;>
    first | (exfalso; revert hl; decide) | simp

theorem cleanLeaf_out (prc : Bool) (n : Str) (attrs : List (Str × Str)) (t : Str) (hv : modelledEls.contains n = true) (hl : isLeafName n = true)
    (r : Node) (h : cleanLeaf prc n attrs t = some r) : Out r = true := by
  have hn := leaf_vocab n hv hl
  unfold cleanLeaf at h
  repeat' split at h
  all_goals try (injection h with h; subst h)
  all_goals first
    | cases h
    | exact out_makeEmpty _
    | exact out_leaf _ _ _ leaf_mo tok_mo | exact out_leaf _ _ _ leaf_mn tok_mn | exact out_leaf _ _ _ leaf_mi tok_mi | exact out_leaf _ _ _ leaf_mtext tok_mtext
    | (apply out_mrow; simp only [OutL, out_leaf _ _ _ leaf_mo tok_mo, out_leaf _ _ _ leaf_mn tok_mn]; rfl)
    | (subst_vars; first | exact out_leaf _ _ _ leaf_mo tok_mo | exact out_leaf _ _ _ leaf_mn tok_mn | exact out_leaf _ _ _ leaf_mi tok_mi | exact out_leaf _ _ _ leaf_mtext tok_mtext)
    | (exfalso; rcases hn with hn | hn | hn | hn | hn <;> simp_all)

theorem mergeWsLoop_sub (acc : List Node) (prev : Node) (b : Bool) (rest : List Node) :
    (mergeWsLoop acc prev b rest).Sublist (acc ++ prev :: rest) := by
  induction rest generalizing acc prev b with
  | nil =>
    unfold mergeWsLoop
    split
    · exact List.sublist_append_left _ _
    · exact List.Sublist.refl _
  | cons c rest ih =>
    unfold mergeWsLoop
    split
    · exact List.Sublist.trans (ih acc prev b) (List.Sublist.append (List.Sublist.refl _) (List.Sublist.cons_cons _ (List.Sublist.cons _ (List.Sublist.refl _))))
    · split
      · exact List.Sublist.trans (ih acc c false) (List.Sublist.append (List.Sublist.refl _) (List.Sublist.cons _ (List.Sublist.refl _)))
      · have := ih (acc ++ [prev]) c (isWsMtext c)
        simpa [List.append_assoc] using this

theorem mergeWs_out (cs : List Node) (h : OutL cs = true) : OutL (mergeWs cs) = true := by
  cases cs with
  | nil => rfl
  | cons k ks => exact OutL_sublist (by simpa [mergeWs] using mergeWsLoop_sub [] k (isWsMtext k) ks) h

theorem rowFinish_out (prc : Bool) (pn : Str) (attrs : List (Str × Str)) (cs : List Node) (hc : OutL cs = true) (r : Node)
    (h : rowFinish prc pn attrs cs = some r) : Out r = true := by
  unfold rowFinish at h
  repeat' split at h
  all_goals try (injection h with h; subst h)
  all_goals first
    | cases h
    | exact out_makeEmpty _
    | exact out_mrow _ _ (mergeWs_out cs hc)
    | (apply out_mrow; apply mergeWs_out; assumption)
    | (rw [Out, if_pos leaf_none]; rfl)
    | (rw [out_lift]; simp only [OutL, Bool.and_eq_true] at hc; exact hc.1)

theorem assureOne_out (cs : List Node) (h : OutL cs = true) : OutL (assureOne cs) = true := by
  unfold assureOne
  split
  · simp [OutL, out_createEmpty]
  · exact h
  · simp only [OutL, Bool.and_true]; exact out_mrow _ _ h

theorem cleanMsubsup_out (attrs : List (Str × Str)) (cs : List Node) (h : OutL cs = true) : Out (cleanMsubsup attrs cs) = true := by
  have hn : ∀ (n : Str) (ks : List Node), (n = s "msubsup" ∨ n = s "msub" ∨ n = s "msup") → OutL ks = true → Out (.elem n attrs ks) = true := by
    intro n ks hn hk
    rcases hn with hn | hn | hn <;> subst hn <;> rw [Out, if_neg (by decide), hk] <;> decide
  unfold cleanMsubsup
  split
  · rename_i b sub sup
    simp only [OutL, Bool.and_eq_true, Bool.and_true] at h
    obtain ⟨hb, hsub, hsup⟩ := h
    repeat' split
    · exact hn _ _ (Or.inl rfl) (by simp [OutL, hb, hsub, hsup])
    · exact hn _ _ (Or.inr (Or.inl rfl)) (by simp [OutL, hb, hsub])
    · exact hn _ _ (Or.inr (Or.inr rfl)) (by simp [OutL, hb, hsup])
    · exact hb
  · exact hn _ _ (Or.inl rfl) h

theorem otherFinish_out (prc : Bool) (n : Str) (attrs : List (Str × Str)) (cs : List Node) (hc : OutL cs = true)
    (hl : isLeafName n = false) (hh : hiddenName n = false) (hm : n ≠ s "mmultiscripts") (r : Node)
    (h : otherFinish prc n attrs cs = some r) : Out r = true := by
  have hgen : ∀ xs, OutL xs = true → Out (.elem n attrs xs) = true := by
    intro xs hx; rw [Out]; simp [hl, hh, hm, hx]
  unfold otherFinish at h
  split at h
  · injection h with h; subst h; exact hgen _ (assureOne_out _ (mergeWs_out cs hc))
  · split at h
    · split at h
      · split at h
        · injection h with h; subst h; exact out_createEmpty
        · cases h
      · split at h
        · cases cs with
          | nil => cases h
          | cons k ks =>
            have h' : (if prc = true then some k else none) = some r := h
            split at h'
            · injection h' with h'; subst h'; simp only [OutL, Bool.and_eq_true] at hc; exact hc.1
            · cases h'
        · split at h
          · injection h with h; subst h; exact cleanMsubsup_out attrs cs hc
          · injection h with h; subst h; exact hgen cs hc
    · injection h with h; subst h; exact hgen cs hc

theorem vocab_ne_mm (n : Str) (hv : modelledEls.contains n = true) : n ≠ s "mmultiscripts" := by
  intro h; subst h; revert hv; decide

mutual
theorem clean_out (prc : Bool) (pn : Str) : (t : Node) → In t = true → (r : Node) → clean prc pn t = some r → Out r = true
  | .text t, hin, _, _ => by simp [In] at hin
  | .elem n attrs kids, hin, r, h => by
    rw [In, Bool.and_eq_true] at hin
    obtain ⟨hv, hk⟩ := hin
    rw [clean] at h
    split at h
    · rename_i hl; exact cleanLeaf_out prc n attrs _ hv hl r h
    · rename_i hl
      have hl' : isLeafName n = false := by simpa using hl
      rw [if_neg hl] at hk
      have ihL := fun (p : Bool) (q : Str) => cleanL_out p q kids hk
      split at h
      · repeat' split at h
        all_goals try (injection h with h; subst h)
        all_goals first
          | cases h
          | exact out_makeEmpty _
          | (rw [Out, if_pos leaf_none]; rfl)
      · split at h
        · split at h
          · injection h with h; subst h; exact out_makeEmpty _
          · cases h
        · rename_i hh
          have hh' : hiddenName n = false := by simpa [hiddenName] using hh
          split at h
          · split at h
            · injection h with h; subst h; rw [out_lift]; exact out_createEmpty
            · split at h
              · have hL := ihL false n
                split at h
                · rename_i new rest heq
                  injection h with h; subst h
                  rw [out_lift]; rw [heq] at hL; simp only [OutL, Bool.and_eq_true] at hL; exact hL.1
                · split at h
                  · injection h with h; subst h; exact out_makeEmpty _
                  · cases h
              · exact rowFinish_out prc pn _ _ (ihL false (s "mrow")) r h
          · split at h
            · split at h
              · rename_i hn _
                injection h with h; subst h; subst hn
                exact out_mrow _ _ (by simp [OutL, out_createEmpty])
              · split at h
                · have hL := ihL false n
                  split at h
                  · rename_i new rest heq
                    injection h with h; subst h
                    rw [out_lift]; rw [heq] at hL; simp only [OutL, Bool.and_eq_true] at hL; exact hL.1
                  · split at h
                    · injection h with h; subst h; exact out_makeEmpty _
                    · cases h
                · exact rowFinish_out prc pn _ _ (ihL false n) r h
            · split at h
              · split at h
                · injection h with h; subst h
                  rw [Out]; simp [hl', hh', vocab_ne_mm n hv, OutL]
                · exact otherFinish_out prc n attrs _ (by simp [OutL, out_createEmpty]) hl' hh' (vocab_ne_mm n hv) r h
              · exact otherFinish_out prc n attrs _ (ihL _ n) hl' hh' (vocab_ne_mm n hv) r h
theorem cleanL_out (prc : Bool) (pn : Str) : (ts : List Node) → InL ts = true → OutL (cleanL prc pn ts) = true
  | [], _ => by rw [cleanL]; rfl
  | k :: ks, h => by
    rw [InL, Bool.and_eq_true] at h
    have h1 := clean_out prc pn k h.1
    have h2 := cleanL_out prc pn ks h.2
    rw [cleanL, OutL_append, h2, Bool.and_true]
    cases hc : clean prc pn k with
    | none => rfl
    | some r => simp [OutL, h1 r hc]
end

mutual
theorem trim_in : (t : Node) → vocabOk t = true → isText t = false → In (trim t) = true
  | .text _, _, h => by simp [isText] at h
  | .elem n attrs kids, hv, _ => by
    rw [vocabOk, Bool.and_eq_true] at hv
    rw [trim]
    by_cases hl : isLeafName n = true
    · rw [if_pos hl]
      split
      · rw [In, hv.1, if_pos hl]; rfl
      · rw [In, hv.1, if_pos hl]; rfl
    · rw [if_neg hl, In, hv.1, if_neg hl, trimL_in kids hv.2]; rfl
theorem trimL_in : (ts : List Node) → vocabOkL ts = true → InL (trimL ts) = true
  | [], _ => by rw [trimL]; rfl
  | k :: ks, h => by
    rw [vocabOkL, Bool.and_eq_true] at h
    have h2 := trimL_in ks h.2
    cases k with
    | text t => simp only [trimL, List.nil_append]; exact h2
    | elem n a c =>
      simp only [trimL, List.singleton_append, InL, Bool.and_eq_true]
      exact ⟨trim_in (.elem n a c) h.1 rfl, h2⟩
end

/-- **the C01 checker accepts the skeleton's output**: for every `<math>` tree over the modelled vocabulary, `conserves` — the
executable checker that decides C01 on the implementation's outputs — answers `true` on the raw input and what `trim_element` +
the clean-up skeleton return -/
theorem conserves_cleanMath (n : Str) (attrs : List (Str × Str)) (kids : List Node) (r : Node) (hv : vocabOk (.elem n attrs kids) = true)
    (h : cleanMath (.elem n attrs kids) = some r) : conserves (.elem n attrs kids) r = true := by
  have hin := trim_in (.elem n attrs kids) hv rfl
  have hout := clean_out false (s "math") (trim (.elem n attrs kids)) hin r h
  have := cleanMath_conserves_spec (.elem n attrs kids) r hv h
  rw [visT_eq_visibleOut r hout] at this
  unfold conserves
  rw [this]; simp

end MC.Props.C01Clean
