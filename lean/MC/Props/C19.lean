import MC.Model.Intent
/-!
# C19 — illegal intent values are ignored or reported as configured
-/
namespace MC.Props.C19
open MC.Intent

/-! ## the tokenizer terminates and its end-of-input token is reliable -/

theorem span_length (p : Nat → Bool) (s : Str) : (span p s).1.length + (span p s).2.length = s.length := by
  induction s with
  | nil => rfl
  | cons c cs ih =>
    simp only [span]
    split
    · simp only [List.length_cons]; omega
    · simp

theorem span_snd_le (p : Nat → Bool) (s : Str) : (span p s).2.length ≤ s.length := by
  have := span_length p s; omega

theorem trimStart_le (s : Str) : (trimStart s).length ≤ s.length := span_snd_le _ s

theorem ncName_lt (s n r : Str) (h : ncName s = some (n, r)) : r.length < s.length := by
  unfold ncName at h
  split at h
  · rename_i c cs
    split at h
    · injection h with h; injection h with h1 h2
      subst h2
      have := span_snd_le isNameRest cs
      simp only [List.length_cons]; omega
    · cases h
  · cases h

theorem numberBody_lt (s n r : Str) (h : numberBody s = some (n, r)) : r.length < s.length := by
  unfold numberBody at h
  have hl := span_length isDigit s
  split at h
  · cases h
  · rename_i ds r2 hne hs
    rw [hs] at hl
    simp only [List.length_cons] at hl
    have hpos : 0 < ds.length := List.length_pos_iff.mpr (fun he => hne he)
    split at h
    · injection h with h; injection h with h1 h2; subst h2
      simp only [List.length_cons]; omega
    · rename_i fs r3 _ hs2
      injection h with h; injection h with h1 h2; subst h2
      have := span_snd_le isDigit r2
      rw [hs2] at this
      simp only at this; omega
  · rename_i ds r2 hne _ hs
    injection h with h; injection h with h1 h2; subst h2
    rw [hs] at hl
    simp only at hl
    have hpos : 0 < ds.length := List.length_pos_iff.mpr (fun he => hne he)
    omega

theorem number_lt (s n r : Str) (h : number s = some (n, r)) : r.length < s.length := by
  unfold number at h
  split at h
  · rename_i r0
    cases hb : numberBody r0 with
    | none => simp [hb] at h
    | some p =>
      obtain ⟨n0, rest⟩ := p
      simp [hb] at h
      have := numberBody_lt r0 n0 rest hb
      rw [← h.2]; simp only [List.length_cons]; omega
  · exact numberBody_lt s n r h

/-- **the lexer always makes progress**: every token other than end-of-input consumes at least one character -/
theorem getNext_progress (s r : Str) (t : Tok) (h : getNext s = some (t, r)) (ht : t ≠ .none) : r.length < s.length := by
  unfold getNext at h
  split at h
  · injection h with h; injection h with h1 h2; exact absurd h1.symm ht
  · rename_i c cs
    have tl := fun (x : Str) => trimStart_le x
    split at h
    · injection h with h; injection h with h1 h2; subst h2
      have := tl cs; simp only [List.length_cons]; omega
    · split at h
      · split at h
        · rename_i n r0 hn
          injection h with h; injection h with h1 h2; subst h2
          have := ncName_lt cs n r0 hn; have := tl r0; simp only [List.length_cons]; omega
        · split at h
          · rename_i n r0 hn
            injection h with h; injection h with h1 h2; subst h2
            have := number_lt _ n r0 hn; have := tl r0; omega
          · cases h
      · split at h
        · split at h
          · rename_i n r0 hn
            injection h with h; injection h with h1 h2; subst h2
            have := ncName_lt cs n r0 hn; have := tl r0; simp only [List.length_cons]; omega
          · cases h
        · split at h
          · rename_i n r0 hn
            injection h with h; injection h with h1 h2; subst h2
            have := ncName_lt _ n r0 hn; have := tl r0; omega
          · split at h
            · rename_i n r0 hn
              injection h with h; injection h with h1 h2; subst h2
              have := number_lt _ n r0 hn; have := tl r0; omega
            · cases h

/-- the end-of-input token is produced only on empty input, so `assert!(remaining_str.is_empty())` after a complete
parse can never fire -/
theorem getNext_none (s r : Str) (h : getNext s = some (.none, r)) : s = [] ∧ r = [] := by
  unfold getNext at h
  split at h
  · injection h with h; injection h with h1 h2; exact ⟨rfl, h2.symm⟩
  · split at h
    · injection h with h; injection h with h1 h2; cases h1
    · split at h
      · split at h
        · injection h with h; injection h with h1 h2; cases h1
        · split at h
          · injection h with h; injection h with h1 h2; cases h1
          · cases h
      · split at h
        · split at h
          · injection h with h; injection h with h1 h2; cases h1
          · cases h
        · split at h
          · injection h with h; injection h with h1 h2; cases h1
          · split at h
            · injection h with h; injection h with h1 h2; cases h1
            · cases h

/-! ## the recovery wrapper: ignored or reported as configured, attribute always restored -/

/-- whatever happens, `infer_intent` leaves the element's intent attribute as it found it -/
theorem attribute_always_restored (E : Env) (errorMode rematchOk : Bool) (e : Elem) :
    (inferIntent E errorMode rematchOk e).2 = e := by
  unfold inferIntent
  split
  · rfl
  · rename_i s hs
    split
    · rfl
    · split
      · rfl
      · split <;> (cases e; simp_all)

/-- **IgnoreIntent**: an intent value that does not parse (bad grammar, missing argument, illegal nesting — any `Err`) never
makes processing fail by itself: the element is re-matched without the attribute -/
theorem ignore_mode_ignores (E : Env) (e : Elem) (s : Str) (err : Err) (he : e.intent = some s)
    (hp : parseIntent E s = .error err) : (inferIntent E false true e).1 = .rematched := by
  unfold inferIntent
  simp [he, hp]

/-- **Error**: the same input yields the error -/
theorem error_mode_reports (E : Env) (rematchOk : Bool) (e : Elem) (s : Str) (err : Err) (he : e.intent = some s)
    (hp : parseIntent E s = .error err) : (inferIntent E true rematchOk e).1 = .failed err := by
  unfold inferIntent
  simp [he, hp]

/-- a value that parses is honoured under both settings -/
theorem wellformed_honoured (E : Env) (errorMode rematchOk : Bool) (e : Elem) (s : Str) (t : ITree) (he : e.intent = some s)
    (hp : parseIntent E s = .ok t) : (inferIntent E errorMode rematchOk e).1 = .built t := by
  unfold inferIntent
  simp [he, hp]

/-- no panic on any element that carries an intent attribute (the only way `infer_intent` is entered) -/
theorem inferIntent_no_panic (E : Env) (errorMode rematchOk : Bool) (e : Elem) (s : Str) (he : e.intent = some s) :
    ∀ site, (inferIntent E errorMode rematchOk e).1 ≠ .panic site := by
  intro site
  unfold inferIntent
  simp only [he]
  split
  · simp
  · split
    · simp
    · split <;> simp

/-! ## tests of the model on concrete values (tests, not theorems about all inputs) -/
def envT : Env := { arg := fun n => if n = [97] then .ok (some (.leaf [120])) else .ok none, selfOk := true }
def s (x : String) : Str := x.toList.map Char.toNat
example : (match parseIntent envT (s " f ( $a , 3.5 ) ") with
           | .ok (.elem n _ [.ref _ _ _, .leaf true _ _]) => n == s "f" | _ => false) = true := by decide +kernel
example : (match parseIntent envT (s "f(") with | .error _ => true | _ => false) = true := by decide +kernel
example : (match parseIntent envT (s "$zz") with | .error (.argNotFound _) => true | _ => false) = true := by decide +kernel
example : (match parseIntent envT (s "f($a))") with | .error (.syntax _) => true | _ => false) = true := by decide +kernel

end MC.Props.C19
