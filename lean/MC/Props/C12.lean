import MC.Model.Prefs
/-!
# C12 — preferences read back as set, persist, and bad settings are rejected

Theorems about `MC.Prefs` (model of set_preference / get_preference after the `fix:` commit), for EVERY state, name and
value, and every behaviour of the two environment parameters (`filesOk`, `normFloat`).
-/
namespace MC.Props.C12
open MC.Prefs

theorem pget_pset_same (m : PMap) (k : String) (v : Val) : pget (pset m k v) k = some v := by
  induction m with
  | nil => simp [pset, pget, List.lookup]
  | cons p ps ih =>
    obtain ⟨k', v'⟩ := p
    unfold pset
    split
    · simp [pget, List.lookup]
    · rename_i hne
      have : (k == k') = false := by simp; exact fun h => hne h.symm
      simp only [pget, List.lookup, this]
      exact ih

theorem pget_pset_other (m : PMap) (k k' : String) (v : Val) (h : k' ≠ k) : pget (pset m k v) k' = pget m k' := by
  induction m with
  | nil =>
    have : (k' == k) = false := by simpa using h
    simp [pset, pget, List.lookup, this]
  | cons p ps ih =>
    obtain ⟨k0, v0⟩ := p
    unfold pset
    split
    · rename_i heq
      subst heq
      have : (k' == k0) = false := by simpa using h
      simp [pget, List.lookup, this]
    · by_cases hk : k' = k0
      · subst hk; simp [pget, List.lookup]
      · have : (k' == k0) = false := by simpa using hk
        simp only [pget, List.lookup, this]
        exact ih

theorem setSeparators_api (s : PState) (l : String) : (setSeparators s l).api = s.api := by
  unfold setSeparators
  simp only
  split <;> rfl

theorem setSeparators_init (s : PState) (l : String) : (setSeparators s l).initialized = s.initialized := by
  unfold setSeparators
  simp only
  split <;> rfl

theorem setSeparators_user_other (s : PState) (l k : String) (h1 : k ≠ "DecimalSeparators") (h2 : k ≠ "BlockSeparators") :
    pget (setSeparators s l).user k = pget s.user k := by
  unfold setSeparators
  simp only
  split
  · rfl
  · simp only
    rw [pget_pset_other _ _ _ _ h2, pget_pset_other _ _ _ _ h1]

theorem resetFiles_ok (E : Env) (s s1 : PState) (k v : String) (h : resetFiles E s k v = .ok s1) :
    s1.user = s.user ∧ s1.initialized = s.initialized ∧ (∀ k', k' ≠ "LanguageAuto" → pget s1.api k' = pget s.api k') := by
  unfold resetFiles at h
  split at h
  · injection h with h; subst h
    exact ⟨rfl, rfl, fun k' hk => pget_pset_other _ _ _ _ hk⟩
  · split at h
    · injection h with h; subst h; exact ⟨rfl, rfl, fun _ _ => rfl⟩
    · cases h

theorem resetFiles_ok_key (E : Env) (s s1 : PState) (k v : String) (h : resetFiles E s k v = .ok s1) :
    pget s1.api k = pget s.api k := by
  unfold resetFiles at h
  split at h
  · rename_i hc
    injection h with h; subst h
    simp only [Bool.and_eq_true, decide_eq_true_eq] at hc
    have : k ≠ "LanguageAuto" := by rw [hc.1]; decide
    exact pget_pset_other _ _ _ _ this
  · split at h
    · injection h with h; subst h; rfl
    · cases h

/-- what a successful `chooseMap` guarantees -/
theorem chooseMap_ok (E : Env) (s s1 : PState) (k v : String) (isUser : Bool)
    (h : chooseMap E s k v = .ok (s1, isUser)) :
    s1.user = s.user ∧ pget s1.api k = pget s.api k ∧
    (isUser = true → pget s.api k = none ∨ ∃ w, pget s.api k = some w ∧ w.render = v) := by
  unfold chooseMap at h
  split at h
  · cases h
  · rename_i w _ hw
    split at h
    · split at h
      · rename_i s1' hr
        injection h with h; injection h with h1 h2; subst h1; subst h2
        exact ⟨(resetFiles_ok E s _ k v hr).1, resetFiles_ok_key E s _ k v hr, by simp⟩
      · cases h
      · cases h
    · rename_i hneq
      injection h with h; injection h with h1 h2; subst h1; subst h2
      exact ⟨rfl, rfl, by simp⟩
  · rename_i hnone
    split at h
    · cases h
    · split at h
      · split at h
        · rename_i s1' hr
          injection h with h; injection h with h1 h2; subst h1; subst h2
          exact ⟨(resetFiles_ok E s _ k v hr).1, resetFiles_ok_key E s _ k v hr, fun _ => Or.inl hnone⟩
        · cases h
        · cases h
      · injection h with h; injection h with h1 h2; subst h1; subst h2
        exact ⟨rfl, rfl, fun _ => Or.inl hnone⟩
    · cases h

theorem storeUser_ok (s1 s' : PState) (k v : String) (h : storeUser s1 k v = .ok s') :
    s'.api = s1.api ∧ (k ≠ "DecimalSeparators" → k ≠ "BlockSeparators" → pget s'.user k = some (.str v)) := by
  unfold storeUser at h
  split at h
  · cases h
  · simp only at h
    split at h
    · cases h
    · cases h
    · split at h
      · split at h
        · injection h with h; subst h
          refine ⟨by rw [setSeparators_api], fun h1 h2 => ?_⟩
          rw [setSeparators_user_other _ _ _ h1 h2]; exact pget_pset_same _ _ _
        · cases h
        · injection h with h; subst h
          refine ⟨by rw [setSeparators_api], fun h1 h2 => ?_⟩
          rw [setSeparators_user_other _ _ _ h1 h2]; exact pget_pset_same _ _ _
      · injection h with h; subst h
        exact ⟨rfl, fun _ _ => pget_pset_same _ _ _⟩

end MC.Props.C12

namespace MC.Props.C12
open MC.Prefs

/-! ## read back -/

theorem storeUser_stores (s1 s' : PState) (k v : String) (h : storeUser s1 k v = .ok s') :
    s'.api = s1.api ∧ pget s'.user k = some (.str v) := by
  have h0 := storeUser_ok s1 s' k v h
  refine ⟨h0.1, ?_⟩
  by_cases h1 : k = "DecimalSeparators"
  · subst h1
    unfold storeUser at h
    split at h
    · cases h
    · simp only at h
      have e1 : ("DecimalSeparators" = "Language") = False := by decide
      have e2 : ("DecimalSeparators" = "DecimalSeparator") = False := by decide
      simp only [e1, e2, if_false, decide_false, Bool.false_and, Bool.and_false, Bool.or_self, Bool.false_eq_true] at h
      injection h with h; subst h
      exact pget_pset_same _ _ _
  · by_cases h2 : k = "BlockSeparators"
    · subst h2
      unfold storeUser at h
      split at h
      · cases h
      · simp only at h
        have e1 : ("BlockSeparators" = "Language") = False := by decide
        have e2 : ("BlockSeparators" = "DecimalSeparator") = False := by decide
        simp only [e1, e2, if_false, decide_false, Bool.false_and, Bool.and_false, Bool.or_self, Bool.false_eq_true] at h
        injection h with h; subst h
        exact pget_pset_same _ _ _
    · exact h0.2 h1 h2

/-- **string preferences read back verbatim** -/
theorem setStringPrefCore_read_back (E : Env) (s s' : PState) (k v : String) (h : setStringPrefCore E s k v = .ok s') :
    prefToString s' k = some v := by
  unfold setStringPrefCore at h
  split at h
  · cases h
  · cases h
  · rename_i s1 isUser hc
    obtain ⟨_, hapi, hu⟩ := chooseMap_ok E s s1 k v isUser hc
    split at h
    · rename_i hi
      obtain ⟨ha, hst⟩ := storeUser_stores s1 s' k v h
      unfold prefToString
      rw [ha, hapi]
      rcases hu hi with hn | ⟨w, hw, hr⟩
      · rw [hn]; simp [hst, Val.render]
      · rw [hw]; simp [hr]
    · injection h with h; subst h
      unfold prefToString
      simp [pget_pset_same, Val.render]

theorem prefToString_setSeparators (s : PState) (l k : String) (h1 : k ≠ "DecimalSeparators") (h2 : k ≠ "BlockSeparators") :
    prefToString (setSeparators s l) k = prefToString s k := by
  unfold prefToString; rw [setSeparators_api, setSeparators_user_other s l k h1 h2]

/-- an accepted `set_string_pref` is the store, followed for `LanguageAuto` by the separator recomputation -/
theorem setStringPref_ok (E : Env) (s s' : PState) (k v : String) (h : setStringPref E s k v = .ok s') :
    ∃ s2, setStringPrefCore E s k v = .ok s2 ∧ s' = (if k = "LanguageAuto" then setSeparators s2 v else s2) := by
  unfold setStringPref at h
  split at h
  · rename_i s2 hc; injection h with h; exact ⟨s2, hc, h.symm⟩
  · cases h
  · cases h

theorem setStringPref_read_back (E : Env) (s s' : PState) (k v : String) (h : setStringPref E s k v = .ok s') :
    prefToString s' k = some v := by
  obtain ⟨s2, hc, rfl⟩ := setStringPref_ok E s s' k v h
  have := setStringPrefCore_read_back E s s2 k v hc
  split
  · rename_i hk; subst hk
    rw [prefToString_setSeparators _ _ _ (by decide) (by decide)]; exact this
  · exact this

/-- the value `get_preference` is documented to return after an accepted `set_preference` -/
def normalizedValue (E : Env) (s : PState) (n v : String) : String :=
  let v1 := if n = "Language" || n = "LanguageAuto" then (normLanguage v).getD v else v
  if MC.Gen.Prefs.floatNames.contains n then (E.normFloat v1).getD v1
  else if (asciiLower v1 = "true" || asciiLower v1 = "false") && isBooleanPref s n = some true then asciiLower v1
  else v1

/-- **C12 read-back**: whatever the state, name, value and environment, an accepted `set_preference` reads back as the
documented normalisation of the value (language tag cut to two parts, booleans lower-cased for boolean preferences, floats
re-rendered, everything else verbatim). -/
theorem read_back (E : Env) (s s' : PState) (n v : String) (h : setPreference E s n v = .ok s') :
    prefToString s' n = some (normalizedValue E s n v) := by
  unfold setPreference at h
  unfold normalizedValue
  simp only at h ⊢
  split at h
  · cases h
  · cases h
  · rename_i value hval
    -- relate `value` to the normalised language value
    have hv1 : (if n = "Language" || n = "LanguageAuto" then (normLanguage v).getD v else v) = value := by
      split at hval
      · rename_i hn
        simp only [hn, if_true]
        split at hval
        · cases hval
        · rename_i w hw
          split at hval
          · cases hval
          · injection hval with hval; subst hval; simp [hw]
      · rename_i hn
        simp only [hn]
        cases hval; first | rfl | simp
    rw [hv1]
    split at h
    · cases h
    · split at h
      · cases h
      · split at h
        · rename_i hf
          simp only [hf, if_true]
          split at h
          · cases h
          · rename_i f hnf
            injection h with h; subst h
            unfold prefToString
            simp [pget_pset_same, Val.render, hnf]
        · rename_i hf
          simp only [hf]
          split at h
          · rename_i hb
            split at h
            · cases h
            · rename_i hbp
              injection h with h; subst h
              have : (asciiLower value = "true" || asciiLower value = "false") = true := by simpa using hb
              simp only [Bool.false_eq_true, if_false, this, hbp, Bool.true_and, decide_true, if_true]
              unfold prefToString
              simp only [pget_pset_same, Val.render]
              rcases Bool.or_eq_true _ _ |>.mp this with h1 | h1
              · have h1' : asciiLower value = "true" := by simpa using h1
                simp [h1']
              · have h1' : asciiLower value = "false" := by simpa using h1
                simp [h1']
            · rename_i hbp
              have := setStringPref_read_back E s s' n value h
              simp [hbp, this]
          · rename_i hb
            have hb' : (asciiLower value = "true" || asciiLower value = "false") = false := by simpa using hb
            have := setStringPref_read_back E s s' n value h
            simp [hb', this]

end MC.Props.C12

namespace MC.Props.C12
open MC.Prefs

/-! ## frame: other preferences keep their value -/

def coupled : List String := ["DecimalSeparators", "BlockSeparators", "LanguageAuto"]

theorem storeUser_frame (s1 s' : PState) (k v k' : String) (h : storeUser s1 k v = .ok s')
    (hk : k' ≠ k) (h1 : k' ≠ "DecimalSeparators") (h2 : k' ≠ "BlockSeparators") :
    pget s'.user k' = pget s1.user k' := by
  unfold storeUser at h
  split at h
  · cases h
  · simp only at h
    split at h
    · cases h
    · cases h
    · split at h
      · split at h
        · injection h with h; subst h
          rw [setSeparators_user_other _ _ _ h1 h2]; exact pget_pset_other _ _ _ _ hk
        · cases h
        · injection h with h; subst h
          rw [setSeparators_user_other _ _ _ h1 h2]; exact pget_pset_other _ _ _ _ hk
      · injection h with h; subst h
        exact pget_pset_other _ _ _ _ hk

theorem chooseMap_frame (E : Env) (s s1 : PState) (k v : String) (isUser : Bool)
    (h : chooseMap E s k v = .ok (s1, isUser)) (k' : String) (h3 : k' ≠ "LanguageAuto") :
    pget s1.api k' = pget s.api k' ∧ pget s1.user k' = pget s.user k' := by
  unfold chooseMap at h
  split at h
  · cases h
  · split at h
    · split at h
      · rename_i s1' hr
        injection h with h; injection h with h1 h2; subst h1
        have := resetFiles_ok E s _ k v hr
        exact ⟨this.2.2 k' h3, by rw [this.1]⟩
      · cases h
      · cases h
    · injection h with h; injection h with h1 h2; subst h1; exact ⟨rfl, rfl⟩
  · split at h
    · cases h
    · split at h
      · split at h
        · rename_i s1' hr
          injection h with h; injection h with h1 h2; subst h1
          have := resetFiles_ok E s _ k v hr
          exact ⟨this.2.2 k' h3, by rw [this.1]⟩
        · cases h
        · cases h
      · injection h with h; injection h with h1 h2; subst h1; exact ⟨rfl, rfl⟩
    · cases h

theorem setStringPrefCore_frame (E : Env) (s s' : PState) (k v k' : String) (h : setStringPrefCore E s k v = .ok s')
    (hk : k' ≠ k) (hc : k' ∉ coupled) : prefToString s' k' = prefToString s k' := by
  simp only [coupled, List.mem_cons, List.not_mem_nil, or_false, not_or] at hc
  obtain ⟨h1, h2, h3⟩ := hc
  unfold setStringPrefCore at h
  split at h
  · cases h
  · cases h
  · rename_i s1 isUser hcm
    obtain ⟨fa, fu⟩ := chooseMap_frame E s s1 k v isUser hcm k' h3
    split at h
    · have hs := storeUser_stores s1 s' k v h
      have hf := storeUser_frame s1 s' k v k' h hk h1 h2
      unfold prefToString
      rw [hs.1, fa, hf, fu]
    · injection h with h; subst h
      unfold prefToString
      simp only [pget_pset_other _ _ _ _ hk, fa, fu]

theorem setStringPref_frame (E : Env) (s s' : PState) (k v k' : String) (h : setStringPref E s k v = .ok s')
    (hk : k' ≠ k) (hc : k' ∉ coupled) : prefToString s' k' = prefToString s k' := by
  obtain ⟨s2, hcore, rfl⟩ := setStringPref_ok E s s' k v h
  have hf := setStringPrefCore_frame E s s2 k v k' hcore hk hc
  simp only [coupled, List.mem_cons, List.not_mem_nil, or_false, not_or] at hc
  split
  · rw [prefToString_setSeparators _ _ _ hc.1 hc.2.1]; exact hf
  · exact hf

/-- **C12 frame**: an accepted `set_preference n` changes no other preference, except the documented couplings
(`Language`/`DecimalSeparator` recompute `DecimalSeparators`/`BlockSeparators`; `Language := Auto` saves `LanguageAuto`). -/
theorem frame (E : Env) (s s' : PState) (n v k' : String) (h : setPreference E s n v = .ok s')
    (hk : k' ≠ n) (hc : k' ∉ coupled) : prefToString s' k' = prefToString s k' := by
  unfold setPreference at h
  simp only at h
  split at h
  · cases h
  · cases h
  · split at h
    · cases h
    · split at h
      · cases h
      · split at h
        · split at h
          · cases h
          · injection h with h; subst h
            unfold prefToString
            simp only [pget_pset_other _ _ _ _ hk]
        · split at h
          · split at h
            · cases h
            · injection h with h; subst h
              unfold prefToString
              simp only [pget_pset_other _ _ _ _ hk]
            · exact setStringPref_frame E s s' n _ k' h hk hc
          · exact setStringPref_frame E s s' n _ k' h hk hc

/-! ## rejection -/

theorem language_name_not_float : MC.Gen.Prefs.floatNames.contains "Language" = false ∧
    MC.Gen.Prefs.floatNames.contains "LanguageAuto" = false := by decide

/-- **unknown names are rejected** with an error (never a panic, never accepted), whatever the value -/
theorem reject_unknown (E : Env) (s : PState) (n v : String)
    (ha : pget s.api n = none) (hu : pget s.user n = none) (hf : MC.Gen.Prefs.floatNames.contains n = false) :
    ∃ k, setPreference E s n v = .err k := by
  unfold setPreference
  simp only
  split
  · exact ⟨_, rfl⟩
  · rename_i p hp
    split at hp
    · split at hp
      · cases hp
      · split at hp <;> cases hp
    · cases hp
  · split
    · exact ⟨_, rfl⟩
    · split
      · exact ⟨_, rfl⟩
      · simp only [hf, Bool.false_eq_true, if_false]
        have hb : isBooleanPref s n = none := by simp [isBooleanPref, ha, hu]
        have hs : ∀ val, setStringPref E s n val = .err "unknown-preference" := by
          intro val; simp [setStringPref, setStringPrefCore, chooseMap, ha, hu]
        split
        · rw [hb]; exact ⟨_, rfl⟩
        · exact ⟨_, hs _⟩


/-- **wrong kind, float**: a float preference given text that is not a number is an error -/
theorem reject_non_float (E : Env) (s : PState) (n v : String) (hf : MC.Gen.Prefs.floatNames.contains n = true)
    (hinit : s.initialized = true) (hv : E.normFloat v = none) :
    setPreference E s n v = .err "not-a-float" := by
  have hn1 : n ≠ "Language" := by intro h; subst h; exact absurd hf (by decide)
  have hn2 : n ≠ "LanguageAuto" := by intro h; subst h; exact absurd hf (by decide)
  unfold setPreference
  simp only [hn1, hn2, hinit, hf, hv, decide_false, Bool.or_self, Bool.false_eq_true, if_false, Bool.not_true,
    Bool.false_and, if_true]

/-- **wrong kind, boolean**: a preference holding a boolean, given text that is neither true nor false, is an error -/
theorem reject_non_boolean (E : Env) (s : PState) (n v : String) (b : Bool)
    (hstored : pget s.api n = some (.bool b) ∨ (pget s.api n = none ∧ pget s.user n = some (.bool b)))
    (hv : asciiLower v ≠ "true" ∧ asciiLower v ≠ "false") (hf : MC.Gen.Prefs.floatNames.contains n = false)
    (hn1 : n ≠ "Language") (hn2 : n ≠ "LanguageAuto") (hinit : s.initialized = true) :
    setPreference E s n v = .err "wrong-kind-boolean" := by
  unfold setPreference
  simp only [hn1, hn2, hinit, hf, hv.1, hv.2, decide_false, Bool.or_self, Bool.false_eq_true, if_false, Bool.not_true,
    Bool.false_and]
  rcases hstored with h | ⟨h1, h2⟩
  · simp [setStringPref, setStringPrefCore, chooseMap, h]
  · simp [setStringPref, setStringPrefCore, chooseMap, h1, h2]

/-! ## no panic -/

/-- the two user-map entries that `set_string_pref` unwraps -/
def Inv (s : PState) : Prop :=
  (∃ d, pget s.user "DecimalSeparator" = some (.str d)) ∧ (∃ l, pget s.user "Language" = some (.str l))

theorem storeUser_no_panic (s1 : PState) (k v : String) (hi : Inv s1) : ∀ p, storeUser s1 k v ≠ .panic p := by
  intro p
  obtain ⟨⟨d, hd⟩, ⟨l, hl⟩⟩ := hi
  have hlang : ∃ l', pget (pset s1.user k (.str v)) "Language" = some (.str l') := by
    by_cases hkl : k = "Language"
    · subst hkl; exact ⟨v, pget_pset_same _ _ _⟩
    · have : ("Language" : String) ≠ k := fun h => hkl h.symm
      exact ⟨l, by rw [pget_pset_other _ _ _ _ this, hl]⟩
  obtain ⟨l', hl'⟩ := hlang
  unfold storeUser
  simp only [hd, hl, Option.bind, strOf?]
  split
  · rename_i h; split at h <;> cases h
  · rename_i h; split at h <;> cases h
  · simp only [hl']
    split <;> simp

theorem setStringPrefCore_no_panic (E : Env) (s : PState) (k v : String) (hi : Inv s) : ∀ p, setStringPrefCore E s k v ≠ .panic p := by
  intro p
  unfold setStringPrefCore
  split
  · simp
  · rename_i p' hc
    exfalso
    unfold chooseMap at hc
    split at hc
    · cases hc
    · split at hc
      · split at hc
        · cases hc
        · cases hc
        · rename_i hr; unfold resetFiles at hr; split at hr; · cases hr
          · split at hr <;> cases hr
      · cases hc
    · split at hc
      · cases hc
      · split at hc
        · split at hc
          · cases hc
          · cases hc
          · rename_i hr; unfold resetFiles at hr; split at hr; · cases hr
            · split at hr <;> cases hr
        · cases hc
      · cases hc
  · rename_i s1 isUser hc
    split
    · have hu := (chooseMap_ok E s s1 k v isUser hc).1
      have hi1 : Inv s1 := by unfold Inv; rw [hu]; exact hi
      exact storeUser_no_panic s1 k v hi1 p
    · simp

theorem setStringPref_no_panic (E : Env) (s : PState) (k v : String) (hi : Inv s) : ∀ p, setStringPref E s k v ≠ .panic p := by
  intro p
  unfold setStringPref
  split
  · simp
  · simp
  · rename_i p' hc; exact absurd hc (setStringPrefCore_no_panic E s k v hi p')

/-- **no panic**: in every state satisfying `Inv`, `set_preference` returns a value or an error for every name and value -/
theorem setPreference_no_panic (E : Env) (s : PState) (n v : String) (hi : Inv s) :
    ∀ p, setPreference E s n v ≠ .panic p := by
  intro p
  unfold setPreference
  simp only
  split
  · simp
  · rename_i p' hp
    split at hp
    · split at hp
      · cases hp
      · split at hp <;> cases hp
    · cases hp
  · split
    · simp
    · split
      · simp
      · split
        · split <;> simp
        · split
          · split
            · simp
            · simp
            · exact setStringPref_no_panic E s n _ hi p
          · exact setStringPref_no_panic E s n _ hi p

/-- `get_preference` never panics (it is total in the model by construction; stated for completeness) -/
theorem getPreference_no_panic (s : PState) (n : String) : ∀ p, getPreference s n ≠ .panic p := by
  intro p; unfold getPreference; split
  · simp
  · split <;> simp

end MC.Props.C12

namespace MC.Props.C12
open MC.Prefs

theorem storeUser_inv (s1 s' : PState) (k v : String) (h : storeUser s1 k v = .ok s') (hi : Inv s1) : Inv s' := by
  obtain ⟨⟨d, hd⟩, ⟨l, hl⟩⟩ := hi
  have hst := (storeUser_stores s1 s' k v h).2
  constructor
  · by_cases hk : k = "DecimalSeparator"
    · subst hk; exact ⟨v, hst⟩
    · have := storeUser_frame s1 s' k v "DecimalSeparator" h (fun e => hk e.symm) (by decide) (by decide)
      exact ⟨d, by rw [this, hd]⟩
  · by_cases hk : k = "Language"
    · subst hk; exact ⟨v, hst⟩
    · have := storeUser_frame s1 s' k v "Language" h (fun e => hk e.symm) (by decide) (by decide)
      exact ⟨l, by rw [this, hl]⟩

theorem setStringPrefCore_inv (E : Env) (s s' : PState) (k v : String) (h : setStringPrefCore E s k v = .ok s') (hi : Inv s) : Inv s' := by
  unfold setStringPrefCore at h
  split at h
  · cases h
  · cases h
  · rename_i s1 isUser hc
    have hu := (chooseMap_ok E s s1 k v isUser hc).1
    have hi1 : Inv s1 := by unfold Inv; rw [hu]; exact hi
    split at h
    · exact storeUser_inv s1 s' k v h hi1
    · injection h with h; subst h; exact hi1

theorem setSeparators_inv (s : PState) (l : String) (hi : Inv s) : Inv (setSeparators s l) := by
  unfold Inv at *
  rw [setSeparators_user_other s l _ (by decide) (by decide), setSeparators_user_other s l _ (by decide) (by decide)]
  exact hi

theorem setStringPref_inv (E : Env) (s s' : PState) (k v : String) (h : setStringPref E s k v = .ok s') (hi : Inv s) : Inv s' := by
  obtain ⟨s2, hcore, rfl⟩ := setStringPref_ok E s s' k v h
  have h2 := setStringPrefCore_inv E s s2 k v hcore hi
  split
  · exact setSeparators_inv _ _ h2
  · exact h2

/-- the invariant behind `no_panic` holds initially and is kept by every accepted `set_preference`:
so no sequence of calls can reach a state in which `set_preference` panics. -/
theorem inv_init : Inv initState := by
  refine ⟨⟨"Auto", ?_⟩, ⟨"Auto", ?_⟩⟩
  · decide +kernel
  · decide +kernel

theorem inv_step (E : Env) (s s' : PState) (n v : String) (h : setPreference E s n v = .ok s') (hi : Inv s) : Inv s' := by
  unfold setPreference at h
  simp only at h
  split at h
  · cases h
  · cases h
  · split at h
    · cases h
    · split at h
      · cases h
      · split at h
        · split at h
          · cases h
          · injection h with h; subst h; exact hi
        · split at h
          · split at h
            · cases h
            · injection h with h; subst h; exact hi
            · exact setStringPref_inv E s s' n _ h hi
          · exact setStringPref_inv E s s' n _ h hi

/-- every state reachable from the initial one by any sequence of `set_preference` calls (accepted or rejected) -/
def runOps (E : Env) : PState → List (String × String) → PState
  | s, [] => s
  | s, (n, v) :: rest =>
    match setPreference E s n v with
    | .ok s' => runOps E s' rest
    | _ => runOps E s rest

theorem inv_reachable (E : Env) (ops : List (String × String)) : Inv (runOps E initState ops) := by
  suffices h : ∀ s, Inv s → Inv (runOps E s ops) from h _ inv_init
  induction ops with
  | nil => intro s hs; exact hs
  | cons op rest ih =>
    intro s hs
    obtain ⟨n, v⟩ := op
    simp only [runOps]
    split
    · rename_i s' h; exact ih s' (inv_step E s s' n v h hs)
    · exact ih s hs

/-- **C12/C08 for the preference store**: after ANY history of calls, `set_preference` does not panic. -/
theorem no_panic_after_any_history (E : Env) (ops : List (String × String)) (n v : String) :
    ∀ p, setPreference E (runOps E initState ops) n v ≠ .panic p :=
  setPreference_no_panic E _ n v (inv_reachable E ops)

/-! non-vacuity on the real initial state -/
def envAll : Env := { filesOk := fun _ _ => true, normFloat := fun s => some s }
example : getPreference initState "Language" = .ok "Auto" := by decide +kernel
example : (match setPreference envAll initState "Verbosity" "Terse" with
           | .ok s => decide (getPreference s "Verbosity" = .ok "Terse") && decide (getPreference s "Language" = .ok "Auto")
           | _ => false) = true := by decide +kernel
example : setPreference envAll initState "Bookmark" "yes" = .err "wrong-kind-boolean" := by decide +kernel
example : setPreference envAll initState "NoSuchPref" "true" = .err "unknown-preference" := by decide +kernel

end MC.Props.C12

namespace MC.Props.C12
open MC.Prefs

/-- **read-back through `get_preference`** — needs the value not to be the library's own NO_PREFERENCE sentinel … -/
theorem get_read_back (E : Env) (s s' : PState) (n v : String) (h : setPreference E s n v = .ok s')
    (hne : normalizedValue E s n v ≠ noPreference) : getPreference s' n = .ok (normalizedValue E s n v) := by
  unfold getPreference
  rw [read_back E s s' n v h]
  simp [hne]

/-- … and the hypothesis is necessary: the full-strength statement (without `hne`) is FALSE of the code. Witness (replayed on
the implementation by the C12 check, recorded as known finding C12-sentinel-uFFFF): U+FFFF is accepted and cannot be read back. -/
theorem get_read_back_fails_for_sentinel :
    (match setPreference envAll initState "Verbosity" noPreference with
     | .ok s => decide (getPreference s "Verbosity" = .err "no-preference")
     | _ => false) = true := by decide +kernel

end MC.Props.C12
