import MC.Spec.BrailleFinal
/-!
# C07 — braille output uses only the target alphabet (final phase + shipped literals)
-/
namespace MC.Props.C07
open MC.BrailleFinal MC.Spec.BrailleFinal

/-! ## finite facts over the regenerated tables, classes and rule-file literals (all six cell codes) -/

theorem values_are_cells : codes.all valuesOk = true := by decide +kernel

/-- no shipped literal can leak a non-braille character (this theorem failed on the pinned tree for Nemeth ‰ "`00",
chemistry "(" ")", ‴ ⁗ "⠄⠄." and the Swedish literal "*[3]": four `fix:` commits) -/
theorem literals_in_alphabet : codes.all literalsOk = true := by decide +kernel

/-- the dead table entries are exactly these (a documented static discrepancy: the UEB-family class contains `.-—`, which
the regex crate reads as the range U+002E–U+2014, so a literal `-` is not matched; Finnish shares a table it only partly
uses). A change of a class or table that creates or removes a dead entry breaks this theorem. -/
theorem dead_entries_exactly :
    codes.map unmatchedKeys =
      [[], [[45]], [[45]], [[119873], [45]], [[45]],
       [[49], [119888], [116], [119830], [115], [101], [46], [45], [8212], [8213], [35]]] := by decide +kernel

/-! ## the final phase, for every input string -/

theorem replacement_cells (code : Nat) (pref : Str → Str) (c : Nat) (hcode : code ∈ codes)
    (hpref : ∀ k, (pref k).all isCell = true) (hc : inRanges (classOf code) c = true) :
    (replacement code pref c).all isCell = true := by
  unfold replacement
  split
  · exact hpref _
  · rename_i hov
    split
    · rename_i v hv
      have hval := values_are_cells
      rw [List.all_eq_true] at hval
      have h1 := hval code hcode
      unfold valuesOk at h1
      rw [List.all_eq_true] at h1
      have hmem : ([c], v) ∈ tableOf code := by
        clear h1 hval
        generalize tableOf code = tb at hv
        induction tb with
        | nil => simp [List.lookup] at hv
        | cons p ps ih =>
          obtain ⟨a, b⟩ := p
          simp only [List.lookup] at hv
          split at hv
          · rename_i heq
            have : [c] = a := by simpa using heq
            injection hv with hv; subst hv; subst this; exact List.mem_cons_self
          · exact List.mem_cons_of_mem _ (ih hv)
      have := h1 _ hmem
      simp only [hc, Bool.not_true, Bool.false_or, Bool.or_eq_true] at this
      rcases this with h | h
      · exact absurd h hov
      · exact h
    · rfl

/-- **C07, final phase**: for every string whose characters are braille cells or indicator letters matched by the code's
class, and cell-valued typeform preferences, `REPLACE_INDICATORS` leaves braille cells only -/
theorem replaceIndicators_all_cells (code : Nat) (pref : Str → Str) (s : Str) (hcode : code ∈ codes)
    (hpref : ∀ k, (pref k).all isCell = true)
    (hs : ∀ c ∈ s, isCell c = true ∨ inRanges (classOf code) c = true) :
    (replaceIndicators code pref s).all isCell = true := by
  unfold replaceIndicators
  rw [List.all_eq_true]
  intro x hx
  rw [List.mem_flatMap] at hx
  obtain ⟨c, hc, hx⟩ := hx
  split at hx
  · rename_i hin
    have := replacement_cells code pref c hcode hpref hin
    rw [List.all_eq_true] at this
    exact this x hx
  · rename_i hin
    simp at hx; subst hx
    rcases hs x hc with h | h
    · exact h
    · exact absurd h hin

theorem trimStartBlank_sub (s : Str) : ∀ x ∈ trimStartBlank s, x ∈ s := by
  induction s with
  | nil => simp [trimStartBlank]
  | cons c cs ih =>
    intro x hx
    unfold trimStartBlank at hx
    split at hx
    · rename_i r heq; injection heq with h1 h2; subst h2
      exact List.mem_cons_of_mem _ (ih x hx)
    · exact hx

theorem collapse_sub (s : Str) : ∀ x ∈ collapse s, x ∈ s := by
  intro x
  induction s using collapse.induct with
  | case1 r ih => intro hx; unfold collapse at hx; exact List.mem_cons_of_mem _ (ih hx)
  | case2 c r hne ih =>
    intro hx
    rw [collapse.eq_2 _ _ hne] at hx
    simp only [List.mem_cons] at hx ⊢
    rcases hx with h | h
    · exact Or.inl h
    · exact Or.inr (ih h)
  | case3 => intro hx; simp [collapse] at hx

/-- trimming and collapsing blanks only remove characters -/
theorem finalPhase_all_cells (code : Nat) (pref : Str → Str) (s : Str) (hcode : code ∈ codes)
    (hpref : ∀ k, (pref k).all isCell = true)
    (hs : ∀ c ∈ s, isCell c = true ∨ inRanges (classOf code) c = true) :
    (finalPhase code pref s).all isCell = true := by
  have h := replaceIndicators_all_cells code pref s hcode hpref hs
  rw [List.all_eq_true] at h ⊢
  intro x hx
  unfold finalPhase at hx
  have h1 := collapse_sub _ x hx
  unfold trimBlank at h1
  rw [List.mem_reverse] at h1
  have h2 := trimStartBlank_sub _ x h1
  rw [List.mem_reverse] at h2
  exact h x (trimStartBlank_sub _ x h2)

end MC.Props.C07
