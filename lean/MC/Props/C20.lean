import MC.Model.Highlight
/-!
# C20 — braille highlighting and cursor routing are safe and side-effect free (the highlight arithmetic)

All statements are about `MC.Highlight` (character-index model of `highlight_braille_chars`), for EVERY string of braille
cells, every code and both fill settings.
-/
namespace MC.Props.C20
open MC.Highlight

/-! ## facts about single cells (all 256 cells, by kernel evaluation) -/

theorem hl_erase_cell : ∀ k, k < 256 → erase78 (hl (0x2800 + k)) = erase78 (0x2800 + k) := by decide +kernel
theorem unhl_erase_cell : ∀ k, k < 256 → erase78 (unhl (0x2800 + k)) = erase78 (0x2800 + k) := by decide +kernel
theorem hl_cell : ∀ k, k < 256 → isCell (hl (0x2800 + k)) = true := by decide +kernel
theorem unhl_cell : ∀ k, k < 256 → isCell (unhl (0x2800 + k)) = true := by decide +kernel

theorem cell_as_offset (c : Nat) (h : isCell c = true) : ∃ k, k < 256 ∧ c = 0x2800 + k := by
  unfold isCell at h
  simp only [Bool.and_eq_true, decide_eq_true_eq] at h
  exact ⟨c - 0x2800, by omega, by omega⟩

theorem hl_erase (c : Nat) (h : isCell c = true) : erase78 (hl c) = erase78 c := by
  obtain ⟨k, hk, rfl⟩ := cell_as_offset c h; exact hl_erase_cell k hk
theorem unhl_erase (c : Nat) (h : isCell c = true) : erase78 (unhl c) = erase78 c := by
  obtain ⟨k, hk, rfl⟩ := cell_as_offset c h; exact unhl_erase_cell k hk

/-! ## positions -/

theorem findFirst_lt (p : Nat → Bool) (s : Str) (i : Nat) (h : findFirst p s = some i) : i < s.length := by
  induction s generalizing i with
  | nil => simp [findFirst] at h
  | cons c cs ih =>
    simp only [findFirst] at h
    split at h
    · injection h with h; subst h; simp
    · cases hf : findFirst p cs with
      | none => simp [hf] at h
      | some j => simp [hf] at h; subst h; have := ih j hf; simp; omega

theorem findLast_lt (p : Nat → Bool) (s : Str) (i : Nat) (h : findLast p s = some i) : i < s.length := by
  induction s generalizing i with
  | nil => simp [findLast] at h
  | cons c cs ih =>
    simp only [findLast] at h
    split at h
    · rename_i j hj; injection h with h; subst h; have := ih j hj; simp; omega
    · split at h
      · injection h with h; subst h; simp
      · cases h

theorem findFirst_le_findLast (p : Nat → Bool) (s : Str) (i j : Nat) (h1 : findFirst p s = some i) (h2 : findLast p s = some j) :
    i ≤ j := by
  induction s generalizing i j with
  | nil => simp [findFirst] at h1
  | cons c cs ih =>
    simp only [findFirst] at h1
    simp only [findLast] at h2
    split at h1
    · injection h1 with h1; subst h1; omega
    · rename_i hpc
      cases hf : findFirst p cs with
      | none => simp [hf] at h1
      | some i' =>
        simp [hf] at h1; subst h1
        split at h2
        · rename_i j' hj'; injection h2 with h2; subst h2
          have := ih i' j' hf hj'; omega
        · simp [hpc] at h2

theorem firstIndicator_spec (code : Nat) (s s' : Str) (start end_ st : Nat)
    (h : firstIndicator code s start end_ = some (s', st)) : s'.length = s.length ∧ st ≤ start := by
  unfold firstIndicator at h
  split at h
  · cases h
  · simp only at h
    split at h
    · cases h
    · split at h
      · injection h with h; injection h with h1 h2; subst h1; subst h2
        refine ⟨?_, by omega⟩
        split <;> simp
      · injection h with h; injection h with h1 h2; subst h1; subst h2
        exact ⟨rfl, by omega⟩

/-- **positions are inside the string**: `start ≤ end ≤ length`, and highlighting never changes the number of cells -/
theorem positions_in_range (code : Nat) (fill : Bool) (s s' : Str) (a b : Nat)
    (h : highlightChars code fill s = some (s', a, b)) : a ≤ b ∧ b ≤ s'.length ∧ s'.length = s.length := by
  unfold highlightChars at h
  split at h
  · rename_i start end_ hf hl
    have hle := findFirst_le_findLast isHl s start end_ hf hl
    have hlt := findLast_lt isHl s end_ hl
    split at h
    · cases h
    · rename_i s1 st hfi
      obtain ⟨hlen, hst⟩ := firstIndicator_spec code s s1 start end_ st hfi
      split at h
      · injection h with h; injection h with h1 h2; injection h2 with h2 h3
        subst h1; subst h2; subst h3
        exact ⟨by omega, by omega, hlen⟩
      · injection h with h; injection h with h1 h2; injection h2 with h2 h3
        subst h1; subst h2; subst h3
        refine ⟨by omega, ?_, ?_⟩ <;> simp <;> omega
  · injection h with h; injection h with h1 h2; injection h2 with h2 h3
    subst h1; subst h2; subst h3
    exact ⟨by omega, by omega, rfl⟩

/-- with no marked cell in the input the function is the identity and reports the whole string -/
theorem no_mark_identity (code : Nat) (fill : Bool) (s : Str) (h : findFirst isHl s = none) :
    highlightChars code fill s = some (s, 0, s.length) := by
  unfold highlightChars
  simp [h]

/-- **highlighting off**: `braille_mathml` returns the cleaned braille untouched -/
theorem off_is_identity (code : Nat) (found : Bool) (s : Str) : brailleResult code "Off" found s = some (s, 0, s.length) := by
  simp [brailleResult]

/-- **no node, no highlight**: with an id that is empty or not in the expression the braille is returned untouched, in every
style and whatever cells it contains (the matrix row separator ⣍ has dots 7-8 by itself) -/
theorem unknown_id_is_identity (code : Nat) (style : String) (s : Str) : brailleResult code style false s = some (s, 0, s.length) := by
  simp [brailleResult]

/-! ## highlighting touches nothing but dots 7 and 8 -/

theorem map_erase_set (s : Str) (i v : Nat) (hv : i < s.length → erase78 v = erase78 (s.getD i 0)) :
    (s.set i v).map erase78 = s.map erase78 := by
  induction s generalizing i with
  | nil => simp
  | cons c cs ih =>
    cases i with
    | zero => simp at hv; simp [hv]
    | succ j =>
      simp only [List.set_cons_succ, List.map_cons]
      rw [ih j (by intro hj; simpa using hv (by simpa using hj))]

theorem getD_cell (s : Str) (i : Nat) (hc : allCells s = true) (hi : i < s.length) : isCell (s.getD i 0) = true := by
  unfold allCells at hc
  rw [List.all_eq_true] at hc
  have : s.getD i 0 = s[i] := by simp [List.getD, hi]
  rw [this]; exact hc _ (List.getElem_mem hi)

theorem allCells_set (s : Str) (i v : Nat) (hc : allCells s = true) (hv : isCell v = true) : allCells (s.set i v) = true := by
  unfold allCells at *
  rw [List.all_eq_true] at *
  intro x hx
  rcases List.mem_or_eq_of_mem_set hx with h | h
  · exact hc x h
  · rw [h]; exact hv

theorem isCell_off (c : Nat) (h : isCell c = true) (f : Nat → Nat) (hf : ∀ k, k < 256 → isCell (f (0x2800 + k)) = true) :
    isCell (f c) = true := by
  obtain ⟨k, hk, rfl⟩ := cell_as_offset c h; exact hf k hk

theorem firstIndicator_erase (code : Nat) (s s' : Str) (start end_ st : Nat) (hc : allCells s = true)
    (h : firstIndicator code s start end_ = some (s', st)) : s'.map erase78 = s.map erase78 ∧ allCells s' = true := by
  unfold firstIndicator at h
  split at h
  · cases h
  · simp only at h
    split at h
    · cases h
    · split at h
      · injection h with h; injection h with h1 h2; subst h1
        -- s1 : the old mark possibly removed
        have hs1 : ∀ (s1 : Str), s1 = (if start < end_ then s.set start (unhl (s.getD start 0)) else s) →
            s1.map erase78 = s.map erase78 ∧ allCells s1 = true := by
          intro s1 e; subst e
          split
          · refine ⟨map_erase_set s start _ (fun hi => unhl_erase _ (getD_cell s start hc hi)), ?_⟩
            by_cases hi : start < s.length
            · exact allCells_set s start _ hc (isCell_off _ (getD_cell s start hc hi) unhl unhl_cell)
            · have : s.set start (unhl (s.getD start 0)) = s := List.set_eq_of_length_le (by omega)
              rw [this]; exact hc
          · exact ⟨rfl, hc⟩
        obtain ⟨e1, c1⟩ := hs1 _ rfl
        constructor
        · rw [map_erase_set _ _ _ (fun hi => hl_erase _ (getD_cell _ _ c1 hi)), e1]
        · by_cases hi : start - indicatorCount code s start < (if start < end_ then s.set start (unhl (s.getD start 0)) else s).length
          · exact allCells_set _ _ _ c1 (isCell_off _ (getD_cell _ _ c1 hi) hl hl_cell)
          · rw [List.set_eq_of_length_le (by omega)]; exact c1
      · injection h with h; injection h with h1 h2; subst h1; exact ⟨rfl, hc⟩

theorem map_erase_hl (l : Str) (hc : allCells l = true) : (l.map hl).map erase78 = l.map erase78 := by
  unfold allCells at hc
  rw [List.all_eq_true] at hc
  induction l with
  | nil => rfl
  | cons c cs ih =>
    simp only [List.map_cons]
    rw [hl_erase c (hc c (by simp)), ih (fun x hx => hc x (by simp [hx]))]

/-- **only dots 7-8 change**: for every string of cells, every code and style, the output equals the input once dots 7 and 8
are cleared everywhere -/
theorem only_dots78_change (code : Nat) (fill : Bool) (s s' : Str) (a b : Nat) (hc : allCells s = true)
    (h : highlightChars code fill s = some (s', a, b)) : s'.map erase78 = s.map erase78 := by
  unfold highlightChars at h
  split at h
  · rename_i start end_ hf0 hl0
    split at h
    · cases h
    · rename_i s1 st hfi
      obtain ⟨e1, c1⟩ := firstIndicator_erase code s s1 start end_ st hc hfi
      split at h
      · injection h with h; injection h with h1 h2; subst h1; exact e1
      · injection h with h; injection h with h1 h2; subst h1
        have cmid : allCells ((s1.drop st).take (end_ - st)) = true := by
          unfold allCells at *
          rw [List.all_eq_true] at *
          intro x hx
          exact c1 x (List.mem_of_mem_drop (List.mem_of_mem_take hx))
        simp only [List.map_append]
        rw [map_erase_hl _ cmid, ← List.map_append, ← List.map_append]
        rw [← e1]
        congr 1
        have hle : st ≤ end_ := by
          have := (firstIndicator_spec code s s1 start end_ st hfi).2
          have := findFirst_le_findLast isHl s start end_ hf0 hl0
          omega
        have : (s1.drop st).take (end_ - st) ++ s1.drop end_ = s1.drop st := by
          have : s1.drop end_ = (s1.drop st).drop (end_ - st) := by
            rw [List.drop_drop]; congr 1; omega
          rw [this, List.take_append_drop]
        rw [List.append_assoc, this, List.take_append_drop]
  · injection h with h; injection h with h1 h2; subst h1; rfl

end MC.Props.C20

namespace MC.Props.C20
open MC.Highlight

/-! ## no panic in the highlight arithmetic -/

theorem findFirst_ge_of_startsWith (q : Nat → Bool) (s pre : Str) (i : Nat) (hs : startsWith s pre = true)
    (hp : pre.all (fun c => !q c) = true) (hf : findFirst q s = some i) : pre.length ≤ i := by
  induction pre generalizing s i with
  | nil => simp
  | cons p ps ih =>
    cases s with
    | nil => simp [startsWith] at hs
    | cons c cs =>
      simp only [startsWith, Bool.and_eq_true, decide_eq_true_eq] at hs
      simp only [List.all_cons, Bool.and_eq_true, Bool.not_eq_true'] at hp
      simp only [findFirst] at hf
      have hq : q c = false := by rw [hs.1]; exact hp.1
      simp only [hq, Bool.false_eq_true, if_false] at hf
      cases hf' : findFirst q cs with
      | none => simp [hf'] at hf
      | some j =>
        simp [hf'] at hf; subst hf
        have := ih cs j hs.2 hp.2 hf'
        simp; omega

theorem prefixIndex_le (code : Nat) (s : Str) (start : Nat) (hf : findFirst isHl s = some start) :
    prefixIndex code s start ≤ start := by
  unfold prefixIndex
  simp only
  split
  · split
    · rename_i h3
      have := findFirst_ge_of_startsWith isHl s _ start h3 (by decide +kernel) hf
      simpa using this
    · split
      · rename_i h2
        have := findFirst_ge_of_startsWith isHl s _ start h2 (by decide +kernel) hf
        simpa using this
      · omega
  · omega

/-- **no panic**: for every string and every code, `highlight_first_indicator` stays inside the string
(after the fix that limits the indicator count to the cells examined) -/
theorem firstIndicator_no_panic (code : Nat) (s : Str) (start end_ : Nat) (hf : findFirst isHl s = some start) :
    firstIndicator code s start end_ ≠ none := by
  unfold firstIndicator
  have hp := prefixIndex_le code s start hf
  have hn : indicatorCount code s start ≤ start := by
    unfold indicatorCount
    simp only
    have : ((s.drop (prefixIndex code s start)).take (start - prefixIndex code s start)).length ≤ start - prefixIndex code s start := by
      simp [List.length_take]; omega
    exact Nat.le_trans (Nat.min_le_right _ _) (Nat.le_trans this (Nat.sub_le _ _))
  simp only [show ¬ prefixIndex code s start > start from by omega, if_false, show ¬ indicatorCount code s start > start from by omega]
  split <;> simp

theorem highlightChars_no_panic (code : Nat) (fill : Bool) (s : Str) : highlightChars code fill s ≠ none := by
  unfold highlightChars
  split
  · rename_i start end_ hf _
    have := firstIndicator_no_panic code s start end_ hf
    split
    · rename_i h; exact absurd h this
    · split <;> simp
  · simp

/-- the situation the fix repairs: Nemeth braille that begins with the two-cell Russian indicator and a marked letter
(`<mi>б</mi>` first in an expression) now highlights from the first cell -/
example : highlightChars 0 false [0x2808, 0x2808, 0x28C3, 0x282C, 0x2802] = some ([0x28C8, 0x2808, 0x28C3, 0x282C, 0x2802], 0, 2) := by
  decide +kernel
example : highlightChars 1 true [0x2830, 0x2830, 0x2820, 0x28C1, 0x2816, 0x28C3] =
    some ([0x2830, 0x2830, 0x28E0, 0x28C1, 0x28D6, 0x28C3], 2, 5) := by decide +kernel

end MC.Props.C20
