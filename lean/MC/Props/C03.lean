import MC.Spec.Rows
/-!
# C03 — row structure follows the operator dictionary

Theorems about `MC.Rows` (model of the shift/reduce row parser) for ALL token rows — well formed or not — and finite
facts about the regenerated operator dictionary.
-/
namespace MC.Props.C03
open MC.Rows

/-! ## finite facts about the regenerated dictionary -/

/-- the operators that are merged into one n-ary row have the same priority: + and −; × and the invisible times -/
theorem nary_same_priority : plusOp.prio = minusOp.prio ∧ timesSign.prio = impliedTimes.prio := by decide +kernel

/-- the four operators the parser refers to by name exist in the dictionary with the expected form -/
theorem named_operators_present :
    plusOp.isInfix = true ∧ minusOp.isInfix = true ∧ timesSign.isInfix = true ∧ impliedTimes.isInfix = true ∧
    plusOp.ident ≠ minusOp.ident ∧ timesSign.ident ≠ impliedTimes.ident := by decide +kernel

/-- fences are the loosest operators of the dictionary: every left/right fence has priority ≤ 20 and every other infix
variant has priority ≥ 25 (so a fence is never reduced before the operators between the fences) -/
theorem fences_lowest :
    MC.Gen.OpDict.entries.all (fun e => e.2.all (fun v => if v.1 &&& 8 = 8 then v.2 ≤ 20 else v.2 ≥ 25)) = true := by
  decide +kernel

/-- every dictionary entry has between one and three variants, each prefix, infix or postfix (possibly a fence) -/
theorem variants_wellformed :
    MC.Gen.OpDict.entries.all (fun e => 1 ≤ e.2.length && e.2.length ≤ 3 && e.2.all (fun v => v.1 &&& 7 ≠ 0 && v.2 > 0)) = true := by
  decide +kernel

/-! ## yield: nothing is lost, nothing is reordered, only invisible times are inserted -/

/-- leaves of a tree in document order: (is operator, text, was inserted) -/
abbrev Atom := Bool × Str × Bool

mutual
def yieldT : T → List Atom
  | .operand t => [(false, t, false)]
  | .op t a => [(true, t, a)]
  | .row ks => yieldL ks
def yieldL : List T → List Atom
  | [] => []
  | t :: ts => yieldT t ++ yieldL ts
end

@[simp] theorem yieldL_nil : yieldL [] = [] := by simp [yieldL]
@[simp] theorem yieldL_cons (t : T) (ts : List T) : yieldL (t :: ts) = yieldT t ++ yieldL ts := by simp [yieldL]
@[simp] theorem yieldL_append (a b : List T) : yieldL (a ++ b) = yieldL a ++ yieldL b := by
  induction a with
  | nil => simp
  | cons t ts ih => simp [ih, List.append_assoc]
@[simp] theorem yield_row (ks : List T) : yieldT (.row ks) = yieldL ks := by simp [yieldT]
@[simp] theorem yield_operand (t : Str) : yieldT (.operand t) = [(false, t, false)] := by simp [yieldT]
@[simp] theorem yield_op (t : Str) (a : Bool) : yieldT (.op t a) = [(true, t, a)] := by simp [yieldT]

def frameYield (f : Frame) : List Atom := yieldL f.rkids.reverse

/-- the stack holds the top frame first; its yield reads from the bottom frame up -/
def stackYield : List Frame → List Atom
  | [] => []
  | f :: rest => stackYield rest ++ frameYield f

@[simp] theorem stackYield_nil : stackYield [] = [] := rfl
@[simp] theorem stackYield_cons (f : Frame) (r : List Frame) : stackYield (f :: r) = stackYield r ++ frameYield f := rfl

@[simp] theorem close_yield (f : Frame) : yieldT f.close = frameYield f := by
  unfold Frame.close frameYield
  split
  · rename_i t h; simp [h]
  · simp

@[simp] theorem addOp_yield (f : Frame) (t : T) (o : Op) : frameYield (f.addOp t o) = frameYield f ++ yieldT t := by
  simp [Frame.addOp, frameYield]

@[simp] theorem new_yield : frameYield Frame.new = [] := by simp [Frame.new, frameYield]

theorem addOperand_yield (f f' : Frame) (t : T) (h : f.addOperand t = .ok f') : frameYield f' = frameYield f ++ yieldT t := by
  unfold Frame.addOperand at h
  split at h
  · cases h
  · injection h with h; subst h; simp [frameYield]

theorem bind_ok {α β : Type} (x : Outcome α) (f : α → Outcome β) (b : β) (h : x.bind f = .ok b) :
    ∃ a, x = .ok a ∧ f a = .ok b := by
  cases x with
  | ok a => exact ⟨a, rfl, h⟩
  | panic p => cases h

theorem reduceOne_spec (s s' : List Frame) (h : reduceOne s = .ok s') :
    ∃ top below rest b, s = top :: below :: rest ∧ below.addOperand top.close = .ok b ∧ s' = b :: rest := by
  match s, h with
  | top :: below :: rest, h =>
    simp only [reduceOne] at h
    obtain ⟨b, hb, he⟩ := bind_ok _ _ _ h
    injection he with he
    exact ⟨top, below, rest, b, rfl, hb, he.symm⟩
  | [], h => simp [reduceOne] at h
  | [_], h => simp [reduceOne] at h

theorem reduceOne_yield (s s' : List Frame) (h : reduceOne s = .ok s') : stackYield s' = stackYield s := by
  obtain ⟨top, below, rest, b, rfl, hb, rfl⟩ := reduceOne_spec s s' h
  simp [addOperand_yield _ _ _ hb, List.append_assoc]

theorem reduce_yield (cur fuel : Nat) (s s' : List Frame) (h : reduce cur fuel s = .ok s') : stackYield s' = stackYield s := by
  induction fuel generalizing s with
  | zero => simp [reduce] at h; subst h; rfl
  | succ n ih =>
    unfold reduce at h
    split at h
    · split at h
      · obtain ⟨s1, h1, h2⟩ := bind_ok _ _ _ h
        rw [ih s1 h2, reduceOne_yield _ _ h1]
      · injection h with h; subst h; rfl
    · injection h with h; subst h; rfl

theorem reduce_ne_nil (cur fuel : Nat) (s s' : List Frame) (h : reduce cur fuel s = .ok s') (hs : s ≠ []) : s' ≠ [] := by
  induction fuel generalizing s with
  | zero => simp [reduce] at h; subst h; exact hs
  | succ n ih =>
    unfold reduce at h
    split at h
    · split at h
      · obtain ⟨s1, h1, h2⟩ := bind_ok _ _ _ h
        apply ih s1 h2
        obtain ⟨top, below, rest, b, _, _, rfl⟩ := reduceOne_spec _ _ h1
        simp
      · injection h with h; subst h; exact hs
    · injection h with h; subst h; exact hs

/-- `shift_stack` neither loses nor reorders anything: stack ++ child before = stack ++ child after -/
theorem shift_yield (s s' : List Frame) (child child' : T) (o : Op) (o' : Option Op)
    (h : shift s child o = .ok (s', child', o')) :
    stackYield s' ++ yieldT child' = stackYield s ++ yieldT child ∧ s' ≠ [] ∨
    (stackYield s' ++ yieldT child' = stackYield s ++ yieldT child ∧ s' = [] ∧ o' = none) := by
  unfold shift at h
  split at h
  · cases h
  · rename_i top rest
    split at h
    · injection h with h; injection h with h1 h2; injection h2 with h2 h3; subst h1; subst h2
      left; exact ⟨rfl, by simp⟩
    · split at h
      · injection h with h; injection h with h1 h2; injection h2 with h2 h3; subst h1; subst h2
        left; exact ⟨by simp, by simp⟩
      · split at h
        · simp only at h
          split at h
          · injection h with h; injection h with h1 h2; injection h2 with h2 h3; subst h1; subst h2
            left; refine ⟨?_, by simp⟩
            simp [Frame.addOp, frameYield, Frame.new, List.append_assoc]
          · injection h with h; injection h with h1 h2; injection h2 with h2 h3; subst h1; subst h2; subst h3
            by_cases hr : rest = []
            · right; subst hr; exact ⟨by simp [Frame.addOp, frameYield], rfl, rfl⟩
            · left; exact ⟨by simp [Frame.addOp, frameYield, List.append_assoc], hr⟩
        · split at h
          · cases h
          · rename_i last init hk
            split at h
            · cases h
            · split at h
              · injection h with h; injection h with h1 h2; injection h2 with h2 h3; subst h1; subst h2
                left; refine ⟨?_, by simp⟩
                simp [frameYield, hk, List.append_assoc]
              · injection h with h; injection h with h1 h2; injection h2 with h2 h3; subst h1; subst h2
                left; refine ⟨?_, by simp⟩
                simp [frameYield, hk, List.append_assoc]

theorem addToTop_yield (s s' : List Frame) (child : T) (o : Option Op) (h : addToTop s child o = .ok s') :
    stackYield s' = stackYield s ++ yieldT child ∧ s' ≠ [] := by
  unfold addToTop at h
  split at h
  · cases h
  · rename_i top rest
    split at h
    · injection h with h; subst h; exact ⟨by simp [List.append_assoc], by simp⟩
    · obtain ⟨t, ht, he⟩ := bind_ok _ _ _ h
      injection he with he; subst he
      exact ⟨by simp [addOperand_yield _ _ _ ht, List.append_assoc], by simp⟩

/-- what the parser may insert: the invisible times, flagged as added -/
def timesAtom : Atom := (true, [0x2062], true)

theorem insertImplied_yield (s s' : List Frame) (h : insertImplied s = .ok s') (hs : s ≠ []) :
    stackYield s' = stackYield s ++ [timesAtom] ∧ s' ≠ [] := by
  unfold insertImplied at h
  obtain ⟨s1, h1, h⟩ := bind_ok _ _ _ h
  obtain ⟨r, h2, h⟩ := bind_ok _ _ _ h
  obtain ⟨s2, c2, o2⟩ := r
  split at h
  · rename_i o ho
    have hy := reduce_yield _ _ _ _ h1
    obtain ⟨h3, h4⟩ := addToTop_yield _ _ _ _ h
    rcases shift_yield _ _ _ _ _ _ h2 with ⟨hsy, _⟩ | ⟨_, _, hn⟩
    · refine ⟨?_, h4⟩
      rw [h3, hsy, hy]; simp [timesAtom]
    · simp only at ho; rw [hn] at ho; cases ho
  · cases h

/-- visible atoms: everything except inserted invisible times -/
def vis (l : List Atom) : List Atom := l.filter (fun a => a != timesAtom)

def tokAtom : Tok → Atom
  | .operand t => (false, t, false)
  | .mo t => (true, t, false)

theorem vis_append (a b : List Atom) : vis (a ++ b) = vis a ++ vis b := by simp [vis, List.filter_append]
theorem vis_times : vis [timesAtom] = [] := by simp [vis]
theorem vis_tok (t : Tok) : vis [tokAtom t] = [tokAtom t] := by
  cases t <;> simp [vis, tokAtom, timesAtom]

/-- **one step of the parser appends exactly the token** to the visible yield of the stack -/
theorem step_vis (s s' : List Frame) (t : Tok) (n : Bool) (h : step s t n = .ok s') (hs : s ≠ []) :
    vis (stackYield s') = vis (stackYield s) ++ [tokAtom t] ∧ s' ≠ [] := by
  cases t with
  | operand text =>
    simp only [step] at h
    obtain ⟨s1, h1, h⟩ := bind_ok _ _ _ h
    obtain ⟨h3, h4⟩ := addToTop_yield _ _ _ _ h
    refine ⟨?_, h4⟩
    rw [h3, vis_append]
    split at h1
    · obtain ⟨hy, _⟩ := insertImplied_yield _ _ h1 hs
      rw [hy, vis_append, vis_times]; simp [vis, tokAtom, timesAtom]
    · injection h1 with h1; subst h1; simp [vis, tokAtom, timesAtom]
  | mo text =>
    simp only [step] at h
    split at h
    · obtain ⟨s1, h1, h⟩ := bind_ok _ _ _ h
      obtain ⟨h3, h4⟩ := addToTop_yield _ _ _ _ h
      refine ⟨?_, h4⟩
      rw [h3, vis_append]
      simp only [stackYield_cons, new_yield, List.append_nil]
      split at h1
      · obtain ⟨hy, _⟩ := insertImplied_yield _ _ h1 hs
        rw [hy, vis_append, vis_times]; simp [vis, tokAtom, timesAtom]
      · injection h1 with h1; subst h1; simp [vis, tokAtom, timesAtom]
    · obtain ⟨s1, h1, h⟩ := bind_ok _ _ _ h
      obtain ⟨r, h2, h⟩ := bind_ok _ _ _ h
      obtain ⟨s2, c2, o2⟩ := r
      obtain ⟨h3, h4⟩ := addToTop_yield _ _ _ _ h
      refine ⟨?_, h4⟩
      have hy := reduce_yield _ _ _ _ h1
      rcases shift_yield _ _ _ _ _ _ h2 with ⟨hsy, _⟩ | ⟨hsy, _, _⟩
      · rw [h3, hsy, hy, vis_append]; simp [vis, tokAtom, timesAtom]
      · rw [h3, hsy, hy, vis_append]; simp [vis, tokAtom, timesAtom]

theorem run_vis (s s' : List Frame) (toks : List Tok) (h : run s toks = .ok s') (hs : s ≠ []) :
    vis (stackYield s') = vis (stackYield s) ++ toks.map tokAtom ∧ s' ≠ [] := by
  induction toks generalizing s with
  | nil => simp [run] at h; subst h; simp [hs]
  | cons t ts ih =>
    simp only [run] at h
    obtain ⟨s1, h1, h⟩ := bind_ok _ _ _ h
    obtain ⟨hv, hn⟩ := step_vis _ _ _ _ h1 hs
    obtain ⟨hv2, hn2⟩ := ih s1 h hn
    exact ⟨by rw [hv2, hv]; simp, hn2⟩

/-- the children of all frames, folded bottom-first, read as the stack reads -/
theorem flatMap_yield : ∀ rest : List Frame, yieldL (rest.flatMap (·.rkids)).reverse = stackYield rest
  | [] => rfl
  | g :: r => by
    simp only [List.flatMap_cons, List.reverse_append, yieldL_append, stackYield_cons, frameYield]
    rw [flatMap_yield r]

/-- **C03 / C01 for rows**: whenever the row parser returns a tree, for ANY row of tokens (well formed or not), the leaves
of the tree are exactly the tokens, in order, plus inserted invisible-times operators — nothing is lost, duplicated,
reordered or invented -/
theorem parseRow_yield (toks : List Tok) (t : T) (h : parseRow toks = .ok t) : vis (yieldT t) = toks.map tokAtom := by
  unfold parseRow at h
  obtain ⟨s, hr, hf⟩ := bind_ok _ _ _ h
  obtain ⟨hv, hn⟩ := run_vis _ _ _ hr (by simp)
  unfold finish at hf
  obtain ⟨s1, h1, hf⟩ := bind_ok _ _ _ hf
  have hy := reduce_yield _ _ _ _ h1
  split at hf
  · rename_i f rest
    injection hf with hf; subst hf
    rw [close_yield]
    have hfold : frameYield { f with rkids := f.rkids ++ rest.flatMap (·.rkids) } = stackYield (f :: rest) := by
      simp only [frameYield, List.reverse_append, yieldL_append, stackYield_cons]
      congr 1
      exact flatMap_yield rest
    rw [hfold, hy, hv]; simp [vis]
  · cases hf

/-- non-vacuity and worked examples -/
def tk (k s : String) : Tok := if k = "mo" then .mo (s.toList.map Char.toNat) else .operand (s.toList.map Char.toNat)
example : (match parseRow [tk "mi" "a", tk "mo" "+", tk "mi" "b", tk "mi" "c", tk "mo" "=", tk "mo" "-", tk "mi" "d", tk "mo" "!"] with
           | .ok t => MC.Spec.Rows.bracketed t | _ => false) = true := by decide +kernel
example : (match parseRow [tk "mo" "(", tk "mi" "a", tk "mo" "+", tk "mi" "b", tk "mo" ")", tk "mi" "c"] with
           | .ok (.row [.row [.op _ _, .row [_, _, _], .op _ _], .op [0x2062] true, .operand _]) => true | _ => false) = true := by
  decide +kernel

end MC.Props.C03
