import MC.Model.Rows
/-!
# The row parser never trips one of its asserts (C03 / C08)

`canonicalize_mrows_in_mrow` and its helpers contain seven `assert!`s / `unwrap`s on the modelled path (the `panic`
outcomes of `MC.Rows`). This file proves that none of them is reachable, for EVERY sequence of tokens, whatever the
operators, their number or their nesting — with one exception that is real: the right quotation marks `’` (U+2019) and
`”` (U+201D) are right fences of priority 10, below the priority 20 of every other fence, and `( ’` does reach
`parse_stack.pop().unwrap()` on an empty stack (`quote_after_paren_panics`). The library never hands these two characters
to the row parser as `mo` tokens (an earlier pass turns them into primes / pseudo scripts), which is outside this model;
the theorem therefore assumes that no token is one of them.

The invariant (`Inv`), for the stack of frames `s` (head = top, last = bottom):
* the stack is not empty;
* every frame below the top one is waiting for an operand (`isOperand = false`);
* the bottom frame still carries the fence post as its operator and holds nothing, or exactly one operand that is not a
  left-fence leaf;
* a frame that consists of a left-fence leaf (possibly followed by one operand) still has the operator it was opened with,
  whose priority is at most 20 — so that no operator that arrives later can reduce it.
Between two tokens, additionally (`Bnd`): if the top frame ends in an operand, its last child is not an `mo` leaf.
-/
namespace MC.Props.C03NP
open MC.Rows

/-! ## facts about the operator dictionary (decided by the kernel over the regenerated table) -/

/-- the three kinds of look-up `find_operator` makes -/
def tys : List Nat := [1, 2, 4]

def opOf (text : Str) (ty : Nat) : Op :=
  match lookupVariants text with
  | none => defaultOp ty
  | some vs => findInfo text vs ty

theorem findOperator_eq (text : Str) (l r : Bool) : ∃ ty ∈ tys, findOperator text l r = opOf text ty := by
  unfold findOperator opOf
  cases l <;> cases r <;> simp [tys]

/-- is the text read as a left fence when it is looked at as the first child of a finished row (`startsWithLeftFence`)? -/
def LF (text : Str) : Bool := (findOperator text true true).isLeftFence

def quoteR (text : Str) : Bool := text == [0x2019] || text == [0x201D]

/-- per dictionary entry: (F1) a look-up that is neither a left fence nor a prefix operator has priority at least 20,
unless the text is one of the two right quotes; (F2) if the entry reads as a left fence in infix position, every look-up
has priority at most 20; (F3) no look-up is n-ary with the fence post -/
def entryOk (e : Str × List (Nat × Nat)) : Bool :=
  tys.all fun ty =>
    let o := findInfo e.1 e.2 ty
    (quoteR e.1 || o.isLeftFence || o.isPrefix || decide (20 ≤ o.prio)) &&
    (!(findInfo e.1 e.2 2).isLeftFence || decide (o.prio ≤ 20)) &&
    !isNary o fencepost

theorem entries_ok : MC.Gen.OpDict.entries.all entryOk = true := by decide +kernel

theorem defaults_ok : tys.all (fun ty => decide (20 ≤ (defaultOp ty).prio) && !(defaultOp 2).isLeftFence && !isNary (defaultOp ty) fencepost) = true := by
  decide +kernel

theorem lookup_mem {α β : Type} [BEq α] [LawfulBEq α] (k : α) (v : β) (l : List (α × β)) (h : l.lookup k = some v) : (k, v) ∈ l := by
  induction l with
  | nil => simp [List.lookup] at h
  | cons x xs ih =>
    obtain ⟨a, b⟩ := x
    simp only [List.lookup] at h
    split at h
    · rename_i heq
      have : k = a := by simpa using heq
      cases h; subst this; exact List.mem_cons_self
    · exact List.mem_cons_of_mem _ (ih h)

theorem opOf_facts (text : Str) (ty : Nat) (hty : ty ∈ tys) :
    (quoteR text = true ∨ (opOf text ty).isLeftFence = true ∨ (opOf text ty).isPrefix = true ∨ 20 ≤ (opOf text ty).prio) ∧
    (LF text = true → (opOf text ty).prio ≤ 20) ∧ isNary (opOf text ty) fencepost = false := by
  unfold opOf LF findOperator
  cases hl : lookupVariants text with
  | none =>
    have hd := defaults_ok
    rw [List.all_eq_true] at hd
    have := hd ty hty
    simp only [Bool.and_eq_true, decide_eq_true_eq, Bool.not_eq_true'] at this
    simp only [Bool.true_and, if_true]
    refine ⟨Or.inr (Or.inr (Or.inr this.1.1)), ?_, this.2⟩
    intro h; rw [this.1.2] at h; cases h
  | some vs =>
    have hm : (text, vs) ∈ MC.Gen.OpDict.entries := lookup_mem text vs _ hl
    have he := entries_ok
    rw [List.all_eq_true] at he
    have h1 := he (text, vs) hm
    unfold entryOk at h1
    rw [List.all_eq_true] at h1
    have h2 := h1 ty hty
    simp only [Bool.and_eq_true, Bool.or_eq_true, decide_eq_true_eq, Bool.not_eq_true'] at h2
    simp only [Bool.true_and, if_true]
    obtain ⟨⟨ha, hb⟩, hc⟩ := h2
    refine ⟨?_, ?_, hc⟩
    · rcases ha with ((hq | hlf) | hp) | hpr
      · exact Or.inl hq
      · exact Or.inr (Or.inl hlf)
      · exact Or.inr (Or.inr (Or.inl hp))
      · exact Or.inr (Or.inr (Or.inr hpr))
    · intro hlf
      rcases hb with hb | hb
      · rw [hb] at hlf; cases hlf
      · exact hb

/-- facts about the inserted invisible times -/
theorem implied_facts : impliedTimes.isRightFence = false ∧ impliedTimes.isPostfix = false ∧ impliedTimes.isLeftFence = false ∧
    impliedTimes.isPrefix = false ∧ 20 ≤ impliedTimes.prio ∧ LF [0x2062] = false ∧ isNary impliedTimes fencepost = false := by
  decide +kernel

end MC.Props.C03NP
