import MC.Model.Rows
/-!
# The row parser never trips one of its asserts (C03 / C08)

`canonicalize_mrows_in_mrow` and its helpers contain seven `assert!`s / `unwrap`s on the modelled path (the `panic`
outcomes of `MC.Rows`). This file proves that none of them is reachable, for EVERY sequence of tokens, whatever the
operators, their number or their nesting — with one exception that is real: the right quotation marks `’` (U+2019) and
`”` (U+201D) are right fences of priority 10, below the priority 20 of every other fence, and `( ’` does reach
`parse_stack.pop().unwrap()` on an empty stack (`quote_after_paren_panics`). The library never hands these two characters
to the row parser as `mo` tokens (an earlier pass turns them into primes / pseudo scripts), which is outside this model;
the theorem therefore assumes that no token is one of them.

The invariant (`Inv`), for the stack of frames `s` (head = top, last = bottom):
* the stack is not empty;
* every frame below the top one is waiting for an operand (`isOperand = false`);
* the bottom frame still carries the fence post as its operator and holds nothing, or exactly one operand that is not a
  left-fence leaf;
* a frame that consists of a left-fence leaf (possibly followed by one operand) still has the operator it was opened with,
  whose priority is at most 20 — so that no operator that arrives later can reduce it.
Between two tokens, additionally (`Bnd`): if the top frame ends in an operand, its last child is not an `mo` leaf.
-/
namespace MC.Props.C03NP
open MC.Rows

/-! ## facts about the operator dictionary (decided by the kernel over the regenerated table) -/

/-- the three kinds of look-up `find_operator` makes -/
def tys : List Nat := [1, 2, 4]

def opOf (text : Str) (ty : Nat) : Op :=
  match lookupVariants text with
  | none => defaultOp ty
  | some vs => findInfo text vs ty

theorem findOperator_eq (text : Str) (l r : Bool) : ∃ ty ∈ tys, findOperator text l r = opOf text ty := by
  unfold findOperator opOf
  cases l <;> cases r
  · exact ⟨2, by simp [tys], rfl⟩
  · exact ⟨1, by simp [tys], rfl⟩
  · exact ⟨4, by simp [tys], rfl⟩
  · exact ⟨2, by simp [tys], rfl⟩

/-- is the text read as a left fence when it is looked at as the first child of a finished row (`startsWithLeftFence`)? -/
def LF (text : Str) : Bool := (findOperator text true true).isLeftFence

def quoteR (text : Str) : Bool := text == [0x2019] || text == [0x201D]

/-- per dictionary entry: (F1) a look-up that is neither a left fence nor a prefix operator has priority at least 20,
unless the text is one of the two right quotes; (F2) if the entry reads as a left fence in infix position, every look-up
has priority at most 20; (F3) no look-up is n-ary with the fence post -/
def entryOk (e : Str × List (Nat × Nat)) : Bool :=
  tys.all fun ty =>
    let o := findInfo e.1 e.2 ty
    (quoteR e.1 || o.isLeftFence || o.isPrefix || decide (20 ≤ o.prio)) &&
    (!(findInfo e.1 e.2 2).isLeftFence || decide (o.prio ≤ 20)) &&
    !isNary o fencepost

theorem entries_ok : MC.Gen.OpDict.entries.all entryOk = true := by decide +kernel

theorem defaults_ok : tys.all (fun ty => decide (20 ≤ (defaultOp ty).prio) && !(defaultOp 2).isLeftFence && !isNary (defaultOp ty) fencepost) = true := by
  decide +kernel

theorem lookup_mem {α β : Type} [BEq α] [LawfulBEq α] (k : α) (v : β) (l : List (α × β)) (h : l.lookup k = some v) : (k, v) ∈ l := by
  induction l with
  | nil => simp [List.lookup] at h
  | cons x xs ih =>
    obtain ⟨a, b⟩ := x
    simp only [List.lookup] at h
    split at h
    · rename_i heq
      have : k = a := by simpa using heq
      cases h; subst this; exact List.mem_cons_self
    · exact List.mem_cons_of_mem _ (ih h)

theorem opOf_facts (text : Str) (ty : Nat) (hty : ty ∈ tys) :
    (quoteR text = true ∨ (opOf text ty).isLeftFence = true ∨ (opOf text ty).isPrefix = true ∨ 20 ≤ (opOf text ty).prio) ∧
    (LF text = true → (opOf text ty).prio ≤ 20) ∧ isNary (opOf text ty) fencepost = false := by
  unfold opOf LF findOperator
  cases hl : lookupVariants text with
  | none =>
    have hd := defaults_ok
    rw [List.all_eq_true] at hd
    have := hd ty hty
    simp only [Bool.and_eq_true, decide_eq_true_eq, Bool.not_eq_true'] at this
    simp only [Bool.true_and, if_true]
    refine ⟨Or.inr (Or.inr (Or.inr this.1.1)), ?_, this.2⟩
    intro h; rw [this.1.2] at h; cases h
  | some vs =>
    have hm : (text, vs) ∈ MC.Gen.OpDict.entries := lookup_mem text vs _ hl
    have he := entries_ok
    rw [List.all_eq_true] at he
    have h1 := he (text, vs) hm
    unfold entryOk at h1
    rw [List.all_eq_true] at h1
    have h2 := h1 ty hty
    simp only [Bool.and_eq_true, Bool.or_eq_true, decide_eq_true_eq, Bool.not_eq_true'] at h2
    simp only [Bool.true_and, if_true]
    obtain ⟨⟨ha, hb⟩, hc⟩ := h2
    refine ⟨?_, ?_, hc⟩
    · rcases ha with ((hq | hlf) | hp) | hpr
      · exact Or.inl hq
      · exact Or.inr (Or.inl hlf)
      · exact Or.inr (Or.inr (Or.inl hp))
      · exact Or.inr (Or.inr (Or.inr hpr))
    · intro hlf
      rcases hb with hb | hb
      · rw [hb] at hlf; cases hlf
      · exact hb

/-- facts about the inserted invisible times -/
theorem implied_facts : impliedTimes.isRightFence = false ∧ impliedTimes.isPostfix = false ∧ impliedTimes.isLeftFence = false ∧
    impliedTimes.isPrefix = false ∧ 20 ≤ impliedTimes.prio ∧ LF [0x2062] = false ∧ isNary impliedTimes fencepost = false := by
  decide +kernel

end MC.Props.C03NP

namespace MC.Props.C03NP
open MC.Rows

/-! ## the invariant -/

def notLF : T → Bool
  | .op text _ => !LF text
  | _ => true

theorem notLF_row (ks : List T) : notLF (.row ks) = true := rfl
theorem notLF_operand (t : Str) : notLF (.operand t) = true := rfl

/-- per frame: (i) a frame that is just a left-fence leaf has a low-priority operator; (ii) so has one that is a left-fence
leaf followed by one operand; (iii) an empty frame is waiting for an operand -/
structure FrameOk (f : Frame) : Prop where
  one : ∀ text a, f.rkids = [.op text a] → LF text = true → f.op.prio ≤ 20
  two : ∀ k text a, f.rkids = [k, .op text a] → LF text = true → f.isOperand = true → f.op.prio ≤ 20
  nil : f.rkids = [] → f.isOperand = false

/-- the bottom frame: the fence post is still its operator; nothing in it, or one operand that is not a left-fence leaf -/
def BottomOk (b : Frame) : Prop :=
  b.op = fencepost ∧ ((b.rkids = [] ∧ b.isOperand = false) ∨ ∃ t, b.rkids = [t] ∧ b.isOperand = true ∧ notLF t = true)

def Inv (s : List Frame) : Prop :=
  (∃ b, s = [b] ∧ FrameOk b ∧ BottomOk b) ∨
  (∃ top mid b, s = top :: (mid ++ [b]) ∧ FrameOk top ∧ (∀ f ∈ mid, FrameOk f ∧ f.isOperand = false) ∧
      FrameOk b ∧ BottomOk b ∧ b.isOperand = false)

theorem Inv.single (b : Frame) (h1 : FrameOk b) (h2 : BottomOk b) : Inv [b] := Or.inl ⟨b, rfl, h1, h2⟩

theorem Inv.multi (top : Frame) (mid : List Frame) (b : Frame) (h1 : FrameOk top) (hm : ∀ f ∈ mid, FrameOk f ∧ f.isOperand = false)
    (hb : FrameOk b) (hbo : BottomOk b) (hbop : b.isOperand = false) : Inv (top :: (mid ++ [b])) :=
  Or.inr ⟨top, mid, b, rfl, h1, hm, hb, hbo, hbop⟩

theorem Inv.ne_nil {s : List Frame} (h : Inv s) : s ≠ [] := by
  rcases h with ⟨b, rfl, _⟩ | ⟨top, mid, b, rfl, _⟩ <;> simp

theorem Inv.topOk {top : Frame} {rest : List Frame} (h : Inv (top :: rest)) : FrameOk top := by
  rcases h with ⟨b, heq, h1, _⟩ | ⟨t, mid, b, heq, h1, _⟩
  · simp only [List.cons.injEq] at heq; rw [heq.1]; exact h1
  · simp only [List.cons.injEq] at heq; rw [heq.1]; exact h1

theorem Inv.bottomOfSingle {b : Frame} (h : Inv [b]) : BottomOk b := by
  rcases h with ⟨b', heq, _, h2⟩ | ⟨t, mid, b', heq, _⟩
  · simp only [List.cons.injEq, and_true] at heq; rw [heq]; exact h2
  · simp only [List.cons.injEq] at heq
    have := heq.2
    cases mid <;> simp at this

theorem bottom_empty {b : Frame} (h : BottomOk b) (hop : b.isOperand = false) : b.rkids = [] := by
  rcases h.2 with ⟨h1, _⟩ | ⟨t, _, h2, _⟩
  · exact h1
  · rw [hop] at h2; cases h2

/-- what is below the top: it satisfies the invariant itself and its top is waiting for an operand -/
theorem Inv.pop {top next : Frame} {rest : List Frame} (h : Inv (top :: next :: rest)) :
    Inv (next :: rest) ∧ next.isOperand = false := by
  rcases h with ⟨b, heq, _⟩ | ⟨t, mid, b, heq, h1, hm, hb, hbo, hbop⟩
  · simp at heq
  · simp only [List.cons.injEq] at heq
    obtain ⟨_, heq⟩ := heq
    cases mid with
    | nil =>
      simp only [List.nil_append, List.cons.injEq] at heq
      obtain ⟨rfl, rfl⟩ := heq
      exact ⟨.single _ hb hbo, hbop⟩
    | cons m ms =>
      simp only [List.cons_append, List.cons.injEq] at heq
      obtain ⟨rfl, rfl⟩ := heq
      have hm0 := hm next (by simp)
      exact ⟨.multi next ms b hm0.1 (fun f hf => hm f (by simp [hf])) hb hbo hbop, hm0.2⟩

/-- push a frame on a stack whose top is waiting for an operand -/
theorem Inv.push {top : Frame} {rest : List Frame} (h : Inv (top :: rest)) (hop : top.isOperand = false)
    (F : Frame) (hF : FrameOk F) : Inv (F :: top :: rest) := by
  rcases h with ⟨b, heq, h1, h2⟩ | ⟨t, mid, b, heq, h1, hm, hb, hbo, hbop⟩
  · simp only [List.cons.injEq] at heq
    obtain ⟨rfl, rfl⟩ := heq
    exact .multi F [] top hF (by simp) h1 h2 hop
  · simp only [List.cons.injEq] at heq
    obtain ⟨rfl, rfl⟩ := heq
    exact .multi F (top :: mid) b hF (by
      intro f hf
      rcases List.mem_cons.mp hf with rfl | hf
      · exact ⟨h1, hop⟩
      · exact hm f hf) hb hbo hbop

/-- replace the top frame -/
theorem Inv.replaceTop {top : Frame} {rest : List Frame} (h : Inv (top :: rest)) (top' : Frame) (hF : FrameOk top')
    (hb : rest = [] → BottomOk top') : Inv (top' :: rest) := by
  rcases h with ⟨b, heq, _, _⟩ | ⟨t, mid, b, heq, _, hm, hbf, hbo, hbop⟩
  · simp only [List.cons.injEq] at heq
    obtain ⟨_, rfl⟩ := heq
    exact .single top' hF (hb rfl)
  · simp only [List.cons.injEq] at heq
    obtain ⟨_, rfl⟩ := heq
    exact .multi top' mid b hF hm hbf hbo hbop

/-! ## reduce -/

theorem close_notLF (top : Frame) (h : FrameOk top) (cur : Nat) (hc : 20 ≤ cur) (hlt : cur < top.op.prio) :
    notLF top.close = true := by
  unfold Frame.close
  split
  · rename_i t heq
    cases t with
    | op text a =>
      simp only [notLF, Bool.not_eq_true']
      cases hlf : LF text with
      | false => rfl
      | true => have := h.one text a heq hlf; omega
    | operand _ => rfl
    | row _ => rfl
  · rfl

/-- the frame `below` after the row on top of it was closed and added to it as an operand -/
def absorb (below : Frame) (t : T) : Frame := { below with rkids := t :: below.rkids, isOperand := true }

theorem addOperand_ok (f : Frame) (t : T) (h : f.isOperand = false) : f.addOperand t = .ok (absorb f t) := by
  simp [Frame.addOperand, h, absorb]

theorem absorb_frameOk (below : Frame) (t : T) (hb : FrameOk below) (hn : notLF t = true) : FrameOk (absorb below t) := by
  refine ⟨?_, ?_, ?_⟩
  · intro text a heq hlf
    simp only [absorb, List.cons.injEq] at heq
    rw [heq.1] at hn
    simp [notLF, hlf] at hn
  · intro k text a heq hlf _
    simp only [absorb, List.cons.injEq] at heq
    exact hb.one text a heq.2 hlf
  · intro heq; simp [absorb] at heq

theorem absorb_bottomOk (b : Frame) (t : T) (hb : BottomOk b) (hop : b.isOperand = false) (hn : notLF t = true) :
    BottomOk (absorb b t) := by
  refine ⟨hb.1, Or.inr ⟨t, ?_, rfl, hn⟩⟩
  simp [absorb, bottom_empty hb hop]

theorem reduceOne_inv {top below : Frame} {rest : List Frame} (h : Inv (top :: below :: rest)) (hn : notLF top.close = true) :
    reduceOne (top :: below :: rest) = .ok (absorb below top.close :: rest) ∧ Inv (absorb below top.close :: rest) := by
  obtain ⟨hinv, hop⟩ := h.pop
  refine ⟨by simp [reduceOne, addOperand_ok _ _ hop, Outcome.bind], ?_⟩
  refine hinv.replaceTop _ (absorb_frameOk below _ hinv.topOk hn) ?_
  intro hr; subst hr
  exact absorb_bottomOk below _ hinv.bottomOfSingle hop hn

theorem reduce_inv (cur : Nat) (hc : 20 ≤ cur) : ∀ (fuel : Nat) (s : List Frame), Inv s → ∃ s', reduce cur fuel s = .ok s' ∧ Inv s' := by
  intro fuel
  induction fuel with
  | zero => intro s h; exact ⟨s, rfl, h⟩
  | succ n ih =>
    intro s h
    match s, h with
    | [], h => exact absurd rfl h.ne_nil
    | [b], h => exact ⟨[b], rfl, h⟩
    | top :: below :: rest, h =>
      simp only [reduce]
      by_cases hlt : cur < top.op.prio
      · have hn := close_notLF top h.topOk cur hc hlt
        obtain ⟨he, hi⟩ := reduceOne_inv h hn
        simp only [hlt, if_true, he, Outcome.bind]
        exact ih _ hi
      · simp only [hlt, if_false]
        exact ⟨_, rfl, h⟩

/-- the weaker invariant that the final reduction (priority 0) needs -/
def W (s : List Frame) : Prop := s ≠ [] ∧ ∀ f ∈ s.tail, f.isOperand = false

theorem Inv.toW {s : List Frame} (h : Inv s) : W s := by
  refine ⟨h.ne_nil, ?_⟩
  rcases h with ⟨b, rfl, _⟩ | ⟨top, mid, b, rfl, _, hm, _, _, hbop⟩
  · simp
  · intro f hf
    simp only [List.tail_cons, List.mem_append, List.mem_singleton] at hf
    rcases hf with hf | rfl
    · exact (hm f hf).2
    · exact hbop

theorem reduce_W (cur : Nat) : ∀ (fuel : Nat) (s : List Frame), W s → ∃ s', reduce cur fuel s = .ok s' ∧ s' ≠ [] := by
  intro fuel
  induction fuel with
  | zero => intro s h; exact ⟨s, rfl, h.1⟩
  | succ n ih =>
    intro s h
    match s, h with
    | [], h => exact absurd rfl h.1
    | [b], h => exact ⟨[b], rfl, by simp⟩
    | top :: below :: rest, h =>
      simp only [reduce]
      by_cases hlt : cur < top.op.prio
      · have hop : below.isOperand = false := h.2 below (by simp)
        simp only [hlt, if_true, reduceOne, addOperand_ok _ _ hop, Outcome.bind]
        apply ih
        refine ⟨by simp, ?_⟩
        intro f hf
        exact h.2 f (by simp only [List.tail_cons] at hf ⊢; exact List.mem_cons_of_mem _ hf)
      · simp only [hlt, if_false]
        exact ⟨_, rfl, by simp⟩

/-! ## shift, followed by adding the child to the new top -/

/-- between two tokens: if the top frame ends in an operand, that operand is not an `mo` leaf -/
def Bnd (s : List Frame) : Prop := topIsOperand s = true → lastIsOperandNode s = true

theorem bnd_of_not_operand (f : Frame) (rest : List Frame) (h : f.isOperand = false) : Bnd (f :: rest) := by
  intro h'; simp [topIsOperand, h] at h'

theorem bnd_absorb_row (f : Frame) (ks : List T) (rest : List Frame) : Bnd (absorb f (.row ks) :: rest) := by
  intro _; simp [lastIsOperandNode, absorb]

theorem frameOk_opened (child : T) (o : Op) (hLF : ∀ text a, child = .op text a → LF text = true → o.prio ≤ 20) :
    FrameOk ⟨[child], o, false⟩ := by
  refine ⟨?_, ?_, ?_⟩
  · intro text a heq hlf
    simp only [List.cons.injEq, and_true] at heq
    exact hLF text a heq hlf
  · intro k text a heq; simp at heq
  · intro heq; simp at heq

theorem frameOk_two (a b : T) (o : Op) : FrameOk ⟨[a, b], o, false⟩ := by
  refine ⟨?_, ?_, ?_⟩
  · intro text x heq; simp at heq
  · intro k text x _ _ hop; simp at hop
  · intro heq; simp at heq

theorem startsWithLeftFence_two (child t : T) (o : Op) (hn : notLF t = true) :
    startsWithLeftFence ⟨[child, t], o, false⟩ = false := by
  unfold startsWithLeftFence firstKid
  cases t with
  | op text a =>
    simp only [notLF, Bool.not_eq_true'] at hn
    simpa [LF] using hn
  | operand _ => rfl
  | row _ => rfl

theorem shiftAdd_inv (s : List Frame) (h : Inv s) (child : T) (o : Op)
    (hLF : ∀ text a, child = .op text a → LF text = true → o.prio ≤ 20) (hN : isNary o fencepost = false) :
    ∃ r, shift s child o = .ok r ∧ (o.isRightFence = false → o.isPostfix = false → r.2.2 = some o) ∧
      ∃ s', addToTop r.1 r.2.1 r.2.2 = .ok s' ∧ Inv s' ∧ Bnd s' ∧ (r.2.2 = some o → topIsOperand s' = false) := by
  match s, h with
  | [], h => exact absurd rfl h.ne_nil
  | top :: rest, h =>
    unfold shift
    by_cases hnary : isNary o top.op = true
    · -- n-ary with the operator of the top frame: the operator joins that frame
      simp only [hnary, if_true]
      refine ⟨_, rfl, fun _ _ => rfl, top.addOp child o :: rest, rfl, ?_, bnd_of_not_operand _ _ rfl, fun _ => rfl⟩
      refine h.replaceTop _ ⟨?_, ?_, ?_⟩ ?_
      · intro text a heq hlf
        simp only [Frame.addOp, List.cons.injEq] at heq
        exact hLF text a heq.1 hlf
      · intro k text a _ _ hop; simp [Frame.addOp] at hop
      · intro heq; simp [Frame.addOp] at heq
      · intro hr; subst hr
        have := h.bottomOfSingle.1
        rw [this, hN] at hnary; cases hnary
    · have hnary' : isNary o top.op = false := by simpa using hnary
      simp only [hnary', Bool.false_eq_true, if_false]
      by_cases hB : (top.rkids.isEmpty || (!top.isOperand && !o.isRightFence)) = true
      · -- nothing to take from the top frame: a new frame is opened with the operator
        simp only [hB, if_true]
        have hop : top.isOperand = false := by
          simp only [Bool.or_eq_true, List.isEmpty_iff, Bool.and_eq_true, Bool.not_eq_true'] at hB
          rcases hB with hB | hB
          · exact h.topOk.nil hB
          · exact hB.1
        refine ⟨_, rfl, fun _ _ => rfl, Frame.new.addOp child o :: top :: rest, rfl, ?_, bnd_of_not_operand _ _ rfl, fun _ => rfl⟩
        exact h.push hop _ (frameOk_opened child o hLF)
      · have hB' : (top.rkids.isEmpty || (!top.isOperand && !o.isRightFence)) = false := by simpa using hB
        simp only [hB', Bool.false_eq_true, if_false]
        have hne : top.rkids ≠ [] := by
          intro he; simp [he] at hB'
        by_cases hR : o.isRightFence = true
        · -- a right fence closes the top frame
          simp only [hR, if_true]
          by_cases hC : ((top.addOp child o).rkids.length = 2 && !startsWithLeftFence (top.addOp child o)) = true
          · simp only [hC, if_true]
            refine ⟨_, rfl, ?_, absorb Frame.new (.row (top.addOp child o).rkids.reverse) :: rest, ?_, ?_, bnd_absorb_row _ _ _, ?_⟩
            · intro h1; cases h1
            rotate_left 2
            · intro h1; cases h1
            · simp [addToTop, addOperand_ok Frame.new _ rfl, Outcome.bind]
            · have hF : FrameOk (absorb Frame.new (.row (top.addOp child o).rkids.reverse)) :=
                absorb_frameOk Frame.new _ ⟨by intro _ _ he; simp [Frame.new] at he, by intro _ _ _ he; simp [Frame.new] at he, fun _ => rfl⟩ rfl
              match rest, h with
              | [], _ => exact .single _ hF ⟨rfl, Or.inr ⟨_, rfl, rfl, rfl⟩⟩
              | next :: rest', h => exact (h.pop.1).push h.pop.2 _ hF
          · have hC' : ((top.addOp child o).rkids.length = 2 && !startsWithLeftFence (top.addOp child o)) = false := by simpa using hC
            simp only [hC', Bool.false_eq_true, if_false]
            match rest, h with
            | [], h =>
              -- impossible: the bottom frame holds exactly one operand, which is not a left-fence leaf
              exfalso
              rcases h.bottomOfSingle.2 with ⟨he, _⟩ | ⟨t, he, _, hn⟩
              · exact hne he
              · have : top.addOp child o = ⟨[child, t], o, false⟩ := by simp [Frame.addOp, he]
                rw [this, startsWithLeftFence_two child t o hn] at hC'
                simp at hC'
            | next :: rest', h =>
              obtain ⟨hinv, hop⟩ := h.pop
              refine ⟨_, rfl, ?_, absorb next (.row (top.addOp child o).rkids.reverse) :: rest', ?_, ?_, bnd_absorb_row _ _ _, ?_⟩
              · intro h1; cases h1
              rotate_left 2
              · intro h1; cases h1
              · simp [addToTop, addOperand_ok next _ hop, Outcome.bind]
              · refine hinv.replaceTop _ (absorb_frameOk next _ hinv.topOk rfl) ?_
                intro hr; subst hr
                exact absorb_bottomOk next _ hinv.bottomOfSingle hop rfl
        · -- infix or postfix: the last operand of the top frame is taken out
          have hR' : o.isRightFence = false := by simpa using hR
          simp only [hR', Bool.false_eq_true, if_false]
          have hopT : top.isOperand = true := by
            simp only [Bool.or_eq_false_iff, Bool.and_eq_false_iff, Bool.not_eq_false', hR', Bool.not_false] at hB'
            rcases hB'.2 with h1 | h1
            · simpa using h1
            · cases h1
          match hk : top.rkids with
          | [] => exact absurd hk hne
          | last :: init =>
            simp only [hopT, Bool.true_or, Bool.not_true, Bool.false_eq_true, if_false]
            have hF' : FrameOk { top with rkids := init, isOperand := false } := by
              refine ⟨?_, ?_, fun _ => rfl⟩
              · intro text a heq hlf
                simp only at heq
                exact h.topOk.two last text a (by rw [hk, heq]) hlf hopT
              · intro k text a _ _ hop; simp at hop
            have hB0 : rest = [] → BottomOk { top with rkids := init, isOperand := false } := by
              intro hr; subst hr
              have hb := h.bottomOfSingle
              refine ⟨hb.1, Or.inl ⟨?_, rfl⟩⟩
              rcases hb.2 with ⟨he, _⟩ | ⟨t, he, _, _⟩
              · exact absurd he hne
              · rw [hk] at he; simp only [List.cons.injEq] at he; exact he.2
            have hinv' := h.replaceTop _ hF' hB0
            by_cases hP : o.isPostfix = true
            · simp only [hP, if_true]
              refine ⟨_, rfl, ?_, absorb { top with rkids := init, isOperand := false } (.row [last, child]) :: rest, ?_, ?_, bnd_absorb_row _ _ _, ?_⟩
              · intro _ h2; cases h2
              rotate_left 2
              · intro h1; cases h1
              · simp [addToTop, addOperand_ok _ _ (rfl : ({ top with rkids := init, isOperand := false } : Frame).isOperand = false), Outcome.bind]
              · refine hinv'.replaceTop _ (absorb_frameOk _ _ hF' rfl) ?_
                intro hr
                exact absorb_bottomOk _ _ (hB0 hr) rfl rfl
            · have hP' : o.isPostfix = false := by simpa using hP
              simp only [hP', Bool.false_eq_true, if_false]
              refine ⟨_, rfl, fun _ _ => rfl, (⟨[last], o, false⟩ : Frame).addOp child o :: { top with rkids := init, isOperand := false } :: rest, rfl, ?_, bnd_of_not_operand _ _ rfl, fun _ => rfl⟩
              exact hinv'.push rfl _ (frameOk_two child last o)

/-! ## one token, all tokens, the end of the row -/

theorem token_shift_args (text : Str) (l r : Bool) :
    (∀ t a, (T.op text false) = .op t a → LF t = true → (findOperator text l r).prio ≤ 20) ∧
    isNary (findOperator text l r) fencepost = false := by
  obtain ⟨ty, hty, he⟩ := findOperator_eq text l r
  have hf := opOf_facts text ty hty
  rw [he]
  refine ⟨?_, hf.2.2⟩
  intro t a heq hlf
  simp only [T.op.injEq] at heq
  rw [← heq.1] at hlf
  exact hf.2.1 hlf

theorem top_not_operand {s : List Frame} (h : topIsOperand s = false) (hs : s ≠ []) : ∃ top rest, s = top :: rest ∧ top.isOperand = false := by
  match s, hs with
  | top :: rest, _ => exact ⟨top, rest, rfl, by simpa [topIsOperand] using h⟩

theorem insertImplied_inv (s : List Frame) (h : Inv s) : ∃ s', insertImplied s = .ok s' ∧ Inv s' ∧ topIsOperand s' = false := by
  obtain ⟨hrf, hpf, _, _, hprio, hlf, hn⟩ := implied_facts
  obtain ⟨s1, hr, h1⟩ := reduce_inv impliedTimes.prio hprio s.length s h
  have hLF : ∀ text a, (T.op [0x2062] true) = .op text a → LF text = true → impliedTimes.prio ≤ 20 := by
    intro text a heq hl
    simp only [T.op.injEq] at heq
    rw [← heq.1, hlf] at hl; cases hl
  obtain ⟨r, hs, hsome, s', hadd, hinv, _, htop⟩ := shiftAdd_inv s1 h1 (.op [0x2062] true) impliedTimes hLF hn
  have hso := hsome hrf hpf
  refine ⟨s', ?_, hinv, htop hso⟩
  unfold insertImplied
  simp only [hr, Outcome.bind, hs]
  rw [hso] at hadd
  simp only [hso]
  exact hadd

/-- a token that the library can hand to the row parser: not one of the two right quotation marks (see the head of the file) -/
def tokOk : Tok → Bool
  | .mo text => !quoteR text
  | .operand _ => true

theorem step_inv (s : List Frame) (h : Inv s) (hb : Bnd s) (tok : Tok) (nxt : Bool) (ht : tokOk tok = true) :
    ∃ s', step s tok nxt = .ok s' ∧ Inv s' ∧ Bnd s' := by
  cases tok with
  | operand text =>
    -- an operand: implied multiplication first if the row so far ends in an operand
    have hpre : ∃ s1, (if lastIsOperandNode s then insertImplied s else .ok s) = .ok s1 ∧ Inv s1 ∧ topIsOperand s1 = false := by
      by_cases hl : lastIsOperandNode s = true
      · simp only [hl, if_true]; exact insertImplied_inv s h
      · simp only [hl, Bool.false_eq_true, if_false]
        refine ⟨s, rfl, h, ?_⟩
        cases ht' : topIsOperand s with
        | false => rfl
        | true => exact absurd (hb ht') hl
    obtain ⟨s1, he, h1, hop⟩ := hpre
    obtain ⟨top, rest, rfl, hopT⟩ := top_not_operand hop h1.ne_nil
    refine ⟨absorb top (.operand text) :: rest, ?_, ?_, ?_⟩
    · simp only [step, he, Outcome.bind, addToTop, addOperand_ok top _ hopT]
    · refine h1.replaceTop _ (absorb_frameOk top _ h1.topOk rfl) ?_
      intro hr; subst hr
      exact absorb_bottomOk top _ h1.bottomOfSingle hopT rfl
    · intro _; simp [lastIsOperandNode, absorb]
  | mo text =>
    simp only [step]
    generalize hol : (topIsOperand s || (topOp s).isPostfix) = ol
    obtain ⟨hLF, hN⟩ := token_shift_args text ol nxt
    by_cases hpf : ((findOperator text ol nxt).isLeftFence || (findOperator text ol nxt).isPrefix) = true
    · -- a prefix operator or a left fence opens a frame
      simp only [hpf, if_true]
      have hpre : ∃ s1, (if topIsOperand s then insertImplied s else .ok s) = .ok s1 ∧ Inv s1 ∧ topIsOperand s1 = false := by
        by_cases hl : topIsOperand s = true
        · simp only [hl, if_true]; exact insertImplied_inv s h
        · simp only [hl, Bool.false_eq_true, if_false]
          exact ⟨s, rfl, h, by simpa using hl⟩
      obtain ⟨s1, he, h1, hop⟩ := hpre
      obtain ⟨top, rest, rfl, hopT⟩ := top_not_operand hop h1.ne_nil
      refine ⟨Frame.new.addOp (.op text false) (findOperator text ol nxt) :: top :: rest, ?_, ?_, bnd_of_not_operand _ _ rfl⟩
      · simp only [he, Outcome.bind, addToTop]
      · exact h1.push hopT _ (frameOk_opened _ _ hLF)
    · -- infix, postfix or right fence: reduce, shift, add
      have hpf' : ((findOperator text ol nxt).isLeftFence || (findOperator text ol nxt).isPrefix) = false := by simpa using hpf
      simp only [hpf', Bool.false_eq_true, if_false]
      have hprio : 20 ≤ (findOperator text ol nxt).prio := by
        obtain ⟨ty, hty, he⟩ := findOperator_eq text ol nxt
        have hf := (opOf_facts text ty hty).1
        rw [← he] at hf
        simp only [Bool.or_eq_false_iff] at hpf'
        simp only [tokOk, Bool.not_eq_true'] at ht
        rcases hf with hq | hl | hp | hpr
        · rw [ht] at hq; cases hq
        · rw [hpf'.1] at hl; cases hl
        · rw [hpf'.2] at hp; cases hp
        · exact hpr
      obtain ⟨s1, hr, h1⟩ := reduce_inv _ hprio s.length s h
      obtain ⟨r, hs, _, s', hadd, hinv, hbnd, _⟩ := shiftAdd_inv s1 h1 (.op text false) (findOperator text ol nxt) hLF hN
      exact ⟨s', by simp only [hr, Outcome.bind, hs, hadd], hinv, hbnd⟩

def nextIsOperand (ts : List Tok) : Bool := match ts with | n :: _ => isOperandTok n | [] => false

theorem run_cons (s : List Frame) (t : Tok) (ts : List Tok) :
    run s (t :: ts) = (step s t (nextIsOperand ts)).bind fun s' => run s' ts := rfl

theorem run_inv : ∀ (toks : List Tok) (s : List Frame), Inv s → Bnd s → (∀ t ∈ toks, tokOk t = true) →
    ∃ s', run s toks = .ok s' ∧ Inv s' := by
  intro toks
  induction toks with
  | nil => intro s h _ _; exact ⟨s, rfl, h⟩
  | cons t ts ih =>
    intro s h hb hall
    obtain ⟨s1, he, h1, hb1⟩ := step_inv s h hb t (nextIsOperand ts) (hall t (by simp))
    obtain ⟨s2, he2, h2⟩ := ih s1 h1 hb1 (fun x hx => hall x (by simp [hx]))
    exact ⟨s2, by rw [run_cons, he]; simp only [Outcome.bind, he2], h2⟩

theorem inv_init : Inv [Frame.new] ∧ Bnd [Frame.new] := by
  refine ⟨.single _ ⟨?_, ?_, fun _ => rfl⟩ ⟨rfl, Or.inl ⟨rfl, rfl⟩⟩, bnd_of_not_operand _ _ rfl⟩
  · intro _ _ he; simp [Frame.new] at he
  · intro _ _ _ he; simp [Frame.new] at he

/-- **the row parser never panics**: for every sequence of tokens (operands and `mo`s with any text, in the dictionary or
not, in any order and number) that does not contain `’` or `”` as an `mo`, the parse ends in a tree: none of the
`assert!`s and `unwrap`s of `canonicalize_mrows_in_mrow`, `shift_stack`, `reduce_stack_one_time`, `add_child_to_mrow` and
`remove_last_operand_from_mrow` is reachable. -/
theorem parseRow_no_panic (toks : List Tok) (h : ∀ t ∈ toks, tokOk t = true) : ∃ t, parseRow toks = .ok t := by
  obtain ⟨s, hr, hs⟩ := run_inv toks [Frame.new] inv_init.1 inv_init.2 h
  obtain ⟨s1, hf, hne⟩ := reduce_W fencepost.prio s.length s hs.toW
  unfold parseRow finish
  simp only [hr, Outcome.bind, hf]
  match s1, hne with
  | f :: rest, _ => exact ⟨_, rfl⟩

def isPanic {α : Type} : Outcome α → Bool
  | .panic _ => true
  | _ => false

/-- the hypothesis is needed: `( ’` reaches `parse_stack.pop().unwrap()` on an empty stack (in the model; the library
turns the quotation mark into a prime before the row is parsed) -/
theorem quote_after_paren_panics : isPanic (parseRow [.mo [40], .mo [0x2019]]) = true := by decide +kernel

/-- non-vacuity: a row with every kind of token satisfies the hypothesis -/
example : ∀ t ∈ [Tok.mo [40], .operand [97], .mo [43], .mo [45], .operand [98], .mo [41], .mo [33], .mo [124], .mo [0x201C]], tokOk t = true := by decide

end MC.Props.C03NP
