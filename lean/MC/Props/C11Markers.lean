import MC.Props.C11
/-!
# C11, third clause — a place marker stays where it was set

The part of "setting a place marker and later moving to it returns to the marked node" that is bookkeeping:
`SetPlacemarkerK` stores the rules' `NavNode` in marker `K` and touches no other marker; **no other command, key-less or not,
retried or not, failing half-way or not, and no `set_navigation_node`, changes any marker**; only a new expression clears them.
So when `MoveToK` is given, the rules read in marker `K` exactly what the last `SetPlacemarkerK` on this expression stored.
(That the rules then move there is their own business — an environment parameter of the model; the marker oracle of
checks/c11.py decides it on the implementation.)
-/
namespace MC.Props.C11Markers
open MC.Nav MC.Props.C11

theorem push_markers (s : NavState) (p : Pos) (c : String) : (push s p c).markers = s.markers := rfl
theorem reset_markers (s : NavState) : (reset s).markers = s.markers := rfl

theorem pop_markers (s s' : NavState) (r : Option (Pos × String)) (h : pop s = .ok (r, s')) : s'.markers = s.markers := by
  unfold pop at h
  split at h
  · cases h
  · split at h
    · injection h with h; injection h with _ h; rw [← h]
    · injection h with h; injection h with _ h; rw [← h]

theorem popLoop_markers (n : Nat) (s s' : NavState) (h : popLoop n s = .ok s') : s'.markers = s.markers := by
  induction n generalizing s with
  | zero => unfold popLoop at h; injection h with h; rw [← h]
  | succ n ih =>
    unfold popLoop at h
    split at h
    · injection h with h; rw [← h]
    · split at h
      · split at h
        · rename_i r s1 hp
          rw [ih s1 h, pop_markers s s1 _ hp]
        · cases h
        · cases h
      · exact ih s h

theorem popStack_markers (s s' : NavState) (count : Nat) (h : popStack s count = .ok s') : s'.markers = s.markers := by
  unfold popStack at h
  split at h
  · injection h with h; rw [← h]
  · split at h
    · rename_i tp tc s1 hp
      split at h
      · rename_i s2 hl
        injection h with h
        rw [← h, push_markers, popLoop_markers _ _ _ hl, pop_markers s s1 _ hp]
      · cases h
      · cases h
    · cases h
    · cases h
    · cases h

theorem pushStep_markers (cmd : String) (t : Try) (s1 s2 : NavState) (h : pushStep cmd t s1 = .ok s2) : s2.markers = s1.markers := by
  unfold pushStep at h
  simp only at h
  split at h
  · split at h
    · split at h
      · cases h
      · split at h
        · injection h with h; rw [← h, push_markers]
        · injection h with h; rw [← h]
    · injection h with h; rw [← h]
  · injection h with h; rw [← h]

theorem finishStep_markers (i : Nat) (t : Try) (s3 s' : NavState) (d : Bool) (h : finishStep i t s3 = .ok (s', d)) :
    s'.markers = s3.markers := by
  unfold finishStep at h
  split at h
  · split at h
    · cases h
    · split at h
      · injection h with h; injection h with h _; rw [← h]
      · obtain ⟨s4, h4, h5⟩ := bind_eq_ok _ _ _ h
        injection h5 with h5; injection h5 with h5 _
        rw [← h5, popStack_markers _ _ _ h4]
  · obtain ⟨s4, h4, h5⟩ := bind_eq_ok _ _ _ h
    injection h5 with h5; injection h5 with h5 _
    rw [← h5, popStack_markers _ _ _ h4]

/-- what one pass through the rules does to the markers -/
theorem applyRules_markers (rootId : String) (ids : String → Bool) (cmd : String) (i : Nat) (t : Try) (s s' : NavState) (d : Bool)
    (h : applyRules rootId ids cmd i t s = .ok (s', d)) :
    s'.markers = s.markers ∨
    (cmd.startsWith "SetPlacemarker" = true ∧ ∃ p k, t.node = some p ∧ markerIndex cmd = some k ∧ s'.markers = s.markers.set k p) := by
  unfold applyRules at h
  split at h
  · cases h
  · split at h
    · cases h
    · obtain ⟨s2, h2, h⟩ := bind_eq_ok _ _ _ h
      obtain ⟨s3, h3, h⟩ := bind_eq_ok _ _ _ h
      have e2 : s2.markers = s.markers := by rw [pushStep_markers _ _ _ _ h2]
      have e4 := finishStep_markers _ _ _ _ _ h
      unfold markerStep at h3
      split at h3
      · rename_i hm
        split at h3
        · rename_i p hp
          split at h3
          · rename_i k hk
            split at h3
            · injection h3 with h3
              right
              refine ⟨hm, p, k, hp, hk, ?_⟩
              rw [e4, ← h3, e2]
            · cases h3
          · cases h3
        · injection h3 with h3; left; rw [e4, ← h3, e2]
      · injection h3 with h3; left; rw [e4, ← h3, e2]

theorem tryLoop_markers (rootId : String) (ids : String → Bool) (cmd : String) (hc : cmd.startsWith "SetPlacemarker" = false)
    (fuel i : Nat) (tries : List Try) (s s' : NavState) (h : tryLoop rootId ids cmd fuel i tries s = .ok s') :
    s'.markers = s.markers := by
  induction fuel generalizing i tries s with
  | zero => unfold tryLoop at h; cases h
  | succ f ih =>
    cases tries with
    | nil => unfold tryLoop at h; cases h
    | cons t ts =>
      unfold tryLoop at h
      split at h
      · rename_i s1 ha
        injection h with h; subst h
        rcases applyRules_markers _ _ _ _ _ _ _ _ ha with e | ⟨hm, _⟩
        · exact e
        · rw [hc] at hm; cases hm
      · rename_i s1 ha
        rcases applyRules_markers _ _ _ _ _ _ _ _ ha with e | ⟨hm, _⟩
        · rw [ih _ _ _ h, e]
        · rw [hc] at hm; cases hm
      · cases h
      · cases h

theorem ensureRoot_markers (rootId : String) (s : NavState) : (ensureRoot rootId s).markers = s.markers := by
  unfold ensureRoot; split <;> rfl

theorem undoStep_markers (cmd : String) (s1 s2 : NavState) (h : undoStep cmd s1 = .ok s2) : s2.markers = s1.markers := by
  unfold undoStep at h
  split at h
  · obtain ⟨r, hr, h⟩ := bind_eq_ok _ _ _ h
    injection h with h
    obtain ⟨r1, r2⟩ := r
    rw [← h]; exact pop_markers _ _ _ hr
  · injection h with h; rw [← h]

/-- **no command but `SetPlacemarker…` changes a place marker**, whatever the rules answer on any of its tries -/
theorem command_keeps_markers (rootId : String) (ids : String → Bool) (cmd : String) (hc : cmd.startsWith "SetPlacemarker" = false)
    (tries : List Try) (s s' : NavState) (h : doCommand rootId ids cmd tries s = .ok s') : s'.markers = s.markers := by
  unfold doCommand at h
  split at h
  · cases h
  · obtain ⟨s2, h2, h⟩ := bind_eq_ok _ _ _ h
    rw [tryLoop_markers rootId ids cmd hc _ _ _ _ _ h, undoStep_markers _ _ _ h2, ensureRoot_markers]

/-- `set_navigation_node` keeps the markers -/
theorem setNode_keeps_markers (s s' : NavState) (id : String) (off : Nat) (found leaf : Bool) (h : setNode s id off found leaf = .ok s') :
    s'.markers = s.markers := by
  unfold setNode at h
  split at h
  · cases h
  · split at h
    · cases h
    · injection h with h; rw [← h]; rfl

/-- `SetPlacemarkerK`, answered by the rules in one try with the node `p`, stores `p` in marker `K` and leaves the others -/
theorem set_marker_stores (rootId : String) (ids : String → Bool) (cmd : String) (t : Try) (s s' : NavState)
    (h : doCommand rootId ids cmd [t] s = .ok s') :
    s'.markers = s.markers ∨ ∃ p k, t.node = some p ∧ markerIndex cmd = some k ∧ s'.markers = s.markers.set k p := by
  unfold doCommand at h
  split at h
  · cases h
  · obtain ⟨s2, h2, h⟩ := bind_eq_ok _ _ _ h
    have e2 : s2.markers = s.markers := by rw [undoStep_markers _ _ _ h2, ensureRoot_markers]
    unfold tryLoop at h
    split at h
    · rename_i s1 ha
      injection h with h; subst h
      rcases applyRules_markers _ _ _ _ _ _ _ _ ha with e | ⟨_, p, k, hp, hk, e⟩
      · left; rw [e, e2]
      · right; exact ⟨p, k, hp, hk, by rw [e, e2]⟩
    · rename_i s1 ha
      unfold tryLoop at h; cases h
    · cases h
    · cases h

/-- a new expression clears every marker -/
theorem new_expression_clears (s : NavState) : (resetForNewMathml s).markers = List.replicate 10 Pos.dflt := rfl

/-- one call on the current expression: a command with the rules' answers to its tries, or `set_navigation_node` -/
inductive Step where
  | cmd (c : String) (tries : List Try)
  | setNode (id : String) (off : Nat) (found leaf : Bool)

def runStep (rootId : String) (ids : String → Bool) (s : NavState) : Step → NavState
  | .cmd c tries => match doCommand rootId ids c tries s with | .ok s' => s' | _ => s
  | .setNode id off found leaf => match setNode s id off found leaf with | .ok s' => s' | _ => s

def noSetMarker : Step → Prop
  | .cmd c _ => c.startsWith "SetPlacemarker" = false
  | .setNode .. => True

/-- **a marker survives every history of other commands on the same expression**: after any sequence of commands none of which is
a `SetPlacemarker…` (each with any list of rule answers; failed commands leave the state as it was) and of
`set_navigation_node` calls, every marker is what it was -/
theorem markers_survive (rootId : String) (ids : String → Bool) (steps : List Step) (hs : ∀ st ∈ steps, noSetMarker st) (s : NavState) :
    (steps.foldl (runStep rootId ids) s).markers = s.markers := by
  induction steps generalizing s with
  | nil => rfl
  | cons st rest ih =>
    simp only [List.foldl_cons]
    rw [ih (fun x hx => hs x (List.mem_cons_of_mem _ hx))]
    have h1 := hs st (List.mem_cons_self ..)
    cases st with
    | cmd c tries =>
      simp only [runStep]
      split
      · rename_i s' h; exact command_keeps_markers rootId ids c h1 tries s s' h
      · rfl
    | setNode id off found leaf =>
      simp only [runStep]
      split
      · rename_i s' h; exact setNode_keeps_markers s s' id off found leaf h
      · rfl

/-! ### not vacuous -/

def tSet : Try := { ruleErr := false, node := some ⟨"a", 0⟩, mode := "Enhanced", overview := false, inTree := true, speak := false,
                    speakErr := false, speechEmpty := false }

/-- `SetPlacemarker3` with the rules answering node `a` is accepted and stores `a` in marker 3 … -/
example : (match doCommand "r" (fun _ => true) "SetPlacemarker3" [tSet] init with
    | .ok s => s.markers[3]? | _ => none) = some ⟨"a", 0⟩ := by decide +kernel

/-- … and a later `MoveNext` to node `b` (accepted, pushes `b`) leaves it there -/
example : (match doCommand "r" (fun _ => true) "SetPlacemarker3" [tSet] init with
    | .ok s => (match doCommand "r" (fun _ => true) "MoveNext" [{ tSet with node := some ⟨"b", 0⟩ }] s with
        | .ok s' => (s'.markers[3]?, s'.positions.head?) | _ => (none, none))
    | _ => (none, none)) = (some ⟨"a", 0⟩, some ⟨"b", 0⟩) := by decide +kernel

end MC.Props.C11Markers
