import MC.Props.C11
/-!
# C11, fourth clause — undoing the last move returns to the node that was current before that move

The part of the clause that is stack discipline: a Move*/Zoom* command that needed up to two retries (the rules landed on
nodes without speech first) leaves exactly ONE new entry on the position and command stacks — the node it finally rests
on — however many intermediate nodes it visited; `MoveLastLocation` starts by popping that entry, so the navigation rules
are then asked to speak from the node that was current before the move. (What the rules answer is their own business and
an environment parameter of the model.)
-/
namespace MC.Props.C11
open MC.Nav

/-- a try that lands on the legal node `p`, whose speech is empty: the command is tried again -/
def silentTry (p : Pos) (t : Try) : Prop :=
  t.ruleErr = false ∧ t.node = some p ∧ t.inTree = true ∧ t.speak = true ∧ t.speakErr = false ∧ t.speechEmpty = true

/-- a try that lands on the legal node `p` and speaks it (or is not asked to speak) -/
def finalTry (p : Pos) (t : Try) : Prop :=
  t.ruleErr = false ∧ t.node = some p ∧ (t.inTree && t.speak) = true ∧ t.speakErr = false ∧ t.speechEmpty = false

def legal (p : Pos) : Prop := p ≠ Pos.dflt ∧ p.id ≠ illegal

theorem pushStep_moves (cmd : String) (hm : isMoveOrZoom cmd = true) (t : Try) (p q : Pos) (c : String) (ps : List Pos) (cs : List String)
    (s : NavState) (hs : s.positions = q :: ps) (hc : s.commands = c :: cs) (ht : t.node = some p) (hl : legal p) (hne : p.id ≠ q.id) :
    pushStep cmd t s = .ok (push s p cmd) := by
  unfold pushStep
  simp only [ht, Option.getD_some, hm, if_true, hl.1, ne_eq, not_false_eq_true, top, hs, hc]
  simp [hne, hl.2]

def upd (s : NavState) (t : Try) : NavState := { s with mode := t.mode, overview := t.overview }

/-- what a command that moves has to satisfy (facts about the command string, true of every Move*/Zoom* command of the library) -/
structure MoveCmd (cmd : String) : Prop where
  move : isMoveOrZoom cmd = true
  notMarker : cmd.startsWith "SetPlacemarker" = false

theorem MoveCmd.notUndo {cmd : String} (h : MoveCmd cmd) : cmd ≠ "MoveLastLocation" := by
  have := h.move
  unfold isMoveOrZoom at this
  simp only [Bool.and_eq_true, decide_eq_true_eq] at this
  exact this.2

/-- one try of a moving command that lands on a new legal node `p`: the node is pushed -/
theorem applyRules_push (rootId : String) (ids : String → Bool) (cmd : String) (hc : MoveCmd cmd) (i : Nat) (t : Try) (p q : Pos) (c : String)
    (ps : List Pos) (cs : List String) (s : NavState) (hs : s.positions = q :: ps) (hcs : s.commands = c :: cs) (hq : ids q.id = true)
    (hr : t.ruleErr = false) (ht : t.node = some p) (hl : legal p) (hne : p.id ≠ q.id) :
    applyRules rootId ids cmd i t s = finishStep i t (push (upd s t) p cmd) := by
  unfold applyRules
  have hstart : startIdOf rootId s = q.id := by simp [startIdOf, top, hs, hcs]
  have hp := pushStep_moves cmd hc.move t p q c ps cs (upd s t) (by simp [upd, hs]) (by simp [upd, hcs]) ht hl hne
  simp only [hstart, hq, Bool.not_true, Bool.false_eq_true, if_false, hr]
  change ((pushStep cmd t (upd s t)).bind fun s2 => (markerStep cmd t s2).bind fun s3 => finishStep i t s3) = _
  rw [hp]
  simp [Outcome.bind, markerStep, hc.notMarker]

theorem finish_silent (i : Nat) (t : Try) (p : Pos) (s : NavState) (h : silentTry p t) : finishStep i t s = .ok (s, false) := by
  obtain ⟨_, _, h3, h4, h5, h6⟩ := h
  simp [finishStep, h3, h4, h5, h6]

theorem finish_final (i : Nat) (t : Try) (p : Pos) (s : NavState) (h : finalTry p t) :
    finishStep i t s = (popStack s i).bind fun s4 => .ok (s4, true) := by
  obtain ⟨_, _, h3, h4, h5⟩ := h
  simp [finishStep, h3, h4, h5]

/-- `pop_stack(1)`: the entry under the top one (pushed by the try that had to be repeated) is removed -/
theorem popStack_one (S : NavState) (a b : Pos) (r : List Pos) (ca cb : String) (rc : List String) (hp : S.positions = a :: b :: r)
    (hcm : S.commands = ca :: cb :: rc) (hlen : r.length = rc.length) (hmv : isMoveOrZoom cb = true) :
    popStack S 1 = .ok { S with positions := a :: r, commands := ca :: rc } := by
  simp [popStack, pop, hp, hcm, hlen, popLoop, top, hmv, push]

/-- `pop_stack(2)`: both intermediate entries are removed -/
theorem popStack_two (S : NavState) (a b b' : Pos) (r : List Pos) (ca cb cb' : String) (rc : List String) (hp : S.positions = a :: b :: b' :: r)
    (hcm : S.commands = ca :: cb :: cb' :: rc) (hlen : r.length = rc.length) (hmv : isMoveOrZoom cb = true) (hmv' : isMoveOrZoom cb' = true) :
    popStack S 2 = .ok { S with positions := a :: r, commands := ca :: rc } := by
  simp [popStack, pop, hp, hcm, hlen, popLoop, top, hmv, hmv', push]

/-- **a move that speaks at once** pushes the node it rests on -/
theorem move_no_retry (rootId : String) (ids : String → Bool) (cmd : String) (hc : MoveCmd cmd) (t0 : Try) (p0 q : Pos) (c : String)
    (ps : List Pos) (cs : List String) (s : NavState) (hs : s.positions = q :: ps) (hcs : s.commands = c :: cs) (hq : ids q.id = true)
    (hmk : markerIdxOk cmd s = true) (h0 : finalTry p0 t0) (hl0 : legal p0) (hne0 : p0.id ≠ q.id) (rest : List Try) :
    doCommand rootId ids cmd (t0 :: rest) s = .ok (push (upd s t0) p0 cmd) := by
  have her : ensureRoot rootId s = s := by simp [ensureRoot, hs]
  unfold doCommand
  rw [her]
  simp only [hmk, Bool.not_true, Bool.false_eq_true, if_false, undoStep, hc.notUndo, Outcome.bind]
  simp only [tryLoop]
  rw [applyRules_push rootId ids cmd hc 0 t0 p0 q c ps cs s hs hcs hq h0.1 h0.2.1 hl0 hne0, finish_final 0 t0 p0 _ h0]
  simp [popStack, Outcome.bind]

/-- **a move that needed one retry** (it first landed on `p0`, which has no speech, and then on `p1`) leaves ONE new entry, `p1`:
the intermediate `p0` is gone from the stacks -/
theorem move_one_retry (rootId : String) (ids : String → Bool) (cmd : String) (hc : MoveCmd cmd) (t0 t1 : Try) (p0 p1 q : Pos) (c : String)
    (ps : List Pos) (cs : List String) (s : NavState) (hs : s.positions = q :: ps) (hcs : s.commands = c :: cs) (hlen : ps.length = cs.length)
    (hq : ids q.id = true) (hp0 : ids p0.id = true) (hmk : markerIdxOk cmd s = true)
    (h0 : silentTry p0 t0) (hl0 : legal p0) (hne0 : p0.id ≠ q.id) (h1 : finalTry p1 t1) (hl1 : legal p1) (hne1 : p1.id ≠ p0.id) (rest : List Try) :
    ∃ s', doCommand rootId ids cmd (t0 :: t1 :: rest) s = .ok s' ∧ s'.positions = p1 :: q :: ps ∧ s'.commands = cmd :: c :: cs := by
  have her : ensureRoot rootId s = s := by simp [ensureRoot, hs]
  unfold doCommand
  rw [her]
  simp only [hmk, Bool.not_true, Bool.false_eq_true, if_false, undoStep, hc.notUndo, Outcome.bind]
  simp only [tryLoop]
  rw [applyRules_push rootId ids cmd hc 0 t0 p0 q c ps cs s hs hcs hq h0.1 h0.2.1 hl0 hne0, finish_silent 0 t0 p0 _ h0]
  simp only
  rw [applyRules_push rootId ids cmd hc 1 t1 p1 p0 cmd (q :: ps) (c :: cs) (push (upd s t0) p0 cmd) (by simp [push, upd, hs]) (by simp [push, upd, hcs]) hp0
    h1.1 h1.2.1 hl1 hne1, finish_final 1 t1 p1 _ h1]
  rw [popStack_one (push (upd (push (upd s t0) p0 cmd) t1) p1 cmd) p1 p0 (q :: ps) cmd cmd (c :: cs) (by simp [push, upd, hs]) (by simp [push, upd, hcs])
    (by simp [hlen]) hc.move]
  exact ⟨_, rfl, rfl, rfl⟩

/-- **a move that needed two retries** leaves ONE new entry as well -/
theorem move_two_retries (rootId : String) (ids : String → Bool) (cmd : String) (hc : MoveCmd cmd) (t0 t1 t2 : Try) (p0 p1 p2 q : Pos) (c : String)
    (ps : List Pos) (cs : List String) (s : NavState) (hs : s.positions = q :: ps) (hcs : s.commands = c :: cs) (hlen : ps.length = cs.length)
    (hq : ids q.id = true) (hp0 : ids p0.id = true) (hp1 : ids p1.id = true) (hmk : markerIdxOk cmd s = true)
    (h0 : silentTry p0 t0) (hl0 : legal p0) (hne0 : p0.id ≠ q.id) (h1 : silentTry p1 t1) (hl1 : legal p1) (hne1 : p1.id ≠ p0.id)
    (h2 : finalTry p2 t2) (hl2 : legal p2) (hne2 : p2.id ≠ p1.id) (rest : List Try) :
    ∃ s', doCommand rootId ids cmd (t0 :: t1 :: t2 :: rest) s = .ok s' ∧ s'.positions = p2 :: q :: ps ∧ s'.commands = cmd :: c :: cs := by
  have her : ensureRoot rootId s = s := by simp [ensureRoot, hs]
  unfold doCommand
  rw [her]
  simp only [hmk, Bool.not_true, Bool.false_eq_true, if_false, undoStep, hc.notUndo, Outcome.bind]
  simp only [tryLoop]
  rw [applyRules_push rootId ids cmd hc 0 t0 p0 q c ps cs s hs hcs hq h0.1 h0.2.1 hl0 hne0, finish_silent 0 t0 p0 _ h0]
  simp only
  rw [applyRules_push rootId ids cmd hc 1 t1 p1 p0 cmd (q :: ps) (c :: cs) (push (upd s t0) p0 cmd) (by simp [push, upd, hs]) (by simp [push, upd, hcs]) hp0
    h1.1 h1.2.1 hl1 hne1, finish_silent 1 t1 p1 _ h1]
  simp only
  rw [applyRules_push rootId ids cmd hc 2 t2 p2 p1 cmd (p0 :: q :: ps) (cmd :: c :: cs) (push (upd (push (upd s t0) p0 cmd) t1) p1 cmd)
    (by simp [push, upd, hs]) (by simp [push, upd, hcs]) hp1 h2.1 h2.2.1 hl2 hne2, finish_final 2 t2 p2 _ h2]
  rw [popStack_two (push (upd (push (upd (push (upd s t0) p0 cmd) t1) p1 cmd) t2) p2 cmd) p2 p1 p0 (q :: ps) cmd cmd cmd (c :: cs)
    (by simp [push, upd, hs]) (by simp [push, upd, hcs]) (by simp [hlen]) hc.move hc.move]
  exact ⟨_, rfl, rfl, rfl⟩

/-- **undoing the last move**: `MoveLastLocation` starts from the stacks as they were before the move (the entry the move left
is popped before the rules are asked), so the rules speak from the node that was current before it -/
theorem undo_starts_before_move (s' : NavState) (p : Pos) (q : Pos) (ps : List Pos) (cmd c : String) (cs : List String)
    (hp : s'.positions = p :: q :: ps) (hc : s'.commands = cmd :: c :: cs) (hlen : ps.length = cs.length) :
    ∃ s2, undoStep "MoveLastLocation" s' = .ok s2 ∧ s2.positions = q :: ps ∧ s2.commands = c :: cs ∧
      startIdOf "" s2 = q.id := by
  refine ⟨{ s' with positions := q :: ps, commands := c :: cs }, ?_, rfl, rfl, ?_⟩
  · simp [undoStep, pop, hp, hc, hlen, Outcome.bind]
  · simp [startIdOf, top]


end MC.Props.C11
