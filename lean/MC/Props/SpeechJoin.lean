import MC.Props.SpeechLemmas
/-! Join-level facts about `MC.Speech` (`isRepetitive`, `dedupe`, `resolveAuto`, `joinSp`, `joinArray`, `finalize`). -/
namespace MC.Speech


/-- a "content" projection: a character class that contains none of the characters the engine itself inserts or removes
(space and other white space, the pause punctuation `,` `;`, the three marker characters) -/
structure Content (q : Nat → Bool) : Prop where
  ws : ∀ c, q c = true → isWs c = false
  pause : ∀ c, isPauseCh c = true → q c = false
  fe : q FE = false
  fd : q FD = false
  fa : q FA = false

theorem content_digit : Content isDigit := by
  refine ⟨?_, ?_, by decide, by decide, by decide⟩
  · intro c h
    simp only [isDigit, Bool.and_eq_true, decide_eq_true_eq] at h
    simp only [isWs, Bool.or_eq_false_iff, Bool.and_eq_false_iff, decide_eq_false_iff_not]
    omega
  · intro c h
    simp only [isPauseCh, Bool.or_eq_true, decide_eq_true_eq] at h
    simp only [isDigit, Bool.and_eq_false_iff, decide_eq_false_iff_not]
    omega

theorem splitAt1_eq (c : Nat) : ∀ (s b a : Str), splitAt1 c s = some (b, a) → s = b ++ c :: a
  | [], b, a, h => by simp [splitAt1] at h
  | x :: r, b, a, h => by
    simp only [splitAt1] at h
    split at h
    · rename_i hx; injection h with h; injection h with h1 h2; subst h1 h2 hx; rfl
    · cases hr : splitAt1 c r with
      | none => rw [hr] at h; cases h
      | some p =>
        rw [hr] at h
        simp only [Option.map_some] at h
        injection h with h; injection h with h1 h2
        have := splitAt1_eq c r p.1 p.2 (by rw [hr])
        rw [← h1, ← h2, this]; rfl

theorem splitAt1_none (c : Nat) : ∀ s : Str, c ∉ s → splitAt1 c s = none
  | [], _ => rfl
  | x :: r, h => by
    simp only [splitAt1]
    have hx : ¬ x = c := fun e => h (by rw [e]; exact List.mem_cons_self)
    simp only [hx, if_false]
    rw [splitAt1_none c r (fun hm => h (List.mem_cons_of_mem _ hm))]; rfl

/-- what `is_repetitive` returns, when it returns something: the string is `before ⟨word⟩ after` and the result is
`after` without leading white space — `before` and `word` are gone -/
theorem isRepetitive_spec (prev x y : Str) (h : isRepetitive prev x = some y) :
    ∃ before word after, x = before ++ FD :: (word ++ FD :: after) ∧ y = trimStart after := by
  unfold isRepetitive at h
  split at h
  · cases h
  · split at h
    · cases h
    · rename_i b st hs1
      split at h
      · cases h
      · rename_i w a hs2
        simp only at h
        split at h
        · injection h with h
          refine ⟨b, w, a, ?_, h.symm⟩
          rw [splitAt1_eq _ _ _ _ hs1, splitAt1_eq _ _ _ _ hs2]
        · cases h

theorem isRepetitive_sublist (prev x y : Str) (h : isRepetitive prev x = some y) : y.Sublist x := by
  obtain ⟨b, w, a, hx, hy⟩ := isRepetitive_spec prev x y h
  rw [hx, hy]
  refine (trimStart_sublist a).trans ?_
  refine List.Sublist.trans ?_ (List.sublist_append_right _ _)
  refine List.Sublist.cons _ ?_
  refine List.Sublist.trans ?_ (List.sublist_append_right _ _)
  exact List.Sublist.cons _ (List.Sublist.refl _)

theorem isRepetitive_noFD (prev x : Str) (h : FD ∉ x) : isRepetitive prev x = none := by
  unfold isRepetitive
  split
  · rfl
  · rw [splitAt1_none FD x h]

/-! ### `dedupe` -/

/-- any property of strings that `is_repetitive` keeps is kept by the whole loop -/
theorem dedupeGo_all (P : Str → Prop) (hP : ∀ prev x y, P x → isRepetitive prev x = some y → P y) :
    ∀ (xs : List Str) (prev : Str), (∀ x ∈ xs, P x) → ∀ y ∈ dedupeGo prev xs, P y
  | [], _, _, y, hy => by simp [dedupeGo] at hy
  | [l], _, h, y, hy => by
    simp only [dedupeGo, List.mem_singleton] at hy; subst hy; exact h _ List.mem_cons_self
  | x :: x2 :: r, prev, h, y, hy => by
    simp only [dedupeGo] at hy
    have hx' : P ((isRepetitive prev x).getD x) := by
      cases hr : isRepetitive prev x with
      | none => simpa using h x List.mem_cons_self
      | some z => simpa using hP prev x z (h x List.mem_cons_self) hr
    rcases List.mem_cons.mp hy with hy | hy
    · rw [hy]; exact hx'
    · exact dedupeGo_all P hP (x2 :: r) _ (fun z hz => h z (List.mem_cons_of_mem _ hz)) y hy

theorem dedupe_all (P : Str → Prop) (hP : ∀ prev x y, P x → isRepetitive prev x = some y → P y)
    (xs : List Str) (h : ∀ x ∈ xs, P x) : ∀ y ∈ dedupe xs, P y := by
  cases xs with
  | nil => intro y hy; simp [dedupe] at hy
  | cons x r =>
    intro y hy
    simp only [dedupe] at hy
    rcases List.mem_cons.mp hy with hy | hy
    · rw [hy]; exact h x List.mem_cons_self
    · exact dedupeGo_all P hP r x (fun z hz => h z (List.mem_cons_of_mem _ hz)) y hy

theorem dedupeGo_length : ∀ (xs : List Str) (prev : Str), (dedupeGo prev xs).length = xs.length
  | [], _ => rfl
  | [_], _ => rfl
  | x :: x2 :: r, prev => by simp only [dedupeGo, List.length_cons]; rw [dedupeGo_length (x2 :: r)]; rfl

def FrontClean (q : Nat → Bool) (x : Str) : Prop := frontCleanB q x = true

theorem splitAt1_notMem (c : Nat) : ∀ (s b a : Str), splitAt1 c s = some (b, a) → c ∉ b
  | [], b, a, h => by simp [splitAt1] at h
  | x :: r, b, a, h => by
    simp only [splitAt1] at h
    split at h
    · injection h with h; injection h with h1 h2; subst h1; simp
    · rename_i hx
      cases hr : splitAt1 c r with
      | none => rw [hr] at h; cases h
      | some p =>
        rw [hr] at h
        simp only [Option.map_some] at h
        injection h with h; injection h with h1 h2
        have := splitAt1_notMem c r p.1 p.2 (by rw [hr])
        rw [← h1]
        intro hm
        rcases List.mem_cons.mp hm with e | e
        · exact hx e.symm
        · exact this e

theorem isRepetitive_filter (q : Nat → Bool) (hq : Content q) (prev x y : Str) (hf : FrontClean q x)
    (h : isRepetitive prev x = some y) : y.filter q = x.filter q := by
  unfold isRepetitive at h
  split at h
  · cases h
  · split at h
    · cases h
    · rename_i b st hs1
      split at h
      · cases h
      · rename_i w a hs2
        simp only at h
        split at h
        · injection h with h
          have hx : x = b ++ FD :: (w ++ FD :: a) := by
            rw [splitAt1_eq _ _ _ _ hs1, splitAt1_eq _ _ _ _ hs2]
          unfold FrontClean frontCleanB at hf
          rw [hs1] at hf
          simp only at hf
          rw [hs2] at hf
          simp only [Bool.and_eq_true, List.isEmpty_iff] at hf
          obtain ⟨h1, h2⟩ := hf
          rw [← h, trimStart_filter q hq.ws, hx]
          simp [List.filter_append, List.filter_cons, h1, h2, hq.fd]
        · cases h

theorem dedupeGo_filter (q : Nat → Bool) (hq : Content q) :
    ∀ (xs : List Str) (prev : Str), (∀ x ∈ xs, FrontClean q x) → (dedupeGo prev xs).flatten.filter q = xs.flatten.filter q
  | [], _, _ => rfl
  | [_], _, _ => rfl
  | x :: x2 :: r, prev, h => by
    simp only [dedupeGo, List.flatten_cons, List.filter_append]
    rw [dedupeGo_filter q hq (x2 :: r) _ (fun z hz => h z (List.mem_cons_of_mem _ hz))]
    cases hr : isRepetitive prev x with
    | none => simp
    | some z =>
      simp only [Option.getD_some]
      rw [isRepetitive_filter q hq prev x z (h x List.mem_cons_self) hr]
      simp [List.filter_append]

theorem dedupe_filter (q : Nat → Bool) (hq : Content q) (xs : List Str) (h : ∀ x ∈ xs, FrontClean q x) :
    (dedupe xs).flatten.filter q = xs.flatten.filter q := by
  cases xs with
  | nil => rfl
  | cons x r =>
    simp only [dedupe, List.flatten_cons, List.filter_append]
    rw [dedupeGo_filter q hq r x (fun z hz => h z (List.mem_cons_of_mem _ hz))]

/-! ### automatic pauses -/

theorem pauseStr_mem (pf a c : Nat) (h : c ∈ pauseStr pf a) : c = FE ∨ c = 44 ∨ c = 59 := by
  unfold pauseStr at h
  rcases List.mem_cons.mp h with h | h
  · exact Or.inl h
  · split at h
    · cases h
    · split at h
      · simp only [List.mem_singleton] at h; exact Or.inr (Or.inl h)
      · simp only [List.mem_singleton] at h; exact Or.inr (Or.inr h)

theorem autoPause_mem (pf : Nat) (b a : Str) (c : Nat) (h : c ∈ autoPause pf b a) : c = FE ∨ c = 44 ∨ c = 59 := by
  unfold autoPause at h
  split at h
  · cases h
  · exact pauseStr_mem _ _ _ h

theorem containsSub_false_of_notMem (c d : Nat) : ∀ s : Str, c ∉ s → containsSub [c, d] s = false
  | [], _ => rfl
  | x :: r, h => by
    simp only [containsSub, stripPrefix?]
    have hx : ¬ c = x := fun e => h (by rw [e]; exact List.mem_cons_self)
    simp only [hx, if_false, Option.isSome_none, Bool.false_or]
    exact containsSub_false_of_notMem c d r (fun hm => h (List.mem_cons_of_mem _ hm))

theorem replaceS_auto (rep : Str) : replaceS [FA, FA] rep autoStr = FE :: rep := by
  simp [replaceS, autoStr, replaceAll, stripPrefix?, FE, FA]

/-- `AutoOK x`: the string holds no placeholder character, or it is exactly the placeholder -/
def AutoOK (x : Str) : Prop := FA ∉ x ∨ x = autoStr

theorem autoOkB_sound (x : Str) (h : autoOkB x = true) : AutoOK x := by
  unfold autoOkB at h
  rcases Bool.or_eq_true_iff.mp h with h | h
  · left
    intro hm
    have : x.contains FA = true := List.contains_iff_mem.mpr hm
    rw [this] at h; cases h
  · right; exact eq_of_beq h

/-- what one resolved string looks like -/
theorem resolve_one (pf : Nat) (b a x : Str) (hx : AutoOK x) :
    let x' := if containsSub [FA, FA] x then replaceS [FA, FA] (autoPause pf b a) x else x
    FA ∉ x' ∧ (∀ c ∈ x', c ∈ x ∨ c = FE ∨ c = 44 ∨ c = 59) ∧
    (∀ q : Nat → Bool, Content q → x'.filter q = x.filter q) := by
  intro x'
  rcases hx with hx | hx
  · have : x' = x := by
      show (if containsSub [FA, FA] x then _ else x) = x
      rw [containsSub_false_of_notMem FA FA x hx]; rfl
    rw [this]
    exact ⟨hx, fun c hc => Or.inl hc, fun _ _ => rfl⟩
  · have : x' = FE :: autoPause pf b a := by
      show (if containsSub [FA, FA] x then replaceS [FA, FA] (autoPause pf b a) x else x) = _
      rw [hx]
      have : containsSub [FA, FA] autoStr = true := by decide
      rw [this]; simp only [if_true]; exact replaceS_auto _
    rw [this]
    refine ⟨?_, ?_, ?_⟩
    · intro hm
      rcases List.mem_cons.mp hm with e | e
      · exact absurd e (by decide)
      · rcases autoPause_mem _ _ _ _ e with e | e | e <;> exact absurd e (by decide)
    · intro c hc
      rcases List.mem_cons.mp hc with e | e
      · exact Or.inr (Or.inl e)
      · exact Or.inr (autoPause_mem _ _ _ _ e)
    · intro q hq
      rw [hx]
      have h1 : (autoPause pf b a).filter q = [] := by
        rw [List.filter_eq_nil_iff]
        intro c hc
        rcases autoPause_mem _ _ _ _ hc with e | e | e
        · rw [e, hq.fe]; exact Bool.false_ne_true
        · rw [e, hq.pause 44 (by decide)]; exact Bool.false_ne_true
        · rw [e, hq.pause 59 (by decide)]; exact Bool.false_ne_true
      simp [List.filter_cons, hq.fe, hq.fa, h1, autoStr]

theorem resolveGo_spec (pf : Nat) : ∀ (xs : List Str) (before : Str), (∀ x ∈ xs, AutoOK x) →
    (∀ y ∈ resolveGo pf before xs, FA ∉ y ∧ ∀ c ∈ y, (∃ x ∈ xs, c ∈ x) ∨ c = FE ∨ c = 44 ∨ c = 59) ∧
    (∀ q : Nat → Bool, Content q → (resolveGo pf before xs).flatten.filter q = xs.flatten.filter q)
  | [], _, _ => ⟨by intro y hy; simp [resolveGo] at hy, fun _ _ => rfl⟩
  | x :: r, before, h => by
    have h1 := resolve_one pf before (r.head?.getD []) x (h x List.mem_cons_self)
    have ih := resolveGo_spec pf r
      (if containsSub [FA, FA] x then replaceS [FA, FA] (autoPause pf before (r.head?.getD [])) x else x)
      (fun z hz => h z (List.mem_cons_of_mem _ hz))
    constructor
    · intro y hy
      simp only [resolveGo] at hy
      rcases List.mem_cons.mp hy with hy | hy
      · rw [hy]
        refine ⟨h1.1, fun c hc => ?_⟩
        rcases h1.2.1 c hc with e | e
        · exact Or.inl ⟨x, List.mem_cons_self, e⟩
        · exact Or.inr e
      · obtain ⟨ha, hb⟩ := ih.1 y hy
        refine ⟨ha, fun c hc => ?_⟩
        rcases hb c hc with ⟨z, hz, hcz⟩ | e
        · exact Or.inl ⟨z, List.mem_cons_of_mem _ hz, hcz⟩
        · exact Or.inr e
    · intro q hq
      simp only [resolveGo, List.flatten_cons, List.filter_append]
      rw [ih.2 q hq, h1.2.2 q hq]

/-! ### the join -/

theorem joinSp_mem : ∀ (xs : List Str) (c : Nat), c ∈ joinSp xs → (∃ x ∈ xs, c ∈ x) ∨ c = 32
  | [], c, h => by simp [joinSp] at h
  | [x], c, h => by simp only [joinSp] at h; exact Or.inl ⟨x, List.mem_cons_self, h⟩
  | x :: x2 :: r, c, h => by
    simp only [joinSp] at h
    rcases List.mem_append.mp h with h | h
    · exact Or.inl ⟨x, List.mem_cons_self, h⟩
    · rcases List.mem_cons.mp h with h | h
      · exact Or.inr h
      · rcases joinSp_mem (x2 :: r) c h with ⟨z, hz, hc⟩ | e
        · exact Or.inl ⟨z, List.mem_cons_of_mem _ hz, hc⟩
        · exact Or.inr e

theorem joinSp_filter (q : Nat → Bool) (hq : Content q) : ∀ xs : List Str, (joinSp xs).filter q = xs.flatten.filter q
  | [] => rfl
  | [x] => by simp [joinSp]
  | x :: x2 :: r => by
    have h32 : q 32 = false := by
      cases h : q 32
      · rfl
      · have := hq.ws 32 h; revert this; decide
    simp only [joinSp, List.filter_append, List.filter_cons, h32, List.flatten_cons]
    rw [joinSp_filter q hq (x2 :: r)]
    simp [List.flatten_cons, List.filter_append]

/-- **characters of a joined array**: they come from the inputs, or are a space, pause punctuation or the concatenation
marker; the automatic-pause placeholder never survives -/
theorem joinArray_chars (pf : Nat) (xs : List Str) (h : ∀ x ∈ xs, AutoOK x) :
    FA ∉ joinArray pf xs ∧ ∀ c ∈ joinArray pf xs, (∃ x ∈ xs, c ∈ x) ∨ c = 32 ∨ c = FE ∨ c = 44 ∨ c = 59 := by
  have hd : ∀ y ∈ dedupe xs, AutoOK y ∧ ∀ c ∈ y, ∃ x ∈ xs, c ∈ x := by
    apply dedupe_all (fun y => AutoOK y ∧ ∀ c ∈ y, ∃ x ∈ xs, c ∈ x)
    · intro prev x y ⟨hx, hc⟩ hr
      have hs := isRepetitive_sublist prev x y hr
      constructor
      · rcases hx with hx | hx
        · exact Or.inl (fun hm => hx (hs.subset hm))
        · rw [hx] at hr
          rw [isRepetitive_noFD prev autoStr (by decide)] at hr; cases hr
      · intro c hcy; exact hc c (hs.subset hcy)
    · intro x hx; exact ⟨h x hx, fun c hc => ⟨x, hx, hc⟩⟩
  have hr := (resolveGo_spec pf (dedupe xs) [] (fun y hy => (hd y hy).1)).1
  unfold joinArray resolveAuto
  constructor
  · intro hm
    rcases joinSp_mem _ _ hm with ⟨y, hy, hc⟩ | e
    · exact (hr y hy).1 hc
    · exact absurd e (by decide)
  · intro c hc
    rcases joinSp_mem _ _ hc with ⟨y, hy, hcy⟩ | e
    · rcases (hr y hy).2 c hcy with ⟨z, hz, hcz⟩ | e
      · obtain ⟨x, hx, hcx⟩ := (hd z hz).2 c hcz
        exact Or.inl ⟨x, hx, hcx⟩
      · exact Or.inr (Or.inr e)
    · exact Or.inr (Or.inl e)

/-- **content of a joined array** (partial: under `FrontClean`): nothing of the content is lost, invented or reordered -/
theorem joinArray_filter_partial (q : Nat → Bool) (hq : Content q) (pf : Nat) (xs : List Str)
    (ha : ∀ x ∈ xs, AutoOK x) (hf : ∀ x ∈ xs, FrontClean q x) :
    (joinArray pf xs).filter q = xs.flatten.filter q := by
  have hd : ∀ y ∈ dedupe xs, AutoOK y := by
    apply dedupe_all AutoOK
    · intro prev x y hx hr
      have hs := isRepetitive_sublist prev x y hr
      rcases hx with hx | hx
      · exact Or.inl (fun hm => hx (hs.subset hm))
      · rw [hx] at hr
        rw [isRepetitive_noFD prev autoStr (by decide)] at hr; cases hr
    · exact ha
  unfold joinArray resolveAuto
  rw [joinSp_filter q hq, (resolveGo_spec pf (dedupe xs) [] hd).2 q hq, dedupe_filter q hq xs hf]

/-! ### the final clean-up -/

theorem finalize_mem (s : Str) (c : Nat) (h : c ∈ finalize s) : (c ∈ s ∨ c = 59) ∧ c ≠ FE ∧ c ≠ FD := by
  unfold finalize at h
  rcases mergePausesNone_mem _ c h with h | h
  · have h := (trim_sublist _).subset h
    rw [List.mem_filter] at h
    obtain ⟨h1, h2⟩ := h
    have hfd : c ≠ FD := by simpa using h2
    have h1' : c ∈ replaceS [FE] [] (replaceS [32, FE] [] s) := h1
    unfold replaceS at h1'
    rw [replaceAll_single_nil FE _ _ (Nat.le_refl _)] at h1'
    rw [List.mem_filter] at h1'
    have hfe : c ≠ FE := by simpa using h1'.2
    rcases replaceAll_mem _ _ _ _ _ h1'.1 with h3 | h3
    · exact ⟨Or.inl h3, hfe, hfd⟩
    · cases h3
  · exact ⟨Or.inr h, by rw [h]; decide, by rw [h]; decide⟩

theorem finalize_filter (q : Nat → Bool) (hq : Content q) (s : Str) : (finalize s).filter q = s.filter q := by
  have h32 : q 32 = false := by
    cases h : q 32
    · rfl
    · have := hq.ws 32 h; revert this; decide
  unfold finalize
  rw [mergePausesNone_filter q hq.pause, trim_filter q hq.ws, List.filter_filter]
  have : ∀ l : Str, l.filter (fun a => q a && decide (a ≠ FD)) = l.filter q := by
    intro l
    apply List.filter_congr
    intro c _
    by_cases hc : c = FD
    · rw [hc, hq.fd]; rfl
    · simp [hc]
  rw [this]
  rw [replaceS_filter q [FE] [] _ (by intro c hc; simp only [List.mem_singleton] at hc; rw [hc]; exact hq.fe) (by intro c hc; cases hc)]
  rw [replaceS_filter q [32, FE] [] _ (by
      intro c hc
      simp only [List.mem_cons, List.not_mem_nil, or_false] at hc
      rcases hc with e | e
      · rw [e]; exact h32
      · rw [e]; exact hq.fe) (by intro c hc; cases hc)]

end MC.Speech
