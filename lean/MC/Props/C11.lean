import MC.Model.Nav
/-!
# C11 — navigation always rests on a node of the current expression

`ids : String → Bool` is the id set of the currently set expression (`inTreeId` of the model is the same predicate).
Assumption on the navigation rules, monitored on every command of the correspondence run through hook H1:
`TryOk` — the `NavNode` a rule answers is an id of the current expression or the "!not set" marker.
-/
namespace MC.Props.C11
open MC.Nav

def Inv (ids : String → Bool) (s : NavState) : Prop :=
  s.positions.length = s.commands.length ∧ (∀ p ∈ s.positions, ids p.id = true) ∧
  (∀ m ∈ s.markers, ids m.id = true ∨ m.id = illegal) ∧ s.markers.length = 10

def TryOk (ids : String → Bool) (t : Try) : Prop := ∀ p, t.node = some p → ids p.id = true ∨ p.id = illegal

theorem inv_init (ids : String → Bool) : Inv ids init := by
  refine ⟨rfl, by simp [init], ?_, by simp [init]⟩
  intro m hm
  simp [init, List.mem_replicate] at hm
  right; rw [hm]; rfl

/-- **a new expression forgets everything tied to the old one**: whatever the old state and the old/new id sets -/
theorem inv_newMathml (ids' : String → Bool) (s : NavState) : Inv ids' (resetForNewMathml s) := by
  refine ⟨rfl, by simp [resetForNewMathml, reset], ?_, by simp [resetForNewMathml]⟩
  intro m hm
  simp [resetForNewMathml, List.mem_replicate] at hm
  right; rw [hm]; rfl

theorem newMathml_position (rootId : String) (s : NavState) : current rootId (resetForNewMathml s) = ⟨rootId, 0⟩ := rfl

theorem inv_push (ids : String → Bool) (s : NavState) (p : Pos) (c : String) (h : Inv ids s) (hp : ids p.id = true) :
    Inv ids (push s p c) := by
  obtain ⟨h1, h2, h3, h4⟩ := h
  refine ⟨by simp [push, h1], ?_, h3, h4⟩
  intro q hq
  simp only [push, List.mem_cons] at hq
  rcases hq with rfl | hq
  · exact hp
  · exact h2 q hq

theorem inv_mode (ids : String → Bool) (s : NavState) (m : String) (o : Bool) (h : Inv ids s) :
    Inv ids { s with mode := m, overview := o } := h

theorem pop_spec (ids : String → Bool) (s : NavState) (h : Inv ids s) :
    (∃ p c ps cs, s.positions = p :: ps ∧ s.commands = c :: cs ∧
        pop s = .ok (some (p, c), { s with positions := ps, commands := cs })) ∨
    (s.positions = [] ∧ pop s = .ok (none, s)) := by
  obtain ⟨h1, _, _, _⟩ := h
  unfold pop
  simp only [h1, ne_eq, not_true_eq_false, if_false]
  cases hp : s.positions with
  | nil =>
    right
    cases hc : s.commands with
    | nil => exact ⟨rfl, rfl⟩
    | cons c cs => rw [hp, hc] at h1; simp at h1
  | cons p ps =>
    cases hc : s.commands with
    | nil => rw [hp, hc] at h1; simp at h1
    | cons c cs => left; exact ⟨p, c, ps, cs, rfl, rfl, rfl⟩

theorem inv_pop (ids : String → Bool) (s s' : NavState) (r : Option (Pos × String)) (h : Inv ids s)
    (hp : pop s = .ok (r, s')) : Inv ids s' ∧ (∀ p c, r = some (p, c) → ids p.id = true) := by
  rcases pop_spec ids s h with ⟨p, c, ps, cs, e1, e2, e3⟩ | ⟨e1, e3⟩
  · rw [e3] at hp
    injection hp with hp; injection hp with hr hs
    subst hr; subst hs
    obtain ⟨h1, h2, h3, h4⟩ := h
    refine ⟨⟨?_, ?_, h3, h4⟩, ?_⟩
    · rw [e1, e2] at h1; simpa using h1
    · intro q hq; exact h2 q (by rw [e1]; simp [hq])
    · intro p' c' he; injection he with he; injection he with he1 he2; subst he1
      exact h2 p (by rw [e1]; simp)
  · rw [e3] at hp
    injection hp with hp; injection hp with hr hs
    subst hr; subst hs
    exact ⟨h, by intro p c he; cases he⟩

theorem pop_no_panic (ids : String → Bool) (s : NavState) (h : Inv ids s) : ∀ x, pop s ≠ .panic x := by
  intro x
  rcases pop_spec ids s h with ⟨p, c, ps, cs, _, _, e3⟩ | ⟨_, e3⟩ <;> rw [e3] <;> simp

theorem inv_popLoop (ids : String → Bool) (n : Nat) (s s' : NavState) (h : Inv ids s) (hl : popLoop n s = .ok s') :
    Inv ids s' := by
  induction n generalizing s with
  | zero => simp [popLoop] at hl; subst hl; exact h
  | succ n ih =>
    unfold popLoop at hl
    split at hl
    · cases hl; exact h
    · split at hl
      · split at hl
        · rename_i r s1 hp
          exact ih s1 (inv_pop ids s s1 r h hp).1 hl
        · cases hl
        · cases hl
      · exact ih s h hl

theorem inv_popStack (ids : String → Bool) (s s' : NavState) (count : Nat) (h : Inv ids s)
    (hs : popStack s count = .ok s') : Inv ids s' := by
  unfold popStack at hs
  split at hs
  · injection hs with hs; subst hs; exact h
  · split at hs
    · rename_i tp tc s1 hp
      have hi := inv_pop ids s s1 _ h hp
      split at hs
      · rename_i s2 hl
        injection hs with hs; subst hs
        exact inv_push ids s2 tp tc (inv_popLoop ids count s1 s2 hi.1 hl) (hi.2 tp tc rfl)
      · cases hs
      · cases hs
    · cases hs
    · cases hs
    · cases hs

theorem top_mem (s : NavState) (p : Pos) (c : String) (h : top s = some (p, c)) : p ∈ s.positions := by
  unfold top at h
  split at h
  · rename_i p' _ c' _ hp hc; injection h with h; injection h with h1 h2; subst h1; simp [hp]
  · cases h

theorem inv_markers_set (ids : String → Bool) (s : NavState) (k : Nat) (p : Pos) (h : Inv ids s)
    (hp : ids p.id = true ∨ p.id = illegal) : Inv ids { s with markers := s.markers.set k p } := by
  obtain ⟨h1, h2, h3, h4⟩ := h
  refine ⟨h1, h2, ?_, by simp [h4]⟩
  intro m hm
  rcases List.mem_or_eq_of_mem_set hm with hm | rfl
  · exact h3 m hm
  · exact hp

theorem bind_eq_ok {α β : Type} (x : Outcome α) (f : α → Outcome β) (b : β) (h : x.bind f = .ok b) :
    ∃ a, x = .ok a ∧ f a = .ok b := by
  cases x with
  | ok a => exact ⟨a, rfl, h⟩
  | err k => cases h
  | panic p => cases h

theorem inv_pushStep (ids : String → Bool) (cmd : String) (t : Try) (s1 s2 : NavState) (h : Inv ids s1)
    (ht : TryOk ids t) (hp : pushStep cmd t s1 = .ok s2) : Inv ids s2 := by
  unfold pushStep at hp
  simp only at hp
  split at hp
  · split at hp
    · split at hp
      · cases hp
      · split at hp
        · rename_i hne
          injection hp with hp; subst hp
          simp only [ne_eq, Bool.and_eq_true, decide_eq_true_eq] at hne
          apply inv_push ids _ _ _ h
          cases hn : t.node with
          | none => simp [hn, Pos.dflt] at hne
          | some p =>
            simp only [hn, Option.getD_some] at hne ⊢
            rcases ht p hn with hp | hp
            · exact hp
            · exact absurd hp hne.2
        · injection hp with hp; subst hp; exact h
    · injection hp with hp; subst hp; exact h
  · injection hp with hp; subst hp; exact h

theorem inv_markerStep (ids : String → Bool) (cmd : String) (t : Try) (s2 s3 : NavState) (h : Inv ids s2)
    (ht : TryOk ids t) (hm : markerStep cmd t s2 = .ok s3) : Inv ids s3 := by
  unfold markerStep at hm
  split at hm
  · split at hm
    · rename_i p hn
      split at hm
      · split at hm
        · injection hm with hm; subst hm
          exact inv_markers_set ids s2 _ p h (ht p hn)
        · cases hm
      · cases hm
    · injection hm with hm; subst hm; exact h
  · injection hm with hm; subst hm; exact h

theorem inv_finishStep (ids : String → Bool) (i : Nat) (t : Try) (s3 s' : NavState) (d : Bool) (h : Inv ids s3)
    (hf : finishStep i t s3 = .ok (s', d)) : Inv ids s' := by
  unfold finishStep at hf
  split at hf
  · split at hf
    · cases hf
    · split at hf
      · injection hf with hf; injection hf with h1 h2; subst h1; exact h
      · obtain ⟨s4, hp, he⟩ := bind_eq_ok _ _ _ hf
        injection he with he; injection he with h1 h2; subst h1
        exact inv_popStack ids s3 s4 i h hp
  · obtain ⟨s4, hp, he⟩ := bind_eq_ok _ _ _ hf
    injection he with he; injection he with h1 h2; subst h1
    exact inv_popStack ids s3 s4 i h hp

/-- one application of the rules keeps the invariant -/
theorem inv_applyRules (ids : String → Bool) (rootId cmd : String) (i : Nat) (t : Try) (s s' : NavState) (d : Bool)
    (h : Inv ids s) (ht : TryOk ids t) (ha : applyRules rootId ids cmd i t s = .ok (s', d)) : Inv ids s' := by
  unfold applyRules at ha
  split at ha
  · cases ha
  · split at ha
    · cases ha
    · obtain ⟨s2, h2, ha⟩ := bind_eq_ok _ _ _ ha
      obtain ⟨s3, h3, ha⟩ := bind_eq_ok _ _ _ ha
      have hs1 : Inv ids { s with mode := t.mode, overview := t.overview } := h
      exact inv_finishStep ids i t s3 s' d (inv_markerStep ids cmd t s2 s3 (inv_pushStep ids cmd t _ s2 hs1 ht h2) ht h3) ha

theorem inv_tryLoop (ids : String → Bool) (rootId cmd : String) (fuel i : Nat) (tries : List Try) (s s' : NavState)
    (h : Inv ids s) (ht : ∀ t ∈ tries, TryOk ids t) (hl : tryLoop rootId ids cmd fuel i tries s = .ok s') : Inv ids s' := by
  induction fuel generalizing i tries s with
  | zero => simp [tryLoop] at hl
  | succ f ih =>
    cases tries with
    | nil => simp [tryLoop] at hl
    | cons t ts =>
      simp only [tryLoop] at hl
      split at hl
      · rename_i s1 ha
        injection hl with hl; subst hl
        exact inv_applyRules ids rootId cmd i t s _ true h (ht t (by simp)) ha
      · rename_i s1 ha
        exact ih (i + 1) ts s1 (inv_applyRules ids rootId cmd i t s s1 false h (ht t (by simp)) ha)
          (fun t' ht' => ht t' (by simp [ht'])) hl
      · cases hl
      · cases hl

/-- **every navigation command keeps the invariant** (any command string, any number of tries, any rule answers
satisfying `TryOk`) -/
theorem inv_doCommand (ids : String → Bool) (rootId cmd : String) (tries : List Try) (s s' : NavState)
    (h : Inv ids s) (hr : ids rootId = true) (ht : ∀ t ∈ tries, TryOk ids t)
    (hd : doCommand rootId ids cmd tries s = .ok s') : Inv ids s' := by
  unfold doCommand at hd
  have h1 : Inv ids (ensureRoot rootId s) := by
    unfold ensureRoot
    split
    · exact inv_push ids s _ _ h hr
    · exact h
  split at hd
  · cases hd
  · obtain ⟨s2, hs2, hd⟩ := bind_eq_ok _ _ _ hd
    have h2 : Inv ids s2 := by
      unfold undoStep at hs2
      split at hs2
      · obtain ⟨r, hp, he⟩ := bind_eq_ok _ _ _ hs2
        injection he with he; subst he
        exact (inv_pop ids _ r.2 r.1 h1 hp).1
      · injection hs2 with hs2; subst hs2; exact h1
    exact inv_tryLoop ids rootId cmd 3 0 tries s2 s' h2 ht hd

/-- `set_navigation_node` keeps the invariant (the id is validated against the current expression) -/
theorem inv_setNode (ids : String → Bool) (s s' : NavState) (id : String) (off : Nat) (leaf : Bool)
    (h : Inv ids s) (hs : setNode s id off (ids id) leaf = .ok s') : Inv ids s' := by
  unfold setNode at hs
  split at hs
  · cases hs
  · rename_i hf
    split at hs
    · cases hs
    · injection hs with hs; subst hs
      obtain ⟨h1, h2, h3, h4⟩ := h
      have : ids id = true := by simpa using hf
      exact inv_push ids (reset s) _ _ ⟨rfl, by simp [reset], h3, h4⟩ this

/-- **the current position is a node of the current expression** in every state satisfying the invariant -/
theorem current_in_tree (ids : String → Bool) (rootId : String) (s : NavState) (h : Inv ids s) (hr : ids rootId = true) :
    ids (current rootId s).id = true := by
  unfold current
  split
  · exact hr
  · rename_i p ps hp
    exact h.2.1 p (by rw [hp]; simp)

end MC.Props.C11

namespace MC.Props.C11
open MC.Nav

/-! ## every reachable state -/

/-- states reachable by any sequence of `set_mathml`, `set_navigation_node` and navigation commands (with rule answers
satisfying the monitored assumption); `ids`/`root` are the id set and root id of the expression that is current. -/
inductive Reach : (String → Bool) → String → NavState → Prop
  | start (ids : String → Bool) (root : String) (hr : ids root = true) : Reach ids root (resetForNewMathml init)
  | newMathml {ids root s} (ids' : String → Bool) (root' : String) (hr : ids' root' = true) :
      Reach ids root s → Reach ids' root' (resetForNewMathml s)
  | setNode {ids root s} (id : String) (off : Nat) (leaf : Bool) (s' : NavState) :
      Reach ids root s → setNode s id off (ids id) leaf = .ok s' → Reach ids root s'
  | command {ids root s} (cmd : String) (tries : List Try) (s' : NavState) :
      Reach ids root s → (∀ t ∈ tries, TryOk ids t) → doCommand root ids cmd tries s = .ok s' → Reach ids root s'

theorem reach_inv {ids : String → Bool} {root : String} {s : NavState} (h : Reach ids root s) :
    Inv ids s ∧ ids root = true := by
  induction h with
  | start ids root hr => exact ⟨inv_newMathml ids init, hr⟩
  | newMathml ids' root' hr _ _ => exact ⟨inv_newMathml ids' _, hr⟩
  | setNode id off leaf s' _ hs ih => exact ⟨inv_setNode _ _ s' id off leaf ih.1 hs, ih.2⟩
  | command cmd tries s' _ ht hd ih => exact ⟨inv_doCommand _ _ cmd tries _ s' ih.1 ih.2 ht hd, ih.2⟩

/-- **C11, first clause**: after ANY sequence of operations the current navigation position is a node of the currently
set expression (so `get_navigation_mathml` finds it). -/
theorem position_always_in_current_expression {ids : String → Bool} {root : String} {s : NavState}
    (h : Reach ids root s) : ids (current root s).id = true :=
  current_in_tree ids root s (reach_inv h).1 (reach_inv h).2

/-! ## commands that only read, describe or report never move -/

def headPos (s : NavState) : Option Pos := s.positions.head?

theorem popStack_head (s s' : NavState) (count : Nat) (h : popStack s count = .ok s') (hne : s.positions ≠ []) :
    headPos s' = headPos s := by
  unfold popStack at h
  split at h
  · injection h with h; subst h; rfl
  · split at h
    · rename_i tp tc s1 hp
      split at h
      · injection h with h; subst h
        unfold pop at hp
        split at hp
        · cases hp
        · split at hp
          · rename_i p ps c cs hpp hcc
            injection hp with hp; injection hp with h1 h2
            injection h1 with h1; injection h1 with h1a h1b; subst h1a
            simp [headPos, push, hpp]
          · injection hp with hp; injection hp with h1 h2; cases h1
      · cases h
      · cases h
    · cases h
    · cases h
    · cases h

theorem applyRules_head_nonmove (rootId : String) (ids : String → Bool) (cmd : String) (i : Nat) (t : Try)
    (s s' : NavState) (d : Bool) (hm : isMoveOrZoom cmd = false) (hne : s.positions ≠ [])
    (ha : applyRules rootId ids cmd i t s = .ok (s', d)) : headPos s' = headPos s ∧ s'.positions ≠ [] := by
  unfold applyRules at ha
  split at ha
  · cases ha
  · split at ha
    · cases ha
    · obtain ⟨s2, h2, ha⟩ := bind_eq_ok _ _ _ ha
      obtain ⟨s3, h3, ha⟩ := bind_eq_ok _ _ _ ha
      have e2 : s2.positions = s.positions := by
        unfold pushStep at h2; simp only [hm, Bool.false_eq_true, if_false] at h2
        injection h2 with h2; subst h2; rfl
      have e3 : s3.positions = s2.positions := by
        unfold markerStep at h3
        split at h3
        · split at h3
          · split at h3
            · split at h3
              · injection h3 with h3; subst h3; rfl
              · cases h3
            · cases h3
          · injection h3 with h3; subst h3; rfl
        · injection h3 with h3; subst h3; rfl
      have hne3 : s3.positions ≠ [] := by rw [e3, e2]; exact hne
      have hh3 : headPos s3 = headPos s := by simp [headPos, e3, e2]
      have key : ∀ s4, popStack s3 i = .ok s4 → headPos s4 = headPos s ∧ s4.positions ≠ [] := by
        intro s4 hp
        have := popStack_head s3 s4 i hp hne3
        refine ⟨by rw [this, hh3], ?_⟩
        intro he
        have hh : headPos s4 = none := by simp [headPos, he]
        rw [this] at hh
        cases hp3 : s3.positions with
        | nil => exact hne3 hp3
        | cons a b => simp [headPos, hp3] at hh
      unfold finishStep at ha
      split at ha
      · split at ha
        · cases ha
        · split at ha
          · injection ha with ha; injection ha with h1 h2; subst h1; exact ⟨hh3, hne3⟩
          · obtain ⟨s4, hp, he⟩ := bind_eq_ok _ _ _ ha
            injection he with he; injection he with h1 h2; subst h1
            exact key s4 hp
      · obtain ⟨s4, hp, he⟩ := bind_eq_ok _ _ _ ha
        injection he with he; injection he with h1 h2; subst h1
        exact key s4 hp

theorem tryLoop_head_nonmove (rootId : String) (ids : String → Bool) (cmd : String) (fuel i : Nat) (tries : List Try)
    (s s' : NavState) (hm : isMoveOrZoom cmd = false) (hne : s.positions ≠ [])
    (hl : tryLoop rootId ids cmd fuel i tries s = .ok s') : headPos s' = headPos s := by
  induction fuel generalizing i tries s with
  | zero => simp [tryLoop] at hl
  | succ f ih =>
    cases tries with
    | nil => simp [tryLoop] at hl
    | cons t ts =>
      simp only [tryLoop] at hl
      split at hl
      · rename_i s1 ha
        injection hl with hl; subst hl
        exact (applyRules_head_nonmove rootId ids cmd i t s _ true hm hne ha).1
      · rename_i s1 ha
        have := applyRules_head_nonmove rootId ids cmd i t s s1 false hm hne ha
        rw [← this.1]
        exact ih (i + 1) ts s1 this.2 hl
      · cases hl
      · cases hl

theorem current_ensureRoot (rootId : String) (s : NavState) : current rootId (ensureRoot rootId s) = current rootId s := by
  unfold ensureRoot
  cases hp : s.positions with
  | nil => simp [current, push, hp]
  | cons a b => simp [current, hp]

/-- **C11, third clause**: a command that is not a Move*/Zoom* command (Read*, Describe*, WhereAmI*, SetPlacemarker*,
Toggle*, …) leaves the current position where it was — for any rule answers and any number of retries. -/
theorem read_describe_where_dont_move (rootId : String) (ids : String → Bool) (cmd : String) (tries : List Try)
    (s s' : NavState) (hm : isMoveOrZoom cmd = false) (hu : cmd ≠ "MoveLastLocation")
    (hd : doCommand rootId ids cmd tries s = .ok s') : current rootId s' = current rootId s := by
  unfold doCommand at hd
  split at hd
  · cases hd
  · obtain ⟨s2, hs2, hd⟩ := bind_eq_ok _ _ _ hd
    unfold undoStep at hs2
    simp only [hu, if_false] at hs2
    injection hs2 with hs2; subst hs2
    have hne : (ensureRoot rootId s).positions ≠ [] := by
      unfold ensureRoot
      split
      · simp [push]
      · rename_i he; simpa using he
    have hh := tryLoop_head_nonmove rootId ids cmd 3 0 tries _ s' hm hne hd
    have hcur : ∀ x : NavState, x.positions ≠ [] → some (current rootId x) = headPos x := by
      intro x hx
      unfold current headPos
      cases hp : x.positions with
      | nil => exact absurd hp hx
      | cons a b => simp
    have hne' : s'.positions ≠ [] := by
      intro he
      have : headPos s' = none := by simp [headPos, he]
      rw [hh] at this
      rw [← hcur _ hne] at this
      cases this
    have e1 : some (current rootId s') = some (current rootId (ensureRoot rootId s)) := by
      rw [hcur _ hne', hcur _ hne, hh]
    injection e1 with e1
    rw [e1]
    exact current_ensureRoot rootId s

end MC.Props.C11
