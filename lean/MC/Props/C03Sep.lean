import MC.Spec.Rows
/-!
# C03, clause (d) — adjacent operands are always separated by an operator

"… and adjacent operands are always separated by an explicit or inserted invisible operator": for EVERY sequence of tokens
(any operators, any nesting, well formed or not) on which the row parser returns a tree, no row of that tree — at any depth —
has two neighbouring children that are both operands (`parseRow_operands_separated`). An "operand" here is what the Spec
checker (`MC.Spec.Rows`, clause (d)) calls one: a child that is not an `mo` leaf.

The invariant, per frame of the parse stack (children stored last-first): the children alternate well enough —
no two neighbouring non-`mo` children; if the frame waits for an operand its last child is an `mo` leaf (or there is none);
if it ends in an operand, the child before that is an `mo` leaf (or there is none) — and every child is itself a tree whose
rows are separated. Frames below the top one all wait for an operand.
-/
namespace MC.Props.C03Sep
open MC.Rows MC.Spec.Rows

/-- the list is empty or starts with an `mo` leaf -/
def headOp : List T → Bool
  | [] => true
  | x :: _ => isOpLeaf x

/-! ## lists -/

theorem noAdj_tail (x : T) (r : List T) (h : noAdj (x :: r) = true) : noAdj r = true := by
  cases r with
  | nil => rfl
  | cons y r => simp only [noAdj, Bool.and_eq_true] at h; exact h.2

theorem noAdj_cons_op (x : T) (r : List T) (hx : isOpLeaf x = true) (h : noAdj r = true) : noAdj (x :: r) = true := by
  cases r with
  | nil => rfl
  | cons y r => simp [noAdj, hx, h]

theorem noAdj_cons_headOp (x : T) (r : List T) (hr : headOp r = true) (h : noAdj r = true) : noAdj (x :: r) = true := by
  cases r with
  | nil => rfl
  | cons y r => simp only [headOp] at hr; simp [noAdj, hr, h]

theorem noAdj_append (a b : List T) (ha : noAdj a = true) (hb : noAdj b = true) (hh : headOp b = true) : noAdj (a ++ b) = true := by
  induction a with
  | nil => simpa using hb
  | cons x r ih =>
    have ihr := ih (noAdj_tail x r ha)
    cases r with
    | nil =>
      simp only [List.cons_append, List.nil_append]
      exact noAdj_cons_headOp x b hh hb
    | cons y r =>
      simp only [noAdj, Bool.and_eq_true] at ha
      simp only [List.cons_append, noAdj, Bool.and_eq_true]
      exact ⟨ha.1, by simpa using ihr⟩

theorem noAdj_snoc (a : List T) (x : T) (ha : noAdj a = true) (h : a.getLast?.all isOpLeaf = true ∨ isOpLeaf x = true) : noAdj (a ++ [x]) = true := by
  induction a with
  | nil => rfl
  | cons y r ih =>
    cases r with
    | nil =>
      simp only [List.cons_append, List.nil_append, noAdj, Bool.and_true, Bool.or_eq_true]
      rcases h with h | h
      · left; simpa using h
      · right; exact h
    | cons z r =>
      simp only [noAdj, Bool.and_eq_true] at ha
      simp only [List.cons_append, noAdj, Bool.and_eq_true]
      refine ⟨ha.1, ?_⟩
      have := ih ha.2 (by
        rcases h with h | h
        · left; simpa [List.getLast?_cons_cons] using h
        · right; exact h)
      simpa using this

theorem noAdj_reverse (a : List T) (h : noAdj a = true) : noAdj a.reverse = true := by
  induction a with
  | nil => rfl
  | cons x r ih =>
    rw [List.reverse_cons]
    apply noAdj_snoc _ _ (ih (noAdj_tail x r h))
    cases r with
    | nil => left; rfl
    | cons y r =>
      simp only [noAdj, Bool.and_eq_true, Bool.or_eq_true] at h
      rcases h.1 with hx | hy
      · right; exact hx
      · left
        simp [List.getLast?_reverse, hy]

theorem SepL_append (a b : List T) (ha : SeparatedL a = true) (hb : SeparatedL b = true) : SeparatedL (a ++ b) = true := by
  induction a with
  | nil => simpa using hb
  | cons x r ih => simp only [SeparatedL, Bool.and_eq_true] at ha; simp [SeparatedL, ha.1, ih ha.2]

theorem SepL_mem (a : List T) (h : ∀ k ∈ a, Separated k = true) : SeparatedL a = true := by
  induction a with
  | nil => rfl
  | cons x r ih => simp [SeparatedL, h x (by simp), ih (fun k hk => h k (by simp [hk]))]

theorem SepL_all (a : List T) (h : SeparatedL a = true) : ∀ k ∈ a, Separated k = true := by
  induction a with
  | nil => intro k hk; cases hk
  | cons x r ih =>
    simp only [SeparatedL, Bool.and_eq_true] at h
    intro k hk
    rcases List.mem_cons.mp hk with rfl | hk
    · exact h.1
    · exact ih h.2 k hk

theorem SepL_reverse (a : List T) (h : SeparatedL a = true) : SeparatedL a.reverse = true :=
  SepL_mem _ (fun k hk => SepL_all a h k (by simpa using hk))

/-! ## frames -/

structure FrameSep (f : Frame) : Prop where
  adj : noAdj f.rkids = true
  kids : SeparatedL f.rkids = true
  waiting : f.isOperand = false → headOp f.rkids = true
  after : f.isOperand = true → ∃ h tl, f.rkids = h :: tl ∧ headOp tl = true

theorem frameSep_new : FrameSep Frame.new := ⟨rfl, rfl, fun _ => rfl, fun h => by simp [Frame.new] at h⟩

theorem close_sep_fold (f : Frame) (hadj : noAdj f.rkids = true) (hkids : SeparatedL f.rkids = true) : Separated f.close = true := by
  unfold Frame.close
  split
  · rename_i t heq
    rw [heq] at hkids; simp only [SeparatedL, Bool.and_true] at hkids; exact hkids
  · simp only [Separated, Bool.and_eq_true]
    exact ⟨noAdj_reverse _ hadj, SepL_reverse _ hkids⟩

theorem close_sep (f : Frame) (h : FrameSep f) : Separated f.close = true := close_sep_fold f h.adj h.kids

/-- adding an operand to a frame that waits for one -/
theorem addOperand_sep (f f' : Frame) (t : T) (h : FrameSep f) (ht : Separated t = true) (he : f.addOperand t = .ok f') : FrameSep f' := by
  unfold Frame.addOperand at he
  by_cases hop : f.isOperand = true
  · simp [hop] at he
  · have hop' : f.isOperand = false := by simpa using hop
    simp only [hop', Bool.false_eq_true, if_false, Outcome.ok.injEq] at he
    subst he
    exact ⟨noAdj_cons_headOp t _ (h.waiting hop') h.adj, (by simp [SeparatedL, ht, h.kids]), (fun h1 => by cases h1),
      fun _ => ⟨t, f.rkids, rfl, h.waiting hop'⟩⟩

/-- adding an operator (an `mo` leaf) -/
theorem addOp_sep (f : Frame) (text : Str) (a : Bool) (o : Op) (h : FrameSep f) : FrameSep (f.addOp (.op text a) o) :=
  ⟨noAdj_cons_op _ _ rfl h.adj, (by simp [Frame.addOp, SeparatedL, Separated, h.kids]), (fun _ => rfl), (fun h1 => by cases h1)⟩

/-! ## the stack -/

structure StackSep (s : List Frame) : Prop where
  frames : ∀ f ∈ s, FrameSep f
  below : ∀ f ∈ s.tail, f.isOperand = false

theorem stackSep_push (s : List Frame) (F top : Frame) (rest : List Frame) (hs : s = top :: rest) (h : StackSep s) (hF : FrameSep F)
    (hop : top.isOperand = false) : StackSep (F :: s) := by
  subst hs
  refine ⟨?_, ?_⟩
  · intro f hf
    rcases List.mem_cons.mp hf with rfl | hf
    · exact hF
    · exact h.frames f hf
  · intro f hf
    simp only [List.tail_cons] at hf
    rcases List.mem_cons.mp hf with rfl | hf
    · exact hop
    · exact h.below f (by simpa using hf)

theorem stackSep_replaceTop (top top' : Frame) (rest : List Frame) (h : StackSep (top :: rest)) (hF : FrameSep top') : StackSep (top' :: rest) :=
  ⟨fun f hf => by
      rcases List.mem_cons.mp hf with rfl | hf
      · exact hF
      · exact h.frames f (by simp [hf]),
   fun f hf => h.below f hf⟩

theorem stackSep_pop (top : Frame) (rest : List Frame) (h : StackSep (top :: rest)) : StackSep rest :=
  ⟨fun f hf => h.frames f (by simp [hf]), fun f hf => h.below f (by
    simp only [List.tail_cons]
    exact List.mem_of_mem_tail hf)⟩

/-! ## the parser's steps keep the invariant (whenever they return) -/

theorem bind_ok {α β : Type} (x : Outcome α) (f : α → Outcome β) (b : β) (h : x.bind f = .ok b) : ∃ a, x = .ok a ∧ f a = .ok b := by
  cases x with
  | ok a => exact ⟨a, rfl, h⟩
  | panic p => simp [Outcome.bind] at h

theorem reduceOne_sep (s s' : List Frame) (h : StackSep s) (he : reduceOne s = .ok s') : StackSep s' := by
  match s, h with
  | [], _ => simp [reduceOne] at he
  | [_], _ => simp [reduceOne] at he
  | top :: below :: rest, h =>
    simp only [reduceOne] at he
    obtain ⟨b, hb, hr⟩ := bind_ok _ _ _ he
    simp only [Outcome.ok.injEq] at hr
    subst hr
    have hF := addOperand_sep below b top.close (h.frames below (by simp)) (close_sep top (h.frames top (by simp))) hb
    exact stackSep_replaceTop below b rest (stackSep_pop top (below :: rest) h) hF

theorem reduce_sep (cur : Nat) : ∀ (fuel : Nat) (s s' : List Frame), StackSep s → reduce cur fuel s = .ok s' → StackSep s' := by
  intro fuel
  induction fuel with
  | zero => intro s s' h he; simp only [reduce, Outcome.ok.injEq] at he; subst he; exact h
  | succ n ih =>
    intro s s' h he
    match s, h with
    | [], h => simp only [reduce, Outcome.ok.injEq] at he; subst he; exact h
    | [b], h => simp only [reduce, Outcome.ok.injEq] at he; subst he; exact h
    | top :: below :: rest, h =>
      simp only [reduce] at he
      by_cases hlt : cur < top.op.prio
      · simp only [hlt, if_true] at he
        obtain ⟨s1, h1, h2⟩ := bind_ok _ _ _ he
        exact ih s1 s' (reduceOne_sep _ s1 h h1) h2
      · simp only [hlt, if_false, Outcome.ok.injEq] at he; subst he; exact h

/-- `shift` followed by adding the child: `child` is an `mo` leaf -/
theorem shiftAdd_sep (s : List Frame) (h : StackSep s) (text : Str) (a : Bool) (o : Op) (r : List Frame × T × Option Op) (s' : List Frame)
    (hs : shift s (.op text a) o = .ok r) (ha : addToTop r.1 r.2.1 r.2.2 = .ok s') : StackSep s' := by
  match s, h with
  | [], _ => simp [shift] at hs
  | top :: rest, h =>
    have hT := h.frames top (by simp)
    unfold shift at hs
    by_cases hnary : isNary o top.op = true
    · simp only [hnary, if_true, Outcome.ok.injEq] at hs
      subst hs
      simp only [addToTop, Outcome.ok.injEq] at ha
      subst ha
      exact stackSep_replaceTop top _ rest h (addOp_sep top text a o hT)
    · have hnary' : isNary o top.op = false := by simpa using hnary
      simp only [hnary', Bool.false_eq_true, if_false] at hs
      by_cases hB : (top.rkids.isEmpty || (!top.isOperand && !o.isRightFence)) = true
      · simp only [hB, if_true, Outcome.ok.injEq] at hs
        subst hs
        simp only [addToTop, Outcome.ok.injEq] at ha
        subst ha
        have hop : top.isOperand = false := by
          simp only [Bool.or_eq_true, List.isEmpty_iff, Bool.and_eq_true, Bool.not_eq_true'] at hB
          rcases hB with hB | hB
          · cases hto : top.isOperand with
            | false => rfl
            | true => obtain ⟨x, tl, hx, _⟩ := hT.after hto; rw [hB] at hx; cases hx
          · exact hB.1
        exact stackSep_push (top :: rest) _ top rest rfl h (addOp_sep Frame.new text a o frameSep_new) hop
      · have hB' : (top.rkids.isEmpty || (!top.isOperand && !o.isRightFence)) = false := by simpa using hB
        simp only [hB', Bool.false_eq_true, if_false] at hs
        by_cases hR : o.isRightFence = true
        · simp only [hR, if_true] at hs
          have hrow : Separated (.row (top.addOp (.op text a) o).rkids.reverse) = true := by
            have hc := addOp_sep top text a o hT
            simp only [Separated, Bool.and_eq_true]
            exact ⟨noAdj_reverse _ hc.adj, SepL_reverse _ hc.kids⟩
          by_cases hC : ((top.addOp (.op text a) o).rkids.length = 2 && !startsWithLeftFence (top.addOp (.op text a) o)) = true
          · simp only [hC, if_true, Outcome.ok.injEq] at hs
            subst hs
            simp only [addToTop] at ha
            obtain ⟨b, hb, hr⟩ := bind_ok _ _ _ ha
            simp only [Outcome.ok.injEq] at hr
            subst hr
            have hF := addOperand_sep Frame.new b _ frameSep_new hrow hb
            match rest, h with
            | [], _ => exact ⟨fun f hf => by simp at hf; subst hf; exact hF, fun f hf => by simp at hf⟩
            | next :: rest', h =>
              exact stackSep_push (next :: rest') b next rest' rfl (stackSep_pop top _ h) hF (h.below next (by simp))
          · have hC' : ((top.addOp (.op text a) o).rkids.length = 2 && !startsWithLeftFence (top.addOp (.op text a) o)) = false := by simpa using hC
            simp only [hC', Bool.false_eq_true, if_false, Outcome.ok.injEq] at hs
            subst hs
            match rest, h with
            | [], _ => simp [addToTop] at ha
            | next :: rest', h =>
              simp only [addToTop] at ha
              obtain ⟨b, hb, hr⟩ := bind_ok _ _ _ ha
              simp only [Outcome.ok.injEq] at hr
              subst hr
              have hF := addOperand_sep next b _ (h.frames next (by simp)) hrow hb
              exact stackSep_replaceTop next b rest' (stackSep_pop top _ h) hF
        · have hR' : o.isRightFence = false := by simpa using hR
          simp only [hR', Bool.false_eq_true, if_false] at hs
          match hk : top.rkids with
          | [] => simp [hk] at hs
          | last :: init =>
            simp only [hk] at hs
            by_cases hasrt : (!(top.isOperand || init.isEmpty)) = true
            · simp [hasrt] at hs
            · have hasrt' : (!(top.isOperand || init.isEmpty)) = false := by simpa using hasrt
              simp only [hasrt', Bool.false_eq_true, if_false] at hs
              have hopT : top.isOperand = true := by
                simp only [Bool.or_eq_false_iff, Bool.and_eq_false_iff, Bool.not_eq_false', hR', Bool.not_false] at hB'
                rcases hB'.2 with h1 | h1
                · simpa using h1
                · cases h1
              obtain ⟨x, tl, hx, htl⟩ := hT.after hopT
              have hinit : headOp init = true := by
                rw [hk] at hx; simp only [List.cons.injEq] at hx; rw [hx.2]; exact htl
              have hlast : Separated last = true := by
                have := hT.kids; rw [hk] at this; simp only [SeparatedL, Bool.and_eq_true] at this; exact this.1
              have hF' : FrameSep { top with rkids := init, isOperand := false } := by
                refine ⟨?_, ?_, fun _ => hinit, fun h1 => by cases h1⟩
                · have := hT.adj; rw [hk] at this; exact noAdj_tail last init this
                · have := hT.kids; rw [hk] at this; simp only [SeparatedL, Bool.and_eq_true] at this; exact this.2
              by_cases hP : o.isPostfix = true
              · simp only [hP, if_true, Outcome.ok.injEq] at hs
                subst hs
                simp only [addToTop] at ha
                obtain ⟨b, hb, hr⟩ := bind_ok _ _ _ ha
                simp only [Outcome.ok.injEq] at hr
                subst hr
                have hrow : Separated (.row [last, .op text a]) = true := by
                  simp [Separated, SeparatedL, noAdj, isOpLeaf, hlast]
                have hF := addOperand_sep _ b _ hF' hrow hb
                exact stackSep_replaceTop top b rest h hF
              · have hP' : o.isPostfix = false := by simpa using hP
                simp only [hP', Bool.false_eq_true, if_false, Outcome.ok.injEq] at hs
                subst hs
                simp only [addToTop, Outcome.ok.injEq] at ha
                subst ha
                have hnew : FrameSep ((⟨[last], o, false⟩ : Frame).addOp (.op text a) o) := by
                  refine ⟨?_, ?_, fun _ => rfl, fun h1 => by cases h1⟩
                  · simp [Frame.addOp, noAdj, isOpLeaf]
                  · simp [Frame.addOp, SeparatedL, Separated, hlast]
                exact stackSep_push ({ top with rkids := init, isOperand := false } :: rest) _ _ rest rfl
                  (stackSep_replaceTop top _ rest h hF') hnew rfl

theorem insertImplied_sep (s s' : List Frame) (h : StackSep s) (he : insertImplied s = .ok s') : StackSep s' := by
  unfold insertImplied at he
  obtain ⟨s1, h1, he⟩ := bind_ok _ _ _ he
  obtain ⟨r, hr, he⟩ := bind_ok _ _ _ he
  have hs1 := reduce_sep _ _ s s1 h h1
  cases hro : r.2.2 with
  | none => simp [hro] at he
  | some o' =>
    simp only [hro] at he
    exact shiftAdd_sep s1 hs1 [0x2062] true impliedTimes r s' hr (by rw [hro]; exact he)

theorem addToTop_operand_sep (s s' : List Frame) (t : T) (h : StackSep s) (ht : Separated t = true) (he : addToTop s t none = .ok s') : StackSep s' := by
  match s, h with
  | [], _ => simp [addToTop] at he
  | top :: rest, h =>
    simp only [addToTop] at he
    obtain ⟨b, hb, hr⟩ := bind_ok _ _ _ he
    simp only [Outcome.ok.injEq] at hr
    subst hr
    exact stackSep_replaceTop top b rest h (addOperand_sep top b t (h.frames top (by simp)) ht hb)

theorem step_sep (s s' : List Frame) (tok : Tok) (nxt : Bool) (h : StackSep s) (he : step s tok nxt = .ok s') : StackSep s' := by
  cases tok with
  | operand text =>
    simp only [step] at he
    obtain ⟨s1, h1, he⟩ := bind_ok _ _ _ he
    have hs1 : StackSep s1 := by
      by_cases hl : lastIsOperandNode s = true
      · simp only [hl, if_true] at h1; exact insertImplied_sep s s1 h h1
      · simp only [hl, Bool.false_eq_true, if_false, Outcome.ok.injEq] at h1; subst h1; exact h
    exact addToTop_operand_sep s1 s' _ hs1 rfl he
  | mo text =>
    simp only [step] at he
    by_cases hpf : ((findOperator text (topIsOperand s || (topOp s).isPostfix) nxt).isLeftFence ||
        (findOperator text (topIsOperand s || (topOp s).isPostfix) nxt).isPrefix) = true
    · simp only [hpf, if_true] at he
      obtain ⟨s1, h1, he⟩ := bind_ok _ _ _ he
      have hs1 : StackSep s1 ∧ topIsOperand s1 = false ∨ StackSep s1 ∧ s1 = s ∧ topIsOperand s = false := by
        by_cases hl : topIsOperand s = true
        · simp only [hl, if_true] at h1
          left
          refine ⟨insertImplied_sep s s1 h h1, ?_⟩
          -- after an inserted operator the top frame waits for an operand: read it off the way insertImplied ends
          unfold insertImplied at h1
          obtain ⟨s0, _, h1⟩ := bind_ok _ _ _ h1
          obtain ⟨r, _, h1⟩ := bind_ok _ _ _ h1
          cases hro : r.2.2 with
          | none => simp [hro] at h1
          | some o' =>
            simp only [hro] at h1
            match hr1 : r.1 with
            | [] => simp [hr1, addToTop] at h1
            | tp :: rs =>
              simp only [hr1, addToTop, Outcome.ok.injEq] at h1
              subst h1
              rfl
        · simp only [hl, Bool.false_eq_true, if_false, Outcome.ok.injEq] at h1
          subst h1
          right
          exact ⟨h, rfl, by simpa using hl⟩
      have hsep : StackSep s1 := by rcases hs1 with h1 | h1 <;> exact h1.1
      have htop : topIsOperand s1 = false := by
        rcases hs1 with h1 | h1
        · exact h1.2
        · rw [h1.2.1]; exact h1.2.2
      simp only [addToTop, Outcome.ok.injEq] at he
      subst he
      match s1, hsep, htop with
      | [], hsep, _ =>
        exact ⟨fun f hf => by simp at hf; subst hf; exact addOp_sep Frame.new text false _ frameSep_new, fun f hf => by simp at hf⟩
      | tp :: rs, hsep, htop =>
        exact stackSep_push (tp :: rs) _ tp rs rfl hsep (addOp_sep Frame.new text false _ frameSep_new) (by simpa [topIsOperand] using htop)
    · have hpf' : ((findOperator text (topIsOperand s || (topOp s).isPostfix) nxt).isLeftFence ||
          (findOperator text (topIsOperand s || (topOp s).isPostfix) nxt).isPrefix) = false := by simpa using hpf
      simp only [hpf', Bool.false_eq_true, if_false] at he
      obtain ⟨s1, h1, he⟩ := bind_ok _ _ _ he
      obtain ⟨r, hr, he⟩ := bind_ok _ _ _ he
      exact shiftAdd_sep s1 (reduce_sep _ _ s s1 h h1) text false _ r s' hr he

theorem run_sep : ∀ (toks : List Tok) (s s' : List Frame), StackSep s → run s toks = .ok s' → StackSep s' := by
  intro toks
  induction toks with
  | nil => intro s s' h he; simp only [run, Outcome.ok.injEq] at he; subst he; exact h
  | cons t ts ih =>
    intro s s' h he
    simp only [run] at he
    obtain ⟨s1, h1, he⟩ := bind_ok _ _ _ he
    exact ih s1 s' (step_sep s s1 t _ h h1) he

theorem headOp_of_waiting (fs : List Frame) (h : ∀ f ∈ fs, FrameSep f ∧ f.isOperand = false) :
    noAdj (fs.flatMap (·.rkids)) = true ∧ headOp (fs.flatMap (·.rkids)) = true ∧ SeparatedL (fs.flatMap (·.rkids)) = true := by
  induction fs with
  | nil => exact ⟨rfl, rfl, rfl⟩
  | cons f r ih =>
    obtain ⟨hf, hop⟩ := h f (by simp)
    obtain ⟨i1, i2, i3⟩ := ih (fun g hg => h g (by simp [hg]))
    simp only [List.flatMap_cons]
    refine ⟨noAdj_append _ _ hf.adj i1 i2, ?_, SepL_append _ _ hf.kids i3⟩
    have hw := hf.waiting hop
    cases hk : f.rkids with
    | nil => simpa using i2
    | cons x tl => rw [hk] at hw; simpa [headOp] using hw

/-- **adjacent operands are always separated** (C03, clause (d)): whatever the tokens, if the parser returns a tree, no row of it, at
any depth, has two neighbouring children that are both operands — an explicit or inserted invisible operator stands between them -/
theorem parseRow_operands_separated (toks : List Tok) (t : T) (h : parseRow toks = .ok t) : Separated t = true := by
  unfold parseRow at h
  obtain ⟨s, hr, hf⟩ := bind_ok _ _ _ h
  have hs : StackSep s := run_sep toks [Frame.new] s
    ⟨fun f hf => by simp at hf; subst hf; exact frameSep_new, fun f hf => by simp at hf⟩ hr
  unfold finish at hf
  obtain ⟨s1, h1, hf⟩ := bind_ok _ _ _ hf
  have hs1 := reduce_sep _ _ s s1 hs h1
  match s1, hs1 with
  | [], _ => simp at hf
  | f :: rest, hs1 =>
    simp only [Outcome.ok.injEq] at hf
    subst hf
    have hF := hs1.frames f (by simp)
    obtain ⟨j1, j2, j3⟩ := headOp_of_waiting rest (fun g hg => ⟨hs1.frames g (by simp [hg]), hs1.below g (by simpa using hg)⟩)
    exact close_sep_fold _ (noAdj_append _ _ hF.adj j1 j2) (SepL_append _ _ hF.kids j3)

/-- non-vacuity: the parser does return a tree on a row with neighbouring operands, and the tree is separated by inserted operators -/
example : ∃ t, parseRow [.operand [50], .operand [120], .mo [43], .mo [40], .operand [97], .operand [98], .mo [41], .operand [99]] = .ok t ∧ Separated t = true := by
  refine ⟨_, rfl, ?_⟩
  decide +kernel

end MC.Props.C03Sep
