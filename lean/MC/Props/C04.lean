import MC.Props.SpeechTree
/-!
# C04 — speech voices every operand (the string half of the engine, TTS=None)

Model: `MC.Speech` (`joinArray`, `finalize`), lifted to every tree of rule applications in `MC.Props.SpeechTree`.
The full-strength statement is FALSE of the faithful model (and of the code): `content_not_preserved`.
-/
namespace MC.Props.C04
open MC.Speech

/-- **partial (C04)**: for every nesting of rule applications, every PauseFactor and every content class `q` (digits, for
instance): if no optional word has content in front of it within its string (`FC`), the final speech string has exactly
the content of the literal pieces, in order — joining, optional-word deletion, automatic pauses, marker removal,
trimming and pause merging lose, invent and reorder nothing. -/
theorem speak_content_partial (q : Nat → Bool) (hq : Content q) (pf : Nat) (t : Sp) (hw : WF t) (hf : FC q pf t) :
    (speak pf t).filter q = (lits t).flatten.filter q := by
  unfold speak
  rw [finalize_filter q hq, eval_filter q hq pf t hw hf]

/-- the instance the property talks about: the digits of the literals are the digits of the speech, in order -/
theorem speak_digits_partial (pf : Nat) (t : Sp) (hw : WF t) (hf : FC isDigit pf t) :
    (speak pf t).filter isDigit = (lits t).flatten.filter isDigit :=
  speak_content_partial isDigit content_digit pf t hw hf

/-- the clean-up at the end of `speak_rules` never touches content, for EVERY string (no hypothesis) -/
theorem cleanup_preserves_digits (s : Str) : (finalize s).filter isDigit = s.filter isDigit :=
  finalize_filter isDigit content_digit s

/-- one join conserves content when its inputs are `FrontClean` -/
theorem join_preserves_digits_partial (pf : Nat) (xs : List Str) (ha : ∀ x ∈ xs, AutoOK x) (hf : ∀ x ∈ xs, FrontClean isDigit x) :
    (joinArray pf xs).filter isDigit = xs.flatten.filter isDigit :=
  joinArray_filter_partial isDigit content_digit pf xs ha hf

def str (x : String) : Str := x.toList.map Char.toNat

/-- **the full-strength statement is false**: `is_repetitive` returns only the text after the optional word, so the text in
front of it is deleted with it. Witness (shape of ClearSpeak's "x raised to the 2.5 ⟨the⟩ fraction ..."): -/
theorem dedupe_loses_prefix :
    (joinArray 100 [str "raised to the", str "2.5 \uF8FDthe\uF8FD fraction", str "power"]).filter isDigit = [] ∧
    ([str "raised to the", str "2.5 \uF8FDthe\uF8FD fraction", str "power"].flatten).filter isDigit = str "25" := by
  decide +kernel

theorem content_not_preserved :
    ∃ xs : List Str, (∀ x ∈ xs, AutoOK x) ∧ (joinArray 100 xs).filter isDigit ≠ xs.flatten.filter isDigit := by
  refine ⟨[str "raised to the", str "2.5 \uF8FDthe\uF8FD fraction", str "power"], ?_, ?_⟩
  · intro x hx
    left
    simp only [List.mem_cons, List.not_mem_nil, or_false] at hx
    rcases hx with rfl | rfl | rfl <;> decide +kernel
  · rw [dedupe_loses_prefix.1, dedupe_loses_prefix.2]; decide

/-- non-vacuity of the partial theorem: a tree with an optional word that IS dropped, digits kept -/
example : (speak 100 (.arr [.lit (str "3.5"), .lit (str "the"), .arr [.lit (str "\uF8FDthe\uF8FD fraction"), .lit (str "1.5"), .auto, .lit (str "over 7")], .lit (str "end")])).filter isDigit
    = str "35157" := by decide +kernel

end MC.Props.C04
