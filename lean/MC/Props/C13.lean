import MC.Spec.Tts
/-!
# C13 — speech-engine markup is well formed and never changes the words
-/
namespace MC.Props.C13
open MC.Tts MC.Spec.Tts

/-- **tags pair up**: for both engines and every command, the regenerated start template is one valid tag of the engine's
vocabulary with `name='v'`/`name="v"` attributes and the end template closes exactly that element. -/
theorem tags_pair : MC.Gen.Tts.templates.all pairOk = true := by decide +kernel

/-- the strings `merge_pauses_*` write back are single valid self-closing tags -/
theorem merge_templates_ok : MC.Gen.Tts.mergeTemplates.all mergeOk = true := by decide +kernel

/-! ## well-nestedness of everything `replace_string` can produce (any nesting of commands, any engine) -/

theorem bal_argToks (st : List Str) (a : Option Str) (r : List Tok) : bal st (argToks a ++ r) = bal st r := by
  cases a <;> simp [argToks, bal]

/-- inserting the rendering of any speech term anywhere in a token stream does not change its balance -/
theorem bal_toks (eng : Nat) (t : Sp) : ∀ (st : List Str) (r : List Tok), bal st (toks eng t ++ r) = bal st r := by
  induction t with
  | nil => intro st r; simp [toks]
  | words w => intro st r; simp [toks, bal]
  | cat a b iha ihb => intro st r; simp only [toks, List.append_assoc]; rw [iha, ihb]
  | cmd c arg body ih =>
    intro st r
    simp only [toks]
    split
    · rename_i n _
      simp only [List.cons_append, List.append_assoc, bal]
      rw [bal_argToks, ih]
      simp [bal]
    · rename_i n _
      simp only [List.cons_append, List.append_assoc, bal]
      rw [bal_argToks, ih]
    · simp only [List.append_assoc]
      rw [bal_argToks, ih]

/-- **C13, nesting**: the token stream of any speech term is properly nested and closed, for every engine -/
theorem render_well_nested (eng : Nat) (t : Sp) : bal [] (toks eng t) = true := by
  have := bal_toks eng t [] []
  simpa [bal] using this

/-- merging pauses (dropping or adding self-closing tags anywhere) keeps a stream well nested -/
theorem bal_empty_irrelevant (st : List Str) (xs ys : List Tok) (n : Str) :
    bal st (xs ++ .empty n :: ys) = bal st (xs ++ ys) := by
  induction xs generalizing st with
  | nil => simp [bal]
  | cons x xs ih =>
    cases x with
    | op m => simp [bal, ih]
    | cl m => cases st <;> simp [bal, ih]
    | empty m => simp [bal, ih]
    | text w => simp [bal, ih]

/-! ## the words do not depend on the engine -/

theorem textOf_append (a b : List Tok) : textOf (a ++ b) = textOf a ++ textOf b := by
  induction a with
  | nil => rfl
  | cons x xs ih => cases x <;> simp [textOf, ih]

/-- the words of a speech term, engine-independent -/
def plainWords : Sp → List Str
  | .nil => []
  | .words w => [w]
  | .cat a b => plainWords a ++ plainWords b
  | .cmd _ arg body => (match arg with | some w => [w] | none => []) ++ plainWords body

theorem textOf_argToks (a : Option Str) : textOf (argToks a) = (match a with | some w => [w] | none => []) := by
  cases a <;> rfl

/-- **C13, words**: removing the tags leaves exactly the same words whatever engine (none, SSML, SAPI5) is selected -/
theorem strip_tags_eq_none (eng : Nat) (t : Sp) : textOf (toks eng t) = plainWords t := by
  induction t with
  | nil => rfl
  | words w => rfl
  | cat a b iha ihb => simp [toks, plainWords, textOf_append, iha, ihb]
  | cmd c arg body ih =>
    simp only [toks, plainWords]
    split <;> simp [textOf, textOf_append, textOf_argToks, ih]

theorem words_engine_independent (e₁ e₂ : Nat) (t : Sp) : textOf (toks e₁ t) = textOf (toks e₂ t) := by
  rw [strip_tags_eq_none, strip_tags_eq_none]

/-- non-vacuity: a pitch change around a spelled letter, with a pause, under SAPI5 and SSML -/
example : toks 2 (.cmd 3 none (.cat (.cmd 7 (some [65]) .nil) (.cmd 0 none .nil))) =
    [.op (nm "pitch"), .op (nm "spell"), .text [65], .cl (nm "spell"), .empty (nm "silence"), .cl (nm "pitch")] := by
  decide +kernel
example : toks 1 (.cmd 3 none (.cmd 8 none (.words [120]))) =
    [.op (nm "prosody"), .empty (nm "mark"), .text [120], .cl (nm "prosody")] := by decide +kernel

end MC.Props.C13
