import MC.Props.C12Sep
import MC.Model.PrefFiles
/-!
C15 / C10: **the rule files in force are those of the language in force**, for every history of preference requests.

`FilesInv (s, f)`: the language whose speech-side files are selected, and the language the style file was looked up in, both equal the
language in force (`curLanguage`: `Language`, or for `Auto` the host's `LanguageAuto`, or English before the host gave one).
It holds after `set_rules_dir` and is kept by every request — whatever the order of `Language`, `LanguageAuto` and `SpeechStyle`.
The library violated it twice before the repairs dafc07b (switching to `Auto` forgot the old language) and 13af2b8 (a style chosen
under `Auto` was looked up in English): with the old code the invariant is not provable, and the route battery of checks/c15.py
shows the failing histories on the implementation.
-/
namespace MC.Props.C15Files
open MC.Prefs MC.Props.C12 MC.Props.C12Sep

/-- the `Language` preference never holds the empty text or the NO_PREFERENCE sentinel -/
def LangOk (s : PState) : Prop := ∀ l, prefToString s "Language" = some l → l ≠ "" ∧ l ≠ noPreference

def FilesInv (s : PState) (f : Files) : Prop := f.filesLang = curLanguage s ∧ f.styleLang = curLanguage s

theorem curLanguage_congr (s s' : PState) (h1 : prefToString s' "Language" = prefToString s "Language")
    (h2 : prefToString s' "LanguageAuto" = prefToString s "LanguageAuto") : curLanguage s' = curLanguage s := by
  unfold curLanguage effLanguage; rw [h1, h2]

/-! ### `Shape` is kept by every accepted request -/

theorem chooseMap_s1 (E : Env) (s s1 : PState) (k v : String) (u : Bool) (h : chooseMap E s k v = .ok (s1, u)) :
    s1 = s ∨ (k = "Language" ∧ v = "Auto" ∧ s1 = { s with api := pset s.api "LanguageAuto" ((pget s.user "Language").getD (.str "en")) }) := by
  have hr : ∀ s1', resetFiles E s k v = .ok s1' → s1' = s ∨ (k = "Language" ∧ v = "Auto" ∧ s1' = { s with api := pset s.api "LanguageAuto" ((pget s.user "Language").getD (.str "en")) }) := by
    intro s1' hr
    have := resetFiles_eq E s s1' k v hr
    by_cases hc : k = "Language" ∧ v = "Auto"
    · rw [if_pos hc] at this; exact Or.inr ⟨hc.1, hc.2, this⟩
    · rw [if_neg hc] at this; exact Or.inl this
  cases hapi : pget s.api k with
  | some w => rcases (chooseMap_api E s s1 k v u w hapi h).2 with h1 | h1
              · exact Or.inl h1
              · exact hr _ h1
  | none => obtain ⟨_, w, _, h1 | h1⟩ := chooseMap_user E s s1 k v u hapi h
            · exact Or.inl h1.2
            · exact hr _ h1.2

theorem shape_s1 (E : Env) (s s1 : PState) (k v : String) (u : Bool) (hs : Shape s) (h : chooseMap E s k v = .ok (s1, u)) : Shape s1 := by
  rcases chooseMap_s1 E s s1 k v u h with e | ⟨_, _, e⟩
  · rw [e]; exact hs
  · rw [e]
    obtain ⟨l, hl⟩ := hs.user_str "Language" (by decide)
    rw [hl]
    exact shape_api_write _ _ _ hs (by decide) (fun _ b => by simp)

theorem shape_core (E : Env) (s s2 : PState) (k v : String) (hs : Shape s) (h : setStringPrefCore E s k v = .ok s2) : Shape s2 := by
  unfold setStringPrefCore at h
  split at h
  · cases h
  · cases h
  · rename_i s1 u hc
    have hs1 := shape_s1 E s s1 k v u hs hc
    have hu1 : s1.user = s.user := (chooseMap_ok E s s1 k v u hc).1
    split at h
    · obtain ⟨d, hd⟩ := hs1.user_str "DecimalSeparator" (by decide)
      obtain ⟨l, hl⟩ := hs1.user_str "Language" (by decide)
      rw [storeUser_eq s1 k v d l hd hl] at h
      injection h with h
      split at h
      · rw [← h]; exact shape_setSeparators _ _ (shape_user_write _ _ _ hs1)
      · rw [← h]; exact shape_user_write _ _ _ hs1
    · rename_i hu
      injection h with h
      rw [← h]
      have hu : u = false := by simpa using hu
      subst hu
      -- the key lives in the API map, so it is none of the four user texts
      have hk : k ∉ userText := by
        intro hk
        cases hapi : pget s.api k with
        | none => obtain ⟨hh, _⟩ := chooseMap_user E s s1 k v false hapi hc; cases hh
        | some w => rw [hs.api_none k hk] at hapi; cases hapi
      exact shape_api_write _ _ _ hs1 hk (fun _ b => by simp)

theorem shape_step (E : Env) (s s' : PState) (n v : String) (hs : Shape s) (h : setPreference E s n v = .ok s') : Shape s' := by
  obtain ⟨v', _, _, hcase⟩ := setPreference_cases E s s' n v h
  rcases hcase with ⟨f, hf, rfl⟩ | ⟨b, hb, rfl⟩ | hsp
  · have hn := float_not_five n hf
    exact shape_api_write _ _ _ hs (userText_sub_five n hn) (fun e => absurd (by simp [five, e]) hn)
  · have hn := bool_not_five s n hs hb
    exact shape_api_write _ _ _ hs (userText_sub_five n hn) (fun e => absurd (by simp [five, e]) hn)
  · obtain ⟨s2, hcore, rfl⟩ := setStringPref_ok E s s' n v' hsp
    have := shape_core E s s2 n v' hs hcore
    split
    · exact shape_setSeparators _ _ this
    · exact this

/-! ### how the two language preferences read after an accepted request -/

theorem la_read_user_write (s : PState) (k v : String) (hk : k ≠ "LanguageAuto") :
    prefToString { s with user := pset s.user k (.str v) } "LanguageAuto" = prefToString s "LanguageAuto" := by
  unfold prefToString; simp only; rw [pget_pset_other _ _ _ _ (fun e => hk e.symm)]

theorem la_read_api_write (s : PState) (k : String) (x : Val) (hk : k ≠ "LanguageAuto") :
    prefToString { s with api := pset s.api k x } "LanguageAuto" = prefToString s "LanguageAuto" := by
  unfold prefToString; simp only; rw [pget_pset_other _ _ _ _ (fun e => hk e.symm)]

/-- a request for any other preference leaves `LanguageAuto` as it reads -/
theorem la_read_other (E : Env) (s s' : PState) (n v : String) (hs : Shape s) (h : setPreference E s n v = .ok s')
    (h1 : n ≠ "Language") (h2 : n ≠ "LanguageAuto") : prefToString s' "LanguageAuto" = prefToString s "LanguageAuto" := by
  obtain ⟨v', _, _, hcase⟩ := setPreference_cases E s s' n v h
  rcases hcase with ⟨f, _, rfl⟩ | ⟨b, _, rfl⟩ | hsp
  · exact la_read_api_write _ _ _ h2
  · exact la_read_api_write _ _ _ h2
  · obtain ⟨s2, hcore, rfl⟩ := setStringPref_ok E s s' n v' hsp
    rw [if_neg h2]
    unfold setStringPrefCore at hcore
    split at hcore
    · cases hcore
    · cases hcore
    · rename_i s1 u hc
      have hs1 : s1 = s := by
        rcases chooseMap_s1 E s s1 n v' u hc with e | ⟨e, _⟩
        · exact e
        · exact absurd e h1
      subst hs1
      split at hcore
      · obtain ⟨d, hd⟩ := hs.user_str "DecimalSeparator" (by decide)
        obtain ⟨l, hl⟩ := hs.user_str "Language" (by decide)
        rw [storeUser_eq s1 n v' d l hd hl] at hcore
        injection hcore with hcore
        split at hcore
        · rw [← hcore, prefToString_setSeparators _ _ _ (by decide) (by decide)]; exact la_read_user_write _ _ _ h2
        · rw [← hcore]; exact la_read_user_write _ _ _ h2
      · injection hcore with hcore
        rw [← hcore]; exact la_read_api_write _ _ _ h2

/-- `Language := v'`: it reads back, and `LanguageAuto` takes the old language exactly when the switch is to `Auto` -/
theorem language_step_reads (E : Env) (s s' : PState) (v' l : String) (hs : Shape s) (hl : prefToString s "Language" = some l)
    (h : setStringPref E s "Language" v' = .ok s') :
    prefToString s' "Language" = some v' ∧
    prefToString s' "LanguageAuto" = (if l ≠ v' ∧ v' = "Auto" then some l else prefToString s "LanguageAuto") := by
  refine ⟨setStringPref_read_back E s s' "Language" v' h, ?_⟩
  have hapi := hs.api_none "Language" (by decide)
  obtain ⟨d, hd⟩ := hs.user_str "DecimalSeparator" (by decide)
  obtain ⟨l0, hl0⟩ := hs.user_str "Language" (by decide)
  have : l0 = l := by
    rw [prefToString_user _ _ hapi, hl0] at hl; simpa [Val.render] using hl
  subst this
  obtain ⟨s2, hcore, hs'⟩ := setStringPref_ok E s s' "Language" v' h
  rw [if_neg (by decide : ¬ ("Language" : String) = "LanguageAuto")] at hs'
  subst hs'
  unfold setStringPrefCore at hcore
  split at hcore
  · cases hcore
  · cases hcore
  · rename_i s1 u hc
    obtain ⟨hu, w, hw, hcase⟩ := chooseMap_user E s s1 "Language" v' u hapi hc
    rw [hl0] at hw; injection hw with hw; subst hw; subst hu
    simp only [if_true] at hcore
    rcases hcase with ⟨he, h1⟩ | ⟨hne, hr⟩
    · subst h1
      have he : l0 = v' := he
      subst he
      rw [storeUser_eq s1 "Language" l0 d l0 hd hl0] at hcore
      injection hcore with hcore
      rw [if_neg (by simp)] at hcore
      rw [← hcore, if_neg (by simp)]
      exact la_read_user_write _ _ _ (by decide)
    · have hne : l0 ≠ v' := hne
      have e1 := resetFiles_eq E s s1 "Language" v' hr
      have hu1 : s1.user = s.user := by rw [e1]; split <;> rfl
      rw [storeUser_eq s1 "Language" v' d l0 (hu1 ▸ hd) (hu1 ▸ hl0)] at hcore
      injection hcore with hcore
      rw [if_pos (Or.inr ⟨rfl, hne⟩)] at hcore
      rw [← hcore, prefToString_setSeparators _ _ _ (by decide) (by decide), la_read_user_write _ _ _ (by decide)]
      by_cases hv : v' = "Auto"
      · rw [if_pos ⟨hne, hv⟩, e1, if_pos ⟨rfl, hv⟩, hl0]
        unfold prefToString; simp only; rw [pget_pset_same]; rfl
      · rw [if_neg (fun hh => hv hh.2), e1, if_neg (fun hh => hv hh.2)]

/-! ### the invariants -/

theorem langOk_step (E : Env) (s s' : PState) (n v : String) (hs : Shape s) (ho : LangOk s) (h : setPreference E s n v = .ok s') :
    LangOk s' := by
  by_cases hn : n = "Language"
  · subst hn
    obtain ⟨v', hnorm, _, hcase⟩ := setPreference_cases E s s' "Language" v h
    have hsp : setStringPref E s "Language" v' = .ok s' := by
      rcases hcase with ⟨f, hf, _⟩ | ⟨b, hb, _⟩ | hsp
      · exact absurd hf (by decide)
      · exact absurd (by simp [five]) (bool_not_five s _ hs hb)
      · exact hsp
    have hrb := setStringPref_read_back E s s' "Language" v' hsp
    intro l hl
    rw [hrb] at hl; injection hl with hl; subst hl
    rcases normLanguage_ok v v' (hnorm (Or.inl rfl)) with e | e
    · subst e; exact ⟨by decide, by decide⟩
    · exact e
  · intro l hl
    rw [frame E s s' n v "Language" h (fun e => hn e.symm) (by decide)] at hl
    exact ho l hl

theorem effLanguage_notAuto (s : PState) (L : String) (h : L ≠ "Auto") : effLanguage s L = L := by
  unfold effLanguage; simp [h]

theorem effLanguage_auto (s : PState) (v : String) (h : prefToString s "LanguageAuto" = some v) (h1 : v ≠ "") (h2 : v ≠ noPreference) :
    effLanguage s "Auto" = v := by
  unfold effLanguage; simp [h, h1, h2]

/-- **one request keeps the selection on the language in force** -/
theorem filesInv_step (E : Env) (s s' : PState) (f : Files) (n v : String) (hs : Shape s) (ho : LangOk s) (hi : FilesInv s f)
    (h : setPreference E s n v = .ok s') : FilesInv s' (filesStep s n (storedValue n v) f) := by
  obtain ⟨v', hnorm, hla, hcase⟩ := setPreference_cases E s s' n v h
  unfold FilesInv at hi ⊢
  by_cases eL : n = "Language"
  · subst eL
    have hn := hnorm (Or.inl rfl)
    have hsv : storedValue "Language" v = v' := by simp [storedValue, hn]
    rw [hsv]
    have hsp : setStringPref E s "Language" v' = .ok s' := by
      rcases hcase with ⟨x, hf, _⟩ | ⟨b, hb, _⟩ | hsp
      · exact absurd hf (by decide)
      · exact absurd (by simp [five]) (bool_not_five s _ hs hb)
      · exact hsp
    obtain ⟨l, hl⟩ : ∃ l, prefToString s "Language" = some l := by
      obtain ⟨l, hl⟩ := hs.user_str "Language" (by decide)
      exact ⟨l, by rw [prefToString_user _ _ (hs.api_none _ (by decide)), hl]; rfl⟩
    obtain ⟨r1, r2⟩ := language_step_reads E s s' v' l hs hl hsp
    unfold filesStep
    by_cases hsame : l = v'
    · subst hsame
      rw [if_pos hl]
      rw [if_neg (fun hh => hh.1 rfl)] at r2
      rw [curLanguage_congr s s' (by rw [r1, hl]) r2]; exact hi
    · rw [if_neg (by rw [hl]; intro e; injection e with e; exact hsame e)]
      simp only [if_true]
      by_cases hv : v' = "Auto"
      · subst hv
        rw [if_pos ⟨hsame, rfl⟩] at r2
        simp only [if_true]
        have hcs : curLanguage s = l := by rw [curLanguage_of _ _ hl]; exact effLanguage_notAuto _ _ hsame
        have hcs' : curLanguage s' = l := by
          rw [curLanguage_of _ _ r1]; exact effLanguage_auto _ _ r2 (ho l hl).1 (ho l hl).2
        rw [hcs']; rw [hcs] at hi; exact hi
      · rw [if_neg hv]
        have hcs' : curLanguage s' = v' := by rw [curLanguage_of _ _ r1]; exact effLanguage_notAuto _ _ hv
        exact ⟨hcs'.symm, hcs'.symm⟩
  · by_cases eA : n = "LanguageAuto"
    · subst eA
      obtain ⟨v'', hn2, hrb, hfr, hcur⟩ := languageAuto_in_force E s s' v hs h
      have hsv : storedValue "LanguageAuto" v = v'' := by simp [storedValue, hn2]
      rw [hsv]
      obtain ⟨hv1, hlang⟩ := hla rfl
      have hv12 : v'' = v' := by rw [hnorm (Or.inr rfl)] at hn2; injection hn2 with e; exact e.symm
      subst hv12
      unfold filesStep
      by_cases hsame : prefToString s "LanguageAuto" = some v''
      · rw [if_pos hsame]
        rcases normLanguage_ok v v'' hn2 with e | ⟨e1, e2⟩
        · exact absurd e hv1
        · have hcs : curLanguage s = v'' := by rw [curLanguage_of _ _ hlang]; exact effLanguage_auto _ _ hsame e1 e2
          rw [hcur]; rw [hcs] at hi; exact hi
      · rw [if_neg hsame]
        simp only [(by decide : ¬ ("LanguageAuto" : String) = "Language"), if_false, if_true]
        exact ⟨hcur.symm, hcur.symm⟩
    · have hsv : storedValue n v = v := by simp [storedValue, eL, eA]
      rw [hsv]
      have hcl : curLanguage s' = curLanguage s :=
        curLanguage_congr s s' (frame E s s' n v "Language" h (fun e => eL e.symm) (by decide)) (la_read_other E s s' n v hs h eL eA)
      unfold filesStep
      rw [hcl]
      split
      · exact hi
      · split
        · exact ⟨hi.1, rfl⟩
        · exact hi

/-- **C15 / C10: the rule files in force are those of the language in force, after every history** of preference requests,
accepted or rejected, in any order — `Language`, `Language = Auto` + `LanguageAuto`, and a `SpeechStyle` chosen before, between
or after them -/
theorem files_follow_language (E : Env) (ops : List (String × String)) :
    FilesInv (runOpsF E (initState, initFiles) ops).1 (runOpsF E (initState, initFiles) ops).2 := by
  suffices h : ∀ s f, Shape s → LangOk s → FilesInv s f →
      FilesInv (runOpsF E (s, f) ops).1 (runOpsF E (s, f) ops).2 from
    h _ _ shape_init (by intro l hl; have : prefToString initState "Language" = some "Auto" := by decide +kernel
                         rw [this] at hl; injection hl with hl; subst hl; exact ⟨by decide, by decide⟩)
      ⟨by decide +kernel, by decide +kernel⟩
  induction ops with
  | nil => intro s f _ _ hi; exact hi
  | cons op rest ih =>
    intro s f hs ho hi
    obtain ⟨n, v⟩ := op
    simp only [runOpsF]
    split
    · rename_i s' hstep
      exact ih s' _ (shape_step E s s' n v hs hstep) (langOk_step E s s' n v hs ho hstep) (filesInv_step E s s' f n v hs ho hi hstep)
    · exact ih s f hs ho hi

/-- the store component of the combined run is the run of `MC.Props.C12` (so `separators_follow_preferences` speaks about the same states) -/
theorem runOpsF_fst (E : Env) (ops : List (String × String)) (s : PState) (f : Files) : (runOpsF E (s, f) ops).1 = runOps E s ops := by
  induction ops generalizing s f with
  | nil => rfl
  | cons op rest ih =>
    obtain ⟨n, v⟩ := op
    simp only [runOpsF, runOps]
    cases hstep : setPreference E s n v with
    | ok s' => simp only; exact ih _ _
    | err k => simp only; exact ih _ _
    | panic p => simp only; exact ih _ _

/-- **route independence** (C10: results depend on the current preferences, not on how they were reached): two histories that end
with the same `Language` and `LanguageAuto` select the same rule files and the same style-file language -/
theorem files_route_independent (E : Env) (ops1 ops2 : List (String × String))
    (hL : prefToString (runOpsF E (initState, initFiles) ops1).1 "Language" = prefToString (runOpsF E (initState, initFiles) ops2).1 "Language")
    (hA : prefToString (runOpsF E (initState, initFiles) ops1).1 "LanguageAuto" = prefToString (runOpsF E (initState, initFiles) ops2).1 "LanguageAuto") :
    (runOpsF E (initState, initFiles) ops1).2 = (runOpsF E (initState, initFiles) ops2).2 := by
  have i1 := files_follow_language E ops1
  have i2 := files_follow_language E ops2
  have hc := curLanguage_congr _ _ hL hA
  unfold FilesInv at i1 i2
  cases h1 : (runOpsF E (initState, initFiles) ops1).2 with
  | mk a1 b1 =>
    cases h2 : (runOpsF E (initState, initFiles) ops2).2 with
    | mk a2 b2 =>
      rw [h1] at i1; rw [h2] at i2
      simp only at i1 i2
      rw [i1.1, i1.2, i2.1, i2.2, hc]

/-- `set_all_files` (a second `set_rules_dir`: re-initialisation, or a repair by re-pointing) selects the files of the language in force:
it establishes the invariant whatever the selection was, and under the invariant it changes nothing -/
def reinit (s : PState) (_ : Files) : Files := ⟨curLanguage s, curLanguage s⟩

theorem reinit_inv (s : PState) (f : Files) : FilesInv s (reinit s f) := ⟨rfl, rfl⟩

theorem reinit_noop (s : PState) (f : Files) (hi : FilesInv s f) : reinit s f = f := by
  cases f with
  | mk a b => unfold FilesInv at hi; simp only at hi; simp [reinit, hi.1, hi.2]

/-- the order of the three preferences does not matter: style first or last, the style file is looked up in the host's language -/
example : (runOpsF envAll (initState, initFiles) [("Language", "Auto"), ("LanguageAuto", "es"), ("SpeechStyle", "SimpleSpeak")]).2
        = ⟨"es", "es"⟩ ∧
    (runOpsF envAll (initState, initFiles) [("SpeechStyle", "SimpleSpeak"), ("Language", "Auto"), ("LanguageAuto", "es")]).2
        = ⟨"es", "es"⟩ ∧
    (runOpsF envAll (initState, initFiles) [("Language", "id-sg"), ("Language", "Auto"), ("LanguageAuto", "en"), ("SpeechStyle", "ClearSpeak")]).2
        = ⟨"en", "en"⟩ := by decide +kernel

end MC.Props.C15Files
