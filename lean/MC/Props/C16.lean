import MC.Model.Numbers
/-!
# C16 — split numbers fold into the same number as the unsplit form (recognisers)

The locale number grammar, for ANY separator sets `B` (block) and `D` (decimal) that are disjoint and digit-free:
lead group of 1–3 digits, any number of 3-digit groups each preceded by one block separator, and optionally a decimal mark
followed by any digits (possibly none).
-/
namespace MC.Props.C16
open MC.Numbers

structure GoodSeps (S : Seps) : Prop where
  blockNoDigit : ∀ c ∈ S.block, isDig c = false
  decNoDigit : ∀ c ∈ S.dec, isDig c = false
  disjoint : ∀ c ∈ S.block, S.dec.contains c = false

/-- integer part: lead ++ (sep :: group)* -/
def intText (lead : Str) (groups : List (Nat × Str)) : Str := lead ++ groups.flatMap fun g => g.1 :: g.2

structure GoodInt (S : Seps) (lead : Str) (groups : List (Nat × Str)) : Prop where
  leadDig : allDig lead = true
  leadLen : 1 ≤ lead.length ∧ lead.length ≤ 3
  groupOk : ∀ g ∈ groups, S.block.contains g.1 = true ∧ allDig g.2 = true ∧ g.2.length = 3

theorem span_all (p : Nat → Bool) (s : Str) (h : s.all p = true) : span p s = (s, []) := by
  induction s with
  | nil => rfl
  | cons c cs ih =>
    simp only [List.all_cons, Bool.and_eq_true] at h
    simp [span, h.1, ih h.2]

theorem span_append_stop (p : Nat → Bool) (a : Str) (d : Nat) (r : Str) (ha : a.all p = true) (hd : p d = false) :
    span p (a ++ d :: r) = (a, d :: r) := by
  induction a with
  | nil => simp [span, hd]
  | cons c cs ih =>
    simp only [List.all_cons, Bool.and_eq_true] at ha
    simp [span, ha.1, ih ha.2]

theorem groupsTail_groups (S : Seps) (hS : GoodSeps S) (groups : List (Nat × Str))
    (hg : ∀ g ∈ groups, S.block.contains g.1 = true ∧ allDig g.2 = true ∧ g.2.length = 3) (fuel : Nat)
    (hf : (groups.flatMap fun g => g.1 :: g.2).length ≤ fuel) :
    groupsTail S.block fuel (groups.flatMap fun g => g.1 :: g.2) = true := by
  induction groups generalizing fuel with
  | nil => cases fuel <;> simp [groupsTail]
  | cons g gs ih =>
    obtain ⟨hb, hd, hl⟩ := hg g (by simp)
    simp only [List.flatMap_cons, List.cons_append, List.length_cons, List.length_append] at hf ⊢
    cases fuel with
    | zero => omega
    | succ f =>
      simp only [groupsTail, hb, if_true]
      have ht : (g.2 ++ gs.flatMap fun g => g.1 :: g.2).take 3 = g.2 := by
        rw [List.take_append_of_le_length (by omega)]; exact List.take_of_length_le (by omega)
      have hdr : (g.2 ++ gs.flatMap fun g => g.1 :: g.2).drop 3 = gs.flatMap fun g => g.1 :: g.2 := by
        rw [List.drop_append_of_le_length (by omega), List.drop_of_length_le (by omega)]; rfl
      rw [ht, hdr]
      simp only [hl, decide_true, hd, Bool.true_and]
      exact ih (fun g' hg' => hg g' (by simp [hg'])) f (by omega)

/-- the integer part of every number of the grammar is accepted by the integer recogniser -/
theorem intOk_grammar (S : Seps) (hS : GoodSeps S) (lead : Str) (groups : List (Nat × Str)) (h : GoodInt S lead groups) :
    intOk S.block (intText lead groups) = true := by
  unfold intOk intText
  have hk : lead.length = 1 ∨ lead.length = 2 ∨ lead.length = 3 := by have := h.leadLen; omega
  have htake : (lead ++ groups.flatMap fun g => g.1 :: g.2).take lead.length = lead := by
    rw [List.take_append_of_le_length (by omega)]; exact List.take_of_length_le (by omega)
  have hdrop : (lead ++ groups.flatMap fun g => g.1 :: g.2).drop lead.length = groups.flatMap fun g => g.1 :: g.2 := by
    rw [List.drop_append_of_le_length (by omega), List.drop_of_length_le (by omega)]; rfl
  have hgt := groupsTail_groups S hS groups h.groupOk (lead ++ groups.flatMap fun g => g.1 :: g.2).length (by simp)
  simp only [Bool.or_eq_true, List.any_cons, List.any_nil, Bool.or_false, Bool.and_eq_true, decide_eq_true_eq]
  right
  rcases hk with hk | hk | hk
  · left; rw [← hk, htake, hdrop]; exact ⟨⟨rfl, h.leadDig⟩, hgt⟩
  · right; left; rw [← hk, htake, hdrop]; exact ⟨⟨rfl, h.leadDig⟩, hgt⟩
  · right; right; rw [← hk, htake, hdrop]; exact ⟨⟨rfl, h.leadDig⟩, hgt⟩

theorem intText_no_dec (S : Seps) (hS : GoodSeps S) (lead : Str) (groups : List (Nat × Str)) (h : GoodInt S lead groups) :
    (intText lead groups).all (fun c => !S.dec.contains c) = true := by
  have digNoDec : ∀ c, isDig c = true → S.dec.contains c = false := by
    intro c hc
    cases hd : S.dec.contains c with
    | false => rfl
    | true =>
      have := hS.decNoDigit c (by simpa using hd)
      rw [this] at hc; cases hc
  unfold intText
  rw [List.all_append, Bool.and_eq_true]
  constructor
  · rw [List.all_eq_true]; intro c hc
    have := h.leadDig; unfold allDig at this; rw [List.all_eq_true] at this
    show (!S.dec.contains c) = true
    rw [digNoDec c (this c hc)]; rfl
  · rw [List.all_eq_true]; intro c hc
    rw [List.mem_flatMap] at hc
    obtain ⟨g, hg, hc⟩ := hc
    obtain ⟨hb, hd, _⟩ := h.groupOk g hg
    simp only [List.mem_cons] at hc
    rcases hc with rfl | hc
    · show (!S.dec.contains g.1) = true
      rw [hS.disjoint _ (by simpa using hb)]; rfl
    · unfold allDig at hd; rw [List.all_eq_true] at hd
      show (!S.dec.contains c) = true
      rw [digNoDec c (hd c hc)]; rfl

/-- **every number of the locale grammar is recognised** (3-digit block pattern), for every separator setting:
integer numbers, numbers with a fraction, and numbers with a trailing decimal mark -/
theorem grammar_accepted (S : Seps) (hS : GoodSeps S) (lead : Str) (groups : List (Nat × Str)) (h : GoodInt S lead groups)
    (frac : Option (Nat × Str)) (hfr : ∀ d fd, frac = some (d, fd) → S.dec.contains d = true ∧ allDig fd = true) :
    blockPattern 3 S (intText lead groups ++ (match frac with | none => [] | some (d, fd) => d :: fd)) = true := by
  have hnd := intText_no_dec S hS lead groups h
  have hint := intOk_grammar S hS lead groups h
  unfold blockPattern
  cases frac with
  | none =>
    simp only [List.append_nil]
    rw [span_all _ _ hnd]
    exact hint
  | some p =>
    obtain ⟨d, fd⟩ := p
    obtain ⟨hd, hfd⟩ := hfr d fd rfl
    simp only
    rw [span_append_stop _ _ d fd hnd (by show (!S.dec.contains d) = false; rw [hd]; rfl)]
    simp only [hint, Bool.true_and]
    unfold fracOk
    simp [hfd]

/-- a leading decimal mark followed by digits (".5") is recognised as well -/
theorem leading_mark_accepted (S : Seps) (d : Nat) (fd : Str) (hd : S.dec.contains d = true) (hfd : allDig fd = true) :
    blockPattern 3 S (d :: fd) = true := by
  unfold blockPattern
  have : span (fun c => !S.dec.contains c) (d :: fd) = ([], d :: fd) := by
    simp only [span, hd, Bool.not_true, Bool.false_eq_true, if_false]
  rw [this]
  simp only [intOk, allDig, List.all_nil, Bool.true_or, Bool.true_and, fracOk]
  unfold allDig at hfd
  simp [hfd]

/-! ## soundness: what the recognisers accept contains nothing but digits and separators -/

theorem groupsTail_alphabet (B : List Nat) (fuel : Nat) (s : Str) (h : groupsTail B fuel s = true) :
    ∀ c ∈ s, isDig c = true ∨ B.contains c = true := by
  induction fuel generalizing s with
  | zero => cases s with
    | nil => simp
    | cons c r => simp [groupsTail] at h
  | succ f ih =>
    cases s with
    | nil => simp
    | cons c r =>
      simp only [groupsTail, Bool.and_eq_true, decide_eq_true_eq] at h
      obtain ⟨⟨hl, hd⟩, ht⟩ := h
      intro x hx
      by_cases hb : B.contains c = true
      · simp only [hb, if_true] at hl hd ht
        simp only [List.mem_cons] at hx
        rcases hx with rfl | hx
        · exact Or.inr hb
        · have : x ∈ r.take 3 ++ r.drop 3 := by rw [List.take_append_drop]; exact hx
          rw [List.mem_append] at this
          rcases this with h1 | h1
          · unfold allDig at hd; rw [List.all_eq_true] at hd; exact Or.inl (hd x h1)
          · exact ih _ ht x h1
      · simp only [hb, Bool.false_eq_true, if_false] at hl hd ht
        have : x ∈ (c :: r).take 3 ++ (c :: r).drop 3 := by rw [List.take_append_drop]; exact hx
        rw [List.mem_append] at this
        rcases this with h1 | h1
        · unfold allDig at hd; rw [List.all_eq_true] at hd; exact Or.inl (hd x h1)
        · exact ih _ ht x h1

theorem intOk_alphabet (B : List Nat) (s : Str) (h : intOk B s = true) : ∀ c ∈ s, isDig c = true ∨ B.contains c = true := by
  unfold intOk at h
  simp only [Bool.or_eq_true, List.any_cons, List.any_nil, Bool.or_false, Bool.and_eq_true, decide_eq_true_eq] at h
  intro x hx
  rcases h with h | h
  · unfold allDig at h; rw [List.all_eq_true] at h; exact Or.inl (h x hx)
  · have key : ∀ k, (allDig (s.take k) = true) → groupsTail B s.length (s.drop k) = true → isDig x = true ∨ B.contains x = true := by
      intro k hd ht
      have : x ∈ s.take k ++ s.drop k := by rw [List.take_append_drop]; exact hx
      rw [List.mem_append] at this
      rcases this with h1 | h1
      · unfold allDig at hd; rw [List.all_eq_true] at hd; exact Or.inl (hd x h1)
      · exact groupsTail_alphabet B _ _ ht x h1
    rcases h with h | h | h
    · exact key 1 h.1.2 h.2
    · exact key 2 h.1.2 h.2
    · exact key 3 h.1.2 h.2

theorem fracGroups_alphabet (n : Nat) (B : List Nat) (fuel : Nat) (s : Str) (h : fracGroups n B fuel s = true) :
    ∀ c ∈ s, isDig c = true ∨ B.contains c = true := by
  induction fuel generalizing s with
  | zero => simp [fracGroups] at h
  | succ f ih =>
    simp only [fracGroups] at h
    have hs := fun (p : Nat → Bool) (s : Str) => (by
      induction s with
      | nil => intro c hc; simp [span] at hc
      | cons a as iha =>
        intro c hc
        simp only [span] at hc
        split at hc
        · simp only [List.mem_cons] at hc
          rcases hc with rfl | hc
          · assumption
          · exact iha c hc
        · simp at hc : ∀ c ∈ (span p s).1, p c = true)
    have happ : ∀ (p : Nat → Bool) (s : Str), (span p s).1 ++ (span p s).2 = s := by
      intro p s
      induction s with
      | nil => rfl
      | cons a as iha =>
        simp only [span]
        split
        · simp [iha]
        · simp
    intro x hx
    rw [← happ isDig s] at hx
    rw [List.mem_append] at hx
    split at h
    · rename_i ds heq
      rcases hx with h1 | h1
      · exact Or.inl (hs isDig s x h1)
      · rw [heq] at h1; simp at h1
    · rename_i ds c r heq
      simp only [Bool.and_eq_true, decide_eq_true_eq] at h
      rcases hx with h1 | h1
      · exact Or.inl (hs isDig s x h1)
      · rw [heq] at h1
        simp only [List.mem_cons] at h1
        rcases h1 with rfl | h1
        · exact Or.inr h.1.2
        · exact ih r h.2 x h1

/-- **folding never absorbs a foreign character**: a text accepted by the block pattern consists of ASCII digits, block
separators and decimal separators only -/
theorem accepted_alphabet (n : Nat) (S : Seps) (s : Str) (h : blockPattern n S s = true) :
    ∀ c ∈ s, isDig c = true ∨ S.block.contains c = true ∨ S.dec.contains c = true := by
  unfold blockPattern at h
  have happ : ∀ (p : Nat → Bool) (s : Str), (span p s).1 ++ (span p s).2 = s := by
    intro p s
    induction s with
    | nil => rfl
    | cons a as iha =>
      simp only [span]
      split
      · simp [iha]
      · simp
  have hstop : ∀ (p : Nat → Bool) (s : Str) (c : Nat) (r : Str), (span p s).2 = c :: r → p c = false := by
    intro p s
    induction s with
    | nil => intro c r h; simp [span] at h
    | cons a as iha =>
      intro c r h
      simp only [span] at h
      split at h
      · exact iha c r h
      · rename_i hp; injection h with h1 h2; subst h1; simpa using hp
  intro x hx
  rw [← happ (fun c => !S.dec.contains c) s] at hx
  rw [List.mem_append] at hx
  split at h
  · rename_i ip heq
    rcases hx with h1 | h1
    · rw [heq] at h1
      rcases intOk_alphabet S.block ip h x h1 with h2 | h2
      · exact Or.inl h2
      · exact Or.inr (Or.inl h2)
    · rw [heq] at h1; simp at h1
  · rename_i ip c fp heq
    simp only [Bool.and_eq_true] at h
    rcases hx with h1 | h1
    · rw [heq] at h1
      rcases intOk_alphabet S.block ip h.1 x h1 with h2 | h2
      · exact Or.inl h2
      · exact Or.inr (Or.inl h2)
    · rw [heq] at h1
      simp only [List.mem_cons] at h1
      rcases h1 with rfl | h1
      · have := hstop _ s x fp (by rw [heq])
        right; right; simpa using this
      · unfold fracOk at h
        simp only [Bool.or_eq_true] at h
        rcases h.2 with h3 | h3
        · unfold allDig at h3; rw [List.all_eq_true] at h3; exact Or.inl (h3 x h1)
        · rcases fracGroups_alphabet n S.block _ fp h3 x h1 with h4 | h4
          · exact Or.inl h4
          · exact Or.inr (Or.inl h4)

/-- `merge_block` keeps every character: the merged token is the concatenation of the token texts (no blank tokens) -/
theorem mergeBlock_text (ts : List Tok) (h : ∀ t ∈ ts, isBlankTok t = false) (hne : ts ≠ []) :
    mergeBlock ts = [⟨0, (ts.map (·.text)).flatten⟩] := by
  cases ts with
  | nil => exact absurd rfl hne
  | cons t r =>
    unfold mergeBlock
    have h0 : isBlankTok t = false := h t (by simp)
    have hlead : (t :: r).takeWhile isBlankTok = [] := by simp [List.takeWhile, h0]
    simp only [hlead, List.length_nil, List.length_cons, List.drop_zero, List.nil_append]
    have hne' : ¬ (0 = r.length + 1) := by omega
    simp only [hne', if_false]
    have hlast : ((t :: r).reverse.takeWhile isBlankTok) = [] := by
      cases hrev : (t :: r).reverse with
      | nil => simp
      | cons a as =>
        have : a ∈ t :: r := by rw [← List.mem_reverse, hrev]; simp
        simp [List.takeWhile, h a this]
    rw [hlast]
    simp

/-- non-vacuity and worked examples with the default English and German separator settings -/
def en : Seps := { block := [44, 32, 0xA0, 0x202F], dec := [46] }
def de : Seps := { block := [46, 32, 0xA0, 0x202F], dec := [44] }
def t (k : Nat) (s : String) : Tok := ⟨k, s.toList.map Char.toNat⟩
example : mergeRow en [t 3 "x", t 1 "=", t 0 "1", t 1 ",", t 0 "234", t 1 ".", t 0 "5", t 1 "+", t 3 "y"] =
    [t 3 "x", t 1 "=", t 0 "1,234.5", t 1 "+", t 3 "y"] := by decide +kernel
example : mergeRow de [t 0 "1", t 1 ".", t 0 "234", t 1 ",", t 0 "5"] = [t 0 "1.234,5"] := by decide +kernel
example : mergeRow en [t 0 "1", t 1 ",", t 0 "23"] = [t 0 "1", t 1 ",", t 0 "23"] := by decide +kernel
example : blockPattern 3 en ("12,34".toList.map Char.toNat) = false := by decide +kernel

end MC.Props.C16
