import MC.Props.C12
/-!
C12 / C16: **the derived separators are a function of the current preferences**, for every history.

`SepInv s`: whenever `DecimalSeparator` holds one of its three documented values, `DecimalSeparators` and `BlockSeparators` are exactly
`deriveSeparators` of the language in force (`Language`, or for `Auto` the host's `LanguageAuto`, or English before the host gave one)
and that value.  It holds after `set_rules_dir` and is kept by every accepted `set_preference` that does not write one of the two
derived preferences directly — so two histories that end in the same `Language` / `LanguageAuto` / `DecimalSeparator` end in the same
separators, in whatever order and by whatever route these were set.
-/
namespace MC.Props.C12Sep
open MC.Prefs MC.Props.C12

/-- the preferences that live in the user map as text -/
def userText : List String := ["Language", "DecimalSeparator", "DecimalSeparators", "BlockSeparators"]

/-- the five preferences the invariant reads -/
def five : List String := ["Language", "DecimalSeparator", "DecimalSeparators", "BlockSeparators", "LanguageAuto"]

structure Shape (s : PState) : Prop where
  api_none : ∀ k ∈ userText, pget s.api k = none
  user_str : ∀ k ∈ userText, ∃ t, pget s.user k = some (.str t)
  la_api : ∀ b, pget s.api "LanguageAuto" ≠ some (.bool b)
  la_user : ∀ b, pget s.user "LanguageAuto" ≠ some (.bool b)

/-- the language in force -/
def curLanguage (s : PState) : String := effLanguage s ((prefToString s "Language").getD "en")

def SepInv (s : PState) : Prop :=
  ∀ d, prefToString s "DecimalSeparator" = some d → validDec d = true →
    prefToString s "DecimalSeparators" = some (deriveSeparators (curLanguage s) d).1 ∧
    prefToString s "BlockSeparators" = some (deriveSeparators (curLanguage s) d).2

/-- two states that agree on the five preferences agree on the invariant -/
theorem sepInv_congr (s s' : PState) (h : ∀ k ∈ five, prefToString s' k = prefToString s k) (hi : SepInv s) : SepInv s' := by
  have hl : curLanguage s' = curLanguage s := by
    unfold curLanguage effLanguage
    rw [h "Language" (by decide), h "LanguageAuto" (by decide)]
  intro d hd hv
  rw [h "DecimalSeparator" (by decide)] at hd
  rw [h "DecimalSeparators" (by decide), h "BlockSeparators" (by decide), hl]
  exact hi d hd hv

theorem prefToString_user (s : PState) (k : String) (h : pget s.api k = none) : prefToString s k = (pget s.user k).map Val.render := by
  unfold prefToString; rw [h]

/-- after a recomputation with the language in force the invariant holds, whatever was there before -/
theorem sepInv_recompute (s : PState) (L : String) (hs : Shape s) (hL : effLanguage s L = curLanguage s) : SepInv (setSeparators s L) := by
  have ha := setSeparators_api s L
  have hcur : curLanguage (setSeparators s L) = curLanguage s := by
    unfold curLanguage effLanguage
    rw [prefToString_setSeparators _ _ _ (by decide) (by decide), prefToString_setSeparators _ _ _ (by decide) (by decide)]
  intro d hd hv
  rw [prefToString_setSeparators _ _ _ (by decide) (by decide)] at hd
  rw [hcur]
  have hdec : (prefToString s "DecimalSeparator").getD noPreference = d := by rw [hd]; rfl
  have e1 : pget (setSeparators s L).api "DecimalSeparators" = none := by rw [ha]; exact hs.api_none _ (by decide)
  have e2 : pget (setSeparators s L).api "BlockSeparators" = none := by rw [ha]; exact hs.api_none _ (by decide)
  rw [prefToString_user _ _ e1, prefToString_user _ _ e2]
  unfold setSeparators
  simp only [hdec, hv, Bool.not_true, Bool.false_eq_true, if_false, hL]
  constructor
  · rw [pget_pset_other _ _ _ _ (by decide), pget_pset_same]; rfl
  · rw [pget_pset_same]; rfl

/-! ### the shape of the two maps is kept -/

theorem shape_setSeparators (s : PState) (L : String) (hs : Shape s) : Shape (setSeparators s L) := by
  refine ⟨?_, ?_, ?_, ?_⟩
  · intro k hk; rw [setSeparators_api]; exact hs.api_none k hk
  · intro k hk
    by_cases h1 : k = "DecimalSeparators"
    · subst h1
      unfold setSeparators; simp only
      split
      · exact hs.user_str _ hk
      · exact ⟨_, by rw [pget_pset_other _ _ _ _ (by decide), pget_pset_same]⟩
    · by_cases h2 : k = "BlockSeparators"
      · subst h2
        unfold setSeparators; simp only
        split
        · exact hs.user_str _ hk
        · exact ⟨_, by rw [pget_pset_same]⟩
      · rw [setSeparators_user_other _ _ _ h1 h2]; exact hs.user_str k hk
  · intro b; rw [setSeparators_api]; exact hs.la_api b
  · intro b; rw [setSeparators_user_other _ _ _ (by decide) (by decide)]; exact hs.la_user b

theorem shape_user_write (s : PState) (k v : String) (hs : Shape s) : Shape { s with user := pset s.user k (.str v) } := by
  refine ⟨hs.api_none, ?_, hs.la_api, ?_⟩
  · intro k' hk'
    by_cases h : k' = k
    · subst h; exact ⟨v, pget_pset_same _ _ _⟩
    · simp only; rw [pget_pset_other _ _ _ _ h]; exact hs.user_str k' hk'
  · intro b
    by_cases h : "LanguageAuto" = k
    · subst h; simp only; rw [pget_pset_same]; simp
    · simp only; rw [pget_pset_other _ _ _ _ h]; exact hs.la_user b

theorem shape_api_write (s : PState) (k : String) (x : Val) (hs : Shape s) (hk : k ∉ userText)
    (hla : k = "LanguageAuto" → ∀ b, x ≠ .bool b) : Shape { s with api := pset s.api k x } := by
  refine ⟨?_, hs.user_str, ?_, hs.la_user⟩
  · intro k' hk'
    have : k' ≠ k := fun h => hk (h ▸ hk')
    simp only; rw [pget_pset_other _ _ _ _ this]; exact hs.api_none k' hk'
  · intro b
    by_cases h : "LanguageAuto" = k
    · subst h; simp only; rw [pget_pset_same]; intro hx; injection hx with hx; exact hla rfl b hx
    · simp only; rw [pget_pset_other _ _ _ _ h]; exact hs.la_api b

/-- a write to a preference outside the five leaves the five readings alone -/
theorem five_user_write (s : PState) (k : String) (x : Val) (hk : k ∉ five) :
    ∀ k' ∈ five, prefToString { s with user := pset s.user k x } k' = prefToString s k' := by
  intro k' hk'
  have : k' ≠ k := fun h => hk (h ▸ hk')
  unfold prefToString; simp only; rw [pget_pset_other _ _ _ _ this]

theorem five_api_write (s : PState) (k : String) (x : Val) (hk : k ∉ five) :
    ∀ k' ∈ five, prefToString { s with api := pset s.api k x } k' = prefToString s k' := by
  intro k' hk'
  have : k' ≠ k := fun h => hk (h ▸ hk')
  unfold prefToString; simp only; rw [pget_pset_other _ _ _ _ this]

/-! ### what the pieces of `set_string_pref` compute -/

theorem resetFiles_eq (E : Env) (s s1 : PState) (k v : String) (h : resetFiles E s k v = .ok s1) :
    s1 = if k = "Language" ∧ v = "Auto" then { s with api := pset s.api "LanguageAuto" ((pget s.user "Language").getD (.str "en")) } else s := by
  unfold resetFiles at h
  by_cases hc : k = "Language" ∧ v = "Auto"
  · simp only [hc.1, hc.2, decide_true, Bool.and_self, if_true] at h
    injection h with h; rw [if_pos hc]; exact h.symm
  · rw [if_neg hc]
    have : (decide (k = "Language") && decide (v = "Auto")) = false := by
      rcases Classical.not_and_iff_not_or_not.mp hc with h1 | h1 <;> simp [h1]
    simp only [this, Bool.false_eq_true, if_false] at h
    split at h
    · injection h with h; exact h.symm
    · cases h

/-- the user-map half of `set_string_pref`, as one equation -/
theorem storeUser_eq (s1 : PState) (k v d l : String) (hd : pget s1.user "DecimalSeparator" = some (.str d))
    (hl : pget s1.user "Language" = some (.str l)) :
    storeUser s1 k v = .ok (
      if (k = "DecimalSeparator" ∧ d ≠ v) ∨ (k = "Language" ∧ l ≠ v)
      then setSeparators { s1 with user := pset s1.user k (.str v) } (if k = "Language" then v else l)
      else { s1 with user := pset s1.user k (.str v) }) := by
  unfold storeUser
  simp only [hd, hl, Option.bind, strOf?]
  by_cases hkl : k = "Language"
  · subst hkl
    simp only [if_true, pget_pset_same, (by decide : ("Language" : String) ≠ "DecimalSeparator"), false_and, false_or, true_and,
      decide_false, Bool.false_and, Bool.false_or]
    by_cases hlv : l = v
    · simp [hlv]
    · simp [hlv]
  · have hne : ("Language" : String) ≠ k := fun h => hkl h.symm
    simp only [hkl, if_false, false_and, or_false, Bool.or_false, pget_pset_other _ _ _ _ hne, hl]
    by_cases hkd : k = "DecimalSeparator"
    · subst hkd
      by_cases hdv : d = v
      · simp [hdv]
      · simp [hdv]
    · simp [hkd]

theorem chooseMap_api (E : Env) (s s1 : PState) (k v : String) (isUser : Bool) (w : Val) (hapi : pget s.api k = some w)
    (h : chooseMap E s k v = .ok (s1, isUser)) : isUser = false ∧ (s1 = s ∨ resetFiles E s k v = .ok s1) := by
  unfold chooseMap at h
  rw [hapi] at h
  cases w with
  | bool b => simp at h
  | str t =>
    simp only at h
    split at h
    · split at h
      · rename_i s1' hr; injection h with h; injection h with h1 h2; subst h1; subst h2; exact ⟨rfl, Or.inr hr⟩
      · cases h
      · cases h
    · injection h with h; injection h with h1 h2; subst h1; subst h2; exact ⟨rfl, Or.inl rfl⟩
  | num t =>
    simp only at h
    split at h
    · split at h
      · rename_i s1' hr; injection h with h; injection h with h1 h2; subst h1; subst h2; exact ⟨rfl, Or.inr hr⟩
      · cases h
      · cases h
    · injection h with h; injection h with h1 h2; subst h1; subst h2; exact ⟨rfl, Or.inl rfl⟩

theorem chooseMap_user (E : Env) (s s1 : PState) (k v : String) (isUser : Bool) (hapi : pget s.api k = none)
    (h : chooseMap E s k v = .ok (s1, isUser)) :
    isUser = true ∧ ∃ w, pget s.user k = some w ∧ ((w.render = v ∧ s1 = s) ∨ (w.render ≠ v ∧ resetFiles E s k v = .ok s1)) := by
  unfold chooseMap at h
  rw [hapi] at h
  simp only at h
  cases hu : pget s.user k with
  | none => rw [hu] at h; simp at h
  | some w =>
    rw [hu] at h
    cases w with
    | bool b => simp at h
    | str t =>
      simp only at h
      split at h
      · rename_i hne
        split at h
        · rename_i s1' hr; injection h with h; injection h with h1 h2; subst h1; subst h2
          exact ⟨rfl, _, rfl, Or.inr ⟨by simpa using hne, hr⟩⟩
        · cases h
        · cases h
      · rename_i heq
        injection h with h; injection h with h1 h2; subst h1; subst h2
        exact ⟨rfl, _, rfl, Or.inl ⟨by simpa using heq, rfl⟩⟩
    | num t =>
      simp only at h
      split at h
      · rename_i hne
        split at h
        · rename_i s1' hr; injection h with h; injection h with h1 h2; subst h1; subst h2
          exact ⟨rfl, _, rfl, Or.inr ⟨by simpa using hne, hr⟩⟩
        · cases h
        · cases h
      · rename_i heq
        injection h with h; injection h with h1 h2; subst h1; subst h2
        exact ⟨rfl, _, rfl, Or.inl ⟨by simpa using heq, rfl⟩⟩

theorem userText_sub_five (k : String) (h : k ∉ five) : k ∉ userText := by
  intro hk; apply h
  simp only [userText, List.mem_cons, List.not_mem_nil, or_false] at hk
  simp only [five, List.mem_cons, List.not_mem_nil, or_false]
  rcases hk with h | h | h | h <;> simp [h]

/-- a preference outside the five: nothing the invariant reads is touched -/
theorem core_other (E : Env) (s s2 : PState) (k v : String) (hs : Shape s) (hk : k ∉ five)
    (h : setStringPrefCore E s k v = .ok s2) : Shape s2 ∧ ∀ k' ∈ five, prefToString s2 k' = prefToString s k' := by
  have hkL : k ≠ "Language" := fun e => hk (by simp [five, e])
  have hkD : k ≠ "DecimalSeparator" := fun e => hk (by simp [five, e])
  have hkA : k ≠ "LanguageAuto" := fun e => hk (by simp [five, e])
  unfold setStringPrefCore at h
  split at h
  · cases h
  · cases h
  · rename_i s1 isUser hc
    have hs1 : s1 = s := by
      have hr : ∀ s1', resetFiles E s k v = .ok s1' → s1' = s := by
        intro s1' hr; have := resetFiles_eq E s s1' k v hr; rw [if_neg (fun hh => hkL hh.1)] at this; exact this
      cases hapi : pget s.api k with
      | some w => rcases (chooseMap_api E s s1 k v isUser w hapi hc).2 with h1 | h1
                  · exact h1
                  · exact hr _ h1
      | none => obtain ⟨_, w, _, h1 | h1⟩ := chooseMap_user E s s1 k v isUser hapi hc
                · exact h1.2
                · exact hr _ h1.2
    subst hs1
    split at h
    · obtain ⟨d, hd⟩ := hs.user_str "DecimalSeparator" (by decide)
      obtain ⟨l, hl⟩ := hs.user_str "Language" (by decide)
      rw [storeUser_eq s1 k v d l hd hl] at h
      injection h with h
      rw [if_neg (by simp [hkL, hkD])] at h
      subst h
      exact ⟨shape_user_write _ _ _ hs, five_user_write _ _ _ hk⟩
    · injection h with h; subst h
      exact ⟨shape_api_write _ _ _ hs (userText_sub_five k hk) (fun e => absurd e hkA), five_api_write _ _ _ hk⟩

theorem curLanguage_of (s : PState) (L : String) (h : prefToString s "Language" = some L) : curLanguage s = effLanguage s L := by
  unfold curLanguage; rw [h]; rfl

theorem same_value_five (s : PState) (k t : String) (hapi : pget s.api k = none) (hu : pget s.user k = some (.str t)) :
    ∀ k' ∈ five, prefToString { s with user := pset s.user k (.str t) } k' = prefToString s k' := by
  intro k' _
  unfold prefToString; simp only
  by_cases h : k' = k
  · subst h; rw [pget_pset_same, hu]
  · rw [pget_pset_other _ _ _ _ h]

/-- `Language`: a changed value recomputes the separators for the new language, an unchanged one changes nothing -/
theorem core_language (E : Env) (s s2 : PState) (v : String) (hs : Shape s) (hi : SepInv s)
    (h : setStringPrefCore E s "Language" v = .ok s2) : Shape s2 ∧ SepInv s2 := by
  have hapi := hs.api_none "Language" (by decide)
  obtain ⟨d, hd⟩ := hs.user_str "DecimalSeparator" (by decide)
  obtain ⟨l, hl⟩ := hs.user_str "Language" (by decide)
  unfold setStringPrefCore at h
  split at h
  · cases h
  · cases h
  · rename_i s1 isUser hc
    obtain ⟨hu, w, hw, hcase⟩ := chooseMap_user E s s1 "Language" v isUser hapi hc
    rw [hl] at hw; injection hw with hw; subst hw; subst hu
    simp only [if_true] at h
    rcases hcase with ⟨he, h1⟩ | ⟨hne, hr⟩
    · subst h1
      have he : l = v := he
      subst he
      rw [storeUser_eq s1 "Language" l d l hd hl] at h
      injection h with h
      rw [if_neg (by simp)] at h
      subst h
      exact ⟨shape_user_write _ _ _ hs, sepInv_congr _ _ (same_value_five s1 "Language" l hapi hl) hi⟩
    · have hne : l ≠ v := hne
      have e1 := resetFiles_eq E s s1 "Language" v hr
      have hu1 : s1.user = s.user := by rw [e1]; split <;> rfl
      have hs1 : Shape s1 := by
        rw [e1]; split
        · rw [hl]; exact shape_api_write _ _ _ hs (by decide) (fun _ b => by simp)
        · exact hs
      rw [storeUser_eq s1 "Language" v d l (hu1 ▸ hd) (hu1 ▸ hl)] at h
      injection h with h
      rw [if_pos (Or.inr ⟨rfl, hne⟩)] at h
      simp only [if_true] at h
      subst h
      have hs1' := shape_user_write s1 "Language" v hs1
      refine ⟨shape_setSeparators _ _ hs1', sepInv_recompute _ _ hs1' ?_⟩
      rw [curLanguage_of _ v]
      rw [prefToString_user _ _ (hs1'.api_none _ (by decide))]
      simp only [pget_pset_same]; rfl

/-- `DecimalSeparator`: a changed value recomputes the separators for the language in the `Language` preference -/
theorem core_decimal (E : Env) (s s2 : PState) (v : String) (hs : Shape s) (hi : SepInv s)
    (h : setStringPrefCore E s "DecimalSeparator" v = .ok s2) : Shape s2 ∧ SepInv s2 := by
  have hapi := hs.api_none "DecimalSeparator" (by decide)
  obtain ⟨d, hd⟩ := hs.user_str "DecimalSeparator" (by decide)
  obtain ⟨l, hl⟩ := hs.user_str "Language" (by decide)
  unfold setStringPrefCore at h
  split at h
  · cases h
  · cases h
  · rename_i s1 isUser hc
    obtain ⟨hu, w, hw, hcase⟩ := chooseMap_user E s s1 "DecimalSeparator" v isUser hapi hc
    rw [hd] at hw; injection hw with hw; subst hw; subst hu
    simp only [if_true] at h
    rcases hcase with ⟨he, h1⟩ | ⟨hne, hr⟩
    · subst h1
      have he : d = v := he
      subst he
      rw [storeUser_eq s1 "DecimalSeparator" d d l hd hl] at h
      injection h with h
      rw [if_neg (by simp)] at h
      subst h
      exact ⟨shape_user_write _ _ _ hs, sepInv_congr _ _ (same_value_five s1 "DecimalSeparator" d hapi hd) hi⟩
    · have hne : d ≠ v := hne
      have e1 := resetFiles_eq E s s1 "DecimalSeparator" v hr
      rw [if_neg (by simp)] at e1
      subst e1
      rw [storeUser_eq s1 "DecimalSeparator" v d l hd hl] at h
      injection h with h
      rw [if_pos (Or.inl ⟨rfl, hne⟩)] at h
      simp only [(by decide : ("DecimalSeparator" : String) ≠ "Language"), if_false] at h
      subst h
      have hs1' := shape_user_write s1 "DecimalSeparator" v hs
      refine ⟨shape_setSeparators _ _ hs1', sepInv_recompute _ _ hs1' ?_⟩
      rw [curLanguage_of _ l]
      rw [prefToString_user _ _ (hs1'.api_none _ (by decide))]
      simp only [pget_pset_other _ _ _ _ (by decide : ("Language" : String) ≠ "DecimalSeparator"), hl]; rfl

/-- `LanguageAuto` (accepted only under `Language = Auto`): the separators are recomputed for the host's language -/
theorem step_languageAuto (E : Env) (s s' : PState) (v : String) (hs : Shape s)
    (h : setStringPref E s "LanguageAuto" v = .ok s') (hlang : prefToString s "Language" = some "Auto")
    (hv1 : v ≠ "Auto") (hv2 : v ≠ "") (hv3 : v ≠ noPreference) : Shape s' ∧ SepInv s' := by
  obtain ⟨s2, hcore, rfl⟩ := setStringPref_ok E s s' "LanguageAuto" v h
  simp only [if_true]
  have key : Shape s2 ∧ prefToString s2 "Language" = some "Auto" ∧ prefToString s2 "LanguageAuto" = some v := by
    obtain ⟨d, hd⟩ := hs.user_str "DecimalSeparator" (by decide)
    obtain ⟨l, hl⟩ := hs.user_str "Language" (by decide)
    have hr : ∀ s1', resetFiles E s "LanguageAuto" v = .ok s1' → s1' = s := by
      intro s1' hr; have := resetFiles_eq E s s1' "LanguageAuto" v hr; rw [if_neg (by simp)] at this; exact this
    unfold setStringPrefCore at hcore
    split at hcore
    · cases hcore
    · cases hcore
    · rename_i s1 isUser hc
      cases hapi : pget s.api "LanguageAuto" with
      | some w =>
        obtain ⟨hu, h1⟩ := chooseMap_api E s s1 "LanguageAuto" v isUser w hapi hc
        have hs1 : s1 = s := by rcases h1 with h1 | h1; exact h1; exact hr _ h1
        subst hs1; subst hu
        simp only [Bool.false_eq_true, if_false] at hcore
        injection hcore with hcore; subst hcore
        refine ⟨shape_api_write _ _ _ hs (by decide) (fun _ b => by simp), ?_, ?_⟩
        · rw [← hlang]; unfold prefToString; simp only
          rw [pget_pset_other _ _ _ _ (by decide : ("Language" : String) ≠ "LanguageAuto")]
        · unfold prefToString; simp only; rw [pget_pset_same]; rfl
      | none =>
        obtain ⟨hu, w, _, h1⟩ := chooseMap_user E s s1 "LanguageAuto" v isUser hapi hc
        have hs1 : s1 = s := by rcases h1 with h1 | h1; exact h1.2; exact hr _ h1.2
        subst hs1; subst hu
        simp only [if_true] at hcore
        rw [storeUser_eq s1 "LanguageAuto" v d l hd hl] at hcore
        injection hcore with hcore
        rw [if_neg (by simp)] at hcore
        subst hcore
        refine ⟨shape_user_write _ _ _ hs, ?_, ?_⟩
        · rw [← hlang]; unfold prefToString; simp only
          rw [pget_pset_other _ _ _ _ (by decide : ("Language" : String) ≠ "LanguageAuto")]
        · unfold prefToString; simp only; rw [hapi, pget_pset_same]; rfl
  obtain ⟨hs2, hL, hLA⟩ := key
  refine ⟨shape_setSeparators _ _ hs2, sepInv_recompute _ _ hs2 ?_⟩
  rw [curLanguage_of _ _ hL]
  unfold effLanguage
  simp [hv1, hLA, hv2, hv3]

/-- a language tag that passed the format check of `set_preference` is `Auto` or a non-empty text other than the NO_PREFERENCE sentinel -/
theorem normLanguage_ok (value v : String) (h : normLanguage value = some v) : v = "Auto" ∨ (v ≠ "" ∧ v ≠ noPreference) := by
  unfold normLanguage at h
  split at h
  · rename_i ha; injection h with h; left; rw [← h, ha]
  · simp only at h
    split at h
    · cases h
    · rename_i hsz
      have hsz : (((splitDash value.toList).map String.ofList).getD 0 "").utf8ByteSize = 2 := by simpa using hsz
      injection h with h
      right
      have h3 : noPreference.utf8ByteSize = 3 := by decide
      split at h
      · rw [← h]
        exact ⟨fun e => by rw [e] at hsz; simp at hsz, fun e => by rw [e, h3] at hsz; omega⟩
      · rename_i hc
        have hc' : (((splitDash value.toList).map String.ofList).getD 1 "").utf8ByteSize ≠ 0 := by
          intro e; exact hc (by rw [String.utf8ByteSize_eq_zero_iff.mp e]; rfl)
        have hsz2 : v.utf8ByteSize ≥ 4 := by
          rw [← h, String.utf8ByteSize_append, String.utf8ByteSize_append, hsz]
          have : ("-" : String).utf8ByteSize = 1 := by decide
          omega
        exact ⟨fun e => by rw [e] at hsz2; simp at hsz2, fun e => by rw [e, h3] at hsz2; omega⟩

/-- the three ways in which `set_preference` accepts a request -/
theorem setPreference_cases (E : Env) (s s' : PState) (n v : String) (h : setPreference E s n v = .ok s') :
    ∃ v', ((n = "Language" ∨ n = "LanguageAuto") → normLanguage v = some v') ∧
      (n = "LanguageAuto" → v' ≠ "Auto" ∧ prefToString s "Language" = some "Auto") ∧
      ((∃ f, MC.Gen.Prefs.floatNames.contains n = true ∧ s' = { s with api := pset s.api n (.num f) }) ∨
       (∃ b, isBooleanPref s n = some true ∧ s' = { s with api := pset s.api n (.bool b) }) ∨
       setStringPref E s n v' = .ok s') := by
  unfold setPreference at h
  simp only at h
  split at h
  · cases h
  · cases h
  · rename_i v' hv
    refine ⟨v', ?_, ?_, ?_⟩
    · intro hn
      have : (decide (n = "Language") || decide (n = "LanguageAuto")) = true := by rcases hn with e | e <;> simp [e]
      rw [if_pos this] at hv
      split at hv
      · cases hv
      · rename_i w hw
        split at hv
        · cases hv
        · injection hv with hv; rw [hw, hv]
    · intro hn
      subst hn
      constructor
      · intro e
        simp only [decide_true, Bool.or_true, if_true] at hv
        split at hv
        · cases hv
        · rename_i w hw
          split at hv
          · cases hv
          · rename_i hc; injection hv with hv; subst hv; exact hc (by simp [e])
      · split at h
        · cases h
        · split at h
          · cases h
          · rename_i hc
            simp only [decide_true, Bool.true_and, ne_eq, Decidable.not_not, decide_eq_true_eq] at hc
            cases hp : prefToString s "Language" with
            | none => rw [hp] at hc; simp [noPreference] at hc
            | some L => rw [hp] at hc; simp at hc; rw [hc]
    · split at h
      · cases h
      · split at h
        · cases h
        · split at h
          · rename_i hf
            split at h
            · cases h
            · rename_i f _; injection h with h; exact Or.inl ⟨f, hf, h.symm⟩
          · split at h
            · split at h
              · cases h
              · rename_i hb; injection h with h; exact Or.inr (Or.inl ⟨_, hb, h.symm⟩)
              · exact Or.inr (Or.inr h)
            · exact Or.inr (Or.inr h)

theorem isBooleanPref_true (s : PState) (n : String) (h : isBooleanPref s n = some true) :
    (∃ b, pget s.api n = some (.bool b)) ∨ (pget s.api n = none ∧ ∃ b, pget s.user n = some (.bool b)) := by
  unfold isBooleanPref at h
  cases ha : pget s.api n with
  | some w =>
    rw [ha] at h
    cases w with
    | bool b => exact Or.inl ⟨b, rfl⟩
    | str t => simp [Option.orElse] at h
    | num t => simp [Option.orElse] at h
  | none =>
    rw [ha] at h
    simp only [Option.orElse] at h
    cases hu : pget s.user n with
    | none => rw [hu] at h; simp at h
    | some w =>
      rw [hu] at h
      cases w with
      | bool b => exact Or.inr ⟨rfl, b, rfl⟩
      | str t => simp at h
      | num t => simp at h

/-- a preference that holds a boolean is none of the five -/
theorem bool_not_five (s : PState) (n : String) (hs : Shape s) (h : isBooleanPref s n = some true) : n ∉ five := by
  intro hn
  simp only [five, List.mem_cons, List.not_mem_nil, or_false] at hn
  have hb := isBooleanPref_true s n h
  have hut : n ∈ userText → False := by
    intro hu
    obtain ⟨t, ht⟩ := hs.user_str n hu
    have ha := hs.api_none n hu
    rcases hb with ⟨b, hb⟩ | ⟨_, b, hb⟩
    · rw [ha] at hb; cases hb
    · rw [ht] at hb; cases hb
  rcases hn with e | e | e | e | e
  · exact hut (by simp [userText, e])
  · exact hut (by simp [userText, e])
  · exact hut (by simp [userText, e])
  · exact hut (by simp [userText, e])
  · subst e
    rcases hb with ⟨b, hb⟩ | ⟨_, b, hb⟩
    · exact hs.la_api b hb
    · exact hs.la_user b hb

theorem float_not_five (n : String) (h : MC.Gen.Prefs.floatNames.contains n = true) : n ∉ five := by
  intro hn
  simp only [five, List.mem_cons, List.not_mem_nil, or_false] at hn
  rcases hn with e | e | e | e | e <;> subst e <;> exact absurd h (by decide)

/-- **the host's route selects the host's language** (C15's second way of selecting a language): once `LanguageAuto = v` is accepted,
the language in force — the one the separators are derived from — is the normalised `v` -/
theorem languageAuto_in_force (E : Env) (s s' : PState) (v : String) (hs : Shape s) (h : setPreference E s "LanguageAuto" v = .ok s') :
    ∃ v', normLanguage v = some v' ∧ prefToString s' "LanguageAuto" = some v' ∧ prefToString s' "Language" = some "Auto" ∧
      curLanguage s' = v' := by
  obtain ⟨v', hnorm, hla, hcase⟩ := setPreference_cases E s s' "LanguageAuto" v h
  obtain ⟨hv1, hlang⟩ := hla rfl
  have hn := hnorm (Or.inr rfl)
  have hsp : setStringPref E s "LanguageAuto" v' = .ok s' := by
    rcases hcase with ⟨f, hf, _⟩ | ⟨b, hb, _⟩ | hsp
    · exact absurd hf (by decide)
    · exact absurd (by simp [five]) (bool_not_five s _ hs hb)
    · exact hsp
  have hrb := setStringPref_read_back E s s' "LanguageAuto" v' hsp
  have hfr : prefToString s' "Language" = some "Auto" := by
    rw [← hlang]
    exact setStringPref_frame E s s' "LanguageAuto" v' "Language" hsp (by decide) (by decide)
  refine ⟨v', hn, hrb, hfr, ?_⟩
  rcases normLanguage_ok v v' hn with e | ⟨hv2, hv3⟩
  · exact absurd e hv1
  · rw [curLanguage_of _ _ hfr]; unfold effLanguage; simp [hrb, hv2, hv3]

/-- **one accepted `set_preference` keeps the invariant** (unless it writes one of the two derived preferences itself) -/
theorem sepInv_step (E : Env) (s s' : PState) (n v : String) (hs : Shape s) (hi : SepInv s)
    (h : setPreference E s n v = .ok s') (h1 : n ≠ "DecimalSeparators") (h2 : n ≠ "BlockSeparators") :
    Shape s' ∧ SepInv s' := by
  obtain ⟨v', hnorm, hla, hcase⟩ := setPreference_cases E s s' n v h
  rcases hcase with ⟨f, hf, rfl⟩ | ⟨b, hb, rfl⟩ | hsp
  · have hn := float_not_five n hf
    exact ⟨shape_api_write _ _ _ hs (userText_sub_five n hn) (fun e => absurd (by simp [five, e]) hn),
           sepInv_congr _ _ (five_api_write _ _ _ hn) hi⟩
  · have hn := bool_not_five s n hs hb
    exact ⟨shape_api_write _ _ _ hs (userText_sub_five n hn) (fun e => absurd (by simp [five, e]) hn),
           sepInv_congr _ _ (five_api_write _ _ _ hn) hi⟩
  · by_cases eA : n = "LanguageAuto"
    · subst eA
      obtain ⟨hv1, hlang⟩ := hla rfl
      rcases normLanguage_ok v v' (hnorm (Or.inr rfl)) with e | ⟨hv2, hv3⟩
      · exact absurd e hv1
      · exact step_languageAuto E s s' v' hs hsp hlang hv1 hv2 hv3
    · obtain ⟨s2, hcore, rfl⟩ := setStringPref_ok E s s' n v' hsp
      rw [if_neg eA]
      by_cases eL : n = "Language"
      · subst eL; exact core_language E s s2 v' hs hi hcore
      · by_cases eD : n = "DecimalSeparator"
        · subst eD; exact core_decimal E s s2 v' hs hi hcore
        · have hn : n ∉ five := by simp [five, eL, eD, h1, h2, eA]
          obtain ⟨hs2, h5⟩ := core_other E s s2 n v' hs hn hcore
          exact ⟨hs2, sepInv_congr _ _ h5 hi⟩

/-- requests that leave the two derived preferences alone -/
def indirect (ops : List (String × String)) : Prop := ∀ op ∈ ops, op.1 ≠ "DecimalSeparators" ∧ op.1 ≠ "BlockSeparators"

theorem shape_init : Shape initState := by
  refine ⟨by decide +kernel, ?_, by decide +kernel, by decide +kernel⟩
  intro k hk
  simp only [userText, List.mem_cons, List.not_mem_nil, or_false] at hk
  rcases hk with e | e | e | e <;> subst e
  · exact ⟨"Auto", by decide +kernel⟩
  · exact ⟨"Auto", by decide +kernel⟩
  · exact ⟨".", by decide +kernel⟩
  · exact ⟨", \u00A0\u202F", by decide +kernel⟩

theorem sepInv_init : SepInv initState := by
  intro d hd hv
  have : prefToString initState "DecimalSeparator" = some "Auto" := by decide +kernel
  rw [this] at hd; injection hd with hd; subst hd
  constructor <;> decide +kernel

/-- **C12 / C16: the separators follow the current preferences after every history** of requests — accepted or rejected, in any
order, through `Language` or through `Language = Auto` + `LanguageAuto` — that never writes the two derived preferences directly -/
theorem separators_follow_preferences (E : Env) (ops : List (String × String)) (hops : indirect ops) :
    SepInv (runOps E initState ops) := by
  suffices h : ∀ s, Shape s → SepInv s → Shape (runOps E s ops) ∧ SepInv (runOps E s ops) from (h _ shape_init sepInv_init).2
  induction ops with
  | nil => intro s hs hi; exact ⟨hs, hi⟩
  | cons op rest ih =>
    intro s hs hi
    obtain ⟨n, v⟩ := op
    have hrest : indirect rest := fun o ho => hops o (List.mem_cons_of_mem _ ho)
    have hn := hops (n, v) (List.mem_cons_self ..)
    simp only [runOps]
    split
    · rename_i s' hstep
      obtain ⟨hs', hi'⟩ := sepInv_step E s s' n v hs hi hstep hn.1 hn.2
      exact ih hrest s' hs' hi'
    · exact ih hrest s hs hi

/-- **route independence**: two such histories that end with the same `Language`, `LanguageAuto` and (valid) `DecimalSeparator`
end with the same `DecimalSeparators` and `BlockSeparators` -/
theorem separators_route_independent (E : Env) (ops1 ops2 : List (String × String)) (h1 : indirect ops1) (h2 : indirect ops2)
    (d : String) (hv : validDec d = true)
    (hd1 : prefToString (runOps E initState ops1) "DecimalSeparator" = some d)
    (hd2 : prefToString (runOps E initState ops2) "DecimalSeparator" = some d)
    (hL : prefToString (runOps E initState ops1) "Language" = prefToString (runOps E initState ops2) "Language")
    (hA : prefToString (runOps E initState ops1) "LanguageAuto" = prefToString (runOps E initState ops2) "LanguageAuto") :
    prefToString (runOps E initState ops1) "DecimalSeparators" = prefToString (runOps E initState ops2) "DecimalSeparators" ∧
    prefToString (runOps E initState ops1) "BlockSeparators" = prefToString (runOps E initState ops2) "BlockSeparators" := by
  have i1 := separators_follow_preferences E ops1 h1 d hd1 hv
  have i2 := separators_follow_preferences E ops2 h2 d hd2 hv
  have hc : curLanguage (runOps E initState ops1) = curLanguage (runOps E initState ops2) := by
    unfold curLanguage effLanguage; rw [hL, hA]
  rw [i1.1, i1.2, i2.1, i2.2, hc]
  exact ⟨rfl, rfl⟩

/-! ### the statements are not vacuous -/

/-- the host's route: `Language = Auto` (the shipped default), then `LanguageAuto = de-CH` — accepted, and the Swiss separators are in force -/
example : prefToString (runOps envAll initState [("LanguageAuto", "de-CH")]) "LanguageAuto" = some "de-CH" ∧
    prefToString (runOps envAll initState [("LanguageAuto", "de-CH")]) "DecimalSeparators" = some "," ∧
    prefToString (runOps envAll initState [("LanguageAuto", "de-CH")]) "BlockSeparators" = some ". \u00A0\u202F'" := by decide +kernel

/-- the same separators through `Language = de-ch`, and after detours -/
example : prefToString (runOps envAll initState [("Language", "de-ch")]) "BlockSeparators" = some ". \u00A0\u202F'" ∧
    prefToString (runOps envAll initState [("DecimalSeparator", "."), ("Language", "fi"), ("Language", "Auto"), ("LanguageAuto", "de-ch"),
      ("DecimalSeparator", "Auto")]) "BlockSeparators" = some ". \u00A0\u202F'" := by decide +kernel

/-- the hypothesis `indirect` is needed: a direct write of a derived preference is accepted and breaks the invariant -/
example : ¬ SepInv (runOps envAll initState [("DecimalSeparators", ";")]) := by
  intro h
  have := (h "Auto" (by decide +kernel) (by decide)).1
  revert this
  decide +kernel

end MC.Props.C12Sep
