import MC.Props.C01Clean
/-!
# C01 for `trim_element` + the clean-up skeleton, in the vocabulary of the C01 checker

`trim_visible`: for every tree over the modelled element vocabulary, the visible text (`visT`) of the trimmed tree is the
checker's `visibleIn` of the raw input, up to the normal form — `trim_element` only removes and collapses blanks.
`cleanMath_conserves_spec` chains it with `clean_conserves`.
-/
namespace MC.Props.C01Clean
open MC.Xml MC.Clean MC.Spec.Canon MC.Props.C01

mutual
theorem gather_eq_allText : (t : Node) → gather t = allText t
  | .text t => by rw [gather, allText]
  | .elem n attrs kids => by
    rw [gather, allText]
    have := gatherL_eq_allTextL kids
    simp only [nameIs, attr, decide_eq_true_eq] at *
    split <;> simp_all
theorem gatherL_eq_allTextL : (ts : List Node) → gatherL ts = allTextL ts
  | [] => by rw [gatherL, allTextL]
  | k :: ks => by rw [gatherL, allTextL, gather_eq_allText k, gatherL_eq_allTextL ks]
end

theorem cssWs_expand (c : Nat) (h : isCssWs c = true) : expandChar c = [] := by
  apply (expandChar_nil_iff c).2
  unfold isCssWs at h
  simp only [Bool.or_eq_true, decide_eq_true_eq] at h
  have : isWs c = true := by
    unfold isWs; simp only [Bool.or_eq_true, Bool.and_eq_true, decide_eq_true_eq]; omega
  rw [this]; rfl

theorem expand_cons (c : Nat) (r : Str) : expand (c :: r) = expandChar c ++ expand r := rfl

theorem expand_collapseWs (b : Bool) (t : Str) : expand (collapseWs b t) = expand t := by
  induction t generalizing b with
  | nil => rfl
  | cons c r ih =>
    rw [collapseWs]
    split
    · rename_i hc
      split
      · rw [ih, expand_cons, cssWs_expand c hc]; rfl
      · rw [expand_cons, ih, expand_cons, cssWs_expand c hc]; have h32 : expandChar 32 = [] := by decide
        rw [h32]
    · rw [expand_cons, ih, expand_cons]

theorem expand_dropWhile (t : Str) : expand (t.dropWhile isCssWs) = expand t := by
  induction t with
  | nil => rfl
  | cons c r ih =>
    rw [List.dropWhile_cons]
    split
    · rename_i hc; rw [ih, expand_cons, cssWs_expand c hc]; rfl
    · rfl

theorem expand_reverse_dropWhile (m : Str) : expand ((m.dropWhile isCssWs).reverse) = expand m.reverse := by
  induction m with
  | nil => rfl
  | cons c r ih =>
    rw [List.dropWhile_cons]
    split
    · rename_i hc
      rw [ih, List.reverse_cons, expand_append]
      have : expand [c] = [] := by rw [expand_cons, cssWs_expand c hc]; rfl
      rw [this, List.append_nil]
    · rfl

theorem expand_trimMatches (t : Str) : expand (trimMatches t) = expand t := by
  unfold trimMatches
  rw [expand_reverse_dropWhile, List.reverse_reverse, expand_dropWhile]

theorem trimLeaf_eqv (t : Str) : Eqv (trimMatches (collapseWs false t)) t :=
  Eqv.of_expand (by rw [expand_trimMatches, expand_collapseWs])

/-- the checker's `visibleIn` on the modelled vocabulary: tokens show their text, `mphantom` and `mspace` nothing, every
other element its children -/
theorem visibleIn_vocab (n : Str) (attrs : List (Str × Str)) (kids : List Node) (h : modelledEls.contains n = true) :
    visibleIn (.elem n attrs kids) =
      if isLeafName n then (if tokenNames.contains n then allTextL kids else [])
      else if n = s "mphantom" || n = s "malignmark" || n = s "maligngroup" then [] else visibleInL kids := by
  simp only [modelledEls, List.contains_eq_mem, List.mem_cons, List.mem_nil_iff, or_false, decide_eq_true_eq] at h
  rcases h with h | h | h | h | h | h | h | h | h | h | h | h | h | h | h | h | h | h | h | h | h | h | h | h <;> subst h <;>
    rw [visibleIn] <;> simp +decide only [nameIs, if_true, if_false]

mutual
/-- **`trim_element` hides nothing**: on the modelled vocabulary the visible text of the trimmed tree is the checker's
`visibleIn` of the raw input, in every context, up to the normal form (only blanks, tabs and line breaks go) -/
theorem trim_visible : (t : Node) → vocabOk t = true → Eqv (visT (trim t)) (visibleIn t)
  | .text t, _ => by rw [trim, visT, visibleIn]; exact Eqv.rfl_ _
  | .elem n attrs kids, h => by
    rw [vocabOk, Bool.and_eq_true] at h
    have ihL := trimL_visible kids h.2
    rw [visibleIn_vocab n attrs kids h.1, trim]
    by_cases hl : isLeafName n = true
    · rw [if_pos hl, if_pos hl]
      by_cases hk : kids.isEmpty = true
      · rw [if_pos hk, visT, if_pos hl]
        simp only [List.isEmpty_iff] at hk; subst hk
        split
        · simp only [textOf, allTextL]; exact Eqv.rfl_ _
        · exact Eqv.rfl_ _
      · rw [if_neg hk, visT, if_pos hl]
        split
        · simp only [textOf, List.append_nil]; rw [gatherL_eq_allTextL]; exact trimLeaf_eqv _
        · exact Eqv.rfl_ _
    · rw [if_neg hl, if_neg hl, visT, if_neg hl]
      split
      · exact Eqv.rfl_ _
      · exact ihL
theorem trimL_visible : (ts : List Node) → vocabOkL ts = true → Eqv (visTL (trimL ts)) (visibleInL ts)
  | [], _ => by rw [trimL, visTL, visibleInL]; exact Eqv.rfl_ _
  | k :: ks, h => by
    rw [vocabOkL, Bool.and_eq_true] at h
    have h2 := trimL_visible ks h.2
    cases k with
    | text t =>
      simp only [trimL, List.nil_append, visibleInL, visibleIn]
      exact h2
    | elem n a c =>
      simp only [trimL, visibleInL]
      rw [visTL_append]
      refine Eqv.append ?_ h2
      simp only [visTL, List.append_nil]; exact trim_visible (.elem n a c) h.1
end

/-- **C01 for `trim_element` + the clean-up skeleton, against the checker's own reading of the input**: on the modelled
vocabulary, the visible text of what the first phase of `canonicalize` returns has the normal form of `visibleIn` of the
raw input -/
theorem cleanMath_conserves_spec (t r : Node) (hv : vocabOk t = true) (h : cleanMath t = some r) :
    norm (visT r) = norm (visibleIn t) := by
  rw [cleanMath_conserves t r h]
  exact Eqv.norm_eq (trim_visible t hv)

example : vocabOk (.elem (s "math") [] [.elem (s "mrow") [] [.elem (s "mi") [] [.text (s " x ")], .elem (s "mphantom") [] [.elem (s "mi") [] [.text (s "y")]],
      .elem (s "mn") [] [.text [0x2212, 53]]]]) = true := by decide +kernel

end MC.Props.C01Clean
