import MC.Model.Fallback
/-!
# C15 — every shipped language, style and braille code loads: the fallback chain

Theorems about `MC.Fallback` for EVERY directory listing, language tag and file name.
-/
namespace MC.Props.C15
open MC.Fallback

theorem firstDir_spec (fs : FS) (sub : String) : ∀ (k : Nat) (comps : List String) (p : Path),
    firstDir fs sub k comps = some p → fs.isDir p = true ∧ ∃ j, 1 ≤ j ∧ j ≤ k ∧ p = sub :: comps.take j
  | 0, _, _, h => by simp [firstDir] at h
  | k + 1, comps, p, h => by
    simp only [firstDir] at h
    split at h
    · rename_i hd
      injection h with h; subst h
      exact ⟨hd, k + 1, by omega, by omega, rfl⟩
    · obtain ⟨h1, j, hj1, hj2, hp⟩ := firstDir_spec fs sub k comps p h
      exact ⟨h1, j, hj1, by omega, hp⟩

theorem firstDir_none (fs : FS) (sub : String) : ∀ (k : Nat) (comps : List String),
    firstDir fs sub k comps = none → ∀ j, 1 ≤ j → j ≤ k → fs.isDir (sub :: comps.take j) = false
  | 0, _, _, j, h1, h2 => by omega
  | k + 1, comps, h, j, h1, h2 => by
    simp only [firstDir] at h
    split at h
    · cases h
    · rename_i hd
      by_cases hj : j = k + 1
      · subst hj; simpa using hd
      · exact firstDir_none fs sub k comps h j h1 (by omega)

/-- the deepest existing directory wins: if some prefix directory exists, a directory is found -/
theorem firstDir_some_of_isDir (fs : FS) (sub : String) (k : Nat) (comps : List String) (j : Nat) (h1 : 1 ≤ j) (h2 : j ≤ k)
    (hd : fs.isDir (sub :: comps.take j) = true) : ∃ p, firstDir fs sub k comps = some p := by
  cases h : firstDir fs sub k comps with
  | some p => exact ⟨p, rfl⟩
  | none => have := firstDir_none fs sub k comps h j h1 h2; rw [this] at hd; cases hd

/-- the language's own directory is used when it exists -/
theorem getLanguageDir_exact (fs : FS) (sub : String) (comps : List String) (dflt : Option (List String)) (hne : comps ≠ [])
    (hd : fs.isDir (sub :: comps) = true) : getLanguageDir fs sub comps dflt = .ok (sub :: comps) := by
  unfold getLanguageDir
  cases comps with
  | nil => exact absurd rfl hne
  | cons c r =>
    have : firstDir fs sub (c :: r).length (c :: r) = some (sub :: c :: r) := by
      simp only [List.length_cons, firstDir]
      have ht : (c :: r).take (r.length + 1) = c :: r := by simp
      rw [ht, hd]; rfl
    rw [this]

/-- **a regional variant falls back to the language**: `xx-yy` with no `xx/yy` directory resolves to `xx` -/
theorem regional_falls_back (fs : FS) (sub l r : String) (dflt : Option (List String))
    (hno : fs.isDir [sub, l, r] = false) (hyes : fs.isDir [sub, l] = true) :
    getLanguageDir fs sub [l, r] dflt = .ok [sub, l] := by
  simp [getLanguageDir, firstDir, hno, hyes]

/-- **an unknown language falls back to the default** -/
theorem unknown_falls_back (fs : FS) (sub : String) (comps d : List String) (hne : d ≠ [])
    (hno : ∀ j, 1 ≤ j → j ≤ comps.length → fs.isDir (sub :: comps.take j) = false) (hd : fs.isDir (sub :: d) = true) :
    getLanguageDir fs sub comps (some d) = .ok (sub :: d) := by
  have h1 : firstDir fs sub comps.length comps = none := by
    cases h : firstDir fs sub comps.length comps with
    | none => rfl
    | some p =>
      obtain ⟨hp, j, hj1, hj2, e⟩ := firstDir_spec fs sub _ comps p h
      rw [e, hno j hj1 hj2] at hp; cases hp
  have h2 := getLanguageDir_exact fs sub d none hne hd
  unfold getLanguageDir at h2 ⊢
  rw [h1]
  simp only
  cases h3 : firstDir fs sub d.length d with
  | some p => rw [h3] at h2; simpa using h2
  | none => rw [h3] at h2; cases h2

/-- with the default language directory present, a directory is found for EVERY language tag -/
theorem getLanguageDir_total (fs : FS) (sub : String) (d : List String) (hne : d ≠ []) (hd : fs.isDir (sub :: d) = true)
    (comps : List String) : getLanguageDir fs sub comps (some d) ≠ .err := by
  unfold getLanguageDir
  cases h : firstDir fs sub comps.length comps with
  | some p => simp
  | none =>
    simp only
    obtain ⟨p, hp⟩ := firstDir_some_of_isDir fs sub d.length d d.length
      (by cases d with | nil => exact absurd rfl hne | cons _ _ => simp) (Nat.le_refl _) (by simpa using hd)
    rw [hp]; simp

theorem walkUp_first (fs : FS) (fileName : String) (style : Bool) (f : Nat) (p : Path) (alt : Option Path)
    (hf : fs.isFile (p ++ [fileName]) = true) (hp : p ≠ []) :
    (walkUp fs fileName style (f + 1) p alt).1 = some (p ++ [fileName]) := by
  have : p.isEmpty = false := by cases p with | nil => exact absurd rfl hp | cons _ _ => rfl
  simp [walkUp, hf, this]

/-- a file in the language's own directory is the one chosen -/
theorem findFile_prefers_language (fs : FS) (sub : String) (comps : List String) (dflt : Option (List String)) (fileName : String)
    (hne : comps ≠ []) (hd : fs.isDir (sub :: comps) = true) (hf : fs.isFile (sub :: comps ++ [fileName]) = true) :
    findFile fs sub comps dflt fileName = .ok (sub :: comps ++ [fileName]) := by
  unfold findFile
  rw [getLanguageDir_exact fs sub comps dflt hne hd]
  simp only [findFileIn]
  rw [walkUp_first fs fileName _ _ (sub :: comps) none hf (by simp)]

/-- **nothing fails while the default is complete**: if the default language (code) directory exists and holds the file,
`find_file` returns a file for EVERY language tag (known, regional, unknown, empty) -/
theorem findFile_total (fs : FS) (sub : String) (d : List String) (fileName : String) (hne : d ≠ [])
    (hd : fs.isDir (sub :: d) = true) (hf : fs.isFile (sub :: d ++ [fileName]) = true) (comps : List String) :
    findFile fs sub comps (some d) fileName ≠ .err := by
  unfold findFile
  cases h : getLanguageDir fs sub comps (some d) with
  | err => exact absurd h (getLanguageDir_total fs sub d hne hd comps)
  | ok dir =>
    simp only
    cases h2 : findFileIn fs dir fileName with
    | some p => simp
    | none =>
      simp only
      rw [getLanguageDir_exact fs sub d none hne hd]
      simp only [findFileIn]
      rw [walkUp_first fs fileName _ _ (sub :: d) none hf (by simp)]
      simp

/-- non-vacuity: a two-language tree; `en-gb` has only its own unicode.yaml, `xx` is unknown -/
def demo : FS := { dirs := [["Languages"], ["Languages", "en"], ["Languages", "en", "gb"], ["Languages", "fi"]],
                   files := [["Languages", "en", "unicode.yaml"], ["Languages", "en", "gb", "unicode.yaml"], ["Languages", "en", "navigate.yaml"], ["intent.yaml"]] }
example : findFile demo "Languages" ["en", "gb"] (some ["en"]) "unicode.yaml" = .ok ["Languages", "en", "gb", "unicode.yaml"] := by decide
example : findFile demo "Languages" ["en", "gb"] (some ["en"]) "navigate.yaml" = .ok ["Languages", "en", "navigate.yaml"] := by decide
example : findFile demo "Languages" ["xx"] (some ["en"]) "navigate.yaml" = .ok ["Languages", "en", "navigate.yaml"] := by decide
example : findFile demo "Languages" ["fi"] (some ["en"]) "intent.yaml" = .ok ["intent.yaml"] := by decide

end MC.Props.C15
