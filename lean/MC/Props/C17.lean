import MC.Spec.Preproc
/-!
# C17 — equivalent XML spellings give identical results (the string-rewriting half)

Finite facts over the regenerated entity table and regex parameters by `decide +kernel`; the behaviour of the scanners
on *every* string by induction.
-/
namespace MC.Props.C17
open MC.Preproc MC.Spec.Preproc

/-! ## finite facts (regenerated tables) -/

/-- every one of the entity names of entities.in is matched (whole) by the entity regex's character class -/
theorem every_entity_matched :
    MC.Gen.Preproc.entities.all (fun e => nameMatched config.entClass e.1) = true := by decide +kernel

/-- every replacement text is XML-safe and denotes the HTML5/MathML definition of the entity -/
theorem values_xml_safe_and_standard :
    MC.Gen.Preproc.entities.all (fun e => valueOk e.2.1 e.2.2) = true := by decide +kernel

/-- `;`, `#` and `&` are not entity-name characters (so numeric references are never touched) -/
theorem class_excludes_punct :
    inRanges config.entClass 59 = false ∧ inRanges config.entClass 35 = false ∧ inRanges config.entClass 38 = false := by
  decide +kernel

/-- the passes run in the order: entities, MathJax v2, MathJax v3, namespace declaration (once), prefix (all) -/
theorem pass_order : config.passes = [(0, 1), (1, 1), (2, 1), (3, 0), (4, 1)] := by decide +kernel

/-! ## generic lemmas: all strings -/

theorem span_append (p : Nat → Bool) (a : Str) (d : Nat) (r : Str) (ha : ∀ c ∈ a, p c = true) (hd : p d = false) :
    span p (a ++ d :: r) = (a, d :: r) := by
  induction a with
  | nil => simp [span, hd]
  | cons c cs ih =>
    have hc : p c = true := ha c (by simp)
    have ih' := ih (fun x hx => ha x (by simp [hx]))
    simp [span, hc, ih']

/-- the entity matcher recognises `&name;` for every name over the class -/
theorem entName_spec (cls : List (Nat × Nat)) (name rest : Str) (hne : name ≠ [])
    (hall : ∀ c ∈ name, inRanges cls c = true) (hsemi : inRanges cls 59 = false) :
    entName cls (38 :: (name ++ 59 :: rest)) = some (name, rest) := by
  simp only [entName]
  rw [span_append _ name 59 rest hall hsemi]
  cases name with
  | nil => exact absurd rfl hne
  | cons c cs => rfl

theorem entScan_skip (cls : List (Nat × Nat)) (tbl : Str → Option Str) (xs rest : Str) :
    entScan cls tbl xs.length (xs ++ rest) = entScan cls tbl 0 rest := by
  induction xs with
  | nil => rfl
  | cons x xs ih => simpa [entScan] using ih

/-- **named entity = its table value**: on any text, `&name;` with a known name is replaced by exactly the table
value and scanning continues after the `;` (compositional substitution). -/
theorem entity_known (cls : List (Nat × Nat)) (tbl : Str → Option Str) (name v rest : Str) (hne : name ≠ [])
    (hall : ∀ c ∈ name, inRanges cls c = true) (hsemi : inRanges cls 59 = false) (hv : tbl name = some v) :
    entScan cls tbl 0 (38 :: (name ++ 59 :: rest)) =
      (v ++ (entScan cls tbl 0 rest).1, (entScan cls tbl 0 rest).2) := by
  have hm := entName_spec cls name rest hne hall hsemi
  have hskip : entScan cls tbl (name.length + 1) (name ++ 59 :: rest) = entScan cls tbl 0 rest := by
    have := entScan_skip cls tbl (name ++ [59]) rest
    simpa using this
  simp only [entScan, hm, hskip, hv]

/-- **unknown entity is an error**: the scan reports an unknown name, so `set_mathml` bails. -/
theorem entity_unknown (cls : List (Nat × Nat)) (tbl : Str → Option Str) (name rest : Str) (hne : name ≠ [])
    (hall : ∀ c ∈ name, inRanges cls c = true) (hsemi : inRanges cls 59 = false) (hv : tbl name = none) :
    (entScan cls tbl 0 (38 :: (name ++ 59 :: rest))).2 ≠ none := by
  have hm := entName_spec cls name rest hne hall hsemi
  simp only [entScan, hm, hv]
  cases (entScan cls tbl (name.length + 1) (name ++ 59 :: rest)).2 <;> simp

theorem entName_none_of_ne (cls : List (Nat × Nat)) (c : Nat) (cs : Str) (h : c ≠ 38) : entName cls (c :: cs) = none := by
  unfold entName
  split
  · rename_i heq; simp at heq; exact absurd heq.1 h
  · rfl

/-- text without `&` is untouched by the entity pass -/
theorem entScan_no_amp (cls : List (Nat × Nat)) (tbl : Str → Option Str) (s : Str) (h : 38 ∉ s) :
    entScan cls tbl 0 s = (s, none) := by
  induction s with
  | nil => rfl
  | cons c cs ih =>
    have hc : c ≠ 38 := fun e => h (by simp [e])
    have ih' := ih (fun hm => h (by simp [hm]))
    simp [entScan, entName_none_of_ne cls c cs hc, ih']

/-- numeric character references are left for the XML parser: `&#…` is copied. -/
theorem numeric_ref_untouched (cls : List (Nat × Nat)) (tbl : Str → Option Str) (rest : Str)
    (hhash : inRanges cls 35 = false) :
    entScan cls tbl 0 (38 :: 35 :: rest) =
      (38 :: 35 :: (entScan cls tbl 0 rest).1, (entScan cls tbl 0 rest).2) := by
  have h1 : entName cls (38 :: 35 :: rest) = none := by
    simp [entName, span, hhash]
  have h2 : entName cls (35 :: rest) = none := entName_none_of_ne cls 35 rest (by decide)
  simp [entScan, h1, h2]

/-- for the actual table: every entity of entities.in, in any context, is substituted by its value. -/
theorem table_entity_substituted (e : Str × Str × Str) (he : e ∈ MC.Gen.Preproc.entities) (rest : Str)
    (v : Str) (hv : config.entity e.1 = some v) :
    entScan config.entClass config.entity 0 (38 :: (e.1 ++ 59 :: rest)) =
      (v ++ (entScan config.entClass config.entity 0 rest).1, (entScan config.entClass config.entity 0 rest).2) := by
  have h := every_entity_matched
  rw [List.all_eq_true] at h
  have hm := h e he
  unfold nameMatched at hm
  simp only [Bool.and_eq_true, Bool.not_eq_true', List.all_eq_true] at hm
  have hne : e.1 ≠ [] := by
    intro h0; rw [h0] at hm; simp at hm
  exact entity_known _ _ _ _ _ hne hm.2 class_excludes_punct.1 hv

/-! ### the `once` flag is irrelevant for replace_all -/
theorem scan_all_done_irrel (m : Matcher) (k : Nat) (d d' : Bool) (s : Str) :
    scan m false k d s = scan m false k d' s := by
  induction s generalizing k d d' with
  | nil => simp [scan]
  | cons c cs ih =>
    cases k with
    | succ k => simp only [scan]; exact ih k d d'
    | zero =>
      simp only [scan, Bool.false_and]
      split
      · rename_i h; simp at h
      · split
        · rw [ih _ true true]
        · rw [ih 0 d d']

theorem scan_skip (m : Matcher) (once : Bool) (d : Bool) (xs rest : Str) :
    scan m once xs.length d (xs ++ rest) = scan m once 0 d rest := by
  induction xs with
  | nil => cases rest <;> simp [scan]
  | cons x xs ih => simpa [scan] using ih

/-- **prefix stripping on tags**: `<p:` loses exactly the prefix and the colon, for every prefix that is an ASCII name
(a letter or `_`, then letters, digits, `_`, `.`, `-`: `m`, `mml`, `ns0`, `m_1`), in any context. -/
theorem prefix_strip_open (c : Nat) (cs rest : Str) (d : Bool) (hc0 : isNameStart c = true) (hall : ∀ x ∈ cs, isNameChar x = true) :
    scan prefixMatch false 0 d (60 :: ((c :: cs) ++ 58 :: rest)) = 60 :: scan prefixMatch false 0 true rest := by
  have hspan := span_append isNameChar cs 58 rest hall (by decide)
  have hc : c ≠ 47 := by
    intro h; rw [h] at hc0; exact absurd hc0 (by decide)
  have hn : nameSpan ((c :: cs) ++ 58 :: rest) = some (c :: cs, 58 :: rest) := by
    simp only [nameSpan, List.cons_append, hc0, if_true, hspan]
  have hm : prefixMatch (60 :: ((c :: cs) ++ 58 :: rest)) = some ((c :: cs).length + 1, [60]) := by
    simp only [prefixMatch, List.cons_append]
    split
    · rename_i heq; simp at heq; exact absurd heq.1 hc
    · rename_i heq
      simp at heq
      subst heq
      simp only [List.cons_append] at hn
      rw [hn]; rfl
    · rename_i h1 h2; exact absurd rfl (h2 _)
  simp only [scan, Bool.false_and, hm]
  have := scan_skip prefixMatch false true ((c :: cs) ++ [58]) rest
  simp only [List.append_assoc, List.cons_append, List.nil_append, List.length_append, List.length_cons,
    List.length_nil] at this
  simpa using this

/-- the same for end tags: `</p:` loses the prefix and the colon -/
theorem prefix_strip_close (c : Nat) (cs rest : Str) (d : Bool) (hc0 : isNameStart c = true) (hall : ∀ x ∈ cs, isNameChar x = true) :
    scan prefixMatch false 0 d (60 :: 47 :: ((c :: cs) ++ 58 :: rest)) = 60 :: 47 :: scan prefixMatch false 0 true rest := by
  have hspan := span_append isNameChar cs 58 rest hall (by decide)
  have hn : nameSpan ((c :: cs) ++ 58 :: rest) = some (c :: cs, 58 :: rest) := by
    simp only [nameSpan, List.cons_append, hc0, if_true, hspan]
  have hm : prefixMatch (60 :: 47 :: ((c :: cs) ++ 58 :: rest)) = some (1 + (c :: cs).length + 1, [60, 47]) := by
    simp only [prefixMatch]
    rw [hn]; rfl
  simp only [scan, Bool.false_and, hm]
  have h := scan_skip prefixMatch false true ((c :: cs) ++ [58]) rest
  have e1 : ((c :: cs) ++ [58]) ++ rest = c :: cs ++ 58 :: rest := by simp
  have e2 : ((c :: cs) ++ [58]).length = 1 + (c :: cs).length := by simp; omega
  rw [e1, e2] at h
  simp only [Bool.false_eq_true, if_false, List.cons_append, List.nil_append]
  simp only [List.cons_append] at h
  rw [h]

/-- **the namespace declaration** `xmlns:p` becomes `xmlns` (first occurrence), for every prefix that is an ASCII name, when what follows
the name is not a name character (it is `=` in a document) -/
theorem nsdecl_rewritten (c : Nat) (cs : Str) (e : Nat) (rest : Str) (hc0 : isNameStart c = true) (hall : ∀ x ∈ cs, isNameChar x = true)
    (he : isNameChar e = false) :
    scan nsMatch true 0 false (xmlnsColon ++ (c :: cs) ++ e :: rest) = xmlnsWord ++ e :: scan nsMatch true 0 true rest := by
  have hspan := span_append isNameChar cs e rest hall he
  have hn : nameSpan ((c :: cs) ++ e :: rest) = some (c :: cs, e :: rest) := by
    simp only [nameSpan, List.cons_append, hc0, if_true, hspan]
  have hm : nsMatch (xmlnsColon ++ (c :: cs) ++ e :: rest) = some (xmlnsColon.length + (c :: cs).length - 1, xmlnsWord) := by
    have hsp : stripPrefix? xmlnsColon (xmlnsColon ++ ((c :: cs) ++ e :: rest)) = some ((c :: cs) ++ e :: rest) := by
      simp [xmlnsColon, stripPrefix?]
    simp only [nsMatch, List.append_assoc, hsp, hn]
  have hx : xmlnsColon ++ (c :: cs) ++ e :: rest = 120 :: ([109, 108, 110, 115, 58] ++ (c :: cs) ++ e :: rest) := by simp [xmlnsColon]
  rw [hx] at hm ⊢
  simp only [scan, Bool.true_and, Bool.false_eq_true, if_false, hm]
  have := scan_skip nsMatch true true ([109, 108, 110, 115, 58] ++ (c :: cs)) (e :: rest)
  simp only [List.append_assoc, List.length_append, List.length_cons, List.length_nil] at this
  have hlen : xmlnsColon.length + (c :: cs).length - 1 = 0 + 1 + 1 + 1 + 1 + 1 + (cs.length + 1) := by simp [xmlnsColon]; omega
  rw [hlen]
  simp only [List.append_assoc] at this ⊢
  rw [this]
  simp [scan]

/-- MathJax bookkeeping attribute `class="LIT…"`: matched whole (up to the closing quote) and deleted -/
theorem lazyToQuote_spec (body : Str) (q : Nat) (rest : Str) (hq : isQuote q = true)
    (hb : ∀ c ∈ body, isQuote c = false ∧ c ≠ 10) : lazyToQuote (body ++ q :: rest) = some (body.length + 1) := by
  induction body with
  | nil => simp [lazyToQuote, hq]
  | cons c cs ih =>
    have hc := hb c (by simp)
    have ih' := ih (fun x hx => hb x (by simp [hx]))
    simp [lazyToQuote, hc.1, hc.2, ih']

/-- non-vacuity / worked examples on the real configuration -/
example : (preprocess config ("<m:mi class=\"MJX-x\">&alpha;&#x3b1;</m:mi>".toList.map Char.toNat)).toOption
    = some ("<mi >α&#x3b1;</mi>".toList.map Char.toNat) := by decide +kernel
example : (preprocess config ("<mi>&nosuchname;</mi>".toList.map Char.toNat)).toOption = none := by decide +kernel

end MC.Props.C17
