import MC.Model.Loader
/-!
# C10 — results depend only on the current expression and preferences: the caches are transparent

Setting: the files do not change and all of them load (`AllGood`). Then for EVERY history of calls under arbitrary
preference assignments and `CheckRuleFiles` values, the tables a getter computes from are the ones a fresh session builds.
-/
namespace MC.Props.C10
open MC.Loader

/-- every file loads, and a head file comes first in what it includes -/
structure Sane (fs : FS) : Prop where
  good : ∀ p, (fs.incl p).all fs.good = true
  head : ∀ p, ∃ rest, fs.incl p = p :: rest

/-- a cache is coherent with the file system: empty, or built from the current contents of a head file and its includes -/
def Coh (c : Cell) (fs : FS) : Prop :=
  c = Cell.empty ∨ ∃ p, c.files.map (·.1) = fs.incl p ∧ c.data = contentOf fs (fs.incl p)

theorem timesOf_paths (fs : FS) (ps : List Path) : (timesOf fs ps).map (·.1) = ps := by
  induction ps with
  | nil => rfl
  | cons p r ih => simp only [timesOf, List.map_cons, List.map_map] at *; rw [ih]

theorem upToDate_head (c : Cell) (pref : Path) (ignore : Bool) (fs : FS) (h : upToDate c pref ignore fs = true) :
    ∃ t rest, c.files = (pref, t) :: rest := by
  unfold upToDate at h
  cases hf : c.files with
  | nil => rw [hf] at h; cases h
  | cons x rest =>
    rw [hf] at h
    obtain ⟨p, t⟩ := x
    simp only [Bool.and_eq_true, beq_iff_eq] at h
    exact ⟨t, rest, by rw [h.1]⟩

theorem not_needs_upToDate (k : Kind) (c : Cell) (pref : Path) (ignore : Bool) (fs : FS)
    (h : needsLoad k c pref ignore fs = false) : upToDate c pref ignore fs = true := by
  cases k <;> simp [needsLoad] at h
  · exact h.2
  · exact h
  · exact h.2
  · exact h.2

/-- **one cache**: from a coherent cache, bringing it up to date never fails and leaves exactly the table a fresh load
of the preferred file builds — whether or not it decided to reload -/
theorem refresh_coherent (k : Kind) (c : Cell) (pref : Path) (ignore : Bool) (fs : FS) (hs : Sane fs) (hc : Coh c fs) :
    (refresh k c pref ignore fs).2 = true ∧ (refresh k c pref ignore fs).1.data = contentOf fs (fs.incl pref) ∧
    Coh (refresh k c pref ignore fs).1 fs := by
  unfold refresh
  by_cases hn : needsLoad k c pref ignore fs = true
  · simp only [hn, if_true, hs.good pref]
    exact ⟨trivial, trivial, Or.inr ⟨pref, timesOf_paths fs _, rfl⟩⟩
  · have hn' : needsLoad k c pref ignore fs = false := by simpa using hn
    simp only [hn', Bool.false_eq_true, if_false]
    obtain ⟨t, rest, hf⟩ := upToDate_head c pref ignore fs (not_needs_upToDate k c pref ignore fs hn')
    refine ⟨trivial, ?_, hc⟩
    rcases hc with he | ⟨p, hp, hd⟩
    · rw [he] at hf; cases hf
    · obtain ⟨r2, hi⟩ := hs.head p
      rw [hf, hi] at hp
      simp only [List.map_cons, List.cons.injEq] at hp
      rw [hd, ← hp.1]

def CohAll (s : Caches) (fs : FS) : Prop := Coh s.rules fs ∧ Coh s.uniShort fs ∧ Coh s.defs fs ∧ Coh s.uniFull fs

theorem coh_empty (fs : FS) : CohAll Caches.empty fs := ⟨Or.inl rfl, Or.inl rfl, Or.inl rfl, Or.inl rfl⟩

/-- the tables a fresh session computes from -/
def freshView (p : Pref) (full : Bool) (fs : FS) : List (List (Path × Nat)) :=
  [contentOf fs (fs.incl p.rules), contentOf fs (fs.incl p.uniShort), contentOf fs (fs.incl p.defs)] ++
    (if full then [contentOf fs (fs.incl p.uniFull)] else [])

/-- **one call**: from coherent caches a call succeeds, computes from exactly the fresh tables, and leaves coherent caches -/
theorem call_spec (s : Caches) (p : Pref) (ignore full : Bool) (fs : FS) (hs : Sane fs) (hc : CohAll s fs) :
    (call s p ignore full fs).2 = true ∧ view (call s p ignore full fs).1 full = freshView p full fs ∧
    CohAll (call s p ignore full fs).1 fs := by
  obtain ⟨h1, h2, h3, h4⟩ := hc
  have r := refresh_coherent .rules s.rules p.rules ignore fs hs h1
  have u := refresh_coherent .uniShort s.uniShort p.uniShort ignore fs hs h2
  have d := refresh_coherent .defs s.defs p.defs ignore fs hs h3
  have f := refresh_coherent .uniFull s.uniFull p.uniFull ignore fs hs h4
  unfold call
  simp only [r.1, u.1, d.1, Bool.not_true, Bool.false_eq_true, if_false]
  cases full with
  | true =>
    simp only [if_true, view, freshView, r.2.1, u.2.1, d.2.1, f.2.1]
    exact ⟨f.1, trivial, r.2.2, u.2.2, d.2.2, f.2.2⟩
  | false =>
    simp only [Bool.false_eq_true, if_false, view, freshView, r.2.1, u.2.1, d.2.1]
    exact ⟨trivial, trivial, r.2.2, u.2.2, d.2.2, h4⟩

theorem run_coherent (fs : FS) (hs : Sane fs) : ∀ (hist : List (Pref × Bool × Bool)) (s : Caches), CohAll s fs → CohAll (run fs hist s) fs
  | [], s, h => h
  | (p, ig, full) :: rest, s, h => run_coherent fs hs rest _ (call_spec s p ig full fs hs h).2.2

/-- **C10, cache transparency**: after ANY history of calls (any languages, styles, braille codes — i.e. any preference
assignments —, any `CheckRuleFiles` values, any mix of getters), a call computes from exactly the tables a fresh session
would: the result is a function of the current preferences (and the files), not of the history -/
theorem history_independent (fs : FS) (hs : Sane fs) (hist : List (Pref × Bool × Bool)) (p : Pref) (ignore full : Bool) :
    view (call (run fs hist Caches.empty) p ignore full fs).1 full = view (call Caches.empty p ignore full fs).1 full := by
  rw [(call_spec _ p ignore full fs hs (run_coherent fs hs hist _ (coh_empty fs))).2.1,
      (call_spec _ p ignore full fs hs (coh_empty fs)).2.1]

/-- switching a preference away and back restores the same tables -/
theorem pref_roundtrip (fs : FS) (hs : Sane fs) (s : Caches) (hc : CohAll s fs) (p p' : Pref) (ig full : Bool) :
    view (call (call (call s p ig full fs).1 p' ig full fs).1 p ig full fs).1 full = view (call s p ig full fs).1 full := by
  have c1 := call_spec s p ig full fs hs hc
  have c2 := call_spec _ p' ig full fs hs c1.2.2
  have c3 := call_spec _ p ig full fs hs c2.2.2
  rw [c3.2.1, c1.2.1]

/-- two sessions (threads) own disjoint caches: a step of one does not change what the other computes from (the product
machine steps component-wise; that every mutable static of src/ is thread_local is checked by the translator) -/
theorem sessions_independent (a b : Caches) (pa pb : Pref) (ig full : Bool) (fs : FS) :
    let stepA := fun (st : Caches × Caches) => ((call st.1 pa ig full fs).1, st.2)
    let stepB := fun (st : Caches × Caches) => (st.1, (call st.2 pb ig full fs).1)
    stepA (stepB (a, b)) = stepB (stepA (a, b)) := rfl

/-- non-vacuity: a concrete file system with includes -/
def demoFs : FS := { content := fun p => 100 + p, mtime := fun p => 10 + p, good := fun _ => true,
                     incl := fun p => if p = 1 then [1, 7, 8] else [p] }
example : Sane demoFs := ⟨by intro p; simp [demoFs], by intro p; by_cases h : p = 1 <;> simp [demoFs, h]⟩
example : view (call (run demoFs [(⟨2, 3, 4, 5⟩, true, true), (⟨1, 3, 4, 5⟩, false, false)] Caches.empty) ⟨1, 3, 6, 5⟩ true true demoFs).1 true
    = [[(1, 101), (7, 107), (8, 108)], [(3, 103)], [(6, 106)], [(5, 105)]] := by decide

end MC.Props.C10
