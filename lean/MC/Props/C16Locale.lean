import MC.Props.C16Fold
import MC.Props.C12Sep
/-!
C16, "which characters count as group separators and decimal mark follows the locale preferences" — the two halves put together:
`MC.Props.C12Sep` says which separators are in force after any history of preference requests (those `deriveSeparators` gives for the
language in force), `MC.Props.C16Fold` says that for any *good* separator setting a split number folds into the unsplit one. Here:
every setting `deriveSeparators` can produce is good, for every language tag — so after every history the fold theorem applies to the
numbers of the language in force.
-/
namespace MC.Props.C16Locale
open MC.Prefs MC.Numbers MC.Props.C16 MC.Props.C12 MC.Props.C12Sep

def cpsOf (s : String) : List Nat := s.toList.map Char.toNat

/-- the scanner's separator setting for a pair (`DecimalSeparators`, `BlockSeparators`) -/
def sepsOf (p : String × String) : Seps := ⟨cpsOf p.2, cpsOf p.1⟩

/-- `deriveSeparators` is decided by two booleans: decimal point or comma, and whether the country writes ' between groups -/
theorem derive_pick (lang dec : String) : ∃ up ch : Bool,
    deriveSeparators lang dec = (if up then "." else ",", (if up then ", \u00A0\u202F" else ". \u00A0\u202F") ++ (if ch then "'" else "")) :=
  ⟨_, _, rfl⟩

/-- `deriveSeparators` has four possible answers -/
theorem derive_cases (lang dec : String) :
    deriveSeparators lang dec = (".", ", \u00A0\u202F") ∨ deriveSeparators lang dec = (".", ", \u00A0\u202F'") ∨
    deriveSeparators lang dec = (",", ". \u00A0\u202F") ∨ deriveSeparators lang dec = (",", ". \u00A0\u202F'") := by
  obtain ⟨up, ch, h⟩ := derive_pick lang dec
  rw [h]
  cases up <;> cases ch <;> decide +kernel

/-- **every separator setting a language tag can derive is a good one** (digit-free, decimal mark not among the group separators) -/
theorem derived_good (lang dec : String) : GoodSeps (sepsOf (deriveSeparators lang dec)) := by
  rcases derive_cases lang dec with h | h | h | h <;> rw [h] <;> exact ⟨by decide +kernel, by decide +kernel, by decide +kernel⟩

/-- **after every history, split = unsplit for the numbers of the language in force**: the separators the preferences hold are a good
setting `S`, and for every number of `S`'s grammar (1-3 digit lead, 3-digit groups, optional fraction), split at every separator into
`mn` / `mo` (`k = 1`) or `mn` / `mtext` (`k = 2`) tokens and followed by a token that holds no separator, the scan of
`merge_number_blocks` gives the row it gives for the single token -/
theorem split_folds_in_force (E : Env) (ops : List (String × String)) (hops : indirect ops) (d : String) (hv : validDec d = true)
    (hd : prefToString (runOps E initState ops) "DecimalSeparator" = some d) :
    ∃ ds bs, prefToString (runOps E initState ops) "DecimalSeparators" = some ds ∧
      prefToString (runOps E initState ops) "BlockSeparators" = some bs ∧
      (ds, bs) = deriveSeparators (curLanguage (runOps E initState ops)) d ∧
      GoodSeps (sepsOf (ds, bs)) ∧
      ∀ (k : Nat) (_ : k = 1 ∨ k = 2) (lead : Str) (groups : List (Nat × Str)) (_ : GoodInt (sepsOf (ds, bs)) lead groups)
        (frac : Option (Nat × Str))
        (_ : ∀ dd fd, frac = some (dd, fd) → (sepsOf (ds, bs)).dec.contains dd = true ∧ allDig fd = true ∧ fd ≠ [])
        (_ : groups ≠ [] ∨ frac ≠ none) (stop : Tok) (_ : stops (sepsOf (ds, bs)) stop) (rest : List Tok) (f : Nat),
        mergeLoop (sepsOf (ds, bs)) false (f + 1) (splitToks k lead groups frac ++ stop :: rest) =
          mergeLoop (sepsOf (ds, bs)) false (f + 1) (⟨0, numText lead groups frac⟩ :: stop :: rest) := by
  obtain ⟨h1, h2⟩ := separators_follow_preferences E ops hops d hd hv
  refine ⟨_, _, h1, h2, rfl, derived_good _ _, ?_⟩
  intro k hk lead groups hg frac hfr hsplit stop hstop rest f
  exact split_eq_unsplit _ (derived_good _ _) k hk lead groups hg frac hfr hsplit stop hstop rest f

/-- not vacuous: Swiss German through the host's route, the number 12'345,6 -/
example : deriveSeparators "de-CH" "Auto" = (",", ".   '") ∧
    GoodInt (sepsOf (deriveSeparators "de-CH" "Auto")) [49, 50] [(39, [51, 52, 53])] := by
  refine ⟨by decide +kernel, ⟨by decide, by decide, ?_⟩⟩
  intro g hg
  simp only [List.mem_cons, List.not_mem_nil, or_false] at hg
  subst hg
  decide +kernel

end MC.Props.C16Locale
