import MC.Props.C03Sep
/-!
C03 clause (d): the executable checker `MC.Spec.Rows.violations` (run by checks/c03.py on every canonical tree of the
implementation and of the model) reports a "(d)" line exactly when the structural predicate `Separated` fails, for every tree.
Hence `parseRow_operands_separated` says: on no token sequence does the checker ever report clause (d) for the model's parse.
-/
namespace MC.Props.C03SepSpec
open MC.Rows MC.Spec.Rows

theorem adjacentOperands_eq (kids : List T) : adjacentOperands kids = !noAdj kids := by
  induction kids with
  | nil => simp [adjacentOperands, noAdj]
  | cons x r ih =>
    cases r with
    | nil => simp [adjacentOperands, noAdj]
    | cons y r =>
      have : adjacentOperands (x :: y :: r) = ((!isOpLeaf x && !isOpLeaf y) || adjacentOperands (y :: r)) := by
        simp only [adjacentOperands, List.length_cons, Nat.add_sub_cancel]
        rw [List.range_succ_eq_map, List.any_cons, List.any_map]
        simp [Function.comp_def]
      rw [this, ih]
      simp [noAdj, Bool.not_and, Bool.not_or]

def hasD (l : List String) : Bool := l.any (fun v => v.startsWith "(d)")

theorem hasD_append (a b : List String) : hasD (a ++ b) = (hasD a || hasD b) := by simp [hasD]
@[simp] theorem hasD_nil : hasD [] = false := rfl

mutual
theorem hasD_violations : (t : T) → hasD (violations t) = !Separated t
  | .operand _ => by simp [violations, Separated]
  | .op _ _ => by simp [violations, Separated]
  | .row kids => by
      have ih := hasD_violationsL kids
      simp only [violations, hasD_append, ih, Separated]
      have hA : hasD ["(a) operators of different precedence side by side in one row"] = false := by decide +kernel
      have hB : hasD ["(b) a nested row binds less tightly than the row containing it"] = false := by decide +kernel
      have hD : hasD ["(d) adjacent operands without an operator"] = true := by decide +kernel
      rw [adjacentOperands_eq kids]
      generalize (if isFenced kids = true then (List.drop 1 (rowOps kids)).dropLast else rowOps kids) = inner
      generalize (if isFenced kids = true then none else (rowOps kids).head?) = po
      rcases inner with _ | ⟨o, rest⟩ <;> rcases po with _ | p <;> simp only [] <;> (repeat' split) <;>
        cases hn : noAdj kids <;> simp_all
theorem hasD_violationsL : (ts : List T) → hasD (violationsL ts) = !SeparatedL ts
  | [] => by simp [violationsL, SeparatedL]
  | t :: ts => by simp [violationsL, SeparatedL, hasD_append, hasD_violations t, hasD_violationsL ts]
end

/-- the checker reports clause (d) somewhere in a tree exactly when the tree is not `Separated` -/
theorem reportsD_iff (t : T) : reportsD t = !Separated t := hasD_violations t

/-- **C03 clause (d), in the checker's own terms**: for every token sequence on which the parser returns a tree, the executable
specification `MC.Spec.Rows.violations` — the checker checks/c03.py runs on the canonical trees of the implementation and on the
model's trees — reports no "(d) adjacent operands" line, at any depth -/
theorem parseRow_never_reports_d (toks : List Tok) (t : T) (h : parseRow toks = .ok t) : reportsD t = false := by
  rw [reportsD_iff, MC.Props.C03Sep.parseRow_operands_separated toks t h]; rfl

/-- the equivalence is not vacuous: a tree with two neighbouring operands two levels down is reported -/
example : reportsD (.row [.operand [97], .op [43] false, .row [.operand [98], .operand [99]]]) = true := by
  rw [reportsD_iff]; decide +kernel

end MC.Props.C03SepSpec
