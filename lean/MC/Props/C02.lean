import MC.Spec.Canon
/-!
# C02 — returned MathML is well-formed canonical MathML (serializer half)

`handle_special_chars` (src/pretty_print.rs) for EVERY string: the escaped text contains no markup-significant character
and an XML reader gets the original string back.
-/
namespace MC.Props.C02
open MC.Xml

theorem escapeChar_clean (c : Nat) : ∀ x ∈ escapeChar c, x ≠ 60 ∧ x ≠ 62 ∧ x ≠ 34 ∧ x ≠ 39 := by
  by_cases h34 : c = 34
  · subst h34; decide
  by_cases h38 : c = 38
  · subst h38; decide
  by_cases h39 : c = 39
  · subst h39; decide
  by_cases h60 : c = 60
  · subst h60; decide
  by_cases h62 : c = 62
  · subst h62; decide
  by_cases h1 : c = 0x2061
  · subst h1; decide
  by_cases h2 : c = 0x2062
  · subst h2; decide
  by_cases h3 : c = 0x2063
  · subst h3; decide
  by_cases h4 : c = 0x2064
  · subst h4; decide
  · have he : escapeChar c = [c] := by simp [escapeChar, h34, h38, h39, h60, h62, h1, h2, h3, h4]
    intro x hx; rw [he] at hx; simp at hx; subst hx
    exact ⟨h60, h62, h34, h39⟩

/-- **escape_safe**: no `<`, `>`, `"` or `'` survives in escaped text or attribute values, so the element/attribute
syntax written around it cannot be broken by the content -/
theorem escape_safe (t : Str) : ∀ x ∈ escape t, x ≠ 60 ∧ x ≠ 62 ∧ x ≠ 34 ∧ x ≠ 39 := by
  intro x hx
  unfold escape at hx
  rw [List.mem_flatMap] at hx
  obtain ⟨c, _, hx⟩ := hx
  exact escapeChar_clean c x hx

theorem stripPrefix_append (p r : Str) : stripPrefix? p (p ++ r) = some r := by
  induction p with
  | nil => rfl
  | cons c cs ih => simp [stripPrefix?, ih]

/-- reading back one escaped character (one unit of fuel per character read) -/
theorem unescape_escapeChar (c : Nat) (rest : Str) (f : Nat) :
    unescape (f + 1) (escapeChar c ++ rest) = c :: unescape f rest := by
  by_cases h34 : c = 34
  · subst h34; simp [escapeChar, s, unescape, readRef, refs, stripPrefix?]
  by_cases h38 : c = 38
  · subst h38; simp [escapeChar, s, unescape, readRef, refs, stripPrefix?]
  by_cases h39 : c = 39
  · subst h39; simp [escapeChar, s, unescape, readRef, refs, stripPrefix?]
  by_cases h60 : c = 60
  · subst h60; simp [escapeChar, s, unescape, readRef, refs, stripPrefix?]
  by_cases h62 : c = 62
  · subst h62; simp [escapeChar, s, unescape, readRef, refs, stripPrefix?]
  by_cases h1 : c = 0x2061
  · subst h1; simp [escapeChar, s, unescape, readRef, refs, stripPrefix?]
  by_cases h2 : c = 0x2062
  · subst h2; simp [escapeChar, s, unescape, readRef, refs, stripPrefix?]
  by_cases h3 : c = 0x2063
  · subst h3; simp [escapeChar, s, unescape, readRef, refs, stripPrefix?]
  by_cases h4 : c = 0x2064
  · subst h4; simp [escapeChar, s, unescape, readRef, refs, stripPrefix?]
  · have he : escapeChar c = [c] := by simp [escapeChar, h34, h38, h39, h60, h62, h1, h2, h3, h4]
    rw [he]
    simp only [List.cons_append, List.nil_append]
    cases c with
    | zero => simp [unescape]
    | succ k =>
      have : k + 1 ≠ 38 := h38
      simp only [unescape]

theorem escapeChar_length_pos (c : Nat) : 1 ≤ (escapeChar c).length := by
  by_cases h34 : c = 34
  · subst h34; decide
  by_cases h38 : c = 38
  · subst h38; decide
  by_cases h39 : c = 39
  · subst h39; decide
  by_cases h60 : c = 60
  · subst h60; decide
  by_cases h62 : c = 62
  · subst h62; decide
  by_cases h1 : c = 0x2061
  · subst h1; decide
  by_cases h2 : c = 0x2062
  · subst h2; decide
  by_cases h3 : c = 0x2063
  · subst h3; decide
  by_cases h4 : c = 0x2064
  · subst h4; decide
  · have he : escapeChar c = [c] := by simp [escapeChar, h34, h38, h39, h60, h62, h1, h2, h3, h4]
    rw [he]; simp

/-- **escape_unescape**: for every string, unescaping the escaped string gives the string back
(any fuel of at least the length of the escaped string) -/
theorem escape_unescape (t : Str) (f : Nat) (hf : (escape t).length ≤ f) : unescape f (escape t) = t := by
  induction t generalizing f with
  | nil => cases f <;> simp [escape, unescape]
  | cons c cs ih =>
    have he : escape (c :: cs) = escapeChar c ++ escape cs := by simp [escape]
    rw [he] at hf ⊢
    have hp := escapeChar_length_pos c
    simp only [List.length_append] at hf
    cases f with
    | zero => omega
    | succ f =>
      rw [unescape_escapeChar c (escape cs) f]
      congr 1
      exact ih f (by omega)

/-! ## attribute values (`format_attrs`) -/

theorem escapeAttrChar_cases (c : Nat) :
    (c = 10 ∧ escapeAttrChar c = s "&#xA;") ∨ (c = 13 ∧ escapeAttrChar c = s "&#xD;") ∨ (c = 9 ∧ escapeAttrChar c = s "&#x9;") ∨
    (c ≠ 10 ∧ c ≠ 13 ∧ c ≠ 9 ∧ escapeAttrChar c = escapeChar c) := by
  by_cases h10 : c = 10
  · left; subst h10; exact ⟨rfl, rfl⟩
  by_cases h13 : c = 13
  · right; left; subst h13; exact ⟨rfl, rfl⟩
  by_cases h9 : c = 9
  · right; right; left; subst h9; exact ⟨rfl, rfl⟩
  · right; right; right; exact ⟨h10, h13, h9, by simp [escapeAttrChar, h10, h13, h9]⟩

theorem escapeChar_ctrl_free (c : Nat) (h10 : c ≠ 10) (h13 : c ≠ 13) (h9 : c ≠ 9) : ∀ x ∈ escapeChar c, x ≠ 10 ∧ x ≠ 13 ∧ x ≠ 9 := by
  by_cases h34 : c = 34
  · subst h34; decide
  by_cases h38 : c = 38
  · subst h38; decide
  by_cases h39 : c = 39
  · subst h39; decide
  by_cases h60 : c = 60
  · subst h60; decide
  by_cases h62 : c = 62
  · subst h62; decide
  by_cases h1 : c = 0x2061
  · subst h1; decide
  by_cases h2 : c = 0x2062
  · subst h2; decide
  by_cases h3 : c = 0x2063
  · subst h3; decide
  by_cases h4 : c = 0x2064
  · subst h4; decide
  · have he : escapeChar c = [c] := by simp [escapeChar, h34, h38, h39, h60, h62, h1, h2, h3, h4]
    intro x hx; rw [he] at hx; simp at hx; subst hx
    exact ⟨h10, h13, h9⟩

/-- an escaped attribute value contains no quote, no markup character and no literal line break or tab (which a reader
would turn into a blank) -/
theorem escapeAttr_safe (t : Str) : ∀ x ∈ escapeAttr t, x ≠ 60 ∧ x ≠ 62 ∧ x ≠ 34 ∧ x ≠ 39 ∧ x ≠ 10 ∧ x ≠ 13 ∧ x ≠ 9 := by
  intro x hx
  unfold escapeAttr at hx
  rw [List.mem_flatMap] at hx
  obtain ⟨c, _, hx⟩ := hx
  rcases escapeAttrChar_cases c with ⟨_, h⟩ | ⟨_, h⟩ | ⟨_, h⟩ | ⟨h10, h13, h9, h⟩
  · rw [h] at hx; revert x; decide
  · rw [h] at hx; revert x; decide
  · rw [h] at hx; revert x; decide
  · rw [h] at hx
    have hc := escapeChar_clean c x hx
    have hk := escapeChar_ctrl_free c h10 h13 h9 x hx
    exact ⟨hc.1, hc.2.1, hc.2.2.1, hc.2.2.2, hk.1, hk.2.1, hk.2.2⟩

theorem unescape_escapeAttrChar (c : Nat) (rest : Str) (f : Nat) :
    unescape (f + 1) (escapeAttrChar c ++ rest) = c :: unescape f rest := by
  rcases escapeAttrChar_cases c with ⟨hc, h⟩ | ⟨hc, h⟩ | ⟨hc, h⟩ | ⟨_, _, _, h⟩
  · rw [h, hc]; simp [s, unescape, readRef, refs, stripPrefix?]
  · rw [h, hc]; simp [s, unescape, readRef, refs, stripPrefix?]
  · rw [h, hc]; simp [s, unescape, readRef, refs, stripPrefix?]
  · rw [h]; exact unescape_escapeChar c rest f

theorem escapeAttrChar_length_pos (c : Nat) : 1 ≤ (escapeAttrChar c).length := by
  rcases escapeAttrChar_cases c with ⟨_, h⟩ | ⟨_, h⟩ | ⟨_, h⟩ | ⟨_, _, _, h⟩
  · rw [h]; decide
  · rw [h]; decide
  · rw [h]; decide
  · rw [h]; exact escapeChar_length_pos c

/-- **attribute values round-trip**, line breaks and tabs included -/
theorem escapeAttr_unescape (t : Str) (f : Nat) (hf : (escapeAttr t).length ≤ f) : unescape f (escapeAttr t) = t := by
  induction t generalizing f with
  | nil => cases f <;> simp [escapeAttr, unescape]
  | cons c cs ih =>
    have he : escapeAttr (c :: cs) = escapeAttrChar c ++ escapeAttr cs := by simp [escapeAttr]
    rw [he] at hf ⊢
    have hp := escapeAttrChar_length_pos c
    simp only [List.length_append] at hf
    cases f with
    | zero => omega
    | succ f =>
      rw [unescape_escapeAttrChar c (escapeAttr cs) f]
      congr 1
      exact ih f (by omega)

end MC.Props.C02
