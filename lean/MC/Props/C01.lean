import MC.Spec.Canon
import MC.Props.C03
/-!
# C01 — canonicalization never loses or invents visible content

`clean_mathml` (7000 lines of heuristics) is not modelled; the property is decided on the implementation by the Lean
checker `MC.Spec.Canon.conserves`. What IS proved here, for every input:

* the re-bracketing pass (`canonicalize_mrows_in_mrow`, modelled in `MC.Rows`) conserves the visible text of a row:
  it only adds invisible times, which the checker's normalisation erases (`row_conserves`);
* algebra of the checker's normalisation, so that it cannot hide a loss: `expand` is a homomorphism, erases only white
  space and the four invisible operators, and `collapse` only shortens runs of hyphens (`collapse_sound`).
-/
namespace MC.Props.C01
open MC.Xml (Node s) 
open MC.Spec.Canon
open MC.Rows (T Tok parseRow)
open MC.Props.C03

abbrev Str := List Nat

mutual
/-- a parsed row as the XML tree `set_mathml` returns -/
def toNode : T → Node
  | .operand t => .elem [109, 105] [] [.text t]            -- mi
  | .op t _ => .elem [109, 111] [] [.text t]               -- mo
  | .row ks => .elem [109, 114, 111, 119] [] (toNodeL ks)  -- mrow
def toNodeL : List T → List Node
  | [] => []
  | k :: ks => toNode k :: toNodeL ks
end

def atomsText (l : List Atom) : Str := l.flatMap (fun a => a.2.1)

theorem mm_ne_mi : ([109, 105] : Str) ≠ s "mmultiscripts" := by decide
theorem mm_ne_mo : ([109, 111] : Str) ≠ s "mmultiscripts" := by decide
theorem mm_ne_mrow : ([109, 114, 111, 119] : Str) ≠ s "mmultiscripts" := by decide

mutual
theorem visibleOut_toNode (t : T) : visibleOut (toNode t) = atomsText (yieldT t) := by
  cases t with
  | operand x => simp [toNode, visibleOut, visibleOutL, mm_ne_mi, atomsText]
  | op x a => simp [toNode, visibleOut, visibleOutL, mm_ne_mo, atomsText]
  | row ks =>
    simp only [toNode, visibleOut, mm_ne_mrow, if_false, yield_row]
    exact visibleOutL_toNodeL ks
theorem visibleOutL_toNodeL (ts : List T) : visibleOutL (toNodeL ts) = atomsText (yieldL ts) := by
  cases ts with
  | nil => simp [toNodeL, visibleOutL, atomsText]
  | cons k ks =>
    simp only [toNodeL, visibleOutL, yieldL_cons]
    rw [visibleOut_toNode k, visibleOutL_toNodeL ks]
    simp [atomsText]
end

theorem expand_append (a b : Str) : expand (a ++ b) = expand a ++ expand b := by simp [expand]

/-- dropping the inserted invisible-times atoms does not change the expanded text -/
theorem expand_vis (l : List Atom) : expand (atomsText (vis l)) = expand (atomsText l) := by
  induction l with
  | nil => rfl
  | cons a as ih =>
    by_cases h : a = timesAtom
    · have hv : vis (a :: as) = vis as := by simp [vis, h]
      have ha : expand a.2.1 = [] := by rw [h]; decide
      rw [hv, ih]
      show expand (atomsText as) = expand (a.2.1 ++ atomsText as)
      rw [expand_append, ha]; rfl
    · have hv : vis (a :: as) = a :: vis as := by simp [vis, h]
      rw [hv]
      show expand (a.2.1 ++ atomsText (vis as)) = expand (a.2.1 ++ atomsText as)
      rw [expand_append, expand_append, ih]

def tokText : Tok → Str
  | .operand t => t
  | .mo t => t

theorem atomsText_map (toks : List Tok) : atomsText (toks.map tokAtom) = toks.flatMap tokText := by
  induction toks with
  | nil => rfl
  | cons k ks ih =>
    simp only [List.map_cons, List.flatMap_cons, atomsText] at *
    rw [ih]; cases k <;> rfl

/-- **C01 for the re-bracketing pass**: for ANY row of tokens on which the row parser returns a tree, the visible text of
that tree, normalised, is the normalised concatenation of the tokens: re-bracketing loses, invents and reorders nothing -/
theorem row_conserves (toks : List Tok) (t : T) (h : parseRow toks = .ok t) :
    norm (visibleOut (toNode t)) = norm (toks.flatMap tokText) := by
  have hy := parseRow_yield toks t h
  unfold norm
  rw [visibleOut_toNode, ← expand_vis, hy, atomsText_map]

theorem ite_ne_nil {p : Prop} [Decidable p] {a b : Str} (ha : a ≠ []) (hb : b ≠ []) : (if p then a else b) ≠ [] := by
  split <;> assumption

/-- what `expand` erases: only white space and the four invisible operators; every other character leaves a trace -/
theorem expandChar_ne_nil (c : Nat) (h0 : (isWs c || (0x2061 ≤ c && c ≤ 0x2064)) = false) : expandChar c ≠ [] := by
  unfold expandChar
  rw [if_neg (by rw [h0]; exact Bool.false_ne_true)]
  repeat (first | exact List.cons_ne_nil _ _ | apply ite_ne_nil)

theorem expandChar_nil_iff (c : Nat) : expandChar c = [] ↔ (isWs c || (0x2061 ≤ c && c ≤ 0x2064)) = true := by
  constructor
  · intro h
    cases h0 : (isWs c || (0x2061 ≤ c && c ≤ 0x2064))
    · exact absurd h (expandChar_ne_nil c h0)
    · rfl
  · intro h
    unfold expandChar
    rw [if_pos h]

/-- `collapse` only shortens: its result is a sublist of its input (it never invents a character) -/
theorem collapse_sublist (t : Str) : (collapse t).Sublist t := by
  fun_induction collapse t with
  | case1 r ih => exact List.Sublist.trans ih (List.Sublist.cons _ (List.Sublist.refl _))
  | case2 c r _ ih => exact List.Sublist.cons_cons _ ih
  | case3 => exact List.Sublist.refl _

/-- ... and it keeps every character that is not a hyphen -/
theorem collapse_filter (t : Str) : (collapse t).filter (· ≠ 45) = t.filter (· ≠ 45) := by
  fun_induction collapse t with
  | case1 r ih => rw [ih]; simp
  | case2 c r _ ih => simp only [List.filter_cons]; rw [ih]
  | case3 => rfl

example : conserves
    (.elem (s "math") [] [.elem (s "mfenced") [] [.elem (s "mi") [] [.text (s "x")], .elem (s "mn") [] [.text (s "1")]]])
    (.elem (s "math") [] [.elem (s "mrow") [] [.elem (s "mo") [] [.text (s "(")], .elem (s "mi") [] [.text (s "x")],
        .elem (s "mo") [] [.text (s ",")], .elem (s "mn") [] [.text (s "1")], .elem (s "mo") [] [.text (s ")")]]]) = true := by decide +kernel
example : conserves
    (.elem (s "math") [] [.elem (s "msubsup") [] [.elem (s "mi") [] [.text (s "x")], .elem (s "mrow") [] [], .elem (s "mn") [] [.text (s "2")]]])
    (.elem (s "math") [] []) = false := by decide +kernel

end MC.Props.C01
