import MC.Gen.Preproc
/-!
Model of the string rewriting that `set_mathml` (src/interface.rs) performs before the XML parser sees the input:
five regex passes. Text is a list of code points. The regex semantics used by the `regex` crate (leftmost match,
non-overlapping, greedy/lazy as written) is transcribed as hand-written scanners; the character class of the entity
regex, the two MathJax literals and the order/kind of the passes come from `MC.Gen.Preproc`.
-/
namespace MC.Preproc

abbrev Str := List Nat

def inRanges (rs : List (Nat × Nat)) (c : Nat) : Bool := rs.any fun (lo, hi) => lo ≤ c && c ≤ hi
def isAlpha (c : Nat) : Bool := (65 ≤ c && c ≤ 90) || (97 ≤ c && c ≤ 122)     -- [[:alpha:]] (ASCII)

/-- a matcher looks at the text from the current position and returns
`(number of further characters to skip after the first one, replacement text)` -/
abbrev Matcher := Str → Option (Nat × Str)

/-- leftmost, non-overlapping `replace_all` (`once = false`) / `replace` (`once = true`).
`skip` = characters of the current match still to be dropped; `done` = a replacement already happened. -/
def scan (m : Matcher) (once : Bool) : (skip : Nat) → (done : Bool) → Str → Str
  | _, _, [] => []
  | k+1, d, _ :: cs => scan m once k d cs
  | 0, d, c :: cs =>
    if once && d then c :: scan m once 0 d cs
    else match m (c :: cs) with
      | some (n, out) => out ++ scan m once n true cs
      | none => c :: scan m once 0 d cs

/-- longest prefix of characters satisfying `p` -/
def span (p : Nat → Bool) : Str → Str × Str
  | [] => ([], [])
  | c :: cs => if p c then let (a, b) := span p cs; (c :: a, b) else ([], c :: cs)

def dropSpaces : Str → Nat × Str
  | 32 :: cs => let (n, r) := dropSpaces cs; (n + 1, r)
  | s => (0, s)

def stripPrefix? : (pre : Str) → Str → Option Str
  | [], s => some s
  | _ :: _, [] => none
  | p :: ps, c :: cs => if p = c then stripPrefix? ps cs else none

/-! ### pass 0: `&([a-zA-Z]+?);` with the entity table -/

/-- match `&name;` : returns the name and the rest after `;` -/
def entName (cls : List (Nat × Nat)) : Str → Option (Str × Str)
  | 38 :: cs =>
    match span (inRanges cls) cs with
    | ([], _) => none
    | (name, 59 :: rest) => some (name, rest)
    | _ => none
  | _ => none

/-- the entity pass also remembers the last unknown entity (Rust: `error_message` is overwritten on each miss) -/
def entScan (cls : List (Nat × Nat)) (tbl : Str → Option Str) : (skip : Nat) → Str → Str × Option Str
  | _, [] => ([], none)
  | k+1, _ :: cs => entScan cls tbl k cs
  | 0, c :: cs =>
    match entName cls (c :: cs) with
    | some (name, _) =>
      let (out, unk) := entScan cls tbl (name.length + 1) cs
      match tbl name with
      | some v => (v ++ out, unk)
      | none => (c :: name ++ 59 :: out, match unk with | some u => some u | none => some name)
    | none => let (out, unk) := entScan cls tbl 0 cs; (c :: out, unk)

/-! ### passes 1, 2: `class *= *['"]LIT.*?['"]` -> "" -/

def isQuote (c : Nat) : Bool := c = 39 || c = 34

/-- `.*?['"]` : number of characters up to and including the first quote, failing on newline / end of text -/
def lazyToQuote : Str → Option Nat
  | [] => none
  | c :: cs => if isQuote c then some 1 else if c = 10 then none else (lazyToQuote cs).map (· + 1)

def classWord : Str := [99, 108, 97, 115, 115]   -- "class"

def mjxMatch (lit : Str) : Matcher := fun s =>
  match stripPrefix? classWord s with
  | none => none
  | some s1 =>
    let (n1, s2) := dropSpaces s1
    match s2 with
    | 61 :: s3 =>
      let (n2, s4) := dropSpaces s3
      match s4 with
      | q :: s5 =>
        if isQuote q then
          match stripPrefix? lit s5 with
          | none => none
          | some s6 =>
            match lazyToQuote s6 with
            | none => none
            | some n3 => some (classWord.length + n1 + 1 + n2 + 1 + lit.length + n3 - 1, [])
        else none
      | [] => none
    | _ => none

/-! ### namespace prefixes: `[[:alpha:]_][[:alnum:]_.-]*` (an ASCII XML name without a colon) -/

def isNameStart (c : Nat) : Bool := isAlpha c || c = 95
def isNameChar (c : Nat) : Bool := isAlpha c || (48 ≤ c && c ≤ 57) || c = 95 || c = 46 || c = 45

/-- the longest name at the start of the text, and what follows it (greedy; no shorter match can be followed by `:`,
which is not a name character, so the regex engine's backtracking changes nothing) -/
def nameSpan : Str → Option (Str × Str)
  | c :: cs => if isNameStart c then (let (a, b) := span isNameChar cs; some (c :: a, b)) else none
  | [] => none

/-! ### pass 3: `xmlns:NAME` -> "xmlns" (first match only) -/

def xmlnsColon : Str := [120, 109, 108, 110, 115, 58]   -- "xmlns:"
def xmlnsWord : Str := [120, 109, 108, 110, 115]

def nsMatch : Matcher := fun s =>
  match stripPrefix? xmlnsColon s with
  | none => none
  | some s1 =>
    match nameSpan s1 with
    | none => none
    | some (p, _) => some (xmlnsColon.length + p.length - 1, xmlnsWord)

/-! ### pass 4: `(</?)NAME:` -> "$1" -/

def prefixMatch : Matcher := fun s =>
  match s with
  | 60 :: 47 :: cs =>
    (match nameSpan cs with
     | some (p, 58 :: _) => some (1 + p.length + 1, [60, 47])
     | _ => none)
  | 60 :: cs =>
    (match nameSpan cs with
     | some (p, 58 :: _) => some (p.length + 1, [60])
     | _ => none)
  | _ => none

/-! ### the pipeline, in the order given by the source -/

structure Config where
  entClass : List (Nat × Nat)
  mjxV2 : Str
  mjxV3 : Str
  passes : List (Nat × Nat)
  entity : Str → Option Str

def assocLookup (tbl : List (Str × Str × Str)) (name : Str) : Option Str := (tbl.lookup name).map (·.1)

def config : Config :=
  { entClass := MC.Gen.Preproc.entClass, mjxV2 := MC.Gen.Preproc.mjxV2, mjxV3 := MC.Gen.Preproc.mjxV3,
    passes := MC.Gen.Preproc.passes, entity := assocLookup MC.Gen.Preproc.entities }

/-- one pass; `Except` = the "No entity named '&x;'" error of set_mathml -/
def runPass (C : Config) (p : Nat × Nat) (s : Str) : Except Str Str :=
  let once := p.2 == 0
  match p.1 with
  | 0 =>
    let (out, unk) := entScan C.entClass C.entity 0 s
    match unk with
    | some u => .error u
    | none => .ok out
  | 1 => .ok (scan (mjxMatch C.mjxV2) once 0 false s)
  | 2 => .ok (scan (mjxMatch C.mjxV3) once 0 false s)
  | 3 => .ok (scan nsMatch once 0 false s)
  | 4 => .ok (scan prefixMatch once 0 false s)
  | _ => .ok s

def preprocess (C : Config) (s : Str) : Except Str Str :=
  C.passes.foldlM (fun acc p => runPass C p acc) s

end MC.Preproc
