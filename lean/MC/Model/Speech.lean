/-!
The Rust half of speech generation for TTS=None (src/speech.rs `replace_array_string`, `is_repetitive`, `speak_rules`;
src/tts.rs `compute_auto_pause`, `get_string_none`, `merge_pauses_none`): how the strings produced by the replacements of
one rule are joined, optional words dropped, automatic pauses resolved, and how the final string is cleaned up.
Strings are lists of code points; byte lengths (which the Rust code uses) are computed from them.
-/
namespace MC.Speech

abbrev Str := List Nat

/-- CONCAT_INDICATOR, OPTIONAL_INDICATOR and the character PAUSE_AUTO_STR is made of (twice) -/
def FE : Nat := 0xF8FE
def FD : Nat := 0xF8FD
def FA : Nat := 0xF8FA

def utf8Len (c : Nat) : Nat := if c < 0x80 then 1 else if c < 0x800 then 2 else if c < 0x10000 then 3 else 4
def byteLen : Str → Nat
  | [] => 0
  | c :: r => utf8Len c + byteLen r

/-- Rust `char::is_whitespace` (Unicode White_Space) -/
def isWs (c : Nat) : Bool :=
  (9 ≤ c && c ≤ 13) || c = 32 || c = 0x85 || c = 0xA0 || c = 0x1680 || (0x2000 ≤ c && c ≤ 0x200A) ||
  c = 0x2028 || c = 0x2029 || c = 0x202F || c = 0x205F || c = 0x3000

def trimStart (s : Str) : Str := s.dropWhile isWs
def trimEnd (s : Str) : Str := (s.reverse.dropWhile isWs).reverse
def trim (s : Str) : Str := trimEnd (trimStart s)

def stripPrefix? : Str → Str → Option Str
  | [], r => some r
  | _ :: _, [] => none
  | p :: ps, c :: cs => if p = c then stripPrefix? ps cs else none

/-- `str::replace(pat, rep)` for a non-empty pattern: leftmost, non-overlapping (fuel = length suffices) -/
def replaceAll (pat rep : Str) : Nat → Str → Str
  | 0, s => s
  | _ + 1, [] => []
  | f + 1, c :: r =>
    match stripPrefix? pat (c :: r) with
    | some rest => rep ++ replaceAll pat rep f rest
    | none => c :: replaceAll pat rep f r

def replaceS (pat rep s : Str) : Str := replaceAll pat rep s.length s

def containsSub (pat : Str) : Str → Bool
  | [] => pat.isEmpty
  | c :: r => (stripPrefix? pat (c :: r)).isSome || containsSub pat r

/-- split at the first occurrence of a character -/
def splitAt1 (c : Nat) : Str → Option (Str × Str)
  | [] => none
  | x :: r => if x = c then some ([], r) else (splitAt1 c r).map fun p => (x :: p.1, p.2)

/-- `is_repetitive(prev, optional)`: `some rest` when the optional word repeats the end of `prev`.
NOTE (faithful to the code): the text in FRONT of the optional word is not part of `rest`. -/
def isRepetitive (prev optional : Str) : Option Str :=
  if byteLen optional ≤ 6 then none
  else match splitAt1 FD optional with
    | none => none
    | some (_, startSlice) =>
      match splitAt1 FD startSlice with
      | none => none                    -- the Rust code panics here ("missing end optional char"); see `wouldPanic`
      | some (word, after) =>
        let p := trimEnd prev
        if byteLen p > byteLen word && word.isSuffixOf p then some (trimStart after) else none

/-- the `panic!` branch of `is_repetitive` -/
def wouldPanic (optional : Str) : Bool :=
  if byteLen optional ≤ 6 then false
  else match splitAt1 FD optional with
    | none => false
    | some (_, startSlice) => (splitAt1 FD startSlice).isNone

/-- `for i in 1..len-1`: every string but the first and the LAST is compared with its (already processed) predecessor -/
def dedupeGo (prev : Str) : List Str → List Str
  | [] => []
  | [last] => [last]
  | x :: y :: r => let x' := (isRepetitive prev x).getD x; x' :: dedupeGo x' (y :: r)

def dedupe : List Str → List Str
  | [] => []
  | x :: r => x :: dedupeGo x r

/-- `get_string_none` for a pause of `amount` ms under PauseFactor `pf` percent -/
def pauseStr (pf amount : Nat) : Str :=
  FE :: (if amount * pf ≤ 50 * 100 then [] else if amount * pf ≤ 250 * 100 then [44] else [59])

/-- `compute_auto_pause` (TTS::None) -/
def autoPause (pf : Nat) (before after : Str) : Str :=
  if byteLen after < 3 then []
  else pauseStr pf (Nat.min 3000 (((2 * byteLen before + byteLen after) / 48) * 128))

def resolveGo (pf : Nat) (before : Str) : List Str → List Str
  | [] => []
  | x :: r =>
    let after := r.head?.getD []
    let x' := if containsSub [FA, FA] x then replaceS [FA, FA] (autoPause pf before after) x else x
    x' :: resolveGo pf x' r

def resolveAuto (pf : Nat) (xs : List Str) : List Str := resolveGo pf [] xs

def joinSp : List Str → Str
  | [] => []
  | [x] => x
  | x :: r => x ++ 32 :: joinSp r

/-- the tail of `replace_array_string`: from the non-empty replacement strings to the returned string -/
def joinArray (pf : Nat) (xs : List Str) : Str := joinSp (resolveAuto pf (dedupe xs))

/-- maximal runs of `,`/`;` of length at least two (`[,;][,;]+`) -/
def isPauseCh (c : Nat) : Bool := c = 44 || c = 59

def pauseRuns : Nat → Str → List Str
  | 0, _ => []
  | _ + 1, [] => []
  | f + 1, c :: r =>
    if isPauseCh c then
      let run := (c :: r).takeWhile isPauseCh
      let rest := (c :: r).dropWhile isPauseCh
      (if run.length ≥ 2 then [run] else []) ++ pauseRuns f rest
    else pauseRuns f r

def mergePausesNone (s : Str) : Str := (pauseRuns s.length s).foldl (fun acc m => replaceS m [59] acc) s

/-- the clean-up at the end of `speak_rules` -/
def finalize (s : Str) : Str :=
  mergePausesNone (trim ((replaceS [FE] [] (replaceS [32, FE] [] s)).filter (· ≠ FD)))


/-- the automatic-pause placeholder as `get_string_none` writes it -/
def autoStr : Str := [FE, FA, FA]

def isDigit (c : Nat) : Bool := 48 ≤ c && c ≤ 57

/-- `FrontClean q x` (decidable): in front of the first optional word of `x`, and inside it, there is no `q`-content -/
def frontCleanB (q : Nat → Bool) (x : Str) : Bool :=
  match splitAt1 FD x with
  | none => true
  | some (before, rest) =>
    match splitAt1 FD rest with
    | none => true
    | some (word, _) => (before.filter q).isEmpty && (word.filter q).isEmpty

/-- decidable form of `AutoOK`: no placeholder character, or exactly the placeholder -/
def autoOkB (x : Str) : Bool := !x.contains FA || x == autoStr

end MC.Speech
