import MC.Model.Xml
import MC.Model.Rows
/-!
Structural skeleton of `clean_mathml` (src/canonicalize.rs:754-1197) — the bottom-up repair pass that runs before the
rows are re-bracketed.  What is transcribed:

* the empty-leaf / empty-element rules at the top (placeholders under parents with a fixed number of children, removal
  elsewhere, `none` under `mmultiscripts`, a missing-content child for other empty containers);
* the token arms as far as they look at the token alone: `mn` with a leading sign is split into `mo` + `mn`; `--`, `---`,
  `----`, `...`, `::` are rewritten; white-space `mtext` / `mo` / `mspace` become one no-break space in an `mtext`; an
  `mi` / `mtext` whose text is in the operator dictionary becomes an `mo`; `…`, `⋯`, `∞` and currency signs in an `mo`
  become an `mi`;
* `mstyle` / `mpadded` (lifted or turned into an `mrow`), `mphantom` / `malignmark` / `maligngroup` (removed);
* the children loop (removal of children that clean to nothing), the single-child `mrow` lift before and after the loop,
  `merge_whitespace`, the empty-script elimination for `msub` / `msup` / `msubsup`, `clean_msubsup`,
  `assure_nary_tag_has_one_child`.

What is NOT transcribed (the correspondence run keeps its inputs away from them, `Guard` below): `mfenced`, `semantics`,
`mmultiscripts`; every arm that looks at *siblings* — `merge_arc_trig`, `split_points`, `merge_mi_sequence`,
`merge_vertical_bars`, `is_ratio`, roman numerals, `_` in an `mi`, `merge_dots`, `merge_primes`, `merge_chars`,
`handle_pseudo_scripts`, `merge_number_blocks`, `handle_convert_to_mmultiscripts`, `merge_adjacent_similar_mstyles`,
`attach_scripts_to_split_element`; function names / geometry shapes from `definitions.yaml` in an `mo`; prime merging;
the chemistry heuristics (the correspondence runs with `Chemistry=Off`).  Attributes are carried but only `intent` is
looked at; the comparison with the implementation is on element names and token text.
-/
namespace MC.Clean
open MC.Xml

def fixedArity : List Str := [s "mfrac", s "mroot", s "msub", s "msup", s "msubsup", s "munder", s "mover", s "munderover"]
def oneChildEls : List Str := [s "math", s "msqrt", s "merror", s "mpadded", s "mphantom", s "menclose", s "mtd", s "mscarry"]
def emptyEls : List Str := [s "mspace", s "none", s "mprescripts", s "mglyph", s "malignmark", s "maligngroup", s "msline"]

def hasIntent (attrs : List (Str × Str)) : Bool := attrs.any fun a => a.1 = s "intent"

/-- Rust's `char::is_whitespace` = regex `\s` (Unicode White_Space) -/
def isRustWs (c : Nat) : Bool := (9 ≤ c && c ≤ 13) || c = 32 || c = 0x85 || c = 0xA0 || c = 0x1680 || (0x2000 ≤ c && c ≤ 0x200A) ||
  c = 0x2028 || c = 0x2029 || c = 0x202F || c = 0x205F || c = 0x3000

def allWs (t : Str) : Bool := t.all isRustWs

/-- the text of a leaf after `trim_element`: its text children -/
def textOf : List Node → Str
  | [] => []
  | .text t :: r => t ++ textOf r
  | .elem _ _ _ :: r => textOf r

def nbsp : Str := [0xA0]

/-- `make_empty_element`: the element itself becomes an `mtext` holding a no-break space -/
def makeEmpty (attrs : List (Str × Str)) : Node :=
  .elem (s "mtext") (attrs ++ [(s "data-changed", s "empty_content"), (s "data-width", s "0")]) [.text nbsp]

/-- `create_empty_element` -/
def createEmpty : Node := .elem (s "mtext") [(s "data-added", s "missing-content"), (s "data-width", s "0")] [.text nbsp]

/-- `is_empty_element` -/
def isEmptyElement : Node → Bool
  | .elem n attrs kids => (isLeafName n && allWs (textOf kids)) || (n = s "mrow" && kids.isEmpty && !hasIntent attrs)
  | .text _ => false

/-- `canonicalize_dash` -/
def dash (t : Str) : Option Str :=
  if t = [45, 45] then some [0x2014] else if t = [45, 45, 45] || t = [45, 45, 45, 45] then some [0x2015] else none

def isOperator (t : Str) : Bool := (MC.Rows.lookupVariants t).isSome

def currency : List Nat := [0x24, 0xA2, 0x20AC, 0xA3, 0x20A1, 0x20A4, 0x20A8, 0x20A9, 0x20AA, 0x20B1, 0x20B9, 0x20BA, 0x20BF]

def leaf (n : Str) (attrs : List (Str × Str)) (t : Str) : Node := .elem n attrs [.text t]

/-- the token arms of `clean_mathml` that look at the token alone -/
def cleanLeaf (prc : Bool) (n : Str) (attrs : List (Str × Str)) (t : Str) : Option Node :=
  if !emptyEls.contains n && t.isEmpty then (if prc then some (makeEmpty attrs) else none)
  else if n = s "mn" then
    match t with
    | c :: r => if (c = 45 || c = 0x2212) && !r.isEmpty
                then some (.elem (s "mrow") (attrs ++ [(s "data-changed", s "added")]) [leaf (s "mo") [] [45], leaf (s "mn") [] r])
                else some (leaf n attrs t)
    | [] => some (leaf n attrs t)
  else if n = s "mi" then
    match dash t with
    | some d => some (leaf n attrs d)
    | none => if isOperator t then some (leaf (s "mo") attrs t)
              else if t = [46, 46, 46] then some (leaf n attrs [0x2026]) else some (leaf n attrs t)
  else if n = s "mtext" then
    if allWs t then some (leaf n attrs nbsp)
    else match dash t with
      | some d => some (leaf n attrs d)
      | none => if isOperator t then some (leaf (s "mo") attrs t) else some (leaf n attrs t)
  else if n = s "mo" then
    if allWs t then some (leaf (s "mtext") attrs nbsp)
    else if t = [46, 46, 46] then some (leaf n attrs [0x2026])
    else if t = [58, 58] then some (leaf n attrs [0x2237])
    else if t = [0x2026] || t = [0x22EF] || t = [0x221E] then some (leaf (s "mi") attrs t)
    else match t with
      | [c] => if currency.contains c then some (leaf (s "mi") attrs t) else some (leaf n attrs t)
      | _ => some (leaf n attrs t)
  else if n = s "mspace" then some (leaf (s "mtext") attrs nbsp)
  else some (.elem n attrs (if t.isEmpty then [] else [.text t]))

def isWsMtext : Node → Bool
  | .elem n _ [.text t] => n = s "mtext" && t = nbsp
  | _ => false

/-- the loop of `merge_whitespace`: `acc` = the children in front of `prev`, in order -/
def mergeWsLoop (acc : List Node) (prev : Node) (prevWs : Bool) : List Node → List Node
  | [] => if (acc.length + 1 > 1) && prevWs then acc else acc ++ [prev]
  | c :: rest =>
    if isWsMtext c && prevWs then mergeWsLoop acc prev prevWs rest
    else if prevWs then mergeWsLoop acc c false rest
    else mergeWsLoop (acc ++ [prev]) c (isWsMtext c) rest

def mergeWs : List Node → List Node
  | [] => []
  | k :: ks => mergeWsLoop [] k (isWsMtext k) ks

def globalAttrs : List Str := [s "class", s "dir", s "displaystyle", s "id", s "mathbackground", s "mathcolor", s "mathsize", s "mathvariant", s "nonce",
  s "scriptlevel", s "style", s "tabindex", s "intent", s "arg"]

/-- `add_attrs` keeps these attributes of the element that takes the child in: `data-*`, the global ones, `on*` -/
def keepsAttr (k : Str) : Bool :=
  (k.take 5 = s "data-") || globalAttrs.contains k || (k.take 2 = s "on")

/-- `add_attrs(parent, child.attributes())`: the parent's non-global attributes go, then every attribute of the child is set
(a name both have takes the child's value) -/
def addAttrs (attrs a : List (Str × Str)) : List (Str × Str) :=
  a ++ (attrs.filter fun x => keepsAttr x.1 && !(a.any fun y => y.1 = x.1))

/-- the lift of a single (already cleaned) child into its `mrow` / `mstyle` / `mpadded`: the child's name and content, the
attributes merged by `add_attrs` -/
def lift (attrs : List (Str × Str)) : Node → Node
  | .elem n a kids => .elem n (addAttrs attrs a) kids
  | .text t => .text t

def isBlankMtext : Node → Bool
  | .elem n _ kids => n = s "mtext" && allWs (textOf kids)
  | .text _ => false

/-- `clean_msubsup` (on cleaned children) -/
def cleanMsubsup (attrs : List (Str × Str)) (cs : List Node) : Node :=
  match cs with
  | [b, sub, sup] =>
    if !isBlankMtext sub && !isBlankMtext sup then .elem (s "msubsup") attrs cs
    else if !isBlankMtext sub then .elem (s "msub") attrs [b, sub]
    else if !isBlankMtext sup then .elem (s "msup") attrs [b, sup]
    else b
  | _ => .elem (s "msubsup") attrs cs

/-- what an `mrow` (or an `mstyle` / `mpadded` with several children, renamed) becomes once its children are cleaned -/
def rowFinish (prc : Bool) (pn : Str) (attrs : List (Str × Str)) (cs : List Node) : Option Node :=
  if cs.isEmpty && !hasIntent attrs then
    (if pn = s "mmultiscripts" then some (.elem (s "none") attrs []) else if prc then some (makeEmpty attrs) else none)
  else match cs with
    | [k] => if !hasIntent attrs then some (lift attrs k) else some (.elem (s "mrow") attrs (mergeWs cs))
    | _ => some (.elem (s "mrow") attrs (mergeWs cs))

/-- `assure_nary_tag_has_one_child` on a list of cleaned children -/
def assureOne (cs : List Node) : List Node :=
  match cs with
  | [] => [createEmpty]
  | [k] => [k]
  | _ => [.elem (s "mrow") [(s "data-changed", s "added")] cs]

/-- the tail of the `_` arm for the other containers -/
def otherFinish (prc : Bool) (n : Str) (attrs : List (Str × Str)) (cs : List Node) : Option Node :=
  if oneChildEls.contains n then some (.elem n attrs (assureOne (mergeWs cs)))
  else if n = s "msub" || n = s "msup" || n = s "msubsup" then
    if cs.isEmpty then (if prc then some createEmpty else none)
    else if cs.all isEmptyElement then (match cs with | k :: _ => if prc then some k else none | [] => none)
    else if n = s "msubsup" then some (cleanMsubsup attrs cs)
    else some (.elem n attrs cs)
  else some (.elem n attrs cs)

mutual
/-- `clean_mathml(node)`; `prc` = the parent has a fixed number of children, `pn` = the parent's name -/
def clean (prc : Bool) (pn : Str) : Node → Option Node
  | .text t => some (.text t)
  | .elem n attrs kids =>
    if isLeafName n then cleanLeaf prc n attrs (textOf kids)
    else if kids.isEmpty && !emptyEls.contains n && n = s "mrow" && !hasIntent attrs then
      (if pn = s "mmultiscripts" then some (.elem (s "none") attrs []) else if prc then some (makeEmpty attrs) else none)
    else if n = s "mphantom" || n = s "malignmark" || n = s "maligngroup" then (if prc then some (makeEmpty attrs) else none)
    else if n = s "mstyle" || n = s "mpadded" then
      -- (an empty one got a missing-content child first, which is then lifted)
      if kids.isEmpty then some (lift attrs createEmpty)
      else if kids.length = 1 then
        (match cleanL false n kids with          -- `clean_mathml(children[0])`, the child's parent being this element
         | new :: _ => some (lift attrs new)
         | [] => if prc then some (makeEmpty attrs) else none)
      else rowFinish prc pn (attrs ++ [(s "data-changed", s "added")]) (cleanL false (s "mrow") kids)
    else if n = s "mrow" then
      if kids.isEmpty then some (.elem n attrs [createEmpty])      -- an empty mrow with an intent keeps a missing-content child
      else if kids.length = 1 && !hasIntent attrs then
        (match cleanL false n kids with
         | new :: _ => some (lift attrs new)
         | [] => if prc then some (makeEmpty attrs) else none)
      else rowFinish prc pn attrs (cleanL false n kids)
    else if kids.isEmpty then (if emptyEls.contains n then some (.elem n attrs []) else otherFinish prc n attrs [createEmpty])
    else otherFinish prc n attrs (cleanL (fixedArity.contains n) n kids)
/-- the children loop: a child that cleans to nothing is removed -/
def cleanL (prc : Bool) (pn : Str) : List Node → List Node
  | [] => []
  | k :: ks => (match clean prc pn k with | some r => [r] | none => []) ++ cleanL prc pn ks
end

/-! ### `trim_element` (src/interface.rs:612-705), which runs before `canonicalize` -/

def isCssWs (c : Nat) : Bool := c = 32 || c = 9 || c = 10 || c = 13

/-- `WHITESPACE_MATCH.replace_all(text, " ")`: every run of blanks, tabs and line breaks becomes one blank -/
def collapseWs (prevWs : Bool) : Str → Str
  | [] => []
  | c :: r => if isCssWs c then (if prevWs then collapseWs true r else 32 :: collapseWs true r) else c :: collapseWs false r

/-- `.trim_matches(WHITESPACE)` -/
def trimMatches (t : Str) : Str := ((t.dropWhile isCssWs).reverse.dropWhile isCssWs).reverse

mutual
/-- `make_leaf_element` / `gather_text`: all the text below a token, an `mglyph` standing for its `alt` -/
def gather : Node → Str
  | .text t => t
  | .elem n attrs kids => if n = s "mglyph" then ((attrs.find? fun a => a.1 = s "alt").map (·.2)).getD [] else gatherL kids
def gatherL : List Node → Str
  | [] => []
  | k :: ks => gather k ++ gatherL ks
end

mutual
def trim : Node → Node
  | .text t => .text t
  | .elem n attrs kids =>
    if isLeafName n then (if kids.isEmpty then .elem n attrs [] else .elem n attrs [.text (trimMatches (collapseWs false (gatherL kids)))])
    else .elem n attrs (trimL kids)
/-- text directly inside a container is dropped (and logged) -/
def trimL : List Node → List Node
  | [] => []
  | k :: ks => (match k with | .text _ => [] | .elem _ _ _ => [trim k]) ++ trimL ks
end

/-- the whole first phase of `canonicalize`: `clean_mathml(math).unwrap()` + `assure_nary_tag_has_one_child` (the latter is
already part of the one-child tail, applied again it changes nothing) -/
def cleanMath (t : Node) : Option Node := clean false (s "math") (trim t)

/-! ### the fragment on which the model claims to reproduce the implementation -/

def nameOf : Node → Str
  | .elem n _ _ => n
  | .text _ => []

/-- the clean-up of a script element hands back one of its own children (all parts blank, or an `msubsup` without scripts) -/
def scriptCollapses (n : Str) (cs : List Node) : Bool :=
  (n = s "msub" || n = s "msup" || n = s "msubsup") &&
  (cs.all isEmptyElement || (n = s "msubsup" && match cs with | [_, sub, sup] => isBlankMtext sub && isBlankMtext sup | _ => false))

mutual
/-- When `clean_mathml(child)` returns an element other than `child` (and not an `mi` / `mtext`), the parent's loop *starts over*
and cleans the already cleaned children a second time (`start_of_change != child`, canonicalize.rs:1105-1108).  The skeleton does
not model the second pass; this flag says that one happens somewhere in the tree, which puts the input outside the fragment. -/
def restarts : Node → Bool
  | .text _ => false
  | .elem n _ kids =>
    if isLeafName n then false
    else (scriptCollapses n (cleanL true n kids) &&
          (match cleanL true n kids with | k :: _ => nameOf k ≠ s "mi" && nameOf k ≠ s "mtext" | [] => false)) || restartsL kids
def restartsL : List Node → Bool
  | [] => false
  | k :: ks => restarts k || restartsL ks
end


def modelledEls : List Str := [s "math", s "mrow", s "mstyle", s "mpadded", s "mphantom", s "mfrac", s "msqrt", s "mroot", s "msub", s "msup",
  s "msubsup", s "munder", s "mover", s "munderover", s "menclose", s "merror", s "mtable", s "mtr", s "mtd", s "mi", s "mn", s "mo", s "mtext", s "mspace"]

mutual
def vocabOk : Node → Bool
  | .text _ => true
  | .elem n _ kids => modelledEls.contains n && vocabOkL kids
def vocabOkL : List Node → Bool
  | [] => true
  | k :: ks => vocabOk k && vocabOkL ks
end

end MC.Clean
