import MC.Gen.Variant
/-!
Model of `canonicalize_plane1` / `shift_text` / `shift_char` (src/canonicalize.rs, "mathvariant" handling).
Characters are `Nat` code points; the tables come from `MC.Gen.Variant` (regenerated from the Rust source).
-/
namespace MC.Variant

/-- Tables the model is generic over (instantiated with the generated ones in `tables`). -/
structure Tables where
  variants : List (List Nat × Nat × Nat × Nat)
  shiftAmounts : List (Nat × Nat × Nat)
  exceptions : List (Nat × Nat)
  digammaStart : Nat
  digamma : List (Nat × Nat)

def tables : Tables :=
  { variants := MC.Gen.Variant.variants, shiftAmounts := MC.Gen.Variant.shiftAmounts,
    exceptions := MC.Gen.Variant.exceptions, digammaStart := MC.Gen.Variant.digammaStart,
    digamma := MC.Gen.Variant.digamma }

/-- result of indexing `char_mapping[offsets.table]` : `none` = Rust index-out-of-bounds panic -/
def startOf (starts : Nat × Nat × Nat) : Nat → Option Nat
  | 0 => some starts.1
  | 1 => some starts.2.1
  | 2 => some starts.2.2
  | _ => none

/-- `shift_char`: the EXCEPTIONS lookup -/
def legacy (T : Tables) (n : Nat) : Nat :=
  match T.exceptions.lookup n with
  | none => n
  | some e => e

/-- one character of `shift_text`; `none` = panic -/
def shiftChar (T : Tables) (starts : Nat × Nat × Nat) (c : Nat) : Option Nat :=
  match T.shiftAmounts.lookup c with
  | none =>
      if starts.2.2 = T.digammaStart then
        (match T.digamma.lookup c with
         | some d => some d
         | none => some c)
      else some c
  | some (off, tbl) =>
      match startOf starts tbl with
      | none => none
      | some start => if start = 0 then some c else some (legacy T (start + off))

def shiftText (T : Tables) (starts : Nat × Nat × Nat) : List Nat → Option (List Nat)
  | [] => some []
  | c :: cs =>
    match shiftChar T starts c, shiftText T starts cs with
    | some d, some ds => some (d :: ds)
    | _, _ => none

/-- `canonicalize_plane1`: `variant = none` (no attribute) and unknown variants leave the text alone. -/
def plane1 (T : Tables) (variant : Option (List Nat)) (text : List Nat) : Option (List Nat) :=
  match variant with
  | none => some text
  | some v =>
    match T.variants.lookup v with
    | none => some text
    | some starts => shiftText T starts text

end MC.Variant
