import MC.Gen.OpDict
/-!
Model of the row parser of src/canonicalize.rs: `find_operator` with `compute_type_from_position`, `is_nary`,
`reduce_stack`, `reduce_stack_one_time`, `shift_stack` and the main loop of `canonicalize_mrows_in_mrow`
(implied multiplication, prefix / left-fence frames, right fences, postfix operators), for rows of plain tokens.

Guard of the model (what it does not describe): function-name guessing, mixed fractions, implied commas in scripts,
chemistry, the ABC separator, trig arguments, vertical bars, `form` attributes, embellished operators, NBSP tokens.
Rust `assert!`s and `unwrap`s on the modelled path are explicit `panic` outcomes. Frame children are stored REVERSED.
-/
namespace MC.Rows

abbrev Str := List Nat

/-- an operator as the parser sees it. `ident` plays the role of the `&'static OperatorInfo` pointer (`ptr_eq`):
dictionary operators are identified by (text, variant index), the shared defaults by their kind. -/
structure Op where
  ident : Str × Nat
  ty : Nat          -- bit set: 1 prefix, 2 infix, 4 postfix, 8 fence
  prio : Nat
deriving DecidableEq, Repr

def Op.isPrefix (o : Op) : Bool := o.ty &&& 1 ≠ 0
def Op.isInfix (o : Op) : Bool := o.ty &&& 2 ≠ 0
def Op.isPostfix (o : Op) : Bool := o.ty &&& 4 ≠ 0
def Op.isLeftFence (o : Op) : Bool := o.ty &&& 9 = 9
def Op.isRightFence (o : Op) : Bool := o.ty &&& 12 = 12

def fencepost : Op := ⟨([0xE000], 0), MC.Gen.OpDict.leftFencepost.1, MC.Gen.OpDict.leftFencepost.2⟩
def defaultOp (ty : Nat) : Op :=
  if ty = 1 then ⟨([], 1), MC.Gen.OpDict.defaultOperatorInfoPrefix.1, MC.Gen.OpDict.defaultOperatorInfoPrefix.2⟩
  else if ty = 4 then ⟨([], 4), MC.Gen.OpDict.defaultOperatorInfoPostfix.1, MC.Gen.OpDict.defaultOperatorInfoPostfix.2⟩
  else ⟨([], 2), MC.Gen.OpDict.defaultOperatorInfoInfix.1, MC.Gen.OpDict.defaultOperatorInfoInfix.2⟩

def lookupVariants (text : Str) : Option (List (Nat × Nat)) := MC.Gen.OpDict.entries.lookup text

def mkOp (text : Str) (vs : List (Nat × Nat)) (i : Nat) : Op :=
  match vs[i]? with
  | some (t, p) => ⟨(text, i), t, p⟩
  | none => defaultOp 2

/-- `find_operator_info` (not from a form attribute): first variant of the requested type, else the first variant -/
def findInfo (text : Str) (vs : List (Nat × Nat)) (ty : Nat) : Op :=
  match (List.range (min vs.length 3)).find? (fun i => match vs[i]? with | some (t, _) => t &&& ty ≠ 0 | none => false) with
  | some i => mkOp text vs i
  | none => mkOp text vs 0

/-- `find_operator` with the type computed from the position -/
def findOperator (text : Str) (operandOnLeft operandOnRight : Bool) : Op :=
  let ty := if operandOnLeft && operandOnRight then 2 else if !operandOnLeft && operandOnRight then 1
            else if operandOnLeft && !operandOnRight then 4 else 2
  match lookupVariants text with
  | none => defaultOp ty
  | some vs => findInfo text vs ty

def impliedTimes : Op := match lookupVariants [0x2062] with | some vs => mkOp [0x2062] vs 0 | none => defaultOp 2
def plusOp : Op := match lookupVariants [43] with | some vs => mkOp [43] vs 0 | none => defaultOp 2
def minusOp : Op := match lookupVariants [45] with | some vs => mkOp [45] vs 0 | none => defaultOp 2
def timesSign : Op := match lookupVariants [0xD7] with | some vs => mkOp [0xD7] vs 0 | none => defaultOp 2

def isPlusMinus (o : Op) : Bool := o.ident = plusOp.ident || o.ident = minusOp.ident
def isTimes (o : Op) : Bool := o.ident = impliedTimes.ident || o.ident = timesSign.ident
/-- `current.is_nary(previous)` -/
def isNary (cur prev : Op) : Bool := prev.ident = cur.ident || (isPlusMinus prev && isPlusMinus cur) || (isTimes prev && isTimes cur)

/-- parsed tree: leaves keep their text; `added` marks an inserted invisible operator -/
inductive T where
  | operand (text : Str)
  | op (text : Str) (added : Bool)
  | row (kids : List T)
deriving Repr, Inhabited

structure Frame where
  rkids : List T          -- reversed: head = last child
  op : Op
  isOperand : Bool
deriving Repr

def Frame.new : Frame := ⟨[], fencepost, false⟩

inductive Outcome (α : Type) where
  | ok (a : α)
  | panic (site : String)
deriving Repr

def Outcome.bind {α β : Type} (x : Outcome α) (f : α → Outcome β) : Outcome β :=
  match x with
  | .ok a => f a
  | .panic p => .panic p

/-- `add_child_to_mrow` with an operand (`ILLEGAL_OPERATOR_INFO`): two operands in a row trip the assert -/
def Frame.addOperand (f : Frame) (t : T) : Outcome Frame :=
  if f.isOperand then .panic "canonicalize.rs:add_child_to_mrow:assert(!is_operand)"
  else .ok { f with rkids := t :: f.rkids, isOperand := true }

/-- `add_child_to_mrow` with an operator -/
def Frame.addOp (f : Frame) (t : T) (o : Op) : Frame := { rkids := t :: f.rkids, op := o, isOperand := false }

/-- the finished row; a single child is lifted (`is_ok_to_merge_mrow_child` holds for synthesized rows) -/
def Frame.close (f : Frame) : T :=
  match f.rkids with
  | [t] => t
  | ks => .row ks.reverse

/-- `reduce_stack_one_time` -/
def reduceOne : List Frame → Outcome (List Frame)
  | top :: below :: rest => (below.addOperand top.close).bind fun b => .ok (b :: rest)
  | _ => .panic "canonicalize.rs:reduce_stack_one_time:pop.unwrap"

/-- `reduce_stack` -/
def reduce (cur : Nat) : (fuel : Nat) → List Frame → Outcome (List Frame)
  | 0, s => .ok s
  | fuel+1, s =>
    match s with
    | top :: _ :: _ => if cur < top.op.prio then (reduceOne s).bind (reduce cur fuel) else .ok s
    | _ => .ok s

def firstKid (f : Frame) : Option T := f.rkids.getLast?

/-- does the row start with an `mo` that is a left fence when looked up as `find_operator(None, Some(self), Some(mrow))`? -/
def startsWithLeftFence (f : Frame) : Bool :=
  match firstKid f with
  | some (.op text _) => (findOperator text true true).isLeftFence
  | _ => false

/-- `shift_stack`: returns the stack and the (child, operator-or-operand) to add to the new top -/
def shift (s : List Frame) (child : T) (o : Op) : Outcome (List Frame × T × Option Op) :=
  match s with
  | [] => .panic "canonicalize.rs:shift_stack:top"
  | top :: rest =>
    if isNary o top.op then .ok (s, child, some o)
    else if top.rkids.isEmpty || (!top.isOperand && !o.isRightFence) then
      .ok (Frame.new :: top :: rest, child, some o)
    else if o.isRightFence then
      let closed : Frame := top.addOp child o
      let row := T.row closed.rkids.reverse
      if closed.rkids.length = 2 && !startsWithLeftFence closed then .ok (Frame.new :: rest, row, none)
      else .ok (rest, row, none)
    else
      match top.rkids with
      | [] => .panic "canonicalize.rs:remove_last_operand_from_mrow:assert(!children.is_empty())"
      | last :: init =>
        if !(top.isOperand || init.isEmpty) then .panic "canonicalize.rs:remove_last_operand_from_mrow:assert(is_operand||len==1)"
        else
          let top' : Frame := { top with rkids := init, isOperand := false }
          if o.isPostfix then .ok (top' :: rest, .row [last, child], none)
          else .ok (⟨[last], o, false⟩ :: top' :: rest, child, some o)

/-- the end of every loop iteration: add the child to the top frame -/
def addToTop (s : List Frame) (child : T) (o : Option Op) : Outcome (List Frame) :=
  match s with
  | [] => .panic "canonicalize.rs:canonicalize_mrows_in_mrow:pop.unwrap"
  | top :: rest =>
    match o with
    | some op => .ok (top.addOp child op :: rest)
    | none => (top.addOperand child).bind fun t => .ok (t :: rest)

/-- insert an implied multiplication: reduce, shift, add -/
def insertImplied (s : List Frame) : Outcome (List Frame) :=
  (reduce impliedTimes.prio s.length s).bind fun s1 =>
  (shift s1 (.op [0x2062] true) impliedTimes).bind fun r =>
  match r.2.2 with
  | some o => addToTop r.1 r.2.1 (some o)
  | none => .panic "canonicalize.rs:canonicalize_mrows_in_mrow:assert(ptr_eq(current_op.op, shift_result.1.op))"

inductive Tok where
  | operand (text : Str)
  | mo (text : Str)
deriving Repr

def lastIsOperandNode (s : List Frame) : Bool :=
  match s with
  | top :: _ => (match top.rkids with | (.op _ _) :: _ => false | _ :: _ => true | [] => false)
  | [] => false

def topIsOperand (s : List Frame) : Bool := match s with | top :: _ => top.isOperand | [] => false
def topOp (s : List Frame) : Op := match s with | top :: _ => top.op | [] => fencepost

/-- one child of the row; `nextIsOperand` = the following sibling exists and is not an `mo` -/
def step (s : List Frame) (tok : Tok) (nextIsOperand : Bool) : Outcome (List Frame) :=
  match tok with
  | .operand text =>
    (if lastIsOperandNode s then insertImplied s else .ok s).bind fun s1 => addToTop s1 (.operand text) none
  | .mo text =>
    let operandOnLeft := topIsOperand s || (topOp s).isPostfix
    let o := findOperator text operandOnLeft nextIsOperand
    if o.isLeftFence || o.isPrefix then
      (if topIsOperand s then insertImplied s else .ok s).bind fun s1 =>
      addToTop (Frame.new :: s1) (.op text false) (some o)
    else
      (reduce o.prio s.length s).bind fun s1 =>
      (shift s1 (.op text false) o).bind fun r => addToTop r.1 r.2.1 r.2.2

def isOperandTok : Tok → Bool
  | .operand _ => true
  | .mo _ => false

def run : List Frame → List Tok → Outcome (List Frame)
  | s, [] => .ok s
  | s, t :: ts => (step s t (match ts with | n :: _ => isOperandTok n | [] => false)).bind fun s' => run s' ts

/-- the end of `canonicalize_mrows_in_mrow` (a row of at least two children is never lifted away).
Rows that a misjudged fence left below the top one are kept: their children go in front (the `while let Some(below)` loop). -/
def finish (s : List Frame) : Outcome T :=
  (reduce fencepost.prio s.length s).bind fun s1 =>
  match s1 with
  | f :: rest => .ok (Frame.close { f with rkids := f.rkids ++ rest.flatMap (·.rkids) })
  | [] => .panic "canonicalize.rs:canonicalize_mrows_in_mrow:pop.unwrap"

def parseRow (toks : List Tok) : Outcome T := (run [Frame.new] toks).bind finish

end MC.Rows
