/-!
API-level state of a session (src/interface.rs): the stored expression, whether the navigation state is the freshly
reset one, and the preferences. What each public call does to that state, success or error:

* `set_mathml` resets the navigation state FIRST (`reset_for_new_mathml`), then parses and cleans up, and replaces the
  stored expression only after all of that succeeded (`old_package.replace(new_package)`);
* `set_preference` stores a value only when it accepts it;
* navigation calls may move the position (also when they report an error); getters are read-only.
-/
namespace MC.Session

structure St where
  expr : Option Nat                    -- the stored canonical expression; `none` before the first successful set_mathml
  navFresh : Bool                      -- navigation state is as `reset_for_new_mathml` leaves it
  prefs : List (String × String)       -- accepted preference values, most recent first, one per name
deriving Repr, DecidableEq

def init : St := ⟨none, true, []⟩

inductive Op where
  | setMathml (e : Nat) (accepted : Bool)
  | setPref (k v : String) (accepted : Bool)
  | nav                                  -- any navigation call (command, key press, set_navigation_node, braille position)
  | getter                               -- speech, overview, braille, ids, navigation MathML: read-only
deriving Repr, DecidableEq

def step (s : St) : Op → St
  | .setMathml e true => { s with expr := some e, navFresh := true }
  | .setMathml _ false => { s with navFresh := true }
  | .setPref k v true => { s with prefs := (k, v) :: s.prefs.filter (fun p => p.1 ≠ k) }
  | .setPref _ _ false => s
  | .nav => { s with navFresh := false }
  | .getter => s

def run (s : St) : List Op → St
  | [] => s
  | o :: r => run (step s o) r

/-- the calls that leave a trace for later answers: accepted preference settings -/
def keeps : Op → Bool
  | .setPref _ _ true => true
  | _ => false

end MC.Session
