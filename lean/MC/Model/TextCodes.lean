/-!
Models of `LaTeX_cleanup` and `ASCIIMath_cleanup` (src/braille.rs): the whole clean-up of the two text "braille" codes.
Strings are lists of code points. `\w` of the regex crate is Unicode-aware; the non-ASCII word characters that occur are
passed in (`extra`).
-/
namespace MC.TextCodes

abbrev Str := List Nat

def W : Nat := 0x1D416      -- '𝐖' (white space marker written by the rules)
def w : Nat := 0x1D430      -- '𝐰' (protected white space)

def mapW (s : Str) : Str := s.map fun c => if c = W then 32 else c
def mapw (s : Str) : Str := s.map fun c => if c = w then 32 else c

/-- `COLLAPSE_SPACES` (` +` → one space) -/
def collapseSp : Str → Str
  | 32 :: 32 :: r => collapseSp (32 :: r)
  | c :: r => c :: collapseSp r
  | [] => []

/-- the characters `^ _ , ; ) ] }` -/
def closers : List Nat := [94, 95, 44, 59, 41, 93, 125]

/-- `REMOVE_SPACE` of LaTeX_cleanup: ` ([\^_,;)\]}])` → `$1` -/
def removeSpBefore : Str → Str
  | 32 :: c :: r => if closers.contains c then c :: removeSpBefore r else 32 :: removeSpBefore (c :: r)
  | c :: r => c :: removeSpBefore r
  | [] => []

def trimSp (s : Str) : Str := ((s.dropWhile (· = 32)).reverse.dropWhile (· = 32)).reverse

def latexCleanup (s : Str) : Str := trimSp (removeSpBefore (collapseSp (mapW s)))

def asciiWord (c : Nat) : Bool := (48 ≤ c && c ≤ 57) || (65 ≤ c && c ≤ 90) || (97 ≤ c && c ≤ 122) || c = 95
def isWord (extra : List Nat) (c : Nat) : Bool := asciiWord c || extra.contains c

def stripPrefix? : Str → Str → Option Str
  | [], r => some r
  | _ :: _, [] => none
  | p :: ps, c :: cs => if p = c then stripPrefix? ps cs else none

/-- `"|𝐖__|"` → `"|𝐰__|"` -/
def protectPat : Str := [124, W, 95, 95, 124]
def protectRep : Str := [124, w, 95, 95, 124]
def protect : Nat → Str → Str
  | 0, s => s
  | _ + 1, [] => []
  | f + 1, c :: r =>
    match stripPrefix? protectPat (c :: r) with
    | some rest => protectRep ++ protect f rest
    | none => c :: protect f r

/-- `REMOVE_SPACE_BEFORE_OP`: `([\w\d]) +([^\w\d"]|[\^_,;)\]}])` → `$1$2` -/
def spBeforeOp (extra : List Nat) : Nat → Str → Str
  | 0, s => s
  | _ + 1, [] => []
  | f + 1, c :: r =>
    if isWord extra c then
      let sp := r.takeWhile (· = 32)
      match r.dropWhile (· = 32) with
      | d :: r' =>
        if sp.length ≥ 1 && ((!isWord extra d && d ≠ 34) || closers.contains d) then c :: d :: spBeforeOp extra f r'
        else c :: spBeforeOp extra f r
      | [] => c :: spBeforeOp extra f r
    else c :: spBeforeOp extra f r

/-- `REMOVE_SPACE_AFTER_OP`: `([^\^_,;)\]}\w\d"]) +([\w\d])` → `$1$2` -/
def spAfterOp (extra : List Nat) : Nat → Str → Str
  | 0, s => s
  | _ + 1, [] => []
  | f + 1, c :: r =>
    if !closers.contains c && !isWord extra c && c ≠ 34 then
      let sp := r.takeWhile (· = 32)
      match r.dropWhile (· = 32) with
      | d :: r' =>
        if sp.length ≥ 1 && isWord extra d then c :: d :: spAfterOp extra f r'
        else c :: spAfterOp extra f r
      | [] => c :: spAfterOp extra f r
    else c :: spAfterOp extra f r

def asciimathCleanup (extra : List Nat) (s : Str) : Str :=
  let s1 := collapseSp (mapW (protect s.length s))
  let s2 := spBeforeOp extra s1.length s1
  let s3 := spAfterOp extra s2.length s2
  trimSp (collapseSp (mapw s3))

end MC.TextCodes
