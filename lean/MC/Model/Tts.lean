import MC.Gen.Tts
/-!
Model of the speech-engine markup of src/tts.rs: tag templates (regenerated into `MC.Gen.Tts`), a tag parser for them,
and a token-level model of `replace_string` (start tag ++ nested replacements ++ end tag).
-/
namespace MC.Tts

abbrev Str := List Nat

inductive Tok where
  | op (n : Str)        -- `<n …>`
  | cl (n : Str)        -- `</n>`
  | empty (n : Str)     -- `<n …/>`
  | text (w : Str)
deriving DecidableEq, Repr

def isNameCh (c : Nat) : Bool := (65 ≤ c && c ≤ 90) || (97 ≤ c && c ≤ 122) || c = 45

def span (p : Nat → Bool) : Str → Str × Str
  | [] => ([], [])
  | c :: cs => if p c then let (a, b) := span p cs; (c :: a, b) else ([], c :: cs)

inductive AState where
  | afterName | between | name | eq | val (q : Nat) | slash

/-- attribute list up to the end of the tag: `(selfClosing, rest after '>')`; `none` = not well-formed
(attributes must be `name='v'` or `name="v"`, separated by spaces, values free of `<` and of their own quote) -/
def attrs : AState → Str → Option (Bool × Str)
  | .afterName, 62 :: r => some (false, r)
  | .afterName, 47 :: r => attrs .slash r
  | .afterName, 32 :: r => attrs .between r
  | .between, 62 :: r => some (false, r)
  | .between, 47 :: r => attrs .slash r
  | .between, 32 :: r => attrs .between r
  | .between, c :: r => if isNameCh c then attrs .name r else none
  | .name, 61 :: r => attrs .eq r
  | .name, c :: r => if isNameCh c then attrs .name r else none
  | .eq, c :: r => if c = 39 || c = 34 then attrs (.val c) r else none
  | .val q, c :: r => if c = q then attrs .afterName r else if c = 60 then none else attrs (.val q) r
  | .slash, 62 :: r => some (true, r)
  | _, _ => none

/-- one tag at the head of the text -/
def parseTag : Str → Option (Tok × Str)
  | 60 :: 47 :: r =>
    (match span isNameCh r with
     | ([], _) => none
     | (n, 62 :: rest) => some (.cl n, rest)
     | _ => none)
  | 60 :: r =>
    (match span isNameCh r with
     | ([], _) => none
     | (n, rest) =>
       match attrs .afterName rest with
       | some (true, rest') => some (.empty n, rest')
       | some (false, rest') => some (.op n, rest')
       | none => none)
  | _ => none

/-- engines: 0 none, 1 SSML, 2 SAPI5 -/
def template (eng cmd : Nat) : Option (Str × Str) :=
  (MC.Gen.Tts.templates.find? fun r => r.1 = eng && r.2.1 = cmd).map fun r => (r.2.2.1, r.2.2.2)

/-- the tag a command contributes: `none` = the engine writes no tag for it -/
def cmdTag (eng cmd : Nat) : Option Tok :=
  match template eng cmd with
  | some (start, _) => (parseTag start).map (·.1)
  | none => none

/-- speech as produced by the rule engine: words, TTS commands around nested speech, concatenation.
`arg` is the text a command itself contributes (spelled characters, pronounced text). -/
inductive Sp where
  | nil
  | words (w : Str)
  | cmd (c : Nat) (arg : Option Str) (body : Sp)
  | cat (a b : Sp)

def argToks : Option Str → List Tok
  | some w => [.text w]
  | none => []

/-- token stream of `replace_string` (start tag, argument text, nested replacements, end tag) -/
def toks (eng : Nat) : Sp → List Tok
  | .nil => []
  | .words w => [.text w]
  | .cat a b => toks eng a ++ toks eng b
  | .cmd c arg body =>
    match cmdTag eng c with
    | some (.op n) => .op n :: (argToks arg ++ toks eng body ++ [.cl n])
    | some (.empty n) => .empty n :: (argToks arg ++ toks eng body)
    | _ => argToks arg ++ toks eng body

/-- well-nestedness of a token stream (stack of open element names) -/
def bal : List Str → List Tok → Bool
  | st, [] => st.isEmpty
  | st, .text _ :: r => bal st r
  | st, .empty _ :: r => bal st r
  | st, .op n :: r => bal (n :: st) r
  | n' :: st, .cl n :: r => n' = n && bal st r
  | [], .cl _ :: _ => false

def textOf : List Tok → List Str
  | [] => []
  | .text w :: r => w :: textOf r
  | _ :: r => textOf r

end MC.Tts
