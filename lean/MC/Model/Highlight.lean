import MC.Gen.Highlight
/-!
Model of `highlight_braille_chars` (src/braille.rs), in *character* indexes: the Rust code works in byte indexes and divides
by 3, which is the same thing exactly when every character is a braille cell (3 UTF-8 bytes) — hypothesis `allCells`.
`none` = a Rust panic (slice out of range / usize underflow).
Codes: 0 = Nemeth, 1 = UEB, 2 = any other code.
-/
namespace MC.Highlight

abbrev Str := List Nat

def isHl (c : Nat) : Bool := MC.Gen.Highlight.hlLo ≤ c && c < MC.Gen.Highlight.hlHi
def hl (c : Nat) : Nat := c ||| 0xC0
def unhl (c : Nat) : Nat :=
  if MC.Gen.Highlight.unhlLo ≤ c && c < MC.Gen.Highlight.unhlHi then c &&& 0x283F else c

def isCell (c : Nat) : Bool := 0x2800 ≤ c && c ≤ 0x28FF
def allCells (s : Str) : Bool := s.all isCell

def findFirst (p : Nat → Bool) : Str → Option Nat
  | [] => none
  | c :: cs => if p c then some 0 else (findFirst p cs).map (· + 1)

def findLast (p : Nat → Bool) : Str → Option Nat
  | [] => none
  | c :: cs =>
    match findLast p cs with
    | some i => some (i + 1)
    | none => if p c then some 0 else none

/-- `i_start_nemeth` on the reversed prefix (nearest character first) -/
def iStartNemeth (rev : Str) (firstCh : Nat) : Nat :=
  let first : Nat × Str :=
    match rev with
    | c :: r =>
      if c = 0x2820 || (c = 0x283C && MC.Gen.Highlight.nemethNumbers.contains firstCh) || c = 0x2838 || c = 0x2808 || c = 0x2828
      then (1, r) else (0, rev)
    | [] => (0, [])
  match first.2 with
  | c :: _ =>
    if c = 0x2830 || c = 0x2838 || c = 0x2828 then first.1 + 1
    else if c = 0x2808 then first.1 + 2       -- `prefix.next()` returns the peeked ⠈ itself, so the test always succeeds
    else if c = 0x2820 then first.1 + 2
    else first.1
  | [] => first.1

/-- `i_start_ueb` with `check_for_typeform` inlined -/
def iStartUeb : Str → Nat
  | [] => 0
  | c :: r =>
    if MC.Gen.Highlight.uebPrefixes.contains c then 1 + iStartUeb r
    else if c = 0x2806 then
      match r with
      | t1 :: r1 =>
        if MC.Gen.Highlight.uebTypeformPrefixes.contains t1 then 2 + iStartUeb r1
        else if t1 = 0x283C then
          match r1 with
          | t2 :: r2 => if MC.Gen.Highlight.uebTypeformPrefixes.contains t2 || t2 = 0x2810 then 3 + iStartUeb r2 else 0
          | [] => 0
        else 0
      | [] => 0
    else 0

def startsWith : Str → Str → Bool
  | _, [] => true
  | [], _ :: _ => false
  | c :: cs, p :: ps => c = p && startsWith cs ps

/-- where the examined prefix begins -/
def prefixIndex (code : Nat) (s : Str) (start : Nat) : Nat :=
  let p0 := start - 5
  if p0 = 0 && code = 1 then
    (if startsWith s [0x2830, 0x2830, 0x2830] then 3 else if startsWith s [0x2830, 0x2830] then 2 else 0)
  else p0

/-- number of indicator cells in front of `start` that belong to the highlighted character -/
def indicatorCount (code : Nat) (s : Str) (start : Nat) : Nat :=
  let pi := prefixIndex code s start
  let indicators := (s.drop pi).take (start - pi)
  -- (after the fix) never more than the cells examined
  Nat.min (if code = 0 then iStartNemeth indicators.reverse (unhl (s.getD start 0)) else iStartUeb indicators.reverse) indicators.length

/-- `highlight_first_indicator` -/
def firstIndicator (code : Nat) (s : Str) (start end_ : Nat) : Option (Str × Nat) :=
  if prefixIndex code s start > start then none else          -- &braille[prefix..start] panics
  let n := indicatorCount code s start
  if n > start then none else                                   -- start_index - 3*n underflows
  let iStart := start - n
  if iStart < start then
    let s1 := if start < end_ then s.set start (unhl (s.getD start 0)) else s
    some (s1.set iStart (hl (s1.getD iStart 0)), iStart)
  else some (s, iStart)

/-- `highlight_braille_chars`: result string and (start, end) character positions -/
def highlightChars (code : Nat) (fill : Bool) (s : Str) : Option (Str × Nat × Nat) :=
  match findFirst isHl s, findLast isHl s with
  | some start, some end_ =>
    (match firstIndicator code s start end_ with
     | none => none
     | some (s', st) =>
       if st = end_ || !fill then some (s', st, end_)
       else some (s'.take st ++ ((s'.drop st).take (end_ - st)).map hl ++ s'.drop end_, st, end_))
  | _, _ => some (s, 0, s.length)

/-- tail of `braille_mathml`: style "Off", or no node with the navigation id met during the match (`found = false`: an empty or unknown
id), bypasses the highlighting code -- a cell that has dots 7-8 by itself (the row separator ⣍) is then not taken for a mark -/
def brailleResult (code : Nat) (style : String) (found : Bool) (s : Str) : Option (Str × Nat × Nat) :=
  if style = "Off" || !found then some (s, 0, s.length) else highlightChars code (style = "All") s

/-- the cell with dots 7 and 8 cleared -/
def erase78 (c : Nat) : Nat := c / 256 * 256 + c % 64

/-! ### `get_navigation_node_from_braille_position`: save / override / restore of BrailleNavHighlight -/
inductive SearchResult where
  | found (id : String) (off : Nat)
  | failed

/-- the wrapper after the fix: returns the preference value left behind and the result -/
def fromPosition (hasMathml : Bool) (savedStyle : String) (search : SearchResult) : String × Option (String × Nat) :=
  if !hasMathml then (savedStyle, none) else
  -- set_preference("BrailleNavHighlight", "EndPoints"); search; set_preference(saved)
  match search with
  | .found id off => (savedStyle, some (id, off))
  | .failed => (savedStyle, none)

end MC.Highlight
