import MC.Gen.BrailleTabs
/-!
Model of the last phase of every cell-based braille clean-up (src/braille.rs): `REPLACE_INDICATORS.replace_all` with the
code's replacement table (a one-character class, so `replace_all` is a `flatMap`), trimming of braille blanks and collapsing
of runs of blanks. Codes: 0 Nemeth, 1 UEB, 2 Vietnam, 3 CMU, 4 Swedish, 5 Finnish.
-/
namespace MC.BrailleFinal

abbrev Str := List Nat

def isCell (c : Nat) : Bool := 0x2800 ≤ c && c ≤ 0x28FF
def inRanges (rs : List (Nat × Nat)) (c : Nat) : Bool := rs.any fun (lo, hi) => lo ≤ c && c ≤ hi

def classOf (code : Nat) : List (Nat × Nat) := MC.Gen.BrailleTabs.classes.getD code []
def tableOf (code : Nat) : List (Str × Str) := MC.Gen.BrailleTabs.tables.getD code []
def overriddenOf (code : Nat) : List Str := MC.Gen.BrailleTabs.overridden.getD code []

/-- the replacement closure: preference-sourced letters first, then the table; a matched character without an entry is
deleted (the code logs an error and substitutes "") -/
def replacement (code : Nat) (pref : Str → Str) (c : Nat) : Str :=
  if (overriddenOf code).contains [c] then pref [c]
  else match (tableOf code).lookup [c] with
    | some v => v
    | none => []

/-- `REPLACE_INDICATORS.replace_all(&result, closure)` -/
def replaceIndicators (code : Nat) (pref : Str → Str) (s : Str) : Str :=
  s.flatMap fun c => if inRanges (classOf code) c then replacement code pref c else [c]

/-- `COLLAPSE_SPACES` (`⠀⠀+` → `⠀`) -/
def collapse : Str → Str
  | 0x2800 :: 0x2800 :: r => collapse (0x2800 :: r)
  | c :: r => c :: collapse r
  | [] => []

def trimStartBlank : Str → Str
  | 0x2800 :: r => trimStartBlank r
  | s => s

def trimBlank (s : Str) : Str := (trimStartBlank (trimStartBlank s).reverse).reverse

/-- final phase (the trimming differs between codes; all variants are sub-sequences of this one's input) -/
def finalPhase (code : Nat) (pref : Str → Str) (s : Str) : Str :=
  collapse (trimBlank (replaceIndicators code pref s))

end MC.BrailleFinal
