/-!
Model of the `intent` attribute processing of src/infer_intent.rs: the tokenizer (`LexState`, the four regexes and the
terminal set), the recursive-descent builder (`build_intent`, `build_function`, `build_arguments`,
`lift_function_name`) and the error-recovery wrapper (`infer_intent`).

Text is a list of code points. The rule engine (`match_pattern`) and the lookup of `arg` attributes in the element
(`find_arg`) are environment parameters.
-/
namespace MC.Intent

abbrev Str := List Nat

/-- Unicode White_Space (what `\s`, `str::trim` and `char::is_whitespace` use) -/
def isWs (c : Nat) : Bool :=
  (9 ≤ c && c ≤ 13) || c = 32 || c = 0x85 || c = 0xA0 || c = 0x1680 || (0x2000 ≤ c && c ≤ 0x200A) ||
  c = 0x2028 || c = 0x2029 || c = 0x202F || c = 0x205F || c = 0x3000

/-- `[^\s\u{0}-\u{40}\[\\\]^`\u{7B}-\u{BF}]` -/
def isNameStart (c : Nat) : Bool :=
  !(isWs c || c ≤ 0x40 || c = 91 || c = 92 || c = 93 || c = 94 || c = 96 || (0x7B ≤ c && c ≤ 0xBF))

/-- `[^\s\u{0}-\u{2C}/:;<=>?@\[\\\]^`\u{7B}-\u{BF}]` -/
def isNameRest (c : Nat) : Bool :=
  !(isWs c || c ≤ 0x2C || c = 47 || c = 58 || c = 59 || c = 60 || c = 61 || c = 62 || c = 63 || c = 64 ||
    c = 91 || c = 92 || c = 93 || c = 94 || c = 96 || (0x7B ≤ c && c ≤ 0xBF))

def isDigit (c : Nat) : Bool := 48 ≤ c && c ≤ 57
def isTerminal (c : Nat) : Bool := c = 40 || c = 44 || c = 41

def span (p : Nat → Bool) : Str → Str × Str
  | [] => ([], [])
  | c :: cs => if p c then let (a, b) := span p cs; (c :: a, b) else ([], c :: cs)

def trimStart (s : Str) : Str := (span isWs s).2
def trim (s : Str) : Str := (trimStart (trimStart s).reverse).reverse

inductive Tok where
  | term (c : Nat)
  | prop (s : Str)        -- includes the leading ':'
  | argref (s : Str)      -- includes the leading '$'
  | lit (s : Str)
  | num (s : Str)
  | none
deriving DecidableEq, Repr

/-- NCName-like name at the head of `s` -/
def ncName : Str → Option (Str × Str)
  | c :: cs => if isNameStart c then let (a, b) := span isNameRest cs; some (c :: a, b) else Option.none
  | [] => Option.none

/-- `[0-9]+(\.[0-9]+)?` -/
def numberBody (r : Str) : Option (Str × Str) :=
  match span isDigit r with
  | ([], _) => Option.none
  | (ds, 46 :: r2) =>
    (match span isDigit r2 with
     | ([], _) => some (ds, 46 :: r2)
     | (fs, r3) => some (ds ++ 46 :: fs, r3))
  | (ds, r2) => some (ds, r2)

/-- `^-?[0-9]+(\.[0-9]+)?` -/
def number (s : Str) : Option (Str × Str) :=
  match s with
  | 45 :: r => (numberBody r).map fun (n, rest) => (45 :: n, rest)
  | _ => numberBody s

/-- `set_token` + the slicing in `get_next`: token at the head of a non-empty, trimmed string, and the rest (start-trimmed).
`none` = "Illegal 'intent' syntax" -/
def getNext (s : Str) : Option (Tok × Str) :=
  match s with
  | [] => some (.none, [])
  | c :: cs =>
    if isTerminal c then some (.term c, trimStart cs)
    else if c = 58 then
      (match ncName cs with
       | some (n, r) => some (.prop (58 :: n), trimStart r)
       | Option.none => (match number s with | some (n, r) => some (.num n, trimStart r) | Option.none => Option.none))
    else if c = 36 then
      (match ncName cs with
       | some (n, r) => some (.argref (36 :: n), trimStart r)
       | Option.none => Option.none)
    else match ncName s with
      | some (n, r) => some (.lit n, trimStart r)
      | Option.none => (match number s with | some (n, r) => some (.num n, trimStart r) | Option.none => Option.none)

/-- what `find_arg` + the rule engine return for a referenced argument -/
inductive RefVal where
  | leaf (text : Str)       -- a token element: its text becomes the function name when used as a head
  | empty                   -- an element without children
  | other                   -- any other element
deriving DecidableEq, Repr

/-- the intent tree being built -/
inductive ITree where
  | leaf (isNum : Bool) (text : Str) (props : Str)
  | ref (name : Str) (v : RefVal) (props : Str)
  | self (props : Str)                                   -- property-only intent: the element itself, re-matched
  | elem (name : Str) (props : Str) (kids : List ITree)  -- f(...)
  | refHead (name : Str) (props : Str) (kids : List ITree)   -- empty referenced element given children
  | apply (head : ITree) (kids : List ITree)             -- apply-function(head, ...)
deriving Repr

inductive Err where
  | syntax (what : String)
  | argNotFound (name : Str)
  | rules                         -- the rule engine failed on a referenced argument / the element
  | fuel
deriving DecidableEq, Repr

structure Lex where
  tok : Tok
  rest : Str
deriving Repr

def Lex.next (l : Lex) : Except Err Lex :=
  match getNext l.rest with
  | some (t, r) => .ok ⟨t, r⟩
  | Option.none => .error (.syntax "illegal token")

def Lex.init (s : Str) : Except Err Lex := Lex.next ⟨.none, trim s⟩

/-- `get_properties`: concatenation of consecutive property tokens, terminated by ':' -/
def getProps : (fuel : Nat) → Str → Lex → Except Err (Str × Lex)
  | 0, _, _ => .error .fuel
  | f+1, acc, l =>
    match l.next with
    | .error e => .error e
    | .ok l' =>
      match l'.tok with
      | .prop p => getProps f (acc ++ p) l'
      | _ => .ok (acc ++ [58], l')

def onlyDashes (n : Str) : Bool := n.all fun c => c = 95 || c = 45

/-- `lift_function_name` -/
def lift (head : ITree) (kids : List ITree) : ITree :=
  match head with
  | .leaf _ text props =>
    .elem text (if onlyDashes text then (if props.isEmpty then [58] else props) ++ "silent:".toList.map Char.toNat else props) kids
  | .ref _ (.leaf text) props =>
    .elem text (if onlyDashes text then (if props.isEmpty then [58] else props) ++ "silent:".toList.map Char.toNat else props) kids
  | .ref n .empty props => .refHead n props kids
  | h => .apply h kids

structure Env where
  arg : Str → Except Err (Option RefVal)     -- find_arg: error = rule failure, none = not present
  selfOk : Bool                               -- re-matching the element itself (property-only intent) succeeds

mutual
/-- `build_intent` -/
def buildIntent (E : Env) : (fuel : Nat) → Lex → Except Err (ITree × Lex)
  | 0, _ => .error .fuel
  | f+1, l =>
    match l.tok with
    | .prop p =>
      (match getProps (l.rest.length + 2) p l with
       | .error e => .error e
       | .ok (props, l') =>
         if l'.tok = .term 40 then .ok (.elem [] props [], l')          -- create_mathml_element(name(mathml)) + properties
         else if E.selfOk then .ok (.self props, l') else .error .rules)
    | .lit w => headTail E f (fun props => .leaf false w props) l
    | .num w => headTail E f (fun props => .leaf true w props) l
    | .argref w =>
      (match E.arg (w.drop 1) with
       | .error e => .error e
       | .ok Option.none => .error (.argNotFound w)
       | .ok (some v) => headTail E f (fun props => .ref (w.drop 1) v props) l)
    | _ => .error (.syntax "unexpected token")
/-- after the head token: optional properties, then optional application(s) -/
def headTail (E : Env) : (fuel : Nat) → (Str → ITree) → Lex → Except Err (ITree × Lex)
  | 0, _, _ => .error .fuel
  | f+1, mk, l =>
    match l.next with
    | .error e => .error e
    | .ok l1 =>
      let withProps : Except Err (ITree × Lex) :=
        match l1.tok with
        | .prop p => (match getProps (l1.rest.length + 2) p l1 with
                      | .error e => .error e
                      | .ok (props, l2) => .ok (mk props, l2))
        | _ => .ok (mk [], l1)
      match withProps with
      | .error e => .error e
      | .ok (t, l2) => if l2.tok = .term 40 then buildFunction E f t l2 else .ok (t, l2)
/-- `build_function`: `( args ) ( args ) …` -/
def buildFunction (E : Env) : (fuel : Nat) → ITree → Lex → Except Err (ITree × Lex)
  | 0, _, _ => .error .fuel
  | f+1, fn, l =>
    if l.tok ≠ .term 40 then .ok (fn, l) else
    match l.next with
    | .error e => .error e
    | .ok l1 =>
      if l1.tok = .term 41 then .error (.syntax "missing argument") else
      match buildArgs E f l1 with
      | .error e => .error e
      | .ok (kids, l2) =>
        if l2.tok ≠ .term 41 then .error (.syntax "missing )") else
        match l2.next with
        | .error e => .error e
        | .ok l3 => buildFunction E f (lift fn kids) l3
/-- `build_arguments` -/
def buildArgs (E : Env) : (fuel : Nat) → Lex → Except Err (List ITree × Lex)
  | 0, _ => .error .fuel
  | f+1, l =>
    match buildIntent E f l with
    | .error e => .error e
    | .ok (t, l1) =>
      if l1.tok = .term 44 then
        match l1.next with
        | .error e => .error e
        | .ok l2 =>
          match buildArgs E f l2 with
          | .error e => .error e
          | .ok (ts, l3) => .ok (t :: ts, l3)
      else .ok ([t], l1)
end

/-- `catch_errors_building_intent`: the whole attribute value must be consumed -/
def parseIntent (E : Env) (s : Str) : Except Err ITree :=
  match Lex.init s with
  | .error e => .error e
  | .ok l =>
    match buildIntent E (4 * s.length + 8) l with
    | .error e => .error e
    | .ok (t, l') => if l'.tok = .none then .ok t else .error (.syntax "extra unparsed intent")

/-! ### the recovery wrapper `infer_intent` -/

/-- the element as far as the wrapper is concerned: its intent attribute -/
structure Elem where
  intent : Option Str
deriving DecidableEq, Repr

inductive Result where
  | built (t : ITree)              -- intent honoured
  | rematched                      -- spoken as if the attribute were not there
  | failed (e : Err)               -- error returned to the caller
  | panic (site : String)

/-- `infer_intent`: `errorMode` = IntentErrorRecovery is "Error"; `rematchOk` = the rule engine succeeds on the element
with the attribute removed. Returns the result and the element as it is left. -/
def inferIntent (E : Env) (errorMode rematchOk : Bool) (e : Elem) : Result × Elem :=
  match e.intent with
  | Option.none => (.panic "infer_intent.rs: attribute_value(INTENT_ATTR).unwrap()", e)   -- only reachable if called without intent
  | some s =>
    match parseIntent E s with
    | .ok t => (.built t, e)
    | .error err =>
      if errorMode then (.failed err, e)
      else
        let removed : Elem := { e with intent := Option.none }
        -- match_pattern runs on `removed`; then the attribute is put back on both paths
        let restored : Elem := { removed with intent := some s }
        if rematchOk then (.rematched, restored) else (.failed .rules, restored)

end MC.Intent
