import MC.Model.Prefs
/-!
The rule-file selection seen from the preference store: which language's files `set_speech_files` was last given, and in which
language `set_style_file` last looked the style up (`reset_files_from_preference_change`, src/prefs.rs). A layer on top of
`MC.Prefs`: the store decides whether a request is accepted, this layer records what an accepted request does to the selection.
-/
namespace MC.Prefs

structure Files where
  filesLang : String      -- language of the speech-side rule files (definitions, Unicode tables, overview, navigation, and the style file at that time)
  styleLang : String      -- language the current style file was looked up in
deriving Repr, DecidableEq

/-- the value `set_preference` stores: language tags are cut to two parts -/
def storedValue (n v : String) : String := if n = "Language" || n = "LanguageAuto" then (normLanguage v).getD v else v

/-- `reset_files_from_preference_change n v'` in state `s` (called only when the stored text differs from `v'`) -/
def filesStep (s : PState) (n v' : String) (f : Files) : Files :=
  if prefToString s n = some v' then f          -- "don't do an update if the value hasn't changed"
  else if n = "Language" then (if v' = "Auto" then f else ⟨v', v'⟩)
  else if n = "LanguageAuto" then ⟨v', v'⟩
  else if n = "SpeechStyle" then { f with styleLang := effLanguage s ((prefToString s "Language").getD "en") }
  else f

/-- after `set_rules_dir` with the shipped prefs.yaml (`Language: Auto`, no host language yet): English -/
def initFiles : Files := ⟨"en", "en"⟩

/-- every request of a history, accepted or rejected, with the selection carried along -/
def runOpsF (E : Env) : PState × Files → List (String × String) → PState × Files
  | sf, [] => sf
  | (s, f), (n, v) :: rest =>
    match setPreference E s n v with
    | .ok s' => runOpsF E (s', filesStep s n (storedValue n v) f) rest
    | _ => runOpsF E (s, f) rest

end MC.Prefs
