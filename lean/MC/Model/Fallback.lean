/-!
Model of the rule-file resolution of src/prefs.rs: `get_language_dir`, `find_file` (with `find_any_style_file`),
`set_speech_files`, `set_braille_files`, over an abstract listing of the rules directory.
Paths are lists of components below the rules root (`[]` is `Rules/`); a language tag `xx-yy` is the components `[xx, yy]`.
-/
namespace MC.Fallback

abbrev Path := List String

/-- the rules directory as the code sees it through `is_dir_shim` / `is_file_shim` / `read_dir` -/
structure FS where
  dirs : List Path
  files : List Path

def FS.isDir (fs : FS) (p : Path) : Bool := fs.dirs.contains p
def FS.isFile (fs : FS) (p : Path) : Bool := fs.files.contains p

/-- the `_Rules.yaml` files directly in a directory (`find_any_style_file` returns the first one `read_dir` yields) -/
def FS.stylesIn (fs : FS) (p : Path) : List Path :=
  fs.files.filter fun f => f.dropLast = p && (match f.getLast? with | some n => n.endsWith "_Rules.yaml" | none => false)

inductive Res (α : Type) where
  | ok (v : α)
  | err
deriving Repr, DecidableEq

/-- first existing directory among `sub/c₁/…/cₖ` for k = n … 1 (`full_path.ancestors()` until the root of the search) -/
def firstDir (fs : FS) (sub : String) : (k : Nat) → List String → Option Path
  | 0, _ => none
  | k + 1, comps => if fs.isDir (sub :: comps.take (k + 1)) then some (sub :: comps.take (k + 1)) else firstDir fs sub k comps

/-- `get_language_dir(rules_dir/sub, lang, default)` -/
def getLanguageDir (fs : FS) (sub : String) (comps : List String) (dflt : Option (List String)) : Res Path :=
  match firstDir fs sub comps.length comps with
  | some p => .ok p
  | none =>
    match dflt with
    | some d => (match firstDir fs sub d.length d with | some p => .ok p | none => .err)
    | none => .err

/-- the loop of `find_file` over `lang_dir.ancestors()`, from the language directory up to the rules root.
Returns the file found, or else the first alternative style file seen (when looking for a `_Rules.yaml` file). -/
def walkUp (fs : FS) (fileName : String) (style : Bool) : (fuel : Nat) → Path → Option Path → Option Path × Option Path
  | 0, _, alt => (none, alt)
  | f + 1, p, alt =>
    if fs.isFile (p ++ [fileName]) && !(fileName == "definitions.yaml" && p.isEmpty) then (some (p ++ [fileName]), alt)
    else
      let alt' := if style && alt.isNone then (fs.stylesIn p).head? else alt
      if p.isEmpty then (none, alt') else walkUp fs fileName style f p.dropLast alt'

def findFileIn (fs : FS) (dir : Path) (fileName : String) : Option Path :=
  let r := walkUp fs fileName (fileName.endsWith "_Rules.yaml") (dir.length + 1) dir none
  match r.1 with
  | some p => some p
  | none => r.2

/-- `find_file(rules_dir/sub, lang, default, file_name)` -/
def findFile (fs : FS) (sub : String) (comps : List String) (dflt : Option (List String)) (fileName : String) : Res Path :=
  match getLanguageDir fs sub comps dflt with
  | .err => .err
  | .ok dir =>
    match findFileIn fs dir fileName with
    | some p => .ok p
    | none =>
      match dflt with
      | none => .err
      | some d =>
        match getLanguageDir fs sub d none with
        | .err => .err
        | .ok ddir => (match findFileIn fs ddir fileName with | some p => .ok p | none => .err)

/-- the seven speech-side and four braille-side files, in the order hook H6 reports them -/
def speechFiles (fs : FS) (lang : List String) (style : String) : List (String × Res Path) :=
  let f := findFile fs "Languages" lang (some ["en"])
  [("intent", f "intent.yaml"), ("speech", f (style ++ "_Rules.yaml")), ("overview", f "overview.yaml"), ("navigation", f "navigate.yaml"),
   ("speech_unicode", f "unicode.yaml"), ("speech_unicode_full", f "unicode-full.yaml"), ("speech_defs", f "definitions.yaml")]

def brailleFiles (fs : FS) (comps : List String) (code : String) : List (String × Res Path) :=
  let f := findFile fs "Braille" comps (some ["UEB"])      -- the code name goes through the same `-` → `/` reading as a language tag
  [("braille", f (code ++ "_Rules.yaml")), ("braille_unicode", f "unicode.yaml"), ("braille_unicode_full", f "unicode-full.yaml"),
   ("braille_defs", f "definitions.yaml")]

end MC.Fallback
